(* Check/Chk_C15.v -- correspondence checker for C15: the delivery logs (unaborted and aborted at
   index k), exit codes of every run_step call, Plan.aborted flags of every plan level and the
   PlanAborted probe of a real plan run (plans nested to depth 3, observers registered per event type,
   optionally through BasicOptimizer with its abort / results callbacks) vs. Model/Events.v; plus the
   property's predicates evaluated directly on the implementation's logs: prefix + closure, every
   started step finished (innermost first), every event delivered as one block to its recipient list. *)
From Coq Require Import String List Bool Arith ZArith.
From Ropt Require Import Base.ListX Model.Step Model.Events Gen.Generated Check.Chk_C14.
Import ListNotations.
Open Scope nat_scope.

(* a log entry is printed by the harness as one integer: rcpt * 10000 + sid * 10 + event value for a
   delivery, -1 for an evaluator call (unary nat literals are slow to parse) *)
Inductive oentry := OD (rcpt sid : nat) (ev : Z) | OC.
Definition decode (z : Z) : oentry :=
  if (z <? 0)%Z then OC
  else OD (Z.to_nat (z / 10000)) (Z.to_nat ((z / 10) mod 1000)) (z mod 10)%Z.

Record robs := {
  o_zlog : list Z;
  o_exits : list (Z * Z);        (* (step id, exit code value) per run_step call; -2 = PlanAborted raised *)
  o_flags : list bool;           (* Plan.aborted of every plan level at the end, outermost first ([]: not observable) *)
  o_probe : bool;                (* a further run_step raised PlanAborted *)
  o_escaped : bool               (* an exception escaped from a run_step call *)
}.

Definition o_log (o : robs) : list oentry := map decode (o_zlog o).

Record case := {
  c_plans : list (list nat);     (* recording handlers of every plan level, outermost first, in registration order *)
  c_obs : list (nat * list Z);   (* observers in registration order, each with the event types it is registered for *)
  c_steps : list (nat * stepspec);  (* run_step calls on the outermost plan: (step id, what the step does) *)
  c_basic : bool;                (* run through BasicOptimizer: exit code and log only (no Plan object to inspect) *)
  c_k : option nat;
  c_full : robs;                 (* implementation, nobody aborts *)
  c_run : robs                   (* implementation, entry k aborts *)
}.

Definition evt_eqb (a b : evt) : bool := Z.eqb (evt_z a) (evt_z b).
Definition all_evts : list evt := [StartEval; FinEval; StartOpt; FinOpt; StartEvalStep; FinEvalStep].
Definition evt_of_z (z : Z) : option evt := find (fun e => Z.eqb (evt_z e) z) all_evts.

Definition entry_eqb (m : entry) (o : oentry) : bool :=
  match m, o with
  | Deliv r s e, OD r' s' z => (r =? r') && (s =? s') && Z.eqb (evt_z e) z
  | Call, OC => true
  | _, _ => false
  end.
Fixpoint to_entries (l : list oentry) : option (list entry) :=
  match l with
  | [] => Some []
  | OC :: t => option_map (cons Call) (to_entries t)
  | OD r s z :: t =>
      match evt_of_z z, to_entries t with
      | Some e, Some t' => Some (Deliv r s e :: t')
      | _, _ => None
      end
  end.
Fixpoint entries_eqb (a b : list entry) : bool :=
  match a, b with
  | [], [] => true
  | Deliv r s e :: a', Deliv r' s' e' :: b' => (r =? r') && (s =? s') && evt_eqb e e' && entries_eqb a' b'
  | Call :: a', Call :: b' => entries_eqb a' b'
  | _, _ => false
  end.

Definition ret_z (r : ret) : Z := match r with RExit c => code_z c | RPlanAborted => (-2)%Z end.
Definition exits_eqb (m : list (nat * ret)) (o : list (Z * Z)) : bool :=
  forallb2 (fun a b => Z.eqb (Z.of_nat (fst a)) (fst b) && Z.eqb (ret_z (snd a)) (snd b)) m o.

(* OptimizerContext._subscribers[event type]: the observers registered for that type, in registration order *)
Definition world_of (c : case) : world :=
  {| plans := c_plans c;
     obsv := fun e => map fst (filter (fun o => existsb (Z.eqb (evt_z e)) (snd o)) (c_obs c)) |}.

(* Plan.aborted of the plan at nesting level lvl >= 1: one of its run_step calls returned USER_ABORT *)
Definition level_aborted (x : list (nat * ret)) (lvl : nat) : bool :=
  existsb (fun sr => (level_of (fst sr) =? lvl) && match snd sr with RExit UserAbort => true | _ => false end) x.
Definition flags_eqb (ab : bool) (x : list (nat * ret)) (o : list bool) : bool :=
  match o with
  | [] => true
  | top :: below => Bool.eqb ab top && list_eqb Bool.eqb (map (level_aborted x) (seq 1 (length below))) below
  end.

Definition match_run (basic : bool) (w : world) (ps : list prog) (k : option nat) (o : robs) : bool :=
  let '(l, x, ab) := run_steps w ps k [] false in
  forallb2 entry_eqb l (o_log o) && exits_eqb x (o_exits o) &&
  flags_eqb ab x (o_flags o) && (basic || (Bool.eqb ab (o_probe o) && (length (o_flags o) =? length (plans w)))) &&
  negb (o_escaped o).

(* ---- the property evaluated directly on the observed logs ------------------------------------------ *)
Definition prefix_closure_ok (c : case) : bool :=
  match to_entries (o_log (c_full c)), to_entries (o_log (c_run c)) with
  | Some D, Some L => entries_eqb (predict (world_of c) D (c_k c)) L
  | _, _ => false
  end.
(* every step that delivered its START event delivered its FINISHED event, innermost first (also after an abort) *)
Definition all_closed (o : robs) : bool :=
  match to_entries (o_log o) with
  | Some L => match scan L [] with [] => true | _ => false end
  | None => false
  end.
(* the unaborted log is a sequence of evaluator calls and complete blocks: every event to the handlers of the emitting
   plan, then of its ancestors, then to the observers registered for its type, each exactly once *)
Fixpoint strip (rc : list nat) (sid : nat) (e : evt) (l : list entry) : option (list entry) :=
  match rc with
  | [] => Some l
  | r :: rc' =>
      match l with
      | Deliv r' s' e' :: l' => if (r =? r') && (s' =? sid) && evt_eqb e e' then strip rc' sid e l' else None
      | _ => None
      end
  end.
Fixpoint blocks (fuel : nat) (w : world) (l : list entry) : bool :=
  match fuel with
  | O => match l with [] => true | _ => false end
  | S fuel' =>
      match l with
      | [] => true
      | Call :: t => blocks fuel' w t
      | Deliv _ sid e :: _ =>
          match recipients w (level_of sid) e with
          | [] => false
          | rc => match strip rc sid e l with Some rest => blocks fuel' w rest | None => false end
          end
      end
  end.
Definition blocks_ok (c : case) : bool :=
  match to_entries (o_log (c_full c)) with
  | Some D => blocks (length D) (world_of c) D
  | None => false
  end.

Definition nodup_nat (l : list nat) : bool :=
  forallb (fun i => negb (existsb (Nat.eqb (nth i l 0)) (firstn i l))) (seq 0 (length l)).

(* side conditions of the theorems of Props/C15.v, evaluated on every scenario: distinct recipients, every event has a
   recipient on every level, step ids not reused inside a step, no step ends with USER_ABORT of its own accord *)
Definition hypotheses_ok (c : case) (ps : list prog) : bool :=
  nodup_nat (concat (c_plans c) ++ map fst (c_obs c)) &&
  forallb (fun lvl => forallb (fun e => match recipients (world_of c) lvl e with [] => false | _ => true end) all_evts)
          (seq 0 (length (c_plans c))) &&
  forallb wfb ps && forallb quietb ps &&
  forallb (fun s => fst s <? 100) (c_steps c).

Definition check_case (c : case) : bool :=
  match compile_steps (c_steps c) [] with
  | Some ps =>
      hypotheses_ok c ps &&
      match_run (c_basic c) (world_of c) ps None (c_full c) &&
      match_run (c_basic c) (world_of c) ps (c_k c) (c_run c) &&
      prefix_closure_ok c && all_closed (c_full c) && all_closed (c_run c) && blocks_ok c
  | None => false
  end.
