(* Check/Chk_C15.v -- correspondence checker for C15: the delivery logs (unaborted and aborted at
   index k), exit codes of every run_step call, Plan.aborted flags and the PlanAborted probe of a
   real plan run vs. Model/Events.v; plus the prefix-closure predicate evaluated directly on the
   implementation's two logs. *)
From Coq Require Import String List Bool Arith ZArith.
From Ropt Require Import Base.ListX Model.Step Model.Events Gen.Generated Check.Chk_C14.
Import ListNotations.
Open Scope nat_scope.

(* a log entry is printed by the harness as one integer: rcpt * 10000 + sid * 10 + event value for a
   delivery, -1 for an evaluator call (unary nat literals are slow to parse) *)
Inductive oentry := OD (rcpt sid : nat) (ev : Z) | OC.
Definition decode (z : Z) : oentry :=
  if (z <? 0)%Z then OC
  else OD (Z.to_nat (z / 10000)) (Z.to_nat ((z / 10) mod 1000)) (z mod 10)%Z.

Record robs := {
  o_zlog : list Z;
  o_exits : list (Z * Z);        (* (step id, exit code value) per run_step call; -2 = PlanAborted raised *)
  o_outer_ab : bool;             (* Plan.aborted of the outer plan at the end *)
  o_inner_ab : bool;             (* Plan.aborted of the nested plan *)
  o_probe : bool;                (* a further run_step raised PlanAborted *)
  o_escaped : bool               (* an exception escaped from a run_step call *)
}.

Definition o_log (o : robs) : list oentry := map decode (o_zlog o).

Record case := {
  c_outer : list nat;            (* recording handlers of the outer plan *)
  c_inner : list nat;            (* recording handlers of the nested plan *)
  c_obs : list nat;              (* observers (registered for every event type) *)
  c_steps : list stepspec;
  c_k : option nat;
  c_full : robs;                 (* implementation, nobody aborts *)
  c_run : robs                   (* implementation, entry k aborts *)
}.

Definition evt_eqb (a b : evt) : bool := Z.eqb (evt_z a) (evt_z b).
Definition all_evts : list evt := [StartEval; FinEval; StartOpt; FinOpt; StartEvalStep; FinEvalStep].
Definition evt_of_z (z : Z) : option evt := find (fun e => Z.eqb (evt_z e) z) all_evts.

Definition entry_eqb (m : entry) (o : oentry) : bool :=
  match m, o with
  | Deliv r s e, OD r' s' z => (r =? r') && (s =? s') && Z.eqb (evt_z e) z
  | Call, OC => true
  | _, _ => false
  end.
Fixpoint to_entries (l : list oentry) : option (list entry) :=
  match l with
  | [] => Some []
  | OC :: t => option_map (cons Call) (to_entries t)
  | OD r s z :: t =>
      match evt_of_z z, to_entries t with
      | Some e, Some t' => Some (Deliv r s e :: t')
      | _, _ => None
      end
  end.
Fixpoint entries_eqb (a b : list entry) : bool :=
  match a, b with
  | [], [] => true
  | Deliv r s e :: a', Deliv r' s' e' :: b' => (r =? r') && (s =? s') && evt_eqb e e' && entries_eqb a' b'
  | Call :: a', Call :: b' => entries_eqb a' b'
  | _, _ => false
  end.

Definition ret_z (r : ret) : Z := match r with RExit c => code_z c | RPlanAborted => (-2)%Z end.
Definition exits_eqb (m : list (nat * ret)) (o : list (Z * Z)) : bool :=
  forallb2 (fun a b => Z.eqb (Z.of_nat (fst a)) (fst b) && Z.eqb (ret_z (snd a)) (snd b)) m o.

Definition world_of (c : case) : world := {| plans := [c_outer c; c_inner c]; obsv := c_obs c |}.

Definition inner_aborted (x : list (nat * ret)) : bool :=
  existsb (fun sr => (level_of (fst sr) =? 1) && match snd sr with RExit UserAbort => true | _ => false end) x.

Definition match_run (w : world) (ps : list prog) (k : option nat) (o : robs) : bool :=
  let '(l, x, ab) := run_steps w ps k [] false in
  forallb2 entry_eqb l (o_log o) && exits_eqb x (o_exits o) &&
  Bool.eqb ab (o_outer_ab o) && Bool.eqb (inner_aborted x) (o_inner_ab o) &&
  Bool.eqb ab (o_probe o) && negb (o_escaped o).

(* the property evaluated directly on the two observed logs *)
Definition prefix_closure_ok (c : case) : bool :=
  match to_entries (o_log (c_full c)), to_entries (o_log (c_run c)) with
  | Some D, Some L => entries_eqb (predict (world_of c) D (c_k c)) L
  | _, _ => false
  end.

Definition nodup_nat (l : list nat) : bool :=
  forallb (fun i => negb (existsb (Nat.eqb (nth i l 0)) (firstn i l))) (seq 0 (length l)).

Definition check_case (c : case) : bool :=
  nodup_nat (c_outer c ++ c_inner c ++ c_obs c) &&
  match compile_steps 0 (c_steps c) false with
  | Some ps =>
      match_run (world_of c) ps None (c_full c) &&
      match_run (world_of c) ps (c_k c) (c_run c) &&
      prefix_closure_ok c
  | None => false
  end.
