(* Check/Chk_C01.v -- correspondence checker for C01: EnsembleEvaluator.calculate(compute_functions=True)
   on a table-driven evaluator vs. Model/Ensemble.v.

   Inputs of a case: the validated configuration, the table of values returned by the evaluator per
   (vector, realization), the weight vector returned by every realization filter that the code calls
   (observed by calling the real filter plug-in on the same NaN-propagated values).
   Observations: the request layout seen by the evaluator, and per variable vector the reported
   evaluations, failed_realizations, objective_weights / constraint_weights, functions. *)
From Coq Require Import String QArith Qabs List Bool Arith ZArith.
From Ropt Require Import Base.Num Base.ListX Gen.Generated Model.Ensemble.
Import ListNotations.
Open Scope Q_scope.

Record obs_result := {
  o_rows : list (list oQ * list oQ);            (* evaluations.objectives / constraints, per realization *)
  o_failed : list bool;                         (* realizations.failed_realizations *)
  o_ow : option mat;                            (* realizations.objective_weights *)
  o_cw : option mat;                            (* realizations.constraint_weights *)
  o_functions : option (list oQ * list oQ * oQ) (* functions: objectives, constraints, weighted objective *)
}.
Inductive obs_outcome :=
| ObsResults (rs : list obs_result)
| ObsAbort (code : Z)                           (* OptimizationAborted(exit_code) *)
| ObsRaise.                                     (* any other exception *)

Record case := {
  k_S : Q;                                      (* largest input magnitude (>= 1) *)
  k_cfg : config;
  k_raw_w : list Q;                             (* realization weights as written in the configuration *)
  k_raw_ow : list Q;                            (* objective weights as written in the configuration *)
  k_B : nat;                                    (* number of variable vectors *)
  k_table : list (list (list oQ * list oQ));    (* [vector][realization] = (objectives, constraints) *)
  k_fouts : list (list fout);                   (* [vector][filter] *)
  k_requests : list (nat * nat);                (* rows of the evaluator call: (vector, realization) *)
  k_out : obs_outcome;
  k_step : option (bool * Z)                    (* results observed through a plan step (FINISHED_EVALUATION data):
                                                   (true = optimizer step without allow_nan | false = evaluator step,
                                                   exit code of the step); None: EnsembleEvaluator.calculate directly *)
}.

Definition oq_eqb (a b : oQ) : bool := option_eqb Qeqb a b.
Definition row_eqb (a b : list oQ * list oQ) : bool :=
  list_eqb oq_eqb (fst a) (fst b) && list_eqb oq_eqb (snd a) (snd b).
(* weights: exact zeros exactly, the rest with tolerance (scale 1: weights sum to one) *)
Definition wclose (x m : Q) : bool := if Qeqb m 0 then Qeqb x 0 else close 1 x m.
Definition omat_close (x m : option mat) : bool := option_eqb (list_eqb (list_eqb wclose)) x m.

(* the configured weights are the written ones divided by their sum *)
Definition normalized_ok (raw cfg : list Q) : bool :=
  let s := qsum raw in
  negb (Qeqb s 0) && list_eqb (fun x r => wclose x (r / s)) cfg raw.

Definition kinds_of (ests : list ekind) (emap : list nat) : list (option ekind) :=
  map (fun e => nth_error ests e) emap.

(* one reported function value against the model *)
Definition check_val (S : Q) (km : option ekind * fres) (x : oQ) : bool :=
  match snd km, fst km, x with
  | FOk v, Some Mean, Some a => close S a v
  | FOk v, Some Stddev, Some a => Qleb 0 a && close (S * S) (a * a) v
  | FDivZero, _, _ => true
  | FNoEst, _, _ => true
  | _, _, _ => false
  end.

Fixpoint all_some (l : list oQ) : option (list Q) :=
  match l with
  | [] => Some []
  | Some x :: t => option_map (cons x) (all_some t)
  | None :: _ => None
  end.

Definition check_functions (S : Q) (c : config) (m : option fun_out) (o : option (list oQ * list oQ * oQ)) : bool :=
  match m, o with
  | None, None => true
  | Some AllFailed, Some (oo, oc, w) => forallb is_none oo && forallb is_none oc && is_none w
                                        && Nat.eqb (length oo) (cfg_no c) && Nat.eqb (length oc) (cfg_nc c)
  | Some (Values mo mc), Some (oo, oc, w) =>
      forallb2 (check_val S) (combine (kinds_of (cfg_ests c) (resolve_emap (cfg_no c) (cfg_oem c))) mo) oo
      && forallb2 (check_val S) (combine (kinds_of (cfg_ests c) (resolve_emap (cfg_nc c) (cfg_cem c))) mc) oc
      && (existsb is_undefined mo
          || match all_some oo, w with
             | Some xs, Some wv => close S wv (weighted_objective (cfg_ow c) xs)   (* the property clause itself *)
             | _, _ => false
             end)
  | _, _ => false
  end.

Definition check_result (S : Q) (c : config) (m : fresult) (o : obs_result) : bool :=
  list_eqb row_eqb (r_rows m) (o_rows o)
  && list_eqb Bool.eqb (r_failed m) (o_failed o)
  && omat_close (o_ow o) (r_ow m) && omat_close (o_cw o) (r_cw m)
  && check_functions S c (r_functions m) (o_functions o).

Definition pair_eqb (a b : nat * nat) : bool := Nat.eqb (fst a) (fst b) && Nat.eqb (snd a) (snd b).

Definition check_case (k : case) : bool :=
  let c := k_cfg k in
  let R := length (cfg_w c) in
  let tbl := fun b r => nth r (nth b (k_table k) []) ([], []) in
  normalized_ok (k_raw_w k) (cfg_w c) && normalized_ok (k_raw_ow k) (cfg_ow c)
  && list_eqb pair_eqb (k_requests k) (layout_functions (k_B k) R)
  && match calculate_sets c (eval_batch tbl (k_B k) R) (k_fouts k), k_out k with
     | Done rs, ObsResults os => forallb2 (check_result (k_S k) c) rs os
     | Aborted, ObsAbort code => Z.eqb code (exit_code_of "TOO_FEW_REALIZATIONS")
     | Done rs, ObsAbort code =>
         (* only inside the 0/0 region (no surviving realization carries weight) is an abort tolerated *)
         Z.eqb code (exit_code_of "TOO_FEW_REALIZATIONS") && existsb (fun r => functions_undefined (r_functions r)) rs
     | _, _ => false
     end
  (* entry through a plan step: the exit code is the one of the model (Model/Ensemble.v: optimizer_step_exit /
     evaluator_step_exit) on the results of all vectors of the batch; aborted = nothing was delivered *)
  && match k_step k with
     | None => true
     | Some (is_opt, code) =>
         match calculate_sets c (eval_batch tbl (k_B k) R) (k_fouts k) with
         | Missing => false
         | Aborted => Z.eqb code (exit_code_of "TOO_FEW_REALIZATIONS")
         | Done rs =>
             let aborted := match k_out k with ObsResults _ => false | _ => true end in
             Z.eqb code (if is_opt
                         then optimizer_step_exit aborted (cfg_rmin c) false
                                                  (map (fun r => (is_none (r_functions r), r_failed r)) rs)
                         else evaluator_step_exit aborted (map (fun r => is_none (r_functions r)) rs))
         end
     end.

(* constructors used by the harness *)
Definition mkcfg w ow nc rmin pmin ests oem cem ofm cfm : config :=
  {| cfg_w := w; cfg_ow := ow; cfg_nc := nc; cfg_rmin := rmin; cfg_pmin := pmin; cfg_ests := ests;
     cfg_oem := oem; cfg_cem := cem; cfg_ofm := ofm; cfg_cfm := cfm |}.
Definition mkobs rows failed ow cw fns : obs_result :=
  {| o_rows := rows; o_failed := failed; o_ow := ow; o_cw := cw; o_functions := fns |}.
