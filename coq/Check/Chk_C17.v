(* Check/Chk_C17.v -- correspondence checker for C17.
   One case = one EnsembleEvaluator built from a real configuration (R realizations, P perturbations,
   V variables, optional variable mask, optional per-variable sampler assignment, K sampler
   configurations) and a schedule of generate_samples() calls on its samplers.  For every call the
   harness hands over the raw draw of an identically seeded twin SciPy object and the array ropt
   returned; [check_case] runs Model/Sampler.v on the raw draw and compares, and also evaluates the
   property's clauses directly on the returned array.  Gradient evaluations through the public path
   (EnsembleEvaluator.calculate) are checked against the model of _perturb_variables: calling order,
   sum over the samplers, variables + magnitudes * samples. *)
From Coq Require Import QArith ZArith List Bool Arith Qabs Qround Uint63.
From Ropt Require Import Base.Num Base.ListX Model.Sampler.
Import ListNotations.
Open Scope Q_scope.

(* compact literals of a finite float: +-m * 2^-e.  [Fi] takes the mantissa as a primitive-integer
   literal (elaborating a 16-digit [Z] literal costs ~1.2 ms, a uint63 literal ~0.05 ms; a case file
   holds thousands of full-precision draws); it is converted to [Z] at once and nothing else in the
   checker uses primitive integers.  [F] is the general fallback. *)
Definition F (m : Z) (e : nat) : Q := Qmake m (Pos.shiftl_nat 1 e).
Arguments F m%Z e%nat.
Definition Fi (neg : bool) (m e : int) : Q :=
  Qmake (let z := Uint63.to_Z m in if neg then Z.opp z else z) (Z.to_pos (Z.shiftl 1 (Uint63.to_Z e))).
Arguments Fi neg m%uint63 e%uint63.

Record scfg := { s_method : method; s_shared : bool; s_default : bool (* no user options *) }.

Record call := {
  k_idx : nat;                 (* index of the sampler that was called *)
  k_raw : raw;                 (* draw of the twin SciPy object for this call *)
  k_out : option arr3          (* array returned by generate_samples(); None = it raised *)
}.

(* one gradient evaluation through the public path (EnsembleEvaluator.calculate -> _perturb_variables):
   the twin draws for the samplers in the calling order the PROPERTY prescribes (first appearance in
   gradient.samplers; all samplers share one generator, so another order gives other numbers) *)
Record e2e := {
  e_raws : list (nat * raw);   (* (sampler index, draw of its twin), in calling order *)
  e_x : list Q;                (* variables *)
  e_mag : list Q;              (* gradient.perturbation_magnitudes (absolute; no finite bounds) *)
  e_out : option arr3          (* GradientEvaluations.perturbed_variables; None = it raised *)
}.

Record case := {
  c_R : nat; c_P : nat; c_V : nat;
  c_varmask : option (list bool);          (* variables.mask *)
  c_assign : option (list Z);              (* gradient.samplers *)
  c_samplers : list scfg;                  (* EnOptConfig.samplers *)
  c_masks : list (option (list bool));     (* implementation: the mask handed to every created sampler *)
  c_calls : list call;
  c_e2e : list e2e                         (* gradient evaluations through EnsembleEvaluator.calculate *)
}.

Definition near (x m : Q) : bool := Qleb (Qabs (x - m)) (Q_ 1 1000000000000000).

Definition arr_cmp (cmp : Q -> Q -> bool) (a b : arr3) : bool := forallb2 (forallb2 (forallb2 cmp)) a b.

Definition shape_ok (R P V : nat) (a : arr3) : bool :=
  Nat.eqb (length a) R && forallb (fun blk => Nat.eqb (length blk) P && forallb (fun v => Nat.eqb (length v) V) blk) a.

Fixpoint zeros_vec (v : nat) (mask : option (list bool)) (vec : list Q) : bool :=
  match vec with
  | [] => true
  | x :: t => (if handled mask v then true else Qeqb x 0) && zeros_vec (S v) mask t
  end.
Definition zeros_ok (mask : option (list bool)) (a : arr3) : bool := forallb (forallb (zeros_vec 0 mask)) a.

Definition blk_eqb (a b : list (list Q)) : bool := list_eqb (list_eqb Qeqb) a b.
Definition blocks_equal (a : arr3) : bool :=
  match a with [] => true | b :: t => forallb (blk_eqb b) t end.

(* not shared: the realizations get different perturbations (the draws are continuous, the points of a
   sequence distinct; an accidental coincidence of two whole blocks has probability zero) *)
Fixpoint pairwise_distinct (l : list (list (list Q))) : bool :=
  match l with [] => true | b :: t => negb (existsb (blk_eqb b) t) && pairwise_distinct t end.

Definition range_ok (a : arr3) : bool :=
  forallb (forallb (forallb (fun x => Qleb (-1) x && Qleb x 1))) a.

Definition nat_count (z : Z) (l : list Z) : nat := length (filter (Z.eqb z) l).
(* every stratum 0..n-1 is visited exactly once by the n values *)
Definition strata_once (n : nat) (strata : list Z) : bool :=
  Nat.eqb (length strata) n && forallb (fun i => Nat.eqb (nat_count (Z.of_nat i) strata) 1) (seq 0 n).
Definition lhs_ok (shared : bool) (R P V : nat) (mask : option (list bool)) (a : arr3) : bool :=
  let n := ((if shared then 1 else R) * P)%nat in
  let vecs := vectors shared a in
  forallb (fun v => if handled mask v then strata_once n (map (stratum_scaled n) (column v vecs)) else true) (seq 0 V).

Definition mask_eqb (a b : option (list bool)) : bool := option_eqb (list_eqb Bool.eqb) a b.
Definition mask_wf (V : nat) (m : option (list bool)) : bool :=
  match m with None => true | Some l => Nat.eqb (length l) V end.

Definition check_call (c : case) (k : call) : bool :=
  match nth_error (c_samplers c) (k_idx k) with
  | None => false
  | Some s =>
      let mask := get_mask (k_idx k) (c_assign c) (c_varmask c) in
      let m := s_method s in
      match generate m (s_shared s) (c_R c) (c_P c) (c_V c) mask (k_raw k), k_out k with
      | Some exp, Some out =>
          arr_cmp (if is_qmc m then near else Qeqb) out exp
          && shape_ok (c_R c) (c_P c) (c_V c) out
          && zeros_ok mask out
          && (if s_shared s then blocks_equal out
              else if Nat.eqb (sample_dim (c_V c) mask) 0 || Nat.eqb (c_P c) 0 then true else pairwise_distinct out)
          && (if is_bounded m && s_default s then range_ok out else true)
          && (match m with Lhs => lhs_ok (s_shared s) (c_R c) (c_P c) (c_V c) mask out | _ => true end)
      | _, _ => false
      end
  end.

Definition near12 (x m : Q) : bool := Qleb (Qabs (x - m)) (Q_ 1 1000000000000).

(* variables no sampler of the calling order handles keep their value exactly *)
Fixpoint unperturbed_vec (c : case) (order : list nat) (v : nat) (x vec : list Q) : bool :=
  match x, vec with
  | xi :: x', o :: vec' =>
      (if existsb (fun k => handled (get_mask k (c_assign c) (c_varmask c)) v) order then true else Qeqb o xi)
      && unperturbed_vec c order (S v) x' vec'
  | [], [] => true
  | _, _ => false
  end.

Definition check_e2e (c : case) (e : e2e) : bool :=
  let order := sampler_order (c_assign c) in
  list_eqb Nat.eqb (map fst (e_raws e)) order &&
  let outs := map (fun kr : nat * raw =>
                     match nth_error (c_samplers c) (fst kr) with
                     | None => None
                     | Some s => generate (s_method s) (s_shared s) (c_R c) (c_P c) (c_V c)
                                          (get_mask (fst kr) (c_assign c) (c_varmask c)) (snd kr)
                     end) (e_raws e) in
  match total_samples outs with
  | None => false
  | Some tot =>
      match perturb (e_x e) (e_mag e) tot, e_out e with
      | Some exp, Some out =>
          arr_cmp near12 out exp && shape_ok (c_R c) (c_P c) (c_V c) out
          && forallb (forallb (unperturbed_vec c order 0 (e_x e))) out
      | _, _ => false
      end
  end.

Definition check_case (c : case) : bool :=
  (* _init_samplers creates one sampler per configuration, each with the mask of _get_mask *)
  list_eqb mask_eqb (c_masks c) (map (fun i => get_mask i (c_assign c) (c_varmask c)) (seq 0 (length (c_samplers c))))
  && forallb (mask_wf (c_V c)) (c_masks c)
  && match c_assign c with None => true | Some a => Nat.eqb (length a) (c_V c) end
  && forallb (check_call c) (c_calls c)
  && forallb (check_e2e c) (c_e2e c).
