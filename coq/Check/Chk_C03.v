(* Check/Chk_C03.v -- correspondence checker for C03: failure flags, the two thresholds, the
   realization_min_success gate, exit codes, and "as if absent" comparisons.

   One case = one ensemble (R realizations x (unperturbed + P perturbations)) with NaNs injected per slot
   and column.  The real code is run on it several times:
     full      EnsembleEvaluator.calculate(compute_functions=True, compute_gradients=True), or a function request
               followed by a gradient-only request on the same object (re-uses the cached function results)
     red_f     calculate(functions) on the ensemble with the failed realizations physically removed
     red_g     calculate(both) on the ensemble with the gradient-failed realizations and the failed
               perturbations physically removed (possible when the survivors keep equally many perturbations);
               also with gradient.merge_realizations (one stacked solve over all surviving rows)
     twin      calculate(both) on the same ensemble with everything that belongs to a failed realization or a
               failed perturbation (values in the other columns, perturbation samples) replaced by other numbers
     per_real  otherwise: one single-realization run per surviving realization (its surviving perturbations),
               combined here with the model's combine_gradients
     opt/eval  an optimizer step (scripted optimizer: one evaluation) and an evaluator step -> exit codes
   Flags, gates, exit codes and weights are compared exactly with Model/Ensemble.v; values with Num.close. *)
From Coq Require Import String QArith Qabs List Bool Arith ZArith.
From Ropt Require Import Base.Num Base.ListX Gen.Generated Model.Ensemble Check.Chk_C01.
Import ListNotations.
Open Scope Q_scope.

Definition grads := (list (list oQ) * list (list oQ) * list oQ)%type.   (* objectives, constraints, weighted *)

Record grad_obs := {
  g_failed : list bool;                 (* GradientResults.realizations.failed_realizations *)
  g_ow : option mat;
  g_cw : option mat;
  g_grads : option grads                (* None: gradients not reported *)
}.
Inductive full_obs :=
| FullResults (f : obs_result) (g : grad_obs)
| FullAbort (code : Z)
| FullRaise.

(* the twin run: the same ensemble with every value and perturbation sample that belongs to a failed realization
   or a failed perturbation replaced by another finite number (the NaN pattern is unchanged) *)
Inductive twin_obs :=
| TwinNone                                                   (* not run for this case *)
| TwinAbort                                                  (* the twin run raised OptimizationAborted *)
| Twin (f : option (list oQ * list oQ * oQ)) (failed : list bool) (g : option grads).

Record case := {
  k_S : Q;
  k_cfg : config;
  k_raw_rmin : option nat;              (* realization_min_success as written (None = unset) *)
  k_raw_pmin : option nat;              (* perturbation_min_success as written *)
  k_P : nat;                            (* number_of_perturbations *)
  k_V : nat;                            (* number of variables *)
  k_merge : bool;                       (* gradient.merge_realizations *)
  k_rows : list (list oQ * list oQ);                 (* evaluator output, unperturbed, per realization *)
  k_prows : list (list (list oQ * list oQ));         (* evaluator output per realization and perturbation *)
  k_fouts : list fout;
  k_full : full_obs;
  k_red_f : option (option mat * option mat * (list oQ * list oQ * oQ));
  k_red_g : option grads;
  k_per_real : list (option (list vec * list vec));  (* per realization: gradient of every objective / constraint *)
  k_twin : twin_obs;
  k_allow_nan : bool;                   (* allow_nan of the scripted optimizer *)
  k_opt_exit : Z;                       (* exit code of the optimizer step *)
  k_eval_exit : Z                       (* exit code of the evaluator step *)
}.

(* ---- helpers ------------------------------------------------------------------------------------ *)
Definition vclose (S : Q) (x m : list oQ) : bool := forallb2 (oclose S) x m.
Definition grads_close (S : Q) (x m : grads) : bool :=
  match x, m with
  | (xo, xc, xw), (mo, mc, mw) => forallb2 (vclose S) xo mo && forallb2 (vclose S) xc mc && vclose S xw mw
  end.
Definition fvals_close (S : Q) (x m : list oQ * list oQ * oQ) : bool :=
  match x, m with
  | (xo, xc, xw), (mo, mc, mw) => vclose S xo mo && vclose S xc mc && oclose S xw mw
  end.

(* status of the gradient of one function: the constructor of combine_gradients *)
Definition grad_status (V : nat) (k : option ekind) (col : list oQ) (wrow : list Q) (failed : list bool) : gres :=
  match k with
  | None => GDivZero
  | Some kd => match normalize (zero_failed failed wrow) with
               | None => GDivZero
               | Some w => combine_gradients V kd col [] w
               end
  end.
Definition g_is_abort (g : gres) : bool := match g with GAbort => true | _ => false end.
Definition g_is_undef (g : gres) : bool := match g with GDivZero => true | _ => false end.

Definition statuses (V : nat) (c : config) (n : nat) (em : option (list nat)) (wm : option mat)
           (rows : omat) (failed : list bool) : list gres :=
  map (fun j => grad_status V (nth j (kinds_of (cfg_ests c) (resolve_emap n em)) None)
                            (column j rows) (in_force (cfg_w c) wm j) failed) (seq 0 n).

(* (B): the gradient of function j from the per-realization gradients observed on single-realization runs *)
Definition per_real_gs (V : nat) (sel : list vec * list vec -> list vec) (j : nat) (w : list Q)
           (pr : list (option (list vec * list vec))) : option (list vec) :=
  fold_right (fun (wp : Q * option (list vec * list vec)) acc =>
                match acc with
                | None => None
                | Some t =>
                    if Qeqb (fst wp) 0 then Some (vzero V :: t)
                    else match snd wp with
                         | Some g => Some (nth j (sel g) [] :: t)
                         | None => None
                         end
                end) (Some []) (combine w pr).

Definition check_combined (S : Q) (m : gres) (obs : list oQ) : bool :=
  match m, all_some obs with
  | GMean g, Some x => forallb2 (close S) x g
  | GSd var c, Some x =>
      if Qeqb var 0 then forallb (fun a => Qeqb a 0) x
      else forallb2 (fun a cv => close (S * S * S * S) (a * a * var) (cv * cv) && Qleb 0 (a * cv)) x c
  | _, _ => false
  end.

Definition check_per_real (S : Q) (V : nat) (c : config) (n : nat) (em : option (list nat)) (wm : option mat)
           (rows : omat) (failed : list bool) (sel : list vec * list vec -> list vec)
           (pr : list (option (list vec * list vec))) (obs : list (list oQ)) : bool :=
  forallb (fun j =>
    match nth j (kinds_of (cfg_ests c) (resolve_emap n em)) None,
          normalize (zero_failed failed (in_force (cfg_w c) wm j)) with
    | Some kd, Some w =>
        match per_real_gs V sel j w pr with
        | Some gs => check_combined S (combine_gradients V kd (column j rows) gs w) (nth j obs [])
        | None => false
        end
    | _, _ => false
    end) (seq 0 n).

(* weights in force of the reduced run == the full run's, restricted to the survivors and renormalised *)
Definition rows_commute (keep : list bool) (full red : list Q) : bool :=
  match normalize (gather keep full), normalize red with
  | Some a, Some b => list_eqb wclose b a
  | None, None => true
  | _, _ => false
  end.
Definition commute_ok (c : config) (keep : list bool) (n : nat) (full red : option mat) : bool :=
  forallb (fun j => rows_commute keep (in_force (cfg_w c) full j) (in_force (gather keep (cfg_w c)) red j)) (seq 0 n).

(* the weighted gradient is sum_j ow_j * gradient_j : the property clause itself on the observation *)
Fixpoint wsum (V : nat) (ow : list Q) (gs : list (list Q)) : list Q :=
  match ow, gs with
  | o :: ow', g :: gs' => vadd (vscale o g) (wsum V ow' gs')
  | _, _ => vzero V
  end.
Fixpoint all_some2 (l : list (list oQ)) : option (list (list Q)) :=
  match l with
  | [] => Some []
  | r :: t => match all_some r, all_some2 t with Some a, Some b => Some (a :: b) | _, _ => None end
  end.

(* ---- the checker -------------------------------------------------------------------------------- *)
Definition check_case (k : case) : bool :=
  let c := k_cfg k in
  let S := k_S k in
  let V := k_V k in
  let R := length (cfg_w c) in
  let no := cfg_no c in
  let nc := cfg_nc c in
  let rows := propagate_nan (k_rows k) in
  let prows := map propagate_nan (k_prows k) in
  let failed_g := failed_grad (cfg_pmin c) rows prows in
  let gate_g := gate (cfg_rmin c) failed_g in
  Nat.eqb (cfg_rmin c) (clamp_threshold (k_raw_rmin k) R)
  && Nat.eqb (cfg_pmin c) (clamp_threshold (k_raw_pmin k) (k_P k))
  && match one_set c (k_rows k) (k_fouts k) with
     | Missing => false
     | Aborted =>
         (* a realization filter found no realization with positive weight *)
         match k_full k with FullAbort code => Z.eqb code (exit_code_of "TOO_FEW_REALIZATIONS") | _ => false end
         && Z.eqb (k_opt_exit k) (exit_code_of "TOO_FEW_REALIZATIONS")
         && Z.eqb (k_eval_exit k) (exit_code_of "TOO_FEW_REALIZATIONS")
     | Done mf =>
         let so := statuses V c no (cfg_oem c) (r_ow mf) (map fst rows) failed_g in
         let sc := statuses V c nc (cfg_cem c) (r_cw mf) (map snd rows) failed_g in
         let f_abort := functions_abort (r_functions mf) in
         let g_abort := gate_g && existsb g_is_abort (so ++ sc) in
         let undef := functions_undefined (r_functions mf) || (gate_g && existsb g_is_undef (so ++ sc)) in
         let miss_f := is_none (r_functions mf) in
         let miss_g := negb gate_g in
         let exit_ok (obs model : Z) := Z.eqb obs model || (undef && Z.eqb obs (exit_code_of "TOO_FEW_REALIZATIONS")) in
         (* an escaping exception (reported by the harness as exit code -1, FullRaise) is never accepted, also not in the
            0/0 region where the merged estimate has an empty stacked system (F14f, fixed by 294d53c) *)
         exit_ok (k_opt_exit k)
                 (optimizer_step_exit (f_abort || g_abort) (cfg_rmin c) (k_allow_nan k)
                                      [(miss_f, r_failed mf); (miss_g, failed_g)])
         && exit_ok (k_eval_exit k) (evaluator_step_exit f_abort [miss_f])
         && match k_full k with
            | FullRaise => false
            | FullAbort code => Z.eqb code (exit_code_of "TOO_FEW_REALIZATIONS") && (f_abort || g_abort || undef)
            | FullResults f g =>
                negb (f_abort || g_abort)
                && check_result S c mf f
                && list_eqb Bool.eqb failed_g (g_failed g)
                && omat_close (g_ow g) (r_ow mf) && omat_close (g_cw g) (r_cw mf)
                && Bool.eqb (is_some (g_grads g)) gate_g
                (* functions: as if the failed realizations were absent *)
                && match r_functions mf with
                   | Some (Values mo mc) =>
                       if existsb is_undefined (mo ++ mc) then true
                       else match k_red_f k, o_functions f with
                            | Some (rw, rcw, rf), Some ff =>
                                fvals_close S rf ff
                                && commute_ok c (keep_of (r_failed mf)) no (o_ow f) rw
                                && commute_ok c (keep_of (r_failed mf)) nc (o_cw f) rcw
                            | _, _ => false
                            end
                   | _ => true
                   end
                (* gradients: as if the failed realizations and perturbations were absent *)
                && (if gate_g && negb (existsb g_is_undef (so ++ sc)) then
                      match g_grads g with
                      | Some (go, gc, gw) =>
                          match all_some2 go with
                          | Some gq => vclose S gw (map Some (wsum V (cfg_ow c) gq))
                          | None => false
                          end
                          && match k_red_g k with
                             | Some rg => grads_close S rg (go, gc, gw)
                             | None =>
                                 if k_merge k
                                 then (* one stacked solve: no per-realization reference; the twin run must exist *)
                                      match k_twin k with Twin _ _ (Some _) => true | _ => false end
                                 else check_per_real S V c no (cfg_oem c) (r_ow mf) (map fst rows) failed_g fst (k_per_real k) go
                                      && check_per_real S V c nc (cfg_cem c) (r_cw mf) (map snd rows) failed_g snd (k_per_real k) gc
                             end
                      | None => false
                      end
                    else true)
                (* nothing that belongs to a failed realization / perturbation influences what is reported *)
                && match k_twin k with
                   | TwinNone => true
                   | TwinAbort => false
                   | Twin tf tfailed tg =>
                       list_eqb Bool.eqb tfailed failed_g
                       && match tf, o_functions f with
                          | Some a, Some b => fvals_close S a b
                          | None, None => true
                          | _, _ => false
                          end
                       && match tg, g_grads g with
                          | Some a, Some b => grads_close S a b
                          | None, None => true
                          | _, _ => false
                          end
                   end
            end
     end.

Definition mkgobs failed ow cw g : grad_obs := {| g_failed := failed; g_ow := ow; g_cw := cw; g_grads := g |}.
