(* Check/Chk_C16.v -- correspondence checker for C16.
   A case holds the trace of a REFERENCE run of one configuration in a fresh interpreter and the traces
   of the same configuration under other schedules (after other runs, with the NumPy global generator
   reseeded / drawn from before the run, between evaluations and inside the evaluator, with reused or
   new PluginManager / OptimizerContext / Plan / configuration objects, with complete other runs executed
   inside the evaluator), each with the count of touches attributed to ropt/SciPy by the run-time monitor:
   accesses of the generator-like state (NumPy's legacy global generator, scipy.stats random_state) and
   writes of the table-like state (module-level containers, class attributes, cached plug-in instances,
   the configuration object).  Requests and results are 63-bit digests of their
   exact byte strings.  The checker RUNS the machine of Model/Rng.v (replay instance of the reference)
   under each recorded schedule and compares trace, exit code and touch count with the observation;
   by Proofs.Rng.non_interference the machine's answer is the reference trace and 0 touches. *)
From Coq Require Import List ZArith Bool Arith.
From Ropt Require Import Base.ListX Model.Rng.
Import ListNotations.

Record run_obs := {
  r_sched : list (list Z);    (* foreign operations per micro step: j >= 0 reseeds (np.random.seed / dist.random_state), j < 0 draws or is a complete other run *)
  r_g0 : Z;                   (* abstract initial global state (the schedule's label) *)
  r_trace : list (Z * Z);     (* observed (request digest, result digest) per evaluator call *)
  r_exit : Z;
  r_touches : nat             (* monitor: touches of the global generator from ropt/SciPy frames *)
}.

Record case := {
  k_ref : script;             (* reference run (fresh interpreter) *)
  k_ref_touches : nat;
  k_runs : list run_obs;
  k_pert : option (Z * Z);    (* digest of the first perturbed request: configured seed, other seed *)
  k_twice : list (list Z * list Z)   (* per run: digests of the optimizer step that the workload executes twice
                                        (same step object, same configuration object, same start), first and second time;
                                        of the two run() calls of one BasicOptimizer object (requests, delivered
                                        results, exit code); and of one run on a fresh plug-in manager vs on a reused
                                        manager on which the same plug-ins were registered after earlier lookups *)
}.

Definition foreign_of (j : Z) : Z -> Z := if Z.ltb j 0 then (fun g => Z.succ g) else (fun _ => j).

Definition pair_eqb (a b : Z * Z) : bool := Z.eqb (fst a) (fst b) && Z.eqb (snd a) (snd b).

(* the table-like state of the process (abstract version number): no run may change it *)
Definition table0 : Z := 0%Z.

Definition check_run (c : case) (r : run_obs) : bool :=
  let o := replay (k_ref c) (map (map foreign_of) (r_sched r)) (r_g0 r) table0 in
  list_eqb pair_eqb (o_trace _ _ _ _ o) (r_trace r) && Z.eqb (o_exit _ _ _ _ o) (r_exit r) &&
  o_complete _ _ _ _ o && Nat.eqb (o_touches _ _ _ _ o) (r_touches r) && Z.eqb (o_table _ _ _ _ o) table0.

(* the reference itself is a run of a deterministic evaluator: the machine reproduces it *)
Definition ref_ok (c : case) : bool :=
  let o := replay (k_ref c) [] 0%Z table0 in
  list_eqb pair_eqb (o_trace _ _ _ _ o) (map (fun e : bool * Z * Z => let '(_, rq, rs) := e in (rq, rs)) (s_calls (k_ref c))) &&
  o_complete _ _ _ _ o && Nat.eqb (o_touches _ _ _ _ o) (k_ref_touches c).

Definition check_case (c : case) : bool :=
  ref_ok c && forallb (check_run c) (k_runs c) &&
  match k_pert c with None => true | Some (a, b) => negb (Z.eqb a b) end &&
  (* two runs of one configuration inside one run are identical *)
  forallb (fun p : list Z * list Z => list_eqb Z.eqb (fst p) (snd p)) (k_twice c).

(* constructors used by the harness *)
Definition scr (calls : list (bool * Z * Z)) (code : Z) : script := {| s_calls := calls; s_exit := code |}.
Definition robs (sched : list (list Z)) (g0 : Z) (tr : list (Z * Z)) (code : Z) (t : nat) : run_obs :=
  {| r_sched := sched; r_g0 := g0; r_trace := tr; r_exit := code; r_touches := t |}.
Arguments scr calls%list code%Z.
Arguments robs sched%list g0%Z tr%list code%Z t%nat.
