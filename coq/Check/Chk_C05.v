(* Check/Chk_C05.v -- correspondence checker for C05 (sort filter rank window).
   Three kinds of cases, all evaluated against Model/Filters.v:
   - Helper: ropt's _sort_and_select on (values, configured weights, failure mask) for a list of windows;
   - Filt:   DefaultRealizationFilter(config, 0) + get_realization_weights (sort-objective / sort-constraint,
             multi-objective keys; out-of-range windows must be rejected at construction);
   - E2E:    EnsembleEvaluator(config ...) + calculate: several filters mapped onto several objectives and
             constraints; rows of Realizations.objective_weights / constraint_weights and the function values.
   Every implementation answer must satisfy the tie-robust window predicate [window_ok] (np.argsort is not
   stable) and, when the ranking values are pairwise distinct, equal the model's vector exactly. *)
From Coq Require Import String QArith ZArith Bool Arith List.
From Ropt Require Import Base.Num Base.ListX Gen.Generated Model.Filters.
Import ListNotations.

Inductive case :=
| Helper (values cfgw : list Q) (failed : list bool) (answers : list (nat * nat * list Q))
| Filt (cfg : config) (m : method) (objs : list (list oQ)) (cns : option (list (list oQ)))
       (obs : outcome (list Q))
| E2E (c : e2e_case)
| Seq (c : seq_case).

Definition is_sort (m : method) : bool :=
  match m with SortObjective _ _ _ | SortConstraint _ _ _ => true | _ => false end.

Definition check_case (c : case) : bool :=
  match c with
  | Helper values cfgw failed answers =>
      Nat.eqb (length values) (length failed) && Nat.eqb (length cfgw) (length failed) &&
      forallb (fun a : nat * nat * list Q =>
                 select_answer_ok values cfgw failed (fst (fst a)) (snd (fst a)) (snd a)) answers
  | Filt cfg m objs cns obs => is_sort m && filter_answer_ok cfg m objs cns obs
  | E2E x => e2e_ok x
  | Seq x => seq_ok x
  end.
