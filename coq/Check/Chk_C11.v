(* Check/Chk_C11.v -- correspondence checker for C11: a paired run of the real code (without and with
   scaling transforms, same injected samples, same user-domain evaluator) vs Model/Transforms.v and
   Model/ConstraintInfo.v, and the two runs against each other. *)
From Coq Require Import String ZArith QArith Qabs Bool List.
From Ropt Require Import Base.Num Base.ListX Model.ConstraintInfo Model.Transforms Gen.Generated Check.Chk_C13.
Import ListNotations.
Open Scope Q_scope.

(* ---- observations ---------------------------------------------------------------------- *)
Inductive resobs :=
| RF (vars : list Q) (objs : list (list Q)) (cons : option (list (list Q)))
     (fobj : option (list Q)) (fcons : option (list Q)) (info : option cinfo)
| RG (vars : list Q) (pvars : list (list (list Q))) (pobjs : list (list (list Q)))
     (pcons : option (list (list (list Q)))).

Record runobs := {
  r_x0 : list Q; r_lb : list ereal; r_ub : list ereal; r_mag : list Q;     (* validated configuration *)
  r_lin : option lincfg; r_nl : option (list ereal * list ereal);
  r_requests : list (list (list Q));                                       (* rows of every evaluator call *)
  r_user : list resobs                                                     (* user-domain results *)
}.

(* what the trackers (no constraint tolerance) attached to a step-level run retained: the position of the retained
   object among the delivered user-domain results; None = nothing retained, Some (-1) = an object that is not one of
   the delivered user-domain results (e.g. the transformed one) *)
Record trkrun := {
  tk_has_last : bool; tk_last : option Z;
  tk_has_best : bool; tk_best_required : bool; tk_best : option Z
}.

Record case := {
  c_S : Q;
  c_codes_ok : bool;                                 (* every perturbation / boundary type code is in the generated enum tables *)
  c_user : ucfg;                                     (* the user's variables / gradient configuration *)
  c_lin : option lincfg;                             (* the user's linear constraints *)
  c_nl : option (list ereal * list ereal);           (* the user's non-linear constraint bounds *)
  c_has_var : bool;                                  (* a VariableScaler is supplied *)
  c_ss : list Q; c_os : list Q;                      (* its scales / offsets (ones / zeros when absent) *)
  c_fs : list Q;                                     (* objective scales (ones when absent) *)
  c_nls : option (list Q);                           (* non-linear constraint scales (None: no such transform) *)
  c_R : nat;
  c_samples : list (list (list Q));
  c_calls : list (reqkind * list (list Q));          (* expected evaluator calls: kind, user-domain point(s); a function
                                                        request may carry a batch of points (2-D variables) *)
  c_plain : runobs;
  c_scaled : runobs;
  c_opt : list resobs;                               (* optimizer-domain results of the scaled run *)
  c_eq : option (list Q);                            (* equation scaling held by the scaler after validation *)
  c_points : list (list Q * list Q * list Q);        (* user point, implementation image, implementation round trip *)
  c_trk : option (trkrun * trkrun);                  (* step-level runs: what the trackers retained, without / with transforms *)
  c_fail : option (option cinfo * option cinfo * option cinfo)
                                                     (* an evaluator step at the start vector whose evaluation fails (no function
                                                        values): constraint info of the result without transforms, with transforms
                                                        in the user domain, with transforms in the optimizer domain *)
}.

(* ---- comparisons ------------------------------------------------------------------------- *)
Definition vclose (S : Q) (a b : list Q) : bool := forallb2 (close S) a b.
Definition mclose (S : Q) (a b : list (list Q)) : bool := forallb2 (vclose S) a b.
Definition tclose (S : Q) (a b : list (list (list Q))) : bool := forallb2 (mclose S) a b.
Definition oclose_with {A} (f : A -> A -> bool) (a b : option A) : bool :=
  match a, b with Some x, Some y => f x y | None, None => true | _, _ => false end.
Definition lin_close (S : Q) (a b : lincfg) : bool :=
  mclose S (l_coef a) (l_coef b) && elist_close S (l_lower a) (l_lower b) && elist_close S (l_upper a) (l_upper b).
Definition nl_close (S : Q) (a b : list ereal * list ereal) : bool :=
  elist_close S (fst a) (fst b) && elist_close S (snd a) (snd b).

Definition res_close (S : Q) (a b : resobs) : bool :=
  match a, b with
  | RF v o c fo fc i, RF v' o' c' fo' fc' i' =>
      vclose S v v' && mclose S o o' && oclose_with (mclose S) c c' && oclose_with (vclose S) fo fo'
      && oclose_with (vclose S) fc fc' && info_close S i i'
  | RG v pv po pc, RG v' pv' po' pc' =>
      vclose S v v' && tclose S pv pv' && tclose S po po' && oclose_with (tclose S) pc pc'
  | _, _ => false
  end.

(* ---- the model's view of one run ------------------------------------------------------------ *)
Definition run_cfg_ok (S : Q) (r : runobs) (m : vcfg) : bool :=
  vclose S (r_x0 r) (g_x0 m) && elist_close S (r_lb r) (g_lb m) && elist_close S (r_ub r) (g_ub m)
  && vclose S (r_mag r) (g_mag m).

(* rows of one call: a function request repeats every point of the batch R times; gradient / combined requests
   are issued for exactly one point *)
Definition call_rows (R : nat) (ss os : list Q) (m : vcfg) samples (kp : reqkind * list (list Q)) : list (list Q) :=
  match kp with
  | (RFunctions, pts) => batch_requests R ss os (map (to_opt ss os) pts)
  | (k, [p]) => requests mirror_repeat R k ss os m (to_opt ss os p) samples
  | (_, _) => []
  end.
Definition model_calls (R : nat) (ss os : list Q) (m : vcfg) samples (calls : list (reqkind * list (list Q))) : list (list (list Q)) :=
  map (call_rows R ss os m samples) calls.

(* the results one call delivers: one function result per point, then the gradient result; [true] = function result,
   paired with the user-domain point it was computed at *)
Definition call_results (kp : reqkind * list (list Q)) : list (bool * list Q) :=
  match kp with
  | (RFunctions, pts) => map (fun p => (true, p)) pts
  | (RGradient, [p]) => [(false, p)]
  | (RBoth, [p]) => [(true, p); (false, p)]
  | (_, _) => []
  end.
Definition expected_results (calls : list (reqkind * list (list Q))) : list (bool * list Q) := concat (map call_results calls).

Definition ccfg_of (lb ub : list ereal) (l : option lincfg) (n : option (list ereal * list ereal)) : ccfg :=
  {| v_lower := lb; v_upper := ub; c_linear := l; c_nonlinear := n |}.

(* function results: user-domain info against the model, optimizer-domain info back-transformed *)
Definition fres_ok (S : Q) (ucfg : ccfg) (ss fs : list Q) (eq nls : option (list Q)) (u o : resobs) : bool :=
  match u, o with
  | RF v ob cn fo fc i, RF v' ob' cn' fo' fc' i' =>
      info_close S i (info_of (create ucfg v fc))                      (* C13 on the user's own configuration *)
      && info_consistent i
      && info_close S i (match i' with Some ci => Some (cinfo_from_opt (Some ss) eq nls ci) | None => None end)
      && mclose S ob (map (fun_from_opt fs) ob')                       (* per-realization values *)
      && oclose_with (vclose S) fo (option_map (fun_from_opt fs) fo')  (* function values *)
      && match nls with
         | Some k => oclose_with (mclose S) cn (option_map (map (fun_from_opt k)) cn')
                     && oclose_with (vclose S) fc (option_map (fun_from_opt k) fc')
         | None => oclose_with (mclose S) cn cn' && oclose_with (vclose S) fc fc'
         end
  | RG _ _ _ _, RG _ _ _ _ => true
  | _, _ => false
  end.

Definition plain_fres_ok (S : Q) (ucfg : ccfg) (u : resobs) : bool :=
  match u with
  | RF v _ _ _ fc i => info_close S i (info_of (create ucfg v fc)) && info_consistent i
  | RG _ _ _ _ => true
  end.

(* variables reported in the results: the user-domain point of the call; optimizer domain: its image *)
Definition res_vars (r : resobs) : list Q := match r with RF v _ _ _ _ _ => v | RG v _ _ _ => v end.
Definition is_RF (r : resobs) : bool := match r with RF _ _ _ _ _ _ => true | RG _ _ _ _ => false end.

(* the sequence of results is the one the calls must deliver, each at its own point *)
Definition res_expected (S : Q) (r : resobs) (e : bool * list Q) : bool :=
  Bool.eqb (is_RF r) (fst e) && vclose S (res_vars r) (snd e).

(* gradient results: the perturbed variables reported to the user are the model's perturbed vectors at that point
   (realization -> perturbation -> variable), in the optimizer domain their pre-images *)
Definition gres_ok (S : Q) (ss os : list Q) (m : vcfg) samples (u o : resobs) : bool :=
  match u, o with
  | RG v pv _ _, RG _ pv' _ _ =>
      let y := to_opt ss os v in
      tclose S pv (map (map (fun z => from_opt ss os (perturb mirror_repeat m y z))) samples)
      && tclose S pv' (map (map (perturb mirror_repeat m y)) samples)
  | RF _ _ _ _ _ _, RF _ _ _ _ _ _ => true
  | _, _ => false
  end.
Definition plain_gres_ok (S : Q) (n : nat) (m : vcfg) samples (u : resobs) : bool :=
  match u with
  | RG v pv _ _ => tclose S pv (map (map (fun z => from_opt (ones n) (zeros n) (perturb mirror_repeat m (to_opt (ones n) (zeros n) v) z))) samples)
  | _ => true
  end.

(* a finite difference closer to zero than the comparison tolerance: feasibility may legitimately flip *)
Definition near_zero (S : Q) (e : ereal) : bool :=
  match e with Fin d => Qleb (Qabs d) (Q_ 1 1000000 * S) | _ => false end.
Definition fam_near (S : Q) (f : option family) : bool :=
  match f with Some f => existsb (near_zero S) (f_lower f) || existsb (near_zero S) (f_upper f) | None => false end.
Definition info_near (S : Q) (i : option cinfo) : bool :=
  match i with Some ci => fam_near S (ci_bound ci) || fam_near S (ci_linear ci) | None => false end.

Definition point_ok (S : Q) (ucfg ocfg : ccfg) (ss os : list Q) (eq : option (list Q))
    (p : list Q * list Q * list Q) : bool :=
  let '(x, y, back) := p in
  let ui := info_of (create ucfg x None) in
  let oi := info_of (create ocfg y None) in
  vclose S y (to_opt ss os x)                                         (* to_optimizer *)
  && vclose S back x                                                  (* from_optimizer . to_optimizer = id *)
  && vclose S (from_opt ss os (to_opt ss os x)) x
  && info_close S (match oi with Some ci => Some (cinfo_from_opt (Some ss) eq None ci) | None => None end) ui
  && (info_near S ui || Bool.eqb (feasible_point ucfg x) (feasible_point ocfg y)).

(* trackers: the delivered user-domain results as the tracker model (Model/ConstraintInfo.v, C13) sees them when no
   tolerance is configured: only "has function values" matters *)
Definition titem_of (r : resobs) : titem :=
  {| ti_fun := match r with RF _ _ _ (Some _) _ _ => true | _ => false end; ti_obj := None; ti_info := None |}.
Definition oZ_eqb (a b : option Z) : bool :=
  match a, b with Some x, Some y => Z.eqb x y | None, None => true | _, _ => false end.
Definition is_fun_at (items : list titem) (z : Z) : bool :=
  (0 <=? z)%Z && match nth_error items (Z.to_nat z) with Some it => ti_fun it | None => false end.
Definition trk_ok (r : runobs) (t : trkrun) : bool :=
  let items := map titem_of (r_user r) in
  (negb (tk_has_last t)
   || oZ_eqb (tk_last t) (option_map Z.of_nat (tracked_last None items)))     (* the last function result, as delivered *)
  && (negb (tk_has_best t)
      || match tk_best t with
         | Some z => is_fun_at items z                                         (* a delivered user-domain function result *)
         | None => negb (tk_best_required t) || negb (existsb ti_fun items)
         end).

Definition check_case (c : case) : bool :=
  let S := c_S c in
  let u := c_user c in
  let n := List.length (u_x0 u) in
  let ucfg := ccfg_of (u_lb u) (u_ub u) (c_lin c) (c_nl c) in
  let P := c_plain c in
  let T := c_scaled c in
  match validate_vars (ones n) (zeros n) u, validate_vars (c_ss c) (c_os c) u with
  | Some mA, Some mB =>
      c_codes_ok c
      (* validated configurations *)
      && run_cfg_ok S P mA && run_cfg_ok S T mB
      && oclose_with (lin_close S) (r_lin P) (c_lin c) && oclose_with (nl_close S) (r_nl P) (c_nl c)
      && match c_lin c with
         | Some lc =>
             if c_has_var c then
               match linear_to_opt (c_ss c) (c_os c) lc with
               | Some (lc', eq) => oclose_with (lin_close S) (r_lin T) (Some lc') && oclose_with (vclose S) (c_eq c) (Some eq)
               | None => false
               end
             else oclose_with (lin_close S) (r_lin T) (Some lc) && is_none (c_eq c)
         | None => is_none (r_lin T) && is_none (c_eq c)
         end
      && oclose_with (nl_close S) (r_nl T)
           (match c_nl c, c_nls c with
            | Some (lo, up), Some k => Some (ebounds_div k lo, ebounds_div k up)
            | x, _ => x end)
      (* evaluator requests: model vs each run, and the runs against each other *)
      && tclose S (r_requests P) (model_calls (c_R c) (ones n) (zeros n) mA (c_samples c) (c_calls c))
      && tclose S (r_requests T) (model_calls (c_R c) (c_ss c) (c_os c) mB (c_samples c) (c_calls c))
      && tclose S (r_requests T) (r_requests P)
      (* user-domain results of the two runs *)
      && forallb2 (res_close S) (r_user T) (r_user P)
      && forallb (plain_fres_ok S ucfg) (r_user P)
      && forallb2 (fres_ok S ucfg (c_ss c) (c_fs c) (c_eq c) (c_nls c)) (r_user T) (c_opt c)
      && forallb2 (fun o u' => vclose S (res_vars o) (to_opt (c_ss c) (c_os c) (res_vars u'))) (c_opt c) (r_user P)
      && forallb2 (res_expected S) (r_user P) (expected_results (c_calls c))
      && forallb2 (res_expected S) (r_user T) (expected_results (c_calls c))
      && forallb (plain_gres_ok S n mA (c_samples c)) (r_user P)
      && forallb2 (gres_ok S (c_ss c) (c_os c) mB (c_samples c)) (r_user T) (c_opt c)
      (* random user-domain points: image, round trip, differences and feasibility *)
      && forallb (point_ok S ucfg (ccfg_of (r_lb T) (r_ub T) (r_lin T) None) (c_ss c) (c_os c) (c_eq c)) (c_points c)
      && match c_trk c with Some (kp, ks) => trk_ok P kp && trk_ok T ks | None => true end
      (* a result without function values still reports the bound and linear differences / violations of its point *)
      && match c_fail c with
         | Some (ip, iu, io) =>
             let want := info_of (create ucfg (u_x0 u) None) in
             info_close S ip want && info_consistent ip
             && info_close S iu want && info_consistent iu
             && info_close S iu (match io with Some ci => Some (cinfo_from_opt (Some (c_ss c)) (c_eq c) (c_nls c) ci) | None => None end)
         | None => true
         end
  | _, _ => false
  end.

(* constructors used by the harness *)
Definition pt (z : Z) : ptype := match ptype_of_code z with Some p => p | None => PAbs end.
Definition bt (z : Z) : btype := match btype_of_code z with Some b => b | None => BNone end.
Definition codes_ok (ps bs : list Z) : bool :=
  forallb (fun z => is_some (ptype_of_code z)) ps && forallb (fun z => is_some (btype_of_code z)) bs.
