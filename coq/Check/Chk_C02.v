(* Check/Chk_C02.v -- correspondence checker for C02.
   An [Ens] case carries what the real EnsembleEvaluator.calculate reported for the LAST request of a
   sequence of requests on one evaluator object (function / gradient / combined requests, possibly at
   other points, issued directly or through EnsembleOptimizer's optimizer callback): variables,
   reported perturbed variables, per-realization (perturbed) function values after NaN propagation, the
   weights in force, the failure flags and the gradients; plus the rows the user's evaluator actually
   received for the perturbations and, for requests issued through the optimizer callback, the matrix
   the callback returned.  [check_case] re-runs Model/Gradient.v on the reported inputs and compares:
   failure flags, gate and exact zeros exactly, gradients with Num.close; on affine cases it also
   compares with the closed form of the property (slopes are given in user coordinates and are
   scaled here with the VariableScaler of the case); the evaluated rows must be the reported
   perturbed variables mapped with from_optimizer; the callback's matrix must be exactly
   [optimizer_matrix] of the reported gradients.  An [Ls] case is one call of the real
   _invert_linear_equations.

   Squared singular values come from NumPy (LAPACK oracle).  They are only used through the model's own
   [keeps_all] (the code's 99.9 % rule with the generated SVD_TOLERANCE): values are compared whenever
   the rule keeps every singular value of every contributing system.  By
   SvdBound.well_conditioned_keeps_all this includes every case inside the property's 1 % bound, so
   the bound never excuses a mismatch. *)
From Coq Require Import QArith Qabs List Bool Arith ZArith.
From Ropt Require Import Base.Num Base.ListX Gen.Generated Model.Gradient.
Import ListNotations.
Open Scope Q_scope.

Record fcase := {
  f_est : estimator;
  f_w : vec;                        (* weights in force: reported row, or the configured weights *)
  f_f0 : list oQ;                   (* unperturbed values, one per realization *)
  f_fp : list (list oQ);            (* perturbed values, realization x perturbation *)
  f_grad : vec;                     (* reported gradient (all variables), NaN entries printed as 0 *)
  f_nan : bool;                     (* the reported gradient contains NaN *)
  f_sigma : Q;                      (* stddev rows: the standard deviation (certified below) *)
  f_s2m : list Q;                   (* merged: squared singular values of the stacked system of this function *)
  f_slopes : option (list vec)      (* affine cases: exact slopes per realization, all variables, USER coordinates *)
}.

Inductive outcome := OGrad | ONone | OAbort | OError | OConfig.

Record ens_case := {
  c_S : Q;                          (* tolerance scale *)
  c_mask : list bool;               (* free variables *)
  c_x : vec;                        (* variables *)
  c_X : list mat;                   (* reported perturbed variables, realization x perturbation x variable *)
  c_pmin : nat;
  c_rmin : nat;
  c_failed_fn : list bool;          (* reported failed_realizations of the function results *)
  c_failed : list bool;             (* reported failed_realizations of the gradient results *)
  c_merge : bool;
  c_s2 : list (list Q);             (* per realization: squared singular values of its difference system *)
  c_funcs : list fcase;             (* objectives, then constraints *)
  c_nobj : nat;
  c_ow : vec;                       (* objective weights *)
  c_wgrad : vec;                    (* reported weighted-objective gradient, NaN entries printed as 0 *)
  c_wnan : bool;                    (* it contains NaN *)
  c_outcome : outcome;
  c_abort_checkable : bool;         (* no realization filter configured: aborts come from the estimator only *)
  c_scales : vec;                   (* VariableScaler: scales (ones when there is none) *)
  c_offsets : vec;                  (* VariableScaler: offsets (zeros when there are none) *)
  c_evalx : option (list mat);      (* rows the evaluator received for the perturbations (user coordinates) *)
  c_cb : option (list vec)          (* matrix returned by the optimizer callback (requests issued through it) *)
}.

Inductive case :=
  | Ens (c : ens_case)
  | Ls (n : nat) (A : mat) (b : vec) (g : vec) (s2 : list Q) (a : option vec) (scale : Q).

Definition vclose (S : Q) (a b : vec) : bool := forallb2 (close S) a b.
(* entries of fixed variables are exactly zero; also forces length g = length mask *)
Definition masked_zero (mask : list bool) (g : vec) : bool :=
  forallb2 (fun (m : bool) x => m || Qeqb x 0) mask g.

Fixpoint mk_rdata (Xs : list mat) (f0 : list oQ) (fp : list (list oQ)) : list rdata :=
  match Xs, f0, fp with
  | X :: Xs', v :: f0', p :: fp' => {| r_X := X; r_f0 := v; r_fp := p |} :: mk_rdata Xs' f0' fp'
  | _, _, _ => []
  end.

Definition mat_eqb (a b : mat) : bool := list_eqb (list_eqb Qeqb) a b.
Definition vec_eqb (a b : vec) : bool := list_eqb Qeqb a b.
Fixpoint all_equal {A} (e : A -> A -> bool) (l : list A) : bool :=
  match l with x :: ((y :: _) as t) => e x y && all_equal e t | _ => true end.
Fixpoint contributing {A} (wh : vec) (l : list A) : list A :=
  match wh, l with
  | w :: wh', y :: l' => if Qeqb w 0 then contributing wh' l' else y :: contributing wh' l'
  | _, _ => []
  end.

(* values are compared iff the code's own truncation rule keeps everything in every contributing system *)
(* merged estimation is ONE solve of the stacked system: only its singular values decide *)
Definition comparable (n : nat) (merge : bool) (wh : vec) (s2 : list (list Q)) (s2m : list Q) : bool :=
  if merge then keeps_all svd_tolerance s2m && (length s2m =? n)%nat
  else forallb (fun s => keeps_all svd_tolerance s && (length s =? n)%nat) (contributing wh s2).

Definition check_function (c : ens_case) (f : fcase) : bool :=
  let mask := c_mask c in
  let n := count_true mask in
  let S := c_S c in
  let rs := mk_rdata (c_X c) (f_f0 f) (f_fp f) in
  masked_zero mask (f_grad f) &&
  match normalize (zero_failed (c_failed c) (f_w f)) with
  | None => true                               (* no surviving weight: outside the property *)
  | Some wh =>
      if f_nan f then false else                 (* NaN although a successful realization carries weight *)
      if negb (comparable n (c_merge c) wh (c_s2 c) (f_s2m f)) then true else
      let rsf := map (restrict_rdata mask) rs in
      let xf := restrict_free mask (c_x c) in
      match compute_gradient mask (c_x c) rs (c_failed c) (f_w f) (f_est f) (c_merge c) with
      | GMean g =>
          vclose S (f_grad f) g &&
          match f_slopes f with
          | None => true
          | Some sl =>
              let slf := map (fun a => restrict_free mask (scale_slope (c_scales c) a)) sl in
              if negb (c_merge c)
                 || all_equal mat_eqb (contributing wh (map (fun r => fst (system_of xf r)) rsf))
                 || all_equal vec_eqb (contributing wh slf)
              then vclose S (f_grad f) (expand_with_zeros mask (affine_mean_gradient n wh slf))
              else true
          end
      | GStd sg var =>
          let sigma := f_sigma f in
          (* rounding of sigma^2 and of sigma * grad sigma grows with (largest value) x (spread of the values), not
             with the square of the largest value: offsets that are huge compared with the spread must not widen
             the comparison *)
          let T := S * (1 + sigma) in
          Qleb 0 sigma && close T (sigma * sigma) var &&
          vclose T (qscale sigma (f_grad f)) sg &&
          (* sigma = 0: the estimator returns zeros *)
          (negb (Qeqb sigma 0) || forallb (fun y => Qeqb y 0) (f_grad f)) &&
          match f_slopes f with
          | None => true
          | Some sl =>
              vclose T (qscale sigma (f_grad f))
                     (expand_with_zeros mask
                        (affine_sd_gradient n wh (nan_to_num (f_f0 f))
                           (map (fun a => restrict_free mask (scale_slope (c_scales c) a)) sl)))
          end
      | GNoWeight => true
      | GSingular | GTooFew | GConfig => false
      end
  end.

(* would the estimator abort with TOO_FEW_REALIZATIONS (stddev with < 2 non-zero weights)? *)
Definition too_few (failed : list bool) (f : fcase) : bool :=
  match f_est f with
  | EMean => false
  | EStd => (count_nonzero (zero_failed failed (f_w f)) <? min_stddev_realizations)%nat
  end.

(* NaN propagation: a failed evaluation is failed for every function (same None pattern in all functions) *)
Definition none_pattern (f : fcase) : list bool * list (list bool) :=
  (map is_none (f_f0 f), map (map is_none) (f_fp f)).
Definition pattern_eqb (a b : list bool * list (list bool)) : bool :=
  list_eqb Bool.eqb (fst a) (fst b) && list_eqb (list_eqb Bool.eqb) (snd a) (snd b).
Definition uniform_failures (fs : list fcase) : bool :=
  match fs with [] => true | f0 :: t => forallb (fun f => pattern_eqb (none_pattern f0) (none_pattern f)) t end.

(* the rows the evaluator received are the reported perturbed variables in user coordinates *)
Definition evaluated_ok (c : ens_case) : bool :=
  match c_evalx c with
  | None => true
  | Some E =>
      forallb2 (fun Xr Er => forallb2 (fun p e => vclose (c_S c) e (from_optimizer (c_scales c) (c_offsets c) p)) Xr Er)
               (c_X c) E
  end.

(* the matrix handed to the optimizer is exactly [weighted-objective gradient; constraint gradients] on the
   free variables (a copy: compared exactly) *)
Definition callback_ok (c : ens_case) : bool :=
  match c_cb c with
  | None => true
  | Some M =>
      existsb f_nan (c_funcs c) || c_wnan c ||
      list_eqb vec_eqb M (optimizer_matrix (c_mask c) (c_wgrad c) (map f_grad (skipn (c_nobj c) (c_funcs c))))
  end.

Definition check_ens (c : ens_case) : bool :=
  match c_funcs c with
  | [] => false
  | f0 :: _ =>
      let rs0 := mk_rdata (c_X c) (f_f0 f0) (f_fp f0) in
      let failed_fn := map (fun r => is_none (r_f0 r)) rs0 in
      let failed := map (failed_grad (c_pmin c)) rs0 in
      (* a stddev estimator with merged realizations is rejected when the evaluator is built (GConfig), and
         only then *)
      let rejected := c_merge c && existsb (fun f => match f_est f with EStd => true | EMean => false end) (c_funcs c) in
      match c_outcome c with
      | OConfig => rejected
      | _ => negb rejected
      end &&
      match c_outcome c with
      | OConfig => true
      | OAbort =>
          negb (c_abort_checkable c) ||
          (gate (c_rmin c) failed_fn && existsb (too_few failed_fn) (c_funcs c)) ||
          (gate (c_rmin c) failed && existsb (too_few failed) (c_funcs c))
      | OError =>            (* an exception is only acceptable when no successful realization carries weight *)
          negb (c_abort_checkable c) ||
          existsb (fun f => is_none (normalize (zero_failed failed (f_w f)))) (c_funcs c)
      | ONone =>
          list_eqb Bool.eqb failed (c_failed c) && negb (gate (c_rmin c) failed)
      | OGrad =>
          list_eqb Bool.eqb failed_fn (c_failed_fn c) &&
          list_eqb Bool.eqb failed (c_failed c) && gate (c_rmin c) failed &&
          forallb (check_function c) (c_funcs c) &&
          uniform_failures (c_funcs c) && evaluated_ok c && callback_ok c &&
          (* weighted-objective gradient = objective-weighted sum of the reported objective gradients *)
          masked_zero (c_mask c) (c_wgrad c) &&
          (if c_wnan c then existsb f_nan (firstn (c_nobj c) (c_funcs c))
           else existsb f_nan (firstn (c_nobj c) (c_funcs c)) ||
                vclose (c_S c) (c_wgrad c)
                       (weighted_objective_gradient (length (c_mask c)) (c_ow c)
                          (map f_grad (firstn (c_nobj c) (c_funcs c)))))
      end
  end.

Definition check_ls (n : nat) (A : mat) (b g : vec) (s2 : list Q) (a : option vec) (S : Q) : bool :=
  if keeps_all svd_tolerance s2 && (length s2 =? n)%nat then
    match lstsq n A b with
    | Some gm => vclose S g gm && match a with Some a' => vclose S g a' | None => true end
    | None => false
    end
  else (length g =? n)%nat.

Definition check_case (c : case) : bool :=
  match c with
  | Ens e => check_ens e
  | Ls n A b g s2 a scale => check_ls n A b g s2 a scale
  end.
