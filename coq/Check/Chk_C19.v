(* Check/Chk_C19.v -- correspondence checker for C19: the implementation's answers to an operation
   sequence on one or several real PluginManager instances (all plug-in types) vs. Model/Registry.v. *)
From Coq Require Import List Bool Arith String.
From Ropt Require Import Base.ListX Model.Registry Gen.Generated.
Import ListNotations.

Record case := {
  c_init : manager;                     (* content of a fresh manager (entry points): one registry per type, in order *)
  c_fresh_after : list (list (string * nat)); (* implementation: listing of a manager created AFTER the run, per type *)
  c_managers : nat;
  c_ops : list (nat * (nat * op));      (* (manager index, (type index, operation)) *)
  c_answers : list ans;                 (* implementation answers *)
  c_consult : list (list (nat * string)); (* implementation: per operation, the is_supported calls received by stub
                                             plug-ins (stub id, argument), in order *)
  c_final : list (list (list (string * nat))) (* implementation: plugins(type) of every manager and type at the end *)
}.

Definition pair_eqb (a b : string * nat) : bool := String.eqb (fst a) (fst b) && Nat.eqb (snd a) (snd b).
Definition cons_eqb (a b : nat * string) : bool := Nat.eqb (fst a) (fst b) && String.eqb (snd a) (snd b).

Definition ans_eqb (a b : ans) : bool :=
  match a, b with
  | AOk, AOk | AErr, AErr | ABad, ABad => true
  | APlug x, APlug y => Nat.eqb x y
  | ABool x, ABool y => Bool.eqb x y
  | AList x, AList y => list_eqb pair_eqb x y
  | _, _ => false
  end.

(* stub plug-ins (the only ones that log their is_supported calls) have ids >= 100 *)
Definition is_stub (e : nat * string) : bool := 100 <=? fst e.

(* the hypotheses of the theorems hold for the observed fresh manager: distinct lower-case names, and an
   external plug-in is never discoverable *)
Fixpoint nodupb (l : list string) : bool :=
  match l with [] => true | h :: t => negb (existsb (String.eqb h) t) && nodupb t end.
Definition wf_reg (r : registry) : bool :=
  nodupb (names r) && forallb (fun k => String.eqb (lower k) k) (names r) &&
  forallb (fun np => match kind (snd np) with External => negb (disc (snd np)) | _ => true end) r.

(* consultation of registered plug-ins by one operation, model vs. implementation *)
Definition consult_ok (oinit : registry) (u : list manager) (o : nat * (nat * op)) (seen : list (nat * string)) : bool :=
  let r := reg_of u (fst o) (fst (snd o)) in
  match snd (snd o) with
  | Get m | Sup m =>
      match split_slash m with
      | (_, Some _) =>      (* "plugin/method": exactly the named plug-in is asked, with the tail verbatim *)
          list_eqb cons_eqb (filter is_stub (consulted oinit r m)) seen
      | (_, None) =>        (* bare: only plug-ins registered in THIS manager and type, with the method verbatim *)
          forallb (fun e => String.eqb (snd e) m && existsb (fun np => Nat.eqb (pid (snd np)) (fst e)) r) seen
      end
  | Lst | Fwd _ => match seen with [] => true | _ => false end
  | Add _ _ _ => true
  end.

Fixpoint consult_all (oinit : registry) (u : list manager) (ops : list (nat * (nat * op)))
                     (seen : list (list (nat * string))) : bool :=
  match ops, seen with
  | [], [] => true
  | o :: t, s :: ss => consult_ok oinit u o s && consult_all oinit (fst (ustep oinit u o)) t ss
  | _, _ => false
  end.

Definition check_case (c : case) : bool :=
  let oinit := nth 0 (c_init c) [] in
  let u0 := repeat (c_init c) (c_managers c) in
  let (a, uf) := urun oinit u0 (c_ops c) in
  forallb wf_reg (c_init c) &&
  list_eqb ans_eqb a (c_answers c) &&
  list_eqb (list_eqb (list_eqb pair_eqb)) (map (map listing) uf) (c_final c) &&
  list_eqb (list_eqb pair_eqb) (map listing (c_init c)) (c_fresh_after c) &&
  consult_all oinit u0 (c_ops c) (c_consult c).

(* constructors used by the harness (short, monomorphic: the case literals are large and elaboration dominates) *)
Definition oA (i t : nat) (n : string) (p : plugin) (pr : bool) : nat * (nat * op) := (i, (t, Add n p pr)).
Definition oG (i t : nat) (m : string) : nat * (nat * op) := (i, (t, Get m)).
Definition oS (i t : nat) (m : string) : nat * (nat * op) := (i, (t, Sup m)).
Definition oL (i t : nat) : nat * (nat * op) := (i, (t, Lst)).
Definition oF (i t : nat) (m : string) : nat * (nat * op) := (i, (t, Fwd m)).
Definition P (s : string) (n : nat) : string * nat := (s, n).
Definition K (n : nat) (s : string) : nat * string := (n, s).
Definition LP (l : list (string * nat)) := l.
Definition LK (l : list (nat * string)) := l.
Definition tbl (id : nat) (ms : list string) (d : bool) : plugin := {| pid := id; kind := Table ms; disc := d |}.
Definition exa (id : nat) (ms : list string) (d : bool) : plugin := {| pid := id; kind := Exact ms; disc := d |}.
Definition ext (id : nat) : plugin := {| pid := id; kind := External; disc := false |}.

(* an instance of built-in plug-in class k carrying identity id; method tables are the generated ones *)
Definition B (k id : nat) : plugin :=
  match k with
  | 0 => ext id
  | 1 => tbl id scipy_optimizer_plugin_methods true
  | 2 => tbl id scipy_sampler_plugin_methods true
  | 3 => tbl id realization_filter_methods true
  | 4 => tbl id function_estimator_methods true
  | 5 => tbl id plan_handler_methods true
  | 6 => tbl id plan_step_methods true
  | _ => tbl id [] true         (* an entry-point plug-in this check does not know: supports nothing *)
  end.

(* the entry-point content of the pinned tree (the harness prints this name when it observes exactly this) *)
Definition std_init : manager :=
  [ [("external"%string, B 0 0); ("scipy"%string, B 1 1)];
    [("scipy"%string, B 2 2)];
    [("default"%string, B 3 3)];
    [("default"%string, B 4 4)];
    [("default"%string, B 5 5)];
    [("default"%string, B 6 6)] ].
Definition std_listing : list (list (string * nat)) := map listing std_init.
