(* Check/Chk_C19.v -- correspondence checker for C19: the implementation's answers to an operation
   sequence on one or several real PluginManager instances vs. Model/Registry.v. *)
From Coq Require Import List Bool Arith String.
From Ropt Require Import Base.ListX Model.Registry Gen.Generated.
Import ListNotations.

Record case := {
  c_init : registry;                  (* content of a fresh manager (entry points), in order *)
  c_managers : nat;
  c_ops : list (nat * op);            (* (manager index, operation) *)
  c_answers : list ans;               (* implementation answers *)
  c_final : list (list string)        (* implementation: plug-in names of every manager at the end *)
}.

Definition ans_eqb (a b : ans) : bool :=
  match a, b with
  | AOk, AOk | AErr, AErr => true
  | APlug x, APlug y => Nat.eqb x y
  | ABool x, ABool y => Bool.eqb x y
  | _, _ => false
  end.

Definition check_case (c : case) : bool :=
  let (a, uf) := urun (c_init c) (repeat (c_init c) (c_managers c)) (c_ops c) in
  list_eqb ans_eqb a (c_answers c) &&
  list_eqb (list_eqb String.eqb) (map names uf) (c_final c).

(* constructors used by the harness *)
Definition tbl (id : nat) (ms : list string) (d : bool) : plugin := {| pid := id; kind := Table ms; disc := d |}.
Definition ext (id : nat) : plugin := {| pid := id; kind := External; disc := false |}.
