(* Check/Chk_C18.v -- correspondence checker for C18.
   One case = one configuration dictionary (after the array conversions: every array field a list; the number of dimensions each
   array was given with and the index arrays travel beside it),
   an optional VariableScaler and optional non-linear constraint scales as validation context.  Observations of the real code: the result of
   EnOptConfig.model_validate (canonical fields, or None when it raised a ValidationError), whether
   validating the validated object returns it, the result of validating its dump and the JSON round
   trip of its dump without a context, and the reachability sweep (per pydantic class: fields probed /
   assignments accepted; arrays probed / writable).  [check_case] runs Model/Config.v [validate_full] on the
   raw input and compares field by field (reals with Num.close, discrete fields exactly), evaluates the
   canonical-form clauses directly on the observation, compares the re-validated results (dump, JSON) with the first one (the dictionary of the
   validated sub-objects, the second round and the whole dumps are compared by the Python oracle), requires the result of a second spelling of the same dictionary to be
   identical, and compares the accepted assignments with the flag map of the generated class table and the fields found
   holding arrays with the generated table of array fields.  A case whose accepted
   configuration holds NaN/inf where the model has a rational (k_bad) fails. *)
From Coq Require Import String.
From Coq Require Import QArith Qabs ZArith List Bool Arith.
From Ropt Require Import Base.Num Base.ListX Gen.Generated Model.Config Gen.Gen_C18.
Import ListNotations.
Open Scope Q_scope.

Record case := {
  k_S : Q;                                  (* largest input magnitude *)
  k_bad : bool;                             (* the accepted configuration holds NaN/inf where a finite number is required *)
  k_ctx : option scaler;                    (* VariableScaler of the validation context *)
  k_nls : option (list Q);                  (* scales of the non-linear constraint transform of the context *)
  k_dims : list (string * nat);             (* per array field given: its array type, dimensions of the value given *)
  k_ix : indices;                           (* the index arrays given *)
  k_raw : config;
  k_out : option (config * indices);        (* None = ValidationError *)
  k_same : bool;                            (* model_validate(validated object), without and with the context, yields a
                                               configuration with the identical dump and leaves the object unchanged *)
  k_dump : option (config * indices);                   (* model_validate(model_dump(round_trip=True)) *)
  k_json : option (config * indices);                   (* model_validate(json.loads(json.dumps(dump))) *)
  k_spell : option (config * indices);                  (* the same dictionary spelled differently (tuples, ndarrays, numpy scalars, enum
                                               members, scalars written out to full length, sections as instances), same context;
                                               the first result again when the case carries no second spelling *)
  k_classes : list (string * (nat * nat));  (* pydantic class, (fields probed, assignments accepted) *)
  k_arrays : nat * nat;                     (* ndarrays probed, writable ones *)
  k_array_fields : list (string * string)   (* (class, field) of every field found holding an ndarray *)
}.

(* ---- tolerant comparison of configurations (x = implementation, m = model) ----------------------- *)
Definition qs_close (S : Q) (x m : list Q) : bool := forallb2 (close S) x m.
Definition es_close (S : Q) (x m : list ereal) : bool := forallb2 (eclose S) x m.
Definition zs_eqb (x m : list Z) : bool := list_eqb Z.eqb x m.

Definition variables_close S (x m : variables) : bool :=
  qs_close S (v_initial x) (v_initial m) && es_close S (v_lower x) (v_lower m) && es_close S (v_upper x) (v_upper m)
  && option_eqb zs_eqb (v_types x) (v_types m) && option_eqb (list_eqb Bool.eqb) (v_mask x) (v_mask m).
Definition gradient_close S (x m : gradient) : bool :=
  Nat.eqb (g_P x) (g_P m) && option_eqb Nat.eqb (g_pmin x) (g_pmin m) && qs_close S (g_mags x) (g_mags m)
  && zs_eqb (g_ptypes x) (g_ptypes m) && zs_eqb (g_btypes x) (g_btypes m).
Definition linear_close S (x m : linear) : bool :=
  forallb2 (qs_close S) (l_coeffs x) (l_coeffs m) && es_close S (l_lower x) (l_lower m) && es_close S (l_upper x) (l_upper m).
Definition nonlinear_close S (x m : nonlinear) : bool :=
  es_close S (n_lower x) (n_lower m) && es_close S (n_upper x) (n_upper m).
Definition config_close S (x m : config) : bool :=
  variables_close S (c_vars x) (c_vars m) && qs_close S (c_obj_w x) (c_obj_w m) && qs_close S (c_real_w x) (c_real_w m)
  && option_eqb Nat.eqb (c_rmin x) (c_rmin m) && gradient_close S (c_grad x) (c_grad m)
  && option_eqb (linear_close S) (c_lin x) (c_lin m) && option_eqb (nonlinear_close S) (c_nonlin x) (c_nonlin m).

(* ---- the canonical-form clauses evaluated directly on the observed configuration ------------------- *)
Definition len_is {A} (n : nat) (l : list A) : bool := Nat.eqb (length l) n.
Definition olen_is {A} (n : nat) (o : option (list A)) : bool := match o with None => true | Some l => len_is n l end.
Definition le_opt (o : option nat) (n : nat) : bool := match o with Some k => Nat.leb k n | None => false end.

Definition canonical_obs (c : config) : bool :=
  let V := length (v_initial (c_vars c)) in
  close 1 (qsum (c_obj_w c)) 1 && close 1 (qsum (c_real_w c)) 1
  && len_is V (v_lower (c_vars c)) && len_is V (v_upper (c_vars c)) && olen_is V (v_types (c_vars c)) && olen_is V (v_mask (c_vars c))
  && len_is V (g_mags (c_grad c)) && len_is V (g_ptypes (c_grad c)) && len_is V (g_btypes (c_grad c))
  && le_opt (c_rmin c) (length (c_real_w c)) && le_opt (g_pmin (c_grad c)) (g_P (c_grad c))
  && negb (any_gt (v_lower (c_vars c)) (v_upper (c_vars c)))
  && match c_lin c with None => true | Some l =>
       len_is (length (l_coeffs l)) (l_lower l) && len_is (length (l_coeffs l)) (l_upper l)
       && forallb (len_is V) (l_coeffs l) && negb (any_gt (l_lower l) (l_upper l)) end
  && match c_nonlin c with None => true | Some nl =>
       Nat.eqb (length (n_lower nl)) (length (n_upper nl)) && negb (any_gt (n_lower nl) (n_upper nl)) end.

(* ---- frozenness: accepted assignments per class vs the generated flag table ------------------------ *)
Definition class_ok (e : string * (nat * nat)) : bool :=
  match find_class config_classes (fst e) with
  | None => false                                  (* a reachable pydantic class the table does not know *)
  | Some c => Bool.eqb (Nat.eqb (snd (snd e)) 0) (final_immutable c)
  end.

Definition revalidated_ok S (first : config * indices) (again : option (config * indices)) : bool :=
  match again with Some (c, i) => config_close S c (fst first) && indices_eqb i (snd first) | None => false end.

(* a second spelling of the same dictionary gives the very same configuration: identical rationals, not merely close ones
   (theorem C18_spelling_irrelevant: the model's outcome is the same term) *)
Definition respelled_ok (first : config * indices) (again : option (config * indices)) : bool :=
  match again with Some (c, i) => equiv c (fst first) && indices_eqb i (snd first) | None => false end.

(* the index arrays of the observation have one entry per variable / objective / non-linear constraint *)
Definition index_obs (c : config) (i : indices) : bool :=
  olen_is (length (v_initial (c_vars c))) (i_samplers i)
  && olen_is (length (c_obj_w c)) (i_obj_filters i) && olen_is (length (c_obj_w c)) (i_obj_estimators i)
  && olen_is (nonlinear_count c) (i_nl_filters i) && olen_is (nonlinear_count c) (i_nl_estimators i).

(* every field seen holding an ndarray is an array field of the generated table (whose stores and converters the theorems
   C18_arrays_stored_immutable / C18_array_types_converted are about) *)
Definition array_field_known (p : string * string) : bool :=
  existsb (fun e : string * list string => String.eqb (fst e) (fst p) && existsb (String.eqb (snd p)) (snd e)) array_fields.

Definition check_case (k : case) : bool :=
  negb (k_bad k) &&
  match validate_full gen_enums array_ndims (k_ctx k) (k_nls k) (k_dims k) (k_ix k) (k_raw k), k_out k with
  | Ok (m, mi), Some (o, oi) =>
      config_close (k_S k) o m && indices_eqb oi mi && canonical_obs o && index_obs o oi && k_same k
      && revalidated_ok (k_S k) (o, oi) (k_dump k) && revalidated_ok (k_S k) (o, oi) (k_json k)
      && respelled_ok (o, oi) (k_spell k)
      && forallb class_ok (k_classes k) && Nat.eqb (snd (k_arrays k)) 0
      && forallb array_field_known (k_array_fields k)
  | Reject, None => true
  | _, _ => false
  end.

(* constructors used by the harness *)
Definition mk_vars := Build_variables.
Definition mk_grad := Build_gradient.
Definition mk_lin := Build_linear.
Definition mk_nonlin := Build_nonlinear.
Definition mk_config := Build_config.
Definition mk_scaler := Build_scaler.
Definition mk_ix := Build_indices.
