(* Check/Chk_C20.v -- correspondence checker for C20.
   A case carries what the harness observed of two REAL runs of the same configuration: the in-process
   run and the run through external/<method> with the PATH wrapper (optionally with a fault).  The
   in-process callback sequence is replayed as the child's script through Model/Pipe.v; the model's
   prediction (result, callback trace with evaluator calls and delivered results, messages on the wire,
   final child state) is compared exactly with the observation of the external run, and the property's
   clauses are evaluated directly on the observation. *)
From Coq Require Import List Bool Arith ZArith QArith String.
From Ropt Require Import Base.Num Base.ListX Model.Framing Model.Pipe Gen.Generated.
Import ListNotations.
Local Open Scope string_scope.
Local Open Scope list_scope.

Inductive oobs := OExit (code : Z) | ORaise (cls : string) | OHang.

Record case := {
  c_cfg : jv;                       (* the config message (digest of the JSON the parent sent) *)
  c_cfg_rt : bool;                  (* dump -> JSON -> validate -> dump is the identity *)
  c_x0 : list fl;
  c_inproc : list exchange;         (* in-process: callbacks in order *)
  c_end : action;                   (* in-process: Stop, or Fail msg when the optimizer itself raised *)
  c_inproc_out : oobs;
  c_inproc_best : list fl;
  c_fault : fault;
  c_raise : option (nat * string);  (* wrapper fault raise:j:kind -- the optimizer's j-th callback raises inside the child
                                       an exception whose str() is the given message (also the empty one) *)
  c_ext : list exchange;            (* external: callbacks in the parent, in order *)
  c_ext_out : oobs;
  c_ext_best : list fl;
  c_pwire : list wev;               (* parent: WR = read, WW = written *)
  c_cwire : list wev;               (* child: WW = written (requests), WR = read (answers) *)
  c_fault_fired : bool;             (* the wrapper logged that it killed / exited the child *)
  c_child_started : bool;
  c_child_alive : bool;             (* child pid alive after the step returned / raised *)
  c_leftovers : nat;                (* files left in the FIFO directory *)
  c_stray : nat;                    (* evaluator calls / results outside any callback *)
  c_files_ok : bool;                (* optimizer.stdout / stderr files exist where configured, in both runs *)
  c_framing : list (list (list (nat * nat)) * list (list (list (nat * nat))));
                                    (* framing probe: per feed, the pieces written into a real FIFO and, per piece, the
                                       messages the real _JSONPipeCommunicator.read returned when polled until None
                                       (byte codes, run-length encoded); compared with Model/Framing.v's reader *)
  c_wall_ms : Z
}.

(* ---- framing: the model reader (Model/Framing.v, bytes as nat, newline = 10, delimiter "--READY--") on the probe's feeds *)
Definition expand (r : list (nat * nat)) : list nat := flat_map (fun p => repeat (fst p) (snd p)) r.
Definition delim_bytes : list nat := [45; 45; 82; 69; 65; 68; 89; 45; 45]%nat.
Definition framing_agrees (f : list (list (nat * nat)) * list (list (list (nat * nat)))) : bool :=
  list_eqb (list_eqb (list_eqb Nat.eqb))
           (Model.Framing.run_trace nat Nat.eq_dec 10%nat delim_bytes [] (map expand (fst f)))
           (map (map expand) (snd f)).

(* the run must end within _PROCESS_TIMEOUT + this many seconds (the machine may be heavily loaded; a hang is
   unbounded, so any bound shows it) *)
Definition wall_slack : Q := 90.

(* ---- equality on observations (exact) ---------------------------------------------------------- *)
Definition tensor_eqb (a b : tensor) : bool :=
  match a, b with
  | T1 x, T1 y => list_eqb Z.eqb x y
  | T2 x, T2 y => list_eqb (list_eqb Z.eqb) x y
  | _, _ => false
  end.
Definition evres_eqb (a b : evres) : bool :=
  match a, b with
  | EvOk f g, EvOk f' g' => tensor_eqb f f' && tensor_eqb g g'
  | EvAbort c, EvAbort c' => Z.eqb c c'
  | EvRaise s, EvRaise s' => String.eqb s s'
  | _, _ => false
  end.
Definition exchange_eqb (a b : exchange) : bool :=
  tensor_eqb (x_v a) (x_v b) && Bool.eqb (x_rf a) (x_rf b) && Bool.eqb (x_rg a) (x_rg b) &&
  evres_eqb (x_res a) (x_res b) && list_eqb (list_eqb Z.eqb) (x_eff a) (x_eff b).

(* JSON equality; objects are compared as maps (key order is not information) *)
Fixpoint jv_same (a b : jv) {struct a} : bool :=
  match a, b with
  | JArr l, JArr m =>
      (fix go (l m : list jv) {struct l} : bool :=
         match l, m with
         | [], [] => true
         | x :: l', y :: m' => jv_same x y && go l' m'
         | _, _ => false
         end) l m
  | JObj l, JObj m =>
      Nat.eqb (List.length l) (List.length m) &&
      (fix go (l : list (string * jv)) {struct l} : bool :=
         match l with
         | [] => true
         | (k, x) :: l' => match jget k m with Some y => jv_same x y | None => false end && go l'
         end) l
  | _, _ => jv_eqb a b
  end.
Definition wev_same (a b : wev) : bool :=
  match a, b with
  | WR x, WR y | WW x, WW y => jv_same x y
  | _, _ => false
  end.

Definition reads (w : list wev) : list jv := flat_map (fun e => match e with WR j => [j] | WW _ => [] end) w.
Definition writes (w : list wev) : list jv := flat_map (fun e => match e with WW j => [j] | WR _ => [] end) w.
Fixpoint is_prefix (a b : list jv) : bool :=
  match a, b with
  | [], _ => true
  | x :: a', y :: b' => jv_same x y && is_prefix a' b'
  | _ :: _, [] => false
  end.

(* ---- the case as model inputs ------------------------------------------------------------------- *)
Definition script_of (tbl : list exchange) (fin : action) : list action :=
  map (fun x => Ask (x_v x) (x_rf x) (x_rg x)) tbl ++ [fin].

(* the user's side, as observed in the in-process run *)
Definition table_evaluator (tbl : list exchange) : evaluator :=
  fun i v rf rg =>
    match nth_error tbl i with
    | Some x => if tensor_eqb v (x_v x) && Bool.eqb rf (x_rf x) && Bool.eqb rg (x_rg x)
                then (x_res x, x_eff x) else (EvRaise "verif: request differs from the in-process one", [])
    | None => (EvRaise "verif: more callbacks than in the in-process run", [])
    end.

Definition finished_code : Z :=
  match find (fun p => String.eqb (fst p) "OPTIMIZER_STEP_FINISHED") enum_OptimizerExitCode with
  | Some p => snd p
  | None => (-1)%Z
  end.

Definition success (o : oobs) : bool := match o with OExit c => Z.eqb c finished_code | _ => false end.

Definition matches_inproc (m : outcome) (o : oobs) : bool :=
  match m, o with
  | Exit c, OExit c' => Z.eqb c c'
  | Error (ExUser _), ORaise _ => true                 (* the evaluator's exception, possibly wrapped by the optimizer library
                                                          on its way out (SciPy's differential_evolution turns a ValueError /
                                                          TypeError of the callback into RuntimeError); the class of the
                                                          exception raised in the callback itself is in the trace *)
  | Error (ExOptimizer _), ORaise _ => true            (* the optimizer's own exception *)
  | _, _ => false
  end.
Definition matches_ext (m : outcome) (o : oobs) : bool :=
  match m, o with
  | Exit c, OExit c' => Z.eqb c c'
  | Error (ExUser cls), ORaise cls' => String.eqb cls cls'
  | Error (ExOptimizer _), ORaise cls => String.eqb cls "RuntimeError"
  | Error (ExDeath _), ORaise _ => true                (* any error; messages/classes of OS errors are not compared *)
  | Error ExPipe, ORaise _ => true                     (* OSError (ENXIO at the first open) / BrokenPipeError *)
  | _, _ => false
  end.
Definition same_outcome (a b : oobs) : bool :=
  match a, b with
  | OExit c, OExit c' => Z.eqb c c'
  | ORaise _, ORaise _ => true
  | _, _ => false
  end.

Definition faulted (c : case) : bool :=
  match c_fault c, c_raise c with NoFault, None => false | _, _ => true end.

(* ---- model vs. observation ---------------------------------------------------------------------- *)
Definition model_agrees (c : case) : bool :=
  let tbl := c_inproc c in
  let s0 := script_strategy (script_of tbl (c_end c)) in
  let s := match c_raise c with Some (j, msg) => with_raise j msg s0 | None => s0 end in
  let ev := table_evaluator tbl in
  let fuel := (List.length tbl + 4)%nat in
  match inproc fuel ev (s0 (c_cfg c) (c_x0 c)) [] [] with
  | Some (r, tr) =>
      list_eqb exchange_eqb tr tbl && matches_inproc (step_outcome finished_code r) (c_inproc_out c)
  | None => false
  end &&
  match ext_run ev s (c_fault c) (c_cfg c) (c_x0 c) (sync fuel) with
  | Some (r, st) =>
      list_eqb exchange_eqb (p_trace (s_par st)) (c_ext c) &&
      matches_ext (step_outcome finished_code r) (c_ext_out c) &&
      list_eqb wev_same (p_wire (s_par st)) (c_pwire c) &&
      Bool.eqb (running (s_child st)) (c_child_alive c) &&
      Bool.eqb (match r with Raise (ExDeath _) | Raise ExPipe => true | _ => false end) (c_fault_fired c)
  | None => false
  end.

(* ---- the property's clauses on the observation alone -------------------------------------------- *)
Definition property_holds (c : case) : bool :=
  c_cfg_rt c && c_child_started c && Nat.eqb (c_stray c) 0 && c_files_ok c && forallb framing_agrees (c_framing c) &&
  (* (a) no fault: same callbacks, evaluations, results, exit code, optimum *)
  (faulted c ||
   (list_eqb exchange_eqb (c_ext c) (c_inproc c) && same_outcome (c_ext_out c) (c_inproc_out c) &&
    list_eqb Z.eqb (c_ext_best c) (c_inproc_best c))) &&
  (* (a) lossless channel: both ends saw the same messages (the child may miss the last answer when it
     is terminated right after it was sent) *)
  list_eqb jv_same (writes (c_cwire c)) (reads (c_pwire c)) &&
  is_prefix (reads (c_cwire c)) (writes (c_pwire c)) &&
  Nat.leb (List.length (writes (c_pwire c))) (S (List.length (reads (c_cwire c)))) &&
  (* (b) death or an error report is never success; the evaluations made are a prefix *)
  (negb (c_fault_fired c || existsb (fun j => match dec_request j with Some (RError _) => true | _ => false end)
                                     (reads (c_pwire c)))
   || negb (success (c_ext_out c))) &&
  (negb (faulted c) ||
   list_eqb exchange_eqb (c_ext c) (firstn (List.length (c_ext c)) (c_inproc c))) &&
  (* (b) never hangs *)
  match c_ext_out c with OHang => false | _ => true end &&
  Qleb (inject_Z (c_wall_ms c) / 1000) (process_timeout + wall_slack) &&
  (* (c) no optimizer process, no FIFO left *)
  negb (c_child_alive c) && Nat.eqb (c_leftovers c) 0.

Definition check_case (c : case) : bool := model_agrees c && property_holds c.

(* constructors used by the harness *)
Definition X (v : tensor) (rf rg : bool) (res : evres) (eff : list effect) : exchange :=
  {| x_v := v; x_rf := rf; x_rg := rg; x_res := res; x_eff := eff |}.
