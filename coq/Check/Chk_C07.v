(* Check/Chk_C07.v -- correspondence checker for C07.  One case = one configuration of the SciPy
   plug-in (method, speculative, split_evaluations, constraints) with the oracle table of ensemble
   values at the pool points (computed by fresh, cache-free evaluations) and a block of request
   sequences, each with what the real callables returned and which callback / evaluator calls the
   real code made.  The model (Model/ScipyCache.v) is run on every sequence and compared. *)
From Coq Require Import QArith List Bool Arith String.
From Ropt Require Import Base.Num Base.ListX Gen.Generated Model.ScipyProblem Model.ScipyCache.
Import ListNotations.

Definition item := (op * nat * list (inv * evcall))%type.
    (* one request as observed: the request, index into k_vals of the returned value, the observed
       (callback invocation, evaluator call) pairs *)

Record case := {
  k_problem : problem;
  k_spec : bool;
  k_split : bool;
  k_F : list fval;                 (* oracle: functions at pool point i *)
  k_G : list gval;                 (* oracle: gradients at pool point i *)
  k_X : list (list Q);             (* coordinates (free variables) of pool point i *)
  k_S : Q;                         (* largest magnitude, for the tolerance *)
  k_vals : list ret;               (* the distinct values returned by the real callables *)
  k_items : list item;             (* the distinct observed requests (interned) *)
  k_chain : bool;                  (* true: the sequences ran one after the other on ONE plug-in object
                                      and ONE EnsembleEvaluator (start() called once per sequence);
                                      false: a fresh plug-in + evaluator per sequence *)
  k_seqs : list (list nat)         (* per sequence: indices into k_items *)
}.

Definition vec_close (S : Q) (a b : list Q) : bool := forallb2 (close S) a b.
Definition ret_close (S : Q) (obs model : ret) : bool :=
  match obs, model with
  | RVec a, RVec b => vec_close S a b
  | RMat a, RMat b => forallb2 (vec_close S) a b
  | RErr, RErr => true
  | _, _ => false
  end.

Definition inv_eqb (a b : inv) : bool :=
  let '(x, f, g) := a in let '(y, f', g') := b in pt_eqb x y && Bool.eqb f f' && Bool.eqb g g'.
Definition ev_eqb (a b : evcall) : bool :=
  match a, b with
  | EvF x, EvF y => pt_eqb x y
  | EvG i, EvG j | EvFG i, EvFG j => Nat.eqb i j
  | EvBad, EvBad => true
  | _, _ => false
  end.
Definition call_eqb (a b : inv * evcall) : bool := inv_eqb (fst a) (fst b) && ev_eqb (snd a) (snd b).

Definition check_seq (Fp : nat -> fval) (Gp : nat -> gval) (Xp : nat -> list Q) (c : config)
    (S : Q) (vals : list ret) (seq : list item) (model : list (ret * list (inv * evcall))) : bool :=
  forallb2 (fun (t : item) (m : ret * list (inv * evcall)) =>
              let '(o, vi, calls) := t in
              match nth_error vals vi with
              | Some v =>
                  (* implementation == model *)
                  ret_close S v (fst m) && list_eqb call_eqb calls (snd m) &&
                  (* the property's clauses evaluated directly on the observation *)
                  ret_close S v (expected Fp Gp Xp c o) &&
                  forallb (fun ce => let '(x, rf, rg) := fst ce in
                                     pt_eqb x (op_pt o) &&
                                     negb (c_nograd c && rg) && negb (c_split c && rf && rg)) calls
              | None => false
              end) seq model.

Fixpoint resolve (items : list item) (seq : list nat) : option (list item) :=
  match seq with
  | [] => Some []
  | i :: t => match nth_error items i, resolve items t with
              | Some x, Some l => Some (x :: l)
              | _, _ => None
              end
  end.
Fixpoint resolve_all (items : list item) (seqs : list (list nat)) : option (list (list item)) :=
  match seqs with
  | [] => Some []
  | s :: t => match resolve items s, resolve_all items t with
              | Some x, Some l => Some (x :: l)
              | _, _ => None
              end
  end.
Definition ops_of (seq : list item) : list op := map (fun t => fst (fst t)) seq.

Definition check_case (k : case) : bool :=
  match make_config (k_problem k) (k_spec k) (k_split k), resolve_all (k_items k) (k_seqs k) with
  | Some c, Some seqs =>
      let Fp := fun i => nth i (k_F k) (0, []) in
      let Gp := fun i => nth i (k_G k) ([], []) in
      let Xp := fun i => nth i (k_X k) [] in
      if k_chain k then
        forallb2 (check_seq Fp Gp Xp c (k_S k) (k_vals k)) seqs
                 (run_chain Fp Gp Xp c empty None (map ops_of seqs))
      else
        forallb (fun seq => check_seq Fp Gp Xp c (k_S k) (k_vals k) seq
                              (run_ev Fp Gp Xp c empty None (ops_of seq))) seqs
  | _, _ => false
  end.

(* short constructors for the harness *)
Definition S_ := Single.
Definition B_ := Batch.
Definition I_ (x : pt) (rf rg : bool) (e : evcall) : inv * evcall := ((x, rf, rg), e).
