(* Check/Chk_C07.v -- correspondence checker for C07.  One case = one configuration of the SciPy
   plug-in (method, speculative, split_evaluations, constraints) with the oracle table of ensemble
   values at the pool points (computed by fresh, cache-free evaluations) and a block of request
   sequences, each with what the real callables returned and which callback / evaluator calls the
   real code made.  The model (Model/ScipyCache.v) is run on every sequence and compared. *)
From Coq Require Import QArith List Bool Arith String.
From Ropt Require Import Base.Num Base.ListX Gen.Generated Model.ScipyProblem Model.ScipyCache.
Import ListNotations.

Record case := {
  k_problem : problem;
  k_spec : bool;
  k_split : bool;
  k_F : list fval;                 (* oracle: functions at pool point i *)
  k_G : list gval;                 (* oracle: gradients at pool point i *)
  k_X : list (list Q);             (* coordinates (free variables) of pool point i *)
  k_S : Q;                         (* largest magnitude, for the tolerance *)
  k_vals : list ret;               (* the distinct values returned by the real callables *)
  k_seqs : list (list (op * nat * list (inv * evcall)))
      (* per request: the request, index into k_vals of the returned value, the observed
         (callback invocation, evaluator call) pairs *)
}.

Definition vec_close (S : Q) (a b : list Q) : bool := forallb2 (close S) a b.
Definition ret_close (S : Q) (obs model : ret) : bool :=
  match obs, model with
  | RVec a, RVec b => vec_close S a b
  | RMat a, RMat b => forallb2 (vec_close S) a b
  | RErr, RErr => true
  | _, _ => false
  end.

Definition inv_eqb (a b : inv) : bool :=
  let '(x, f, g) := a in let '(y, f', g') := b in pt_eqb x y && Bool.eqb f f' && Bool.eqb g g'.
Definition ev_eqb (a b : evcall) : bool :=
  match a, b with
  | EvF x, EvF y => pt_eqb x y
  | EvG i, EvG j | EvFG i, EvFG j => Nat.eqb i j
  | EvBad, EvBad => true
  | _, _ => false
  end.
Definition call_eqb (a b : inv * evcall) : bool := inv_eqb (fst a) (fst b) && ev_eqb (snd a) (snd b).

Definition check_seq (Fp : nat -> fval) (Gp : nat -> gval) (Xp : nat -> list Q) (c : config)
    (S : Q) (vals : list ret) (seq : list (op * nat * list (inv * evcall))) : bool :=
  let model := run_ev Fp Gp Xp c empty None (map (fun t => fst (fst t)) seq) in
  forallb2 (fun (t : op * nat * list (inv * evcall)) (m : ret * list (inv * evcall)) =>
              let '(o, vi, calls) := t in
              match nth_error vals vi with
              | Some v =>
                  (* implementation == model *)
                  ret_close S v (fst m) && list_eqb call_eqb calls (snd m) &&
                  (* the property's clauses evaluated directly on the observation *)
                  ret_close S v (expected Fp Gp Xp c o) &&
                  forallb (fun ce => let '(_, rf, rg) := fst ce in
                                     negb (c_nograd c && rg) && negb (c_split c && rf && rg)) calls
              | None => false
              end) seq model.

Definition check_case (k : case) : bool :=
  match make_config (k_problem k) (k_spec k) (k_split k) with
  | None => false
  | Some c =>
      let Fp := fun i => nth i (k_F k) (0, []) in
      let Gp := fun i => nth i (k_G k) ([], []) in
      let Xp := fun i => nth i (k_X k) [] in
      forallb (check_seq Fp Gp Xp c (k_S k) (k_vals k)) (k_seqs k)
  end.

(* short constructors for the harness *)
Definition S_ := Single.
Definition B_ := Batch.
Definition I_ (x : pt) (rf rg : bool) (e : evcall) : inv * evcall := ((x, rf, rg), e).
