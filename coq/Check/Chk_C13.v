(* Check/Chk_C13.v -- correspondence checker for C13: ConstraintInfo.create / __post_init__ /
   transform_from_optimizer and _violates_constraint of the real code vs Model/ConstraintInfo.v. *)
From Coq Require Import QArith List Bool.
From Ropt Require Import Base.Num Base.ListX Model.ConstraintInfo.
Import ListNotations.
Open Scope Q_scope.

(* the back-transformation part of a case (present when the run used transforms) *)
Record trpart := {
  t_var : option (list Q);        (* VariableScaler scales (None: no variable transform / no scales) *)
  t_eq : option (list Q);         (* equation scaling held by the scaler *)
  t_nl : option (list Q);         (* non-linear constraint scaler factors *)
  t_obs : option cinfo;           (* implementation: constraint info after transform_from_optimizer *)
  t_violates : bool;              (* implementation: _violates_constraint on the back-transformed result *)
  t_ucfg : ccfg;                  (* the user-domain configuration, point and constraint values *)
  t_ux : list Q;
  t_ucons : option (list Q)
}.

(* one function result: the call of create() that produced it and what the implementation reported *)
Record rcase := {
  c_S : Q;                        (* largest input magnitude (tolerance scale) *)
  c_cfg : ccfg;                   (* validated configuration create() was called with *)
  c_x : list Q;                   (* variables passed to create() *)
  c_cons : option (list Q);       (* non-linear constraint values passed to create() *)
  c_tol : option Q;
  c_err : bool;                   (* implementation raised AssertionError in create() *)
  c_obs : option cinfo;           (* implementation: the ConstraintInfo (None when create returned None) *)
  c_violates : bool;              (* implementation: _violates_constraint(result, tol) *)
  c_tr : option trpart
}.

(* what the trackers of an end-to-end run retained: all delivered function results in delivery order (the first
   one is the main result of the case), for each whether it has function values and its weighted objective, and
   the index of the result retained by a "last" tracker, by a "best" tracker / BasicOptimizer (None: nothing) *)
Record trk := {
  k_fun : list bool;
  k_obj : list (option Q);
  k_has_last : bool; k_last : option nat;      (* k_has_*: such a tracker was attached *)
  k_has_best : bool; k_best : option nat
}.

Record case := { c_main : rcase; c_rest : list rcase; c_trk : option trk }.

Definition elist_close (S : Q) (a b : list ereal) : bool := forallb2 (eclose S) a b.
Definition fam_close (S : Q) (o m : option family) : bool :=
  match o, m with
  | Some o, Some m => elist_close S (f_lower o) (f_lower m) && elist_close S (f_upper o) (f_upper m)
                      && elist_close S (f_viol o) (f_viol m)
  | None, None => true
  | _, _ => false
  end.
Definition info_close (S : Q) (o m : option cinfo) : bool :=
  match o, m with
  | Some o, Some m => fam_close S (ci_bound o) (ci_bound m) && fam_close S (ci_linear o) (ci_linear m)
                      && fam_close S (ci_nonlinear o) (ci_nonlinear m)
  | None, None => true
  | _, _ => false
  end.

(* the property's violation formula evaluated directly on the reported differences: exact *)
Definition fam_consistent (o : option family) : bool :=
  match o with
  | Some f => list_eqb eeqb (f_viol f) (zipw viol1 (f_lower f) (f_upper f))
              && Nat.eqb (length (f_lower f)) (length (f_upper f))
  | None => true
  end.
Definition info_consistent (o : option cinfo) : bool :=
  match o with
  | Some ci => fam_consistent (ci_bound ci) && fam_consistent (ci_linear ci) && fam_consistent (ci_nonlinear ci)
  | None => true
  end.

Definition check_tr (S : Q) (tol : option Q) (obs : option cinfo) (t : trpart) : bool :=
  (* transform_from_optimizer of the model applied to the implementation's optimizer-domain info *)
  info_close S (t_obs t)
    (match obs with Some ci => Some (cinfo_from_opt (t_var t) (t_eq t) (t_nl t) ci) | None => None end)
  && info_consistent (t_obs t)
  && Bool.eqb (t_violates t) (violates tol (t_obs t))
  (* ... and it equals what the model computes directly in the user domain (C13_transform) *)
  && info_close S (t_obs t) (info_of (create (t_ucfg t) (t_ux t) (t_ucons t))).

Definition check_rcase (c : rcase) : bool :=
  let m := create (c_cfg c) (c_x c) (c_cons c) in
  match m with
  | CErr => c_err c
  | _ =>
    negb (c_err c)
    && info_close (c_S c) (c_obs c) (info_of m)
    && info_consistent (c_obs c)
    && Bool.eqb (c_violates c) (violates (c_tol c) (c_obs c))
    && match c_tr c with Some t => check_tr (c_S c) (c_tol c) (c_obs c) t | None => true end
  end.

Fixpoint zip3 {A B C D} (f : A -> B -> C -> D) (a : list A) (b : list B) (c : list C) : list D :=
  match a, b, c with x :: a', y :: b', z :: c' => f x y z :: zip3 f a' b' c' | _, _, _ => [] end.
Definition onat_eqb (a b : option nat) : bool :=
  match a, b with Some x, Some y => Nat.eqb x y | None, None => true | _, _ => false end.

(* the trackers judge the item the tolerance test is applied to (the optimizer-domain result): the retained
   index must be the one the model selects from the reported constraint information -- exact *)
Definition check_trk (tol : option Q) (all : list rcase) (k : trk) : bool :=
  let items := zip3 (fun f o r => {| ti_fun := f; ti_obj := o; ti_info := c_obs r |}) (k_fun k) (k_obj k) all in
  Nat.eqb (length items) (length all) && Nat.eqb (length (k_fun k)) (length all) && Nat.eqb (length (k_obj k)) (length all)
  && (negb (k_has_last k) || onat_eqb (k_last k) (tracked_last tol items))
  && (negb (k_has_best k) || onat_eqb (k_best k) (tracked_best tol items)).

Definition check_case (c : case) : bool :=
  check_rcase (c_main c) && forallb check_rcase (c_rest c)
  && match c_trk c with
     | Some k => check_trk (c_tol (c_main c)) (c_main c :: c_rest c) k
     | None => true
     end.

(* constructors used by the harness *)
Definition fam (l u v : list ereal) : family := {| f_lower := l; f_upper := u; f_viol := v |}.
Definition info (b l n : option family) : cinfo := {| ci_bound := b; ci_linear := l; ci_nonlinear := n |}.
Definition lin (A : list (list Q)) (l u : list ereal) : lincfg := {| l_coef := A; l_lower := l; l_upper := u |}.
Definition cfg (vl vu : list ereal) (l : option lincfg) (n : option (list ereal * list ereal)) : ccfg :=
  {| v_lower := vl; v_upper := vu; c_linear := l; c_nonlinear := n |}.
