(* Check/Chk_C14.v -- correspondence checker for C14: outcome, delivered results, event list, number of
   evaluator calls and Plan.aborted flags of a real optimizer / evaluator step (optionally with nested
   optimizations to any depth, optionally run through BasicOptimizer) under a fault script vs.
   Model/Step.v; plus the property's clauses evaluated directly on the observation. *)
From Coq Require Import String List Bool Arith ZArith QArith.
From Ropt Require Import Base.Num Base.ListX Model.Step Gen.Generated.
Import ListNotations.
Open Scope nat_scope.

Inductive obs_outcome := OExit (z : Z) | OExc (cls : string).

Record case := {
  c_evalstep : bool;             (* true: DefaultEvaluatorStep, false: DefaultOptimizerStep (also through BasicOptimizer) *)
  c_cfg : cfg;
  c_script : list req;
  c_tree : option nscript;       (* optimizer step with nested optimizations: the whole tree (root = c_cfg / c_script) *)
  c_depth : nat;                 (* number of nested plan levels below the plan of the step *)
  c_excls : string;              (* class of the exception raised by the harness' evaluator on an FRaise fault *)
  c_outcome : obs_outcome;       (* implementation: exit code value or exception class *)
  c_delivered : list res;        (* implementation: results seen by the FINISHED_EVALUATION observer *)
  c_groups : list nat;           (* implementation: number of results carried by each FINISHED_EVALUATION event *)
  c_events : list Z;             (* implementation: EventType values seen by the observers, in order *)
  c_calls : nat;                 (* implementation: number of calls of the user's evaluator *)
  c_aborted : list bool          (* implementation: Plan.aborted of the step's plan and of the nested plans, outermost
                                    first ([] when the plan is not observable: BasicOptimizer) *)
}.

Fixpoint lookup (tbl : list (string * Z)) (n : string) : option Z :=
  match tbl with [] => None | (k, v) :: t => if String.eqb k n then Some v else lookup t n end.
Definition code_z (c : code) : Z :=
  match lookup enum_OptimizerExitCode (code_name c) with Some z => z | None => (-1)%Z end.
Definition evt_z (e : evt) : Z :=
  match lookup enum_EventType (evt_name e) with Some z => z | None => (-1)%Z end.

Definition rkind_eqb (a b : rkind) : bool := match a, b with RF, RF | RG, RG => true | _, _ => false end.
Definition res_eqb (a b : res) : bool :=
  rkind_eqb (r_kind a) (r_kind b) && Bool.eqb (r_has a) (r_has b) && Bool.eqb (r_allf a) (r_allf b).

Definition outcome_eqb (cls : string) (m : outcome) (o : obs_outcome) : bool :=
  match m, o with
  | Exit c, OExit z => Z.eqb (code_z c) z
  | Raise, OExc cls' => String.eqb cls' cls       (* the very exception the evaluator raised *)
  | _, _ => false
  end.

(* shapes of the fault masks and the ranking order *)
Definition wf_req (c : cfg) (r : req) : bool :=
  match flt r with
  | FMasks fm pm =>
      (length fm =? Nat.max 1 (batch r)) && forallb (fun row => length row =? nreal c) fm &&
      (length pm =? nreal c) &&
      match rk r with KF => true | _ => batch r =? 0 end
  | _ => true
  end.
Definition wf_cfg (R : nat) (c : cfg) : bool :=
  (nreal c =? R) && (length (order c) =? R) && forallb (fun r => existsb (Nat.eqb r) (order c)) (seq 0 R) &&
  forallb (fun r => r <? R) (zerow c) && (length (zerow c) <? R).
(* requests that trigger a nested run are single-vector F / FG requests (the nested result replaces the point) *)
Fixpoint wf_tree (R : nat) (t : nscript) : bool :=
  match t with
  | NS c items =>
      wf_cfg R c &&
      forallb (fun it =>
                 wf_req c (fst it) &&
                 match snd it with
                 | None => true
                 | Some st =>
                     match rk (fst it) with KG => false | _ => batch (fst it) =? 0 end && wf_tree R st
                 end) items
  end.
Definition root_matches (c : case) (t : nscript) : bool :=
  match t with NS _ items => length items =? length (c_script c) end.
Definition wf_case (c : case) : bool :=
  forallb (wf_req (c_cfg c)) (c_script c) &&
  wf_cfg (nreal (c_cfg c)) (c_cfg c) &&
  (min_stddev =? min_stddev_realizations) &&
  (if c_evalstep c then length (c_script c) =? 1 else true) &&
  match c_tree c with
  | Some t => negb (c_evalstep c) && wf_tree (nreal (c_cfg c)) t && root_matches c t
  | None => c_depth c =? 0
  end.

(* ---- property clauses evaluated directly on the observation ------------------------------------ *)
Definition is_F (r : res) : bool := rkind_eqb (r_kind r) RF.
Fixpoint cache_ok (tr : option nat) (s : list req) : bool :=
  match s with
  | [] => true
  | r :: t =>
      match rk r with
      | KF => cache_ok (Some (pt r)) t
      | KFG => cache_ok None t
      | KG => match tr with Some p => (p =? pt r) && cache_ok tr t | None => false end
      end
  end.
Definition nested (c : case) : bool := match c_tree c with Some _ => true | None => false end.
(* function evaluations never exceed max_functions + (largest batch - 1) *)
Definition budget_ok (c : case) : bool :=
  match maxf (c_cfg c) with
  | Some m =>
      if negb (c_evalstep c) && cache_ok None (c_script c) && negb (nested c) then
        length (filter is_F (c_delivered c)) <=?
          m + (fold_right Nat.max 1 (map (fun r => length (vectors r)) (c_script c)) - 1)
      else true
  | None => true
  end.
Definition has_raise (s : list req) : bool := existsb (fun r => match flt r with FRaise => true | _ => false end) s.
Fixpoint tree_has_raise (t : nscript) : bool :=
  match t with
  | NS _ items =>
      existsb (fun it => match flt (fst it) with FRaise => true | _ => false end ||
                         match snd it with Some st => tree_has_raise st | None => false end) items
  end.
(* an exception leaves the step only when the user's evaluator raised one, and it is that exception *)
Definition no_internal_exception (c : case) : bool :=
  match c_outcome c with
  | OExc cls => (has_raise (c_script c) || match c_tree c with Some t => tree_has_raise t | None => false end) &&
                String.eqb cls (c_excls c)
  | OExit _ => true
  end.
(* every START_EVALUATION is followed by exactly one call of the evaluator (no retry, no skipped call), and the
   FINISHED_EVALUATION events carry all delivered results *)
Definition count_z (z : Z) (l : list Z) : nat := length (filter (Z.eqb z) l).
Definition calls_ok (c : case) : bool :=
  (c_calls c =? count_z (evt_z StartEval) (c_events c)) &&
  (length (c_groups c) =? count_z (evt_z FinEval) (c_events c)) &&
  (fold_right Nat.add 0 (c_groups c) =? length (c_delivered c)).
(* TOO_FEW_REALIZATIONS exactly when the results of the last evaluation say so; an evaluation whose results say so
   ends the run (step without nested optimization: all results belong to one configuration) *)
Definition bad (c : case) (r : res) : bool :=
  negb (r_has r) || (negb (c_evalstep c) && check_failures (c_cfg c) && r_allf r).
Fixpoint split_groups (g : list nat) (d : list res) : list (list res) :=
  match g with [] => [] | n :: t => firstn n d :: split_groups t (skipn n d) end.
Definition few_consistent (c : case) : bool :=
  if nested c then true else
  let gs := split_groups (c_groups c) (c_delivered c) in
  let last_bad := existsb (bad c) (last gs []) in
  forallb (fun g => negb (existsb (bad c) g)) (removelast gs) &&
  match c_outcome c with
  | OExit z => Bool.eqb (Z.eqb z (code_z TooFew)) last_bad
  | OExc _ => negb last_bad
  end.

(* ---- the model's prediction -------------------------------------------------------------------- *)
Definition is_user_abort (o : outcome) : bool := match o with Exit UserAbort => true | _ => false end.
(* (outcome, delivered, events, Plan.aborted flags outermost first) *)
Definition model_obs (c : case) : outcome * list res * list evt * list bool :=
  if c_evalstep c then
    match c_script c with
    | r :: _ => let '(o, d, e) := run_evaluator_step (c_cfg c) r in (o, d, e, [is_user_abort o])
    | [] => (Raise, [], [], [])
    end
  else match c_tree c with
       | Some t =>
           let '(o, d, l, _) := run_tree t [] in
           (o, d, StartOpt :: flat_tr l ++ closing o FinOpt, is_user_abort o :: aborted_below (c_depth c) l)
       | None => let '(o, d, e) := run_optimizer_step (c_cfg c) (c_script c) in (o, d, e, [is_user_abort o])
       end.

Definition check_case (c : case) : bool :=
  wf_case c &&
  (let '(o, d, e, ab) := model_obs c in
   outcome_eqb (c_excls c) o (c_outcome c) &&
   list_eqb res_eqb d (c_delivered c) &&
   list_eqb Z.eqb (map evt_z e) (c_events c) &&
   match c_aborted c with [] => true | obs_ab => list_eqb Bool.eqb ab obs_ab end) &&
  budget_ok c && no_internal_exception c && calls_ok c && few_consistent c.
