(* Check/Chk_C14.v -- correspondence checker for C14: outcome, delivered results and event list of a
   real optimizer / evaluator step under a fault script vs. Model/Step.v. *)
From Coq Require Import String List Bool Arith ZArith QArith.
From Ropt Require Import Base.Num Base.ListX Model.Step Gen.Generated.
Import ListNotations.
Open Scope nat_scope.

Inductive obs_outcome := OExit (z : Z) | OExc (cls : string).

Record case := {
  c_evalstep : bool;             (* true: DefaultEvaluatorStep, false: DefaultOptimizerStep *)
  c_cfg : cfg;
  c_script : list req;
  c_nested : option (cfg * list (list req));   (* nested optimization: its configuration, one script per outer request *)
  c_outcome : obs_outcome;       (* implementation: exit code value or exception class *)
  c_delivered : list res;        (* implementation: results seen by the FINISHED_EVALUATION observer *)
  c_events : list Z              (* implementation: EventType values seen by the observers, in order *)
}.

Fixpoint lookup (tbl : list (string * Z)) (n : string) : option Z :=
  match tbl with [] => None | (k, v) :: t => if String.eqb k n then Some v else lookup t n end.
Definition code_z (c : code) : Z :=
  match lookup enum_OptimizerExitCode (code_name c) with Some z => z | None => (-1)%Z end.
Definition evt_z (e : evt) : Z :=
  match lookup enum_EventType (evt_name e) with Some z => z | None => (-1)%Z end.

Definition rkind_eqb (a b : rkind) : bool := match a, b with RF, RF | RG, RG => true | _, _ => false end.
Definition res_eqb (a b : res) : bool :=
  rkind_eqb (r_kind a) (r_kind b) && Bool.eqb (r_has a) (r_has b) && Bool.eqb (r_allf a) (r_allf b).

(* the class of the exception injected by the harness' evaluator *)
Definition injected_exception : string := "ValueError".
Definition outcome_eqb (m : outcome) (o : obs_outcome) : bool :=
  match m, o with
  | Exit c, OExit z => Z.eqb (code_z c) z
  | Raise, OExc cls => String.eqb cls injected_exception
  | _, _ => false
  end.

(* shapes of the fault masks and the ranking order *)
Definition wf_req (c : cfg) (r : req) : bool :=
  match flt r with
  | FMasks fm pm =>
      (length fm =? Nat.max 1 (batch r)) && forallb (fun row => length row =? nreal c) fm &&
      (length pm =? nreal c) &&
      match rk r with KF => true | _ => batch r =? 0 end
  | _ => true
  end.
Definition wf_case (c : case) : bool :=
  forallb (wf_req (c_cfg c)) (c_script c) &&
  (length (order (c_cfg c)) =? nreal (c_cfg c)) &&
  forallb (fun r => existsb (Nat.eqb r) (order (c_cfg c))) (seq 0 (nreal (c_cfg c))) &&
  (min_stddev =? min_stddev_realizations) &&
  (if c_evalstep c then length (c_script c) =? 1 else true) &&
  match c_nested c with
  | Some (ic, scripts) =>
      negb (c_evalstep c) && (length scripts =? length (c_script c)) &&
      forallb (fun s => forallb (wf_req ic) s) scripts && (nreal ic =? nreal (c_cfg c)) &&
      forallb (fun r => match rk r with KG => false | _ => batch r =? 0 end) (c_script c) &&
      forallb (fun r => existsb (Nat.eqb r) (order ic)) (seq 0 (nreal ic))
  | None => true
  end.

(* property clauses evaluated directly on the observation *)
Definition is_F (r : res) : bool := rkind_eqb (r_kind r) RF.
Fixpoint cache_ok (tr : option nat) (s : list req) : bool :=
  match s with
  | [] => true
  | r :: t =>
      match rk r with
      | KF => cache_ok (Some (pt r)) t
      | KFG => cache_ok None t
      | KG => match tr with Some p => (p =? pt r) && cache_ok tr t | None => false end
      end
  end.
Definition budget_ok (c : case) : bool :=
  match maxf (c_cfg c) with
  | Some m =>
      if negb (c_evalstep c) && cache_ok None (c_script c) && negb (match c_nested c with Some _ => true | None => false end) then
        length (filter is_F (c_delivered c)) <=?
          m + (fold_right Nat.max 1 (map (fun r => length (vectors r)) (c_script c)) - 1)
      else true
  | None => true
  end.
Definition has_raise (s : list req) : bool := existsb (fun r => match flt r with FRaise => true | _ => false end) s.
Definition no_internal_exception (c : case) : bool :=
  match c_outcome c with
  | OExc _ => has_raise (c_script c) ||
              match c_nested c with Some (_, scripts) => existsb has_raise scripts | None => false end
  | OExit _ => true
  end.

Definition model_obs (c : case) : outcome * list res * list evt :=
  if c_evalstep c then
    match c_script c with r :: _ => run_evaluator_step (c_cfg c) r | [] => (Raise, [], []) end
  else match c_nested c with
       | Some (ic, scripts) => run_nested_step (c_cfg c) ic (combine (c_script c) scripts)
       | None => run_optimizer_step (c_cfg c) (c_script c)
       end.

Definition check_case (c : case) : bool :=
  wf_case c &&
  (let '(o, d, e) := model_obs c in
   outcome_eqb o (c_outcome c) &&
   list_eqb res_eqb d (c_delivered c) &&
   list_eqb Z.eqb (map evt_z e) (c_events c)) &&
  budget_ok c && no_internal_exception c.
