(* Check/Chk_C12.v -- correspondence checker for C12: what Plan.get(tracker, "results") of real
   DefaultTrackerHandler objects shows after every operation of a history vs. Model/Tracker.v.
   'last' trackers are compared exactly; for 'best' trackers any result tied with the model's
   (equal optimizer-domain objective, also a candidate) is accepted (DESIGN 3: ties), and the
   property predicate itself (held result is a candidate whose objective is <= every candidate
   delivered so far; nothing held iff there is no candidate) is evaluated on the observation.
   Handlers live on plans (c_plan), events name the chain of plans they pass through (e_path):
   trackers of nested plans are checked with the same definitions. *)
From Coq Require Import QArith ZArith List Bool Arith String.
From Ropt Require Import Base.Num Base.ListX Model.Tracker.
Import ListNotations.
Open Scope Q_scope.

Record case := {
  k_handlers : list config;
  k_ops : list op;
  k_obs : list (list (option (option nat)));  (* per handler, per operation: None = not observed,
                                                 Some r = identity of the retained result (or nothing) *)
  k_tr : list (Q * Q)                         (* per source step: (a, b), user objective = a * optimizer objective + b
                                                 (the objective transform the step was run with) *)
}.

(* What a delivered event is: every user-domain result is the back-transform of the optimizer-domain result it is
   paired with -- same class, functions in both or in neither, user objective = a * optimizer objective + b
   (NaN with NaN).  Evaluated on the two facets the harness reads back from the real objects. *)
Definition item_paired (ab : Q * Q) (it : item) : bool :=
  Bool.eqb (f_isfun (i_u it)) (f_isfun (i_t it)) && Bool.eqb (f_hasf (i_u it)) (f_hasf (i_t it)) &&
  match f_obj (i_t it), f_obj (i_u it) with
  | Some ot, Some ou => close 8 ou (fst ab * ot + snd ab)
  | None, None => true
  | _, _ => false
  end.
Definition op_paired (tr : list (Q * Q)) (o : op) : bool :=
  match o with
  | Emit ev => negb (e_has_results ev && e_has_transformed ev) ||
               forallb (item_paired (nth (e_src ev) tr (1, 0))) (e_items ev)
  | Put _ => true
  end.
Definition paired_ok (c : case) : bool := forallb (op_paired (k_tr c)) (k_ops c).

(* candidates (identity, facet compared) contributed by one operation; a Put restarts the list: the
   object placed with Plan.set is compared through its own facet, or -- when it is the object the handler
   already holds -- through the optimizer-domain partner it was delivered with (st' = state after o) *)
Definition seen_after (cfg : config) (st' : state) (seen : list (nat * facet)) (o : op) : list (nat * facet) :=
  match o with
  | Emit ev => seen ++ map (fun p : item * facet => (i_id (fst p), snd p))
                           (filter (candidate (c_tol cfg)) (delivered cfg [ev]))
  | Put (Some (i, f)) => match resync st' with Some (_, _, t) => [(i, t)] | None => [(i, f)] end
  | Put None => []
  end.

(* the property predicate on the observation: the held identity belongs to a candidate whose compared
   objective is <= that of every candidate (written with the running minimum: linear in the history) *)
Definition min_oval (seen : list (nat * facet)) : option Q :=
  fold_left (fun (m : option Q) (c : nat * facet) =>
               match m with
               | None => Some (oval (snd c))
               | Some q => if Qltb (oval (snd c)) q then Some (oval (snd c)) else Some q
               end) seen None.
Definition prop_ok (seen : list (nat * facet)) (ob : option nat) : bool :=
  match ob with
  | None => match seen with [] => true | _ => false end
  | Some oid => match min_oval seen with
                | None => false
                | Some m => existsb (fun c : nat * facet => Nat.eqb (fst c) oid && Qleb (oval (snd c)) m) seen
                end
  end.

(* model state vs observation, ties accepted *)
Definition same_or_tie (st : state) (seen : list (nat * facet)) (ob : option nat) : bool :=
  match resync st, ob with
  | None, None => true
  | Some (mid, _, mt), Some oid =>
      Nat.eqb mid oid ||
      existsb (fun c : nat * facet => Nat.eqb (fst c) oid && Qeqb (oval (snd c)) (oval mt)) seen
  | _, _ => false
  end.

Fixpoint best_ok (cfg : config) (st : state) (seen : list (nat * facet)) (ops : list op)
                 (obs : list (option (option nat))) : bool :=
  match ops, obs with
  | [], [] => true
  | o :: ops', ob :: obs' =>
      let st' := step cfg st o in
      let seen' := seen_after cfg st' seen o in
      match ob with
      | None => true
      | Some r => same_or_tie st' seen' r && prop_ok seen' r
      end && best_ok cfg st' seen' ops' obs'
  | _, _ => false
  end.

Definition obs_eqb (m : option nat) (ob : option (option nat)) : bool :=
  match ob with None => true | Some r => option_eqb Nat.eqb m r end.

Definition check_handler (ops : list op) (cfg : config) (obs : list (option (option nat))) : bool :=
  match c_what cfg with
  | Best => best_ok cfg init [] ops obs
  | Last => forallb2 obs_eqb (trace cfg init ops) obs
  end.

Definition check_case (c : case) : bool :=
  paired_ok c && forallb2 (check_handler (k_ops c)) (k_handlers c) (k_obs c).

(* constructors used by the harness (short names keep the generated shards small) *)
Definition fct (isfun hasf : bool) (obj : oQ) (viol : option (list (option (list Q)))) : facet :=
  {| f_isfun := isfun; f_hasf := hasf; f_obj := obj; f_viol := viol |}.
Definition qd (n : Z) (k : N) : Q := Qmake n (Pos.shiftl 1%positive k).   (* n / 2^k *)
Definition na : option (list Q) := None.                       (* absent violation array *)
Definition ar (l : list Q) : option (list Q) := Some l.
Definition v0 : option (list (option (list Q))) := None.        (* constraint_info is None *)
Definition vv (b l n : option (list Q)) : option (list (option (list Q))) := Some [b; l; n].
Definition ff (o : Q) (v : option (list (option (list Q)))) : facet := fct true true (Some o) v.   (* finite objective *)
Definition fn (v : option (list (option (list Q)))) : facet := fct true true None v.               (* NaN objective *)
Definition f0 (v : option (list (option (list Q)))) : facet := fct true false None v.              (* functions is None *)
Definition gg : facet := fct false false None None.                                                 (* GradientResults *)
Definition itm (id : nat) (u t : facet) : item := {| i_id := id; i_u := u; i_t := t |}.
Definition evp (path : list nat) (ty : Z) (src : nat) (hr ht : bool) (items : list item) : op :=
  Emit {| e_type := ty; e_src := src; e_path := path; e_has_results := hr; e_has_transformed := ht; e_items := items |}.
Definition evt := evp [0%nat].                                  (* emitted on the (only / outermost) plan 0 *)
Definition put (id : nat) (u : facet) : op := Put (Some (id, u)).
Definition cfgp (plan : nat) (w : what) (tol : option Q) (srcs : list nat) : config :=
  {| c_what := w; c_tol := tol; c_sources := srcs; c_plan := plan |}.
Definition cfgc := cfgp 0.
Definition tr3 (a b : Q) : list (Q * Q) := [(a, b); (a, b); (a, b)].   (* the same transform for every source *)
Definition hu : option (option nat) := None.                    (* not observed *)
Definition hn : option (option nat) := Some None.               (* nothing held *)
Definition hs (n : nat) : option (option nat) := Some (Some n).
Arguments qd n%Z k%N.
Arguments itm id%nat u t.
Arguments evp path%list ty%Z src%nat hr ht items.
Arguments evt ty%Z src%nat hr ht items.
Arguments cfgp plan%nat w tol srcs.
Arguments put id%nat u.
Arguments hs n%nat.
