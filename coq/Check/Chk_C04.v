(* Check/Chk_C04.v -- correspondence checker for C04 (CVaR filter weights).
   Three kinds of cases, all evaluated against Model/Filters.v:
   - Helper: ropt's _get_cvar_weights_from_percentile on (ranking values, failure mask) for a list of
             percentiles;
   - Filt:   DefaultRealizationFilter(config, 0) + get_realization_weights (cvar-objective with one or several
             objectives, cvar-constraint with every bound kind), incl. the all-failed abort;
   - E2E:    EnsembleEvaluator + calculate: weight rows in the results and the function values (tail mean).
   Every implementation answer must satisfy the staircase predicate [stair_ok] along a ranking with ties
   resolved in the implementation's favour (exact >= 0, exact zeros for failed realizations and after the
   fractional step, steps = 1/n and total = p within tolerance); when the ranking values are pairwise distinct
   it is also compared with the model's vector (tolerance) and, unless p*n is within rounding distance of an
   integer, with the model's exact zero pattern. *)
From Coq Require Import String QArith ZArith Bool Arith List.
From Ropt Require Import Base.Num Base.ListX Gen.Generated Model.Filters.
Import ListNotations.

Inductive case :=
| Helper (values : list Q) (failed : list bool) (answers : list (Q * list Q))
| Filt (cfg : config) (m : method) (objs : list (list oQ)) (cns : option (list (list oQ)))
       (obs : outcome (list Q))
| E2E (c : e2e_case)
| Seq (c : seq_case).

Definition is_cvar (m : method) : bool :=
  match m with CvarObjective _ _ | CvarConstraint _ _ => true | _ => false end.

Definition check_case (c : case) : bool :=
  match c with
  | Helper values failed answers =>
      Nat.eqb (length values) (length failed) &&
      forallb (fun a : Q * list Q => valid_percentile (fst a) && cvar_answer_ok (fst a) values failed (snd a)) answers
  | Filt cfg m objs cns obs => is_cvar m && filter_answer_ok cfg m objs cns obs
  | E2E x => e2e_ok x
  | Seq x => seq_ok x
  end.
