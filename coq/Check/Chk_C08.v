(* Check/Chk_C08.v -- correspondence checker for C08.  One case = one configured problem, what the real
   SciPy plug-in handed to scipy.optimize.minimize / differential_evolution (or that it raised
   NotImplementedError), and the values of the passed constraint callables / objects at test points
   together with the oracle's raw constraint values and Jacobians there.  Model/ScipyProblem.v is run
   on the problem and compared; the property's clauses are also evaluated directly on the observation. *)
From Coq Require Import QArith Qabs List Bool Arith String ZArith.
From Ropt Require Import Base.Num Base.ListX Gen.Generated Gen.Gen_C08 Model.ScipyProblem.
Import ListNotations.
Open Scope Q_scope.

Record tpoint := {
  t_x : list Q;            (* free variables *)
  t_c : list Q;            (* oracle: raw non-linear constraint values at the completed point *)
  t_J : mat;               (* oracle: raw non-linear constraint Jacobian, free columns *)
  t_vals : list (list Q);  (* observed: fun(x) of every constraint dict | [NonlinearConstraint.fun(x)] for DE *)
  t_jacs : list (list Q)   (* observed: jac(x) of every constraint dict that has one *)
}.

Record obs_handed := {
  o_de : bool;
  o_x0 : list Q;
  o_bounds : option (list ereal * list ereal);
  o_jac : bool;
  o_cons : list (bool * bool);               (* per dict: (type = "eq", has 'jac') *)
  o_lin : option lincons;                    (* DE: LinearConstraint A, lb, ub *)
  o_nl : option (list (ereal * ereal));      (* DE: NonlinearConstraint lb, ub *)
  o_options : odict;                         (* minimize: options (None = {}); DE: the remaining kwargs *)
  o_vectorized : bool;
  o_tol : option Q;
  o_method : string
}.

Record case := {
  k_problem : problem;
  k_S : Q;
  k_obs : option obs_handed;                 (* None = NotImplementedError *)
  k_points : list tpoint
}.

(* ---- comparisons ----------------------------------------------------------------------------- *)
Definition q_eqb (a b : Q) : bool := Qeqb a b.
Definition er_eqb (a b : ereal) : bool := eeqb a b.
Definition ers_eqb := list_eqb er_eqb.
Definition oval_eqb (a b : oval) : bool :=
  match a, b with
  | OInt x, OInt y => Z.eqb x y
  | OBool x, OBool y => Bool.eqb x y
  | OStr x, OStr y => String.eqb x y
  | OBools x, OBools y => list_eqb Bool.eqb x y
  | _, _ => false
  end.
Definition sub_dict (a b : odict) : bool :=
  forallb (fun kv => match lookup (fst kv) b with Some v => oval_eqb (snd kv) v | None => false end) a.
Definition dict_equiv (a b : odict) : bool := sub_dict a b && sub_dict b a.
Fixpoint remove_key (k : string) (d : odict) : odict :=
  match d with [] => [] | (k', v) :: t => if String.eqb k k' then remove_key k t else (k', v) :: remove_key k t end.

Definition lincons_eqb (a b : lincons) : bool :=
  list_eqb (list_eqb q_eqb) (l_A a) (l_A b) && ers_eqb (l_lb a) (l_lb b) && ers_eqb (l_ub a) (l_ub b).
Definition pair_eqb (a b : ereal * ereal) : bool := er_eqb (fst a) (fst b) && er_eqb (snd a) (snd b).
Definition bounds_eqb (a b : list ereal * list ereal) : bool := ers_eqb (fst a) (fst b) && ers_eqb (snd a) (snd b).

(* known finding C08:max-iterations-dropped-without-options: options is not a dict and max_iterations
   is set.  Inside this region (decided from the problem alone) the observed options may also be the
   model's options without the iteration key; the finding itself is reported by the harness oracle. *)
Definition in_f08_region (p : problem) : bool :=
  match p_options p with DictOpt _ => false | _ => is_some (p_max_iter p) end.

Definition options_ok (p : problem) (model obs : odict) : bool :=
  dict_equiv obs model ||
  (in_f08_region p && dict_equiv obs (remove_key (iter_key (p_method p)) model)).

Definition structure_ok (p : problem) (h : handed) (o : obs_handed) : bool :=
  Bool.eqb (h_de h) (o_de o) &&
  list_eqb q_eqb (h_x0 h) (o_x0 o) &&
  option_eqb bounds_eqb (h_bounds h) (o_bounds o) &&
  (h_de h || Bool.eqb (h_jac h) (o_jac o)) &&
  forallb2 (fun (r : row) (e : bool * bool) => Bool.eqb (r_eq r) (fst e) && Bool.eqb (h_row_jac h) (snd e))
           (h_rows h) (o_cons o) &&
  (if h_de h then option_eqb lincons_eqb (h_lin h) (o_lin o) && option_eqb (list_eqb pair_eqb) (h_nl h) (o_nl o)
   else is_none (o_lin o) && is_none (o_nl o)) &&
  options_ok p (h_options h) (o_options o) &&
  (negb (h_de h) || Bool.eqb (h_vectorized h) (o_vectorized o)) &&
  (h_de h || (option_eqb q_eqb (h_tol h) (o_tol o) && String.eqb (p_method p) (o_method o))).

Definition vec_close (S : Q) (a b : list Q) : bool := forallb2 (close S) a b.
(* looser: Jacobians come from a least-squares fit *)
Definition vec_close_j (S : Q) (a b : list Q) : bool := forallb2 (close_tol (Q_ 1 100000000) S) a b.

(* implementation == model at one test point *)
Definition point_model_ok (S : Q) (h : handed) (t : tpoint) : bool :=
  if h_de h then
    match h_nl h, t_vals t with
    | Some _, [v] => vec_close S v (t_c t)
    | None, [] => true
    | _, _ => false
    end
  else
    match norm_values (h_rows h) (map (fun v => [v]) (raw_values h (t_c t) (t_x t))) with
    | Some vs => forallb2 (vec_close S) (t_vals t) vs
    | None => false
    end &&
    (if h_row_jac h then
       match norm_jac (h_rows h) (t_J t ++ match h_lin h with Some lc => l_A lc | None => [] end) with
       | Some js => forallb2 (vec_close_j S) (t_jacs t) js
       | None => false
       end
     else match t_jacs t with [] => true | _ => false end).

(* the property evaluated on the observation: the point satisfies what was handed over (observed bounds,
   observed constraint objects / observed values of the normalised callables with their observed types)
   iff it satisfies the configured problem *)
Definition observed_feasible (o : obs_handed) (t : tpoint) : bool :=
  match o_bounds o with Some (lo, hi) => bounds_okb lo hi (t_x t) | None => true end &&
  if o_de o then
    match o_lin o with
    | Some lc => bounds_okb (l_lb lc) (l_ub lc) (matvec (l_A lc) (t_x t))
    | None => true
    end &&
    match o_nl o, t_vals t with
    | Some bs, [v] => bounds_okb (map fst bs) (map snd bs) v
    | None, _ => true
    | _, _ => false
    end
  else
    forall2b (fun (e : bool * bool) (v : list Q) =>
                match v with [x] => if fst e then Qeqb x 0 else Qleb 0 x | _ => false end)
             (o_cons o) (t_vals t) &&
    Nat.eqb (List.length (o_cons o)) (List.length (t_vals t)).

Definition point_property_ok (p : problem) (o : obs_handed) (t : tpoint) : bool :=
  Bool.eqb (observed_feasible o t) (config_feasible p (t_c t) (t_x t)).

(* the Jacobian handed over is the derivative of the value handed over: the test constraints are
   affine, so for two test points  v(x') - v(x) = jac(x) . (x' - x) *)
Definition vsub (a b : list Q) : list Q := map (fun ab : Q * Q => fst ab - snd ab) (combine a b).
Fixpoint derivative_ok (S : Q) (pts : list tpoint) : bool :=
  match pts with
  | t1 :: ((t2 :: _) as rest) =>
      forallb2 (fun (vv : list Q * list Q) (g : list Q) =>
                  match vv with
                  | ([v1], [v2]) => close_tol (Q_ 1 10000000) S (v2 - v1) (dot g (vsub (t_x t2) (t_x t1)))
                  | _ => false
                  end)
               (combine (t_vals t1) (t_vals t2)) (t_jacs t1)
      && derivative_ok S rest
  | _ => true
  end.

(* the case lies in the domain of C08_handed_equiv_configured (so the model's two sides agree by the
   theorem, and the comparison below is a comparison of the real plug-in with the configured problem) *)
Definition in_domain (k : case) : bool :=
  wf_problemb (k_problem k) && forallb (fun t => wf_pointb (k_problem k) (t_c t) (t_x t)) (k_points k).

Definition check_case (k : case) : bool :=
  match construct (k_problem k), k_obs k with
  | None, None => true
  | Some h, Some o =>
      in_domain k &&
      forallb (fun t => Bool.eqb (handed_feasible h (t_c t) (t_x t)) (config_feasible (k_problem k) (t_c t) (t_x t)))
              (k_points k) &&
      structure_ok (k_problem k) h o &&
      forallb (point_model_ok (k_S k) h) (k_points k) &&
      forallb (point_property_ok (k_problem k) o) (k_points k) &&
      (negb (h_row_jac h) || h_de h || derivative_ok (k_S k) (k_points k))
  | _, _ => false
  end.
