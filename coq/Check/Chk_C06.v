(* Check/Chk_C06.v -- correspondence checker for C06.  A case is one configuration and a history of
   EnsembleEvaluator.calculate calls on one real EnsembleEvaluator; the observation holds, per call, the
   request the user evaluator saw (labels, variable rows, activity matrices), what it returned, what ropt
   reported, the monitor's events, and the derived results of two runs that differ only in the garbage
   returned for entries flagged inactive.  check_case runs Model/Layout.v and Model/Store.v on the inputs
   and compares: discrete facts and copied values exactly, estimates with Num.close. *)
From Coq Require Import QArith ZArith List Bool Arith.
From Ropt Require Import Base.Num Base.ListX Model.Layout Model.Store.
Import ListNotations.
Open Scope Q_scope.

(* derived result values of the two runs, compared exactly *)
Inductive dv := DQ (q : Q) | DNan | DPInf | DNInf.
Definition dv_eqb (a b : dv) : bool :=
  match a, b with
  | DQ x, DQ y => Qeqb x y
  | DNan, DNan | DPInf, DPInf | DNInf, DNInf => true
  | _, _ => false
  end.

Inductive creq := QF (pts : list nat) | QG (pt : nat) | QFG (pt : nat).

Inductive resobs :=
| OF (vars : vec) (o : list orow) (c : option (list orow)) (ids : list nat) (failed : list bool)
     (ow cw : option wmatrix) (fobj fcon : option (list oQ))
| OG (vars : vec) (pv : list (list vec)) (o : list (list orow)) (c : option (list (list orow))) (ids : list (list nat)).

Record callobs := {
  k_req : creq;
  k_samples : list (list vec);            (* injected samples of this call [realization][perturbation] *)
  k_ok : bool;                            (* calculate returned results *)
  k_one : bool;                           (* exactly one evaluator request was made *)
  k_real : list nat;                      (* context.realizations *)
  k_pert : option (list Z);               (* context.perturbations *)
  k_rows : list vec;                      (* variables handed to the evaluator *)
  k_ao : amatrix; k_ac : amatrix;         (* context.active_objectives / active_constraints *)
  k_active : option (list bool);          (* context.active: the aggregate per-realization flag *)
  k_out_o : list orow; k_out_c : option (list orow); k_out_id : list nat;    (* what the evaluator returned *)
  k_results : list resobs;                (* what ropt reported *)
  k_events : list code;                   (* what the monitor saw during/after this call *)
  k_derived_a : list dv; k_derived_b : list dv
}.

Record case := {
  c_R : nat; c_P : nat; c_nobj : nat; c_ncon : nat;
  c_cfgw : list Q;                        (* config.realizations.weights *)
  c_mags : vec;                           (* config.gradient.perturbation_magnitudes (optimizer domain) *)
  c_has_filters : bool;
  c_stddev : bool;                        (* function estimator: stddev instead of mean *)
  c_vt : vtransform; c_so : fscale; c_sc : fscale;
  c_pts : list vec;                       (* pool of variable vectors (optimizer domain) *)
  c_calls : list callobs;
  c_final_events : list code;             (* monitor after the evaluator overwrote all its buffers *)
  c_S : Q
}.

Definition oq_eqb : oQ -> oQ -> bool := option_eqb Qeqb.
Definition orow_eqb : orow -> orow -> bool := list_eqb oq_eqb.
Definition rows_eqb : list orow -> list orow -> bool := list_eqb orow_eqb.
Definition orows_eqb : option (list orow) -> option (list orow) -> bool := option_eqb rows_eqb.
Definition vecs_eqb : list vec -> list vec -> bool := list_eqb vec_eqb.
Definition nats_eqb : list nat -> list nat -> bool := list_eqb Nat.eqb.
Definition bmat_eqb : list (list bool) -> list (list bool) -> bool := list_eqb (list_eqb Bool.eqb).

Definition pt (c : case) (i : nat) : vec := nth i (c_pts c) [].
Definition request_of (c : case) (q : creq) : request :=
  match q with QF l => RFun (map (pt c) l) | QG i => RGrad (pt c i) | QFG i => RBoth (pt c i) end.
Definition req_X (rq : request) : list vec := match rq with RFun X => X | RGrad x | RBoth x => [x] end.

Definition column (j : nat) (rows : list orow) : list oQ := map (fun r => nth j r None) rows.

(* the function estimate reported for an OF block against the model's own small estimators *)
Definition check_estimates (c : case) (o : list orow) (ow : option wmatrix) (failed : list bool) (n : nat)
           (est : option (list oQ)) : bool :=
  match est with
  | None => true
  | Some l =>
      Nat.eqb (length l) n &&
      forallb (fun j =>
        let w := nth j (in_force (c_cfgw c) n ow) [] in
        let v := column j o in
        let x := nth j l None in
        if c_stddev c
        then match est_variance w failed v, x with
             | Some m, Some s => Qleb 0 s && close_tol (Q_ 1 10000000) (c_S c * c_S c) (s * s) m
             | None, _ => true            (* too few realizations: the implementation aborts or reports NaN *)
             | Some _, None => false
             end
        else oclose (c_S c) x (est_mean w failed v)) (seq 0 n)
  end.

Definition check_fblock (c : case) (x : vec) (m : fblock) (r : resobs) : bool :=
  match r with
  | OF vars o cc ids failed ow cw fobj fcon =>
      let '(mo, mc, mi) := m in
      vec_eqb vars x && rows_eqb o mo && orows_eqb cc mc && nats_eqb ids mi &&
      list_eqb Bool.eqb failed (map is_none (column 0 mo)) &&
      check_estimates c mo ow failed (c_nobj c) fobj &&
      match mc with
      | Some mcr => check_estimates c mcr cw failed (c_ncon c) fcon
      | None => is_none fcon
      end
  | OG _ _ _ _ _ => false
  end.

Definition check_gblock (x : vec) (PV : list (list vec)) (m : gblock) (r : resobs) : bool :=
  match r with
  | OG vars pv o cc ids =>
      let '(mo, mc, mi) := m in
      vec_eqb vars x && list_eqb vecs_eqb pv PV && list_eqb rows_eqb o mo && option_eqb (list_eqb rows_eqb) cc mc &&
      list_eqb nats_eqb ids mi
  | OF _ _ _ _ _ _ _ _ _ => false
  end.

Definition weights_of (r : resobs) : option wmatrix * option wmatrix :=
  match r with OF _ _ _ _ _ ow cw _ _ => (ow, cw) | OG _ _ _ _ _ => (None, None) end.

(* one call: returns (everything agrees, cache after the call) *)
Definition check_call (c : case) (ch : cache) (k : callobs) : bool * cache :=
  let R := c_R c in let P := c_P c in
  let rq := request_of c (k_req k) in
  let kd := plan ch rq in
  let X := req_X rq in
  let x := hd [] X in
  let PV := match kd with KFun _ => [] | _ => perturb x (c_mags c) (k_samples k) end in
  let (mao, mac) := plan_active (c_has_filters c) (c_cfgw c) (c_nobj c) (c_ncon c) ch kd in
  let layout :=
    k_one k &&
    nats_eqb (k_real k) (ctx_realizations kd R P) &&
    option_eqb (list_eqb Z.eqb) (k_pert k) (ctx_perturbations kd R P) &&
    vecs_eqb (k_rows k) (request_rows (c_vt c) kd X PV R) in
  let activity :=
    bmat_eqb (flags (k_ao k) (c_nobj c) R) (flags mao (c_nobj c) R) &&
    bmat_eqb (flags (k_ac k) (c_ncon c) R) (flags mac (c_ncon c) R) in
  (* the aggregate flag: against the model of EvaluatorContext.__post_init__ applied to the model's matrices,
     and against its specification (some entry of the realization is active) on the observed matrices *)
  let aggregate :=
    list_eqb Bool.eqb (agg_flags (k_active k) R) (agg_flags (aggregate_active R mao mac) R) &&
    list_eqb Bool.eqb (agg_flags (k_active k) R) (agg_spec R (c_nobj c) (c_ncon c) (k_ao k) (k_ac k)) in
  let inert := list_eqb dv_eqb (k_derived_a k) (k_derived_b k) in
  let prov :=
    if k_ok k then
      match kd with
      | KFun B =>
          forallb2 (fun xm r => check_fblock c (fst xm) (snd xm) r)
                   (combine X (report_functions (c_so c) (c_sc c) B R (k_out_o k) (k_out_c k) (k_out_id k)))
                   (k_results k) && Nat.eqb (length (k_results k)) B
      | KGrad =>
          match k_results k with
          | [g] => check_gblock x PV (report_gradient (c_so c) (c_sc c) R P (k_out_o k) (k_out_c k) (k_out_id k)) g
          | _ => false
          end
      | KBoth =>
          match k_results k with
          | [f; g] => let (mf, mg) := report_both (c_so c) (c_sc c) R P (k_out_o k) (k_out_c k) (k_out_id k) in
                      check_fblock c x mf f && check_gblock x PV mg g
          | _ => false
          end
      end
    else true in
  let ch' := match kd with
             | KFun _ => match k_results k with
                         | r :: _ => let (ow, cw) := weights_of r in Some (x, ow, cw)
                         | [] => ch
                         end
             | KBoth => None
             | KGrad => ch
             end in
  (layout && activity && aggregate && inert && prov, ch').

Fixpoint check_calls (c : case) (ch : cache) (ks : list callobs) : bool :=
  match ks with
  | [] => true
  | k :: t => let (ok, ch') := check_call c ch k in ok && check_calls c ch' t
  end.

(* parameters of the store program of one call, from the model's own plan *)
Fixpoint store_params (c : case) (ch : cache) (ks : list callobs) : list params :=
  match ks with
  | [] => []
  | k :: t =>
      let rq := request_of c (k_req k) in
      let kd := plan ch rq in
      let p := {| p_shape := match kd with KFun B => SFun B | KGrad => SGrad | KBoth => SBoth end;
                  p_con := negb (Nat.eqb (c_ncon c) 0);
                  p_tr_obj := is_some (c_so c); p_tr_con := is_some (c_sc c); p_tr_var := is_some (c_vt c);
                  (* with transforms every delivery is accompanied by its user-domain copy *)
                  p_user := is_some (c_so c) || is_some (c_sc c) || is_some (c_vt c) |} in
      p :: store_params c (snd (check_call c ch k)) t
  end.

Definition check_case (c : case) : bool :=
  check_calls c None (c_calls c) &&
  (* (d): the monitor's observations against the store model's list of foreign writes / late writes *)
  list_eqb code_eqb (flat_map k_events (c_calls c) ++ c_final_events c)
           (monitor_codes head (store_params c None (c_calls c))).
