(* Check/Chk_C10.v -- correspondence checker for C10.
   Two kinds of cases:
   CFun  : one call of the real _apply_bounds on a vector of components (type, lower, upper, value);
   CEval : one EnsembleEvaluator (optionally behind a VariableScaler) with injected scripted samplers, asked for
           gradients at one or more points in sequence (functions+gradient, functions then gradient from the
           cache, gradient only): validated magnitudes (or rejection), and per call the order of the sampler
           calls, the reported perturbed_variables and the rows the evaluator callable received.
   The model terms evaluated here are the ones the theorems of Props/C10.v are about. *)
From Coq Require Import QArith ZArith List Bool Arith.
From Ropt Require Import Base.Num Base.ListX Gen.Generated Model.Bounds Model.Mask.
Import ListNotations.
Open Scope Q_scope.

(* dyadic inputs: the float computation is exact, compare exactly; otherwise DESIGN 2.2 tolerance *)
Definition qcmp (exact : bool) (S x m : Q) : bool := if exact then Qeqb x m else close S x m.

Record fcase := {
  f_exact : bool; f_S : Q;
  f_ts : list Z; f_lbs : list ereal; f_ubs : list ereal; f_ys : list Q;
  f_got : list Q                       (* implementation: _apply_bounds(ys, lbs, ubs, ts) *)
}.

(* one EnsembleEvaluator.calculate sequence at one point of the SAME evaluator object *)
Record ecall := {
  k_x : list Q;                        (* the point, user domain (calculate gets its optimizer-domain image) *)
  k_mode : Z;                          (* 0: functions+gradient in one call; 1: functions, then gradient from the cache;
                                          2: gradient only (nothing usable cached: evaluated like 0) *)
  (* observations *)
  k_order : list Z;                    (* sampler indices in the order generate_samples was called *)
  k_res_x : list Q;                    (* reported GradientEvaluations.variables (optimizer domain) *)
  k_pert : arr3;                       (* reported GradientEvaluations.perturbed_variables (optimizer domain) *)
  k_rows : list (list Q)               (* every row received by the evaluator callable, in order (user domain) *)
}.

Record ecase := {
  e_exact : bool; e_S : Q;
  e_lbs : list ereal; e_ubs : list ereal;   (* user domain *)
  e_scale : list Q; e_offset : list Q; (* VariableScaler: user = optimizer * scale + offset (1 / 0 when absent) *)
  e_bts : list Z;                      (* boundary types as configured (size 1 or V) *)
  e_pts : list Z;                      (* perturbation types as configured (size 1 or V) *)
  e_ms : list Q;                       (* perturbation magnitudes as configured (size 1 or V) *)
  e_gs : option (list Z);              (* gradient.samplers *)
  e_mask : option (list bool);         (* variables.mask *)
  e_R : nat;
  e_scripts : list arr3;               (* per configured sampler: the scripted (R, P, V) array *)
  (* observations *)
  e_rejected : bool;                   (* EnOptConfig validation raised *)
  e_caller_kept : bool;                (* a GradientConfig instance passed by the caller (and used for another
                                          configuration before) still holds what the caller wrote *)
  e_mags : list Q;                     (* config.gradient.perturbation_magnitudes after validation *)
  e_calls : list ecall
}.

Inductive case := CFun (c : fcase) | CEval (c : ecase).

Fixpoint forallb3 {A B C} (f : A -> B -> C -> bool) (a : list A) (b : list B) (c : list C) : bool :=
  match a, b, c with
  | [], [], [] => true
  | x :: a', y :: b', z :: c' => f x y z && forallb3 f a' b' c'
  | _, _, _ => false
  end.

(* the property's clauses on one observed component *)
Definition comp_ok (exact : bool) (S : Q) (t : Z) (lb ub : ereal) (pre got : Q) : bool :=
  okb lb ub &&
  (if Z.eqb t bt_none then qcmp exact S got pre else inb lb ub got) &&
  (if exact && inb lb ub pre then Qeqb got pre else true).
Fixpoint comps_ok (exact : bool) (S : Q) (ts : list Z) (lbs ubs : list ereal) (pres gots : list Q) : bool :=
  match ts, lbs, ubs, pres, gots with
  | [], [], [], [], [] => true
  | t :: ts', l :: lbs', u :: ubs', p :: pres', g :: gots' =>
      comp_ok exact S t l u p g && comps_ok exact S ts' lbs' ubs' pres' gots'
  | _, _, _, _, _ => false
  end.

Definition check_fun (c : fcase) : bool :=
  forallb2 (qcmp (f_exact c) (f_S c)) (f_got c) (apply_bounds (f_ts c) (f_lbs c) (f_ubs c) (f_ys c)) &&
  comps_ok (f_exact c) (f_S c) (f_ts c) (f_lbs c) (f_ubs c) (f_ys c) (f_got c).

Definition rows_eqb (a b : list (list Q)) : bool := list_eqb (list_eqb Qeqb) a b.

(* rows the evaluator callable must receive for one evaluation plan of the cache model (Model/Mask.evaluate) *)
Definition plan_rows (R : nat) (xu : list Q) (pert_u : list (list Q)) (pl : eval_plan) : list (list Q) :=
  match pl with
  | EvFunctions vs => concat (map (fun _ => repeat xu R) vs)
  | EvGradCached _ => pert_u
  | EvBoth _ => repeat xu R ++ pert_u
  end.

(* one call sequence at one point; threads the evaluator's function-value cache *)
Definition check_call (c : ecase) (bts : list Z) (lbs' ubs' : list ereal) (mags : list Q) (order : list Z)
           (samples : arr3) (cache : option (list Q)) (k : ecall) : bool * option (list Q) :=
  let ex := e_exact c in let S := e_S c in
  let x' := vec_to_opt (e_scale c) (e_offset c) (k_x k) in
  let pv := perturb bts lbs' ubs' x' mags samples in
  let pert_u := map (vec_from_opt (e_scale c) (e_offset c)) (concat (k_pert k)) in
  let '(rows, cache') :=
    if Z.eqb (k_mode k) 1
    then let '(p1, c1) := evaluate cache true false [x'] in
         let '(p2, c2) := evaluate c1 false true [x'] in
         (plan_rows (e_R c) (k_x k) pert_u p1 ++ plan_rows (e_R c) (k_x k) pert_u p2, c2)
    else let '(p1, c1) := evaluate cache (Z.eqb (k_mode k) 0) true [x'] in
         (plan_rows (e_R c) (k_x k) pert_u p1, c1) in
  (Nat.eqb (length (k_x k)) (length (e_lbs c)) &&
   (* the point is inside the bounds (quantifier of the property) *)
   forallb2 (fun x lu => inb (fst lu) (snd lu) x) (k_x k) (combine (e_lbs c) (e_ubs c)) &&
   (* every sampler that owns a variable ran once, in the order of first appearance *)
   list_eqb Z.eqb (k_order k) order &&
   (* the gradient result is reported at the point; reported perturbed variables = model *)
   forallb2 (qcmp ex S) (k_res_x k) x' && Nat.eqb (length (k_res_x k)) (length x') &&
   forallb2 (forallb2 (forallb2 (qcmp ex S))) (k_pert k) pv &&
   Nat.eqb (length (k_pert k)) (e_R c) &&
   (* the evaluator received R copies of the point whenever function values were (re)computed, then the reported
      perturbed vectors -- in the user domain, bit for bit (no scaler, or power-of-two scales with dyadic data) *)
   rows_eqb (k_rows k) rows &&
   (* the property's clauses directly on the observation (optimizer domain = user domain up to the positive map) *)
   forallb2 (forallb2 (fun srow grow =>
       comps_ok ex S bts lbs' ubs' (pre_bounds x' mags srow) grow)) samples (k_pert k),
   cache').

Fixpoint check_calls (c : ecase) (bts : list Z) (lbs' ubs' : list ereal) (mags : list Q) (order : list Z)
         (samples : arr3) (cache : option (list Q)) (ks : list ecall) : bool :=
  match ks with
  | [] => true
  | k :: t =>
      let '(ok, cache') := check_call c bts lbs' ubs' mags order samples cache k in
      ok && check_calls c bts lbs' ubs' mags order samples cache' t
  end.

Definition check_eval (c : ecase) : bool :=
  let ex := e_exact c in let S := e_S c in
  let V := length (e_lbs c) in
  Nat.eqb (length (e_ubs c)) V && Nat.eqb (length (e_scale c)) V && Nat.eqb (length (e_offset c)) V &&
  forallb (fun s => Qltb 0 s) (e_scale c) &&
  match magnitudes_scaled (e_pts c) (e_lbs c) (e_ubs c) (e_scale c) (e_offset c) (e_ms c), broadcast V (e_bts c) with
  | MagInfinite, _ | MagShape, _ | _, None => e_rejected c      (* ValueError from fix_perturbations *)
  | MagOk mags, Some bts =>
      let lbs' := bounds_to_opt (e_scale c) (e_offset c) (e_lbs c) in
      let ubs' := bounds_to_opt (e_scale c) (e_offset c) (e_ubs c) in
      let order := sampler_order (e_gs c) in
      let samples := run_samplers (e_gs c) (e_mask c) (e_scripts c) in
      negb (e_rejected c) && e_caller_kept c &&
      forallb2 (qcmp ex S) (e_mags c) mags && Nat.eqb (length (e_mags c)) V &&
      negb (Nat.eqb (length order) 0) &&
      negb (Nat.eqb (length (e_calls c)) 0) &&
      check_calls c bts lbs' ubs' mags order samples None (e_calls c)
  end.

Definition check_case (c : case) : bool :=
  match c with CFun f => check_fun f | CEval e => check_eval e end.
