(* Check/Chk_C10.v -- correspondence checker for C10.
   Two kinds of cases:
   CFun  : one call of the real _apply_bounds on a vector of components (type, lower, upper, value);
   CEval : one EnsembleEvaluator.calculate(compute_functions, compute_gradients) with injected scripted
           samplers: validated magnitudes, order of the sampler calls, reported perturbed_variables and
           the rows the evaluator callable received.
   The model terms evaluated here are the ones the theorems of Props/C10.v are about. *)
From Coq Require Import QArith ZArith List Bool Arith.
From Ropt Require Import Base.Num Base.ListX Gen.Generated Model.Bounds Model.Mask.
Import ListNotations.
Open Scope Q_scope.

(* dyadic inputs: the float computation is exact, compare exactly; otherwise DESIGN 2.2 tolerance *)
Definition qcmp (exact : bool) (S x m : Q) : bool := if exact then Qeqb x m else close S x m.

Record fcase := {
  f_exact : bool; f_S : Q;
  f_ts : list Z; f_lbs : list ereal; f_ubs : list ereal; f_ys : list Q;
  f_got : list Q                       (* implementation: _apply_bounds(ys, lbs, ubs, ts) *)
}.

Record ecase := {
  e_exact : bool; e_S : Q;
  e_x : list Q; e_lbs : list ereal; e_ubs : list ereal;
  e_bts : list Z;                      (* boundary types as configured (size 1 or V) *)
  e_pts : list Z;                      (* perturbation types as configured (size 1 or V) *)
  e_ms : list Q;                       (* perturbation magnitudes as configured (size 1 or V) *)
  e_gs : option (list Z);              (* gradient.samplers *)
  e_mask : option (list bool);         (* variables.mask *)
  e_R : nat;
  e_scripts : list arr3;               (* per configured sampler: the scripted (R, P, V) array *)
  (* observations *)
  e_rejected : bool;                   (* EnOptConfig validation raised *)
  e_mags : list Q;                     (* config.gradient.perturbation_magnitudes after validation *)
  e_order : list Z;                    (* sampler indices in the order generate_samples was called *)
  e_pert : arr3;                       (* reported GradientEvaluations.perturbed_variables *)
  e_rows : list (list Q)               (* every row received by the evaluator callable, in order *)
}.

Inductive case := CFun (c : fcase) | CEval (c : ecase).

Fixpoint forallb3 {A B C} (f : A -> B -> C -> bool) (a : list A) (b : list B) (c : list C) : bool :=
  match a, b, c with
  | [], [], [] => true
  | x :: a', y :: b', z :: c' => f x y z && forallb3 f a' b' c'
  | _, _, _ => false
  end.

(* the property's clauses on one observed component *)
Definition comp_ok (exact : bool) (S : Q) (t : Z) (lb ub : ereal) (pre got : Q) : bool :=
  okb lb ub &&
  (if Z.eqb t bt_none then qcmp exact S got pre else inb lb ub got) &&
  (if exact && inb lb ub pre then Qeqb got pre else true).
Fixpoint comps_ok (exact : bool) (S : Q) (ts : list Z) (lbs ubs : list ereal) (pres gots : list Q) : bool :=
  match ts, lbs, ubs, pres, gots with
  | [], [], [], [], [] => true
  | t :: ts', l :: lbs', u :: ubs', p :: pres', g :: gots' =>
      comp_ok exact S t l u p g && comps_ok exact S ts' lbs' ubs' pres' gots'
  | _, _, _, _, _ => false
  end.

Definition check_fun (c : fcase) : bool :=
  forallb2 (qcmp (f_exact c) (f_S c)) (f_got c) (apply_bounds (f_ts c) (f_lbs c) (f_ubs c) (f_ys c)) &&
  comps_ok (f_exact c) (f_S c) (f_ts c) (f_lbs c) (f_ubs c) (f_ys c) (f_got c).

Definition rows_eqb (a b : list (list Q)) : bool := list_eqb (list_eqb Qeqb) a b.

Definition check_eval (c : ecase) : bool :=
  let ex := e_exact c in let S := e_S c in
  match magnitudes_of (e_pts c) (e_lbs c) (e_ubs c) (e_ms c), broadcast (length (e_x c)) (e_bts c) with
  | MagInfinite, _ => e_rejected c
  | MagShape, _ | _, None => false
  | MagOk mags, Some bts =>
      let order := sampler_order (e_gs c) in
      let ss := map (fun k => zero3 (sampler_mask k (e_gs c) (e_mask c)) (nth (Z.to_nat k) (e_scripts c) [])) order in
      let samples := sum_samples ss in
      let pv := perturb bts (e_lbs c) (e_ubs c) (e_x c) mags samples in
      negb (e_rejected c) &&
      forallb2 (qcmp ex S) (e_mags c) mags &&
      negb (Nat.eqb (length order) 0) &&
      list_eqb Z.eqb (e_order c) order &&
      (* reported perturbed variables = model *)
      forallb2 (forallb2 (forallb2 (qcmp ex S))) (e_pert c) pv &&
      Nat.eqb (length (e_pert c)) (e_R c) &&
      (* the evaluator received R copies of x, then the reported perturbed vectors, bit for bit *)
      rows_eqb (e_rows c) (repeat (e_x c) (e_R c) ++ concat (e_pert c)) &&
      (* the property's clauses directly on the observation *)
      forallb2 (forallb2 (fun srow grow =>
          comps_ok ex S bts (e_lbs c) (e_ubs c) (pre_bounds (e_x c) mags srow) grow)) samples (e_pert c)
  end.

Definition check_case (c : case) : bool :=
  match c with CFun f => check_fun f | CEval e => check_eval e end.
