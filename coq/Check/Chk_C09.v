(* Check/Chk_C09.v -- correspondence checker for C09.
   One case = all optimizer runs of one real Plan.run_step (the outer optimization first, then every inner
   optimization of its nested plan).  For every run the recorded callbacks are replayed through the model's
   [callback] state machine (Model/Mask.v); the vectors it produces are compared with every row the evaluator
   callable received and with every reported result; perturbed rows are predicted with Model/Bounds.perturb where
   the samples are scripted; fixed positions are compared exactly everywhere; gradients must be exact zeros on
   fixed positions and the optimizer is handed free-length vectors only. *)
From Coq Require Import QArith ZArith List Bool Arith.
From Ropt Require Import Base.Num Base.ListX Gen.Generated Model.Bounds Model.Mask.
Import ListNotations.
Open Scope Q_scope.

Record resrec := {
  rs_grad : bool;                      (* GradientResults (true) / FunctionResults (false) *)
  rs_vars : list Q;                    (* evaluations.variables (optimizer domain: transformed_results) *)
  rs_pert : list (list Q);             (* evaluations.perturbed_variables, flattened to R*P rows *)
  rs_grads : list (list Q);            (* weighted objective, objective and constraint gradient rows *)
  (* the user-domain copies reported next to them (event data "results"; equal to the above without transforms) *)
  rs_uvars : list Q;
  rs_upert : list (list Q);
  rs_ugrads : list (list Q)
}.

Record cbrec := {
  cb_free : list (list Q);             (* free-variable rows of the request (one row: vector argument) *)
  cb_batch : bool;                     (* the argument was a matrix *)
  cb_f : bool; cb_g : bool;
  cb_nested : option nested_outcome;   (* what the nested optimization handed back; None = no nested plan *)
  (* observations *)
  cb_nested_in : option (list Q);      (* vector the nested plan's function was called with *)
  cb_inner : option nat;               (* index of that inner optimizer run in the case *)
  cb_evals : list (list Q);            (* all rows the evaluator callable received during this callback *)
  cb_res : list resrec;                (* results reported through FINISHED_EVALUATION *)
  cb_out : Z;                          (* 0 returned, 1 nested optimization failed, 2 user abort, 3 RuntimeError *)
  cb_ret_f : list nat;                 (* shape of the functions array returned to the optimizer *)
  cb_ret_g : list nat                  (* shape of the gradients array returned to the optimizer *)
}.

Record runrec := {
  r_exact : bool; r_S : Q;
  r_mask : option (list bool);
  r_start : list Q;                    (* vector the optimization starts from (optimizer domain) *)
  r_R : nat;
  r_lbs : list ereal; r_ubs : list ereal; r_bts : list Z; r_mags : list Q;   (* validated configuration *)
  r_gs : option (list Z);
  r_scripts : option (list arr3);      (* scripted samplers: their arrays; None = built-in random samplers *)
  r_scale : list Q; r_offset : list Q; (* VariableScaler (1 / 0 when absent): user = opt * scale + offset *)
  r_nfun : nat;                        (* 1 + number of non-linear constraints *)
  (* observations *)
  r_seen_start : list Q;               (* initial_values argument of Optimizer.start *)
  r_x0 : option (list Q);              (* x0 handed to scipy.optimize (SciPy plug-in only) *)
  r_nbounds : option (nat * nat);      (* lengths of the Bounds handed to scipy.optimize *)
  r_cbs : list cbrec
}.

Record case := {
  (* the gradient configuration as written by the user (user domain), for the accept/reject decision of
     GradientConfig.fix_perturbations and the validated magnitudes of the outer run *)
  c_pts : list Z; c_lbs : list ereal; c_ubs : list ereal; c_ms : list Q;
  (* observations *)
  c_rejected : bool;                   (* the step raised a configuration ValidationError before anything ran *)
  c_runs : list runrec
}.

Definition qcmp (exact : bool) (S x m : Q) : bool := if exact then Qeqb x m else close S x m.
Definition vec_eqb (a b : list Q) : bool := list_eqb Qeqb a b.
Definition rows_eqb (a b : list (list Q)) : bool := list_eqb vec_eqb a b.
Definition to_user (r : runrec) (v : list Q) : list Q :=
  map2 (fun x so => x * fst so + snd so) v (combine (r_scale r) (r_offset r)).
(* an observed row against a model row: tolerance (exact for dyadic runs) everywhere, bit-exact on fixed positions *)
Definition row_cmp (r : runrec) (obs model : list Q) : bool :=
  forallb2 (qcmp (r_exact r) (r_S r)) obs model && agree_fixed_opt (r_mask r) obs model.

Definition lastn {A} (n : nat) (l : list A) : list A := skipn (length l - n) l.
Definition droplast {A} (n : nat) (l : list A) : list A := firstn (length l - n) l.

(* the perturbed rows for the evaluated vector v, when the samples are known *)
Definition model_pert (r : runrec) (v : list Q) : option (list (list Q)) :=
  match r_scripts r with
  | None => None
  | Some scripts =>
      Some (concat (perturb (r_bts r) (r_lbs r) (r_ubs r) v (r_mags r) (run_samplers (r_gs r) (r_mask r) scripts)))
  end.

(* a reported result against the evaluated vector v: optimizer-domain and user-domain copies *)
Definition res_at (r : runrec) (v : list Q) (x : resrec) : bool :=
  vec_eqb (rs_vars x) v && row_cmp r (rs_uvars x) (to_user r v).

Definition nfree (r : runrec) : nat := free_count (r_mask r) (length (r_start r)).

Definition check_grad_request (r : runrec) (cb : cbrec) (v : list Q) (cached : bool) : bool :=
  let V := length (r_start r) in
  let uv := to_user r v in
  let gres := filter rs_grad (cb_res cb) in
  let fres := filter (fun x => negb (rs_grad x)) (cb_res cb) in
  let own := owned (r_gs r) (r_mask r) V in
  match gres with
  | [g] =>
      let npert := length (rs_pert g) in
      let prows := lastn npert (cb_evals cb) in
      let frows := droplast npert (cb_evals cb) in
      (* unperturbed rows: R copies of the evaluated vector, unless the evaluator's cache model says that the
         function values of exactly this full vector are cached (then none, and no function result) *)
      Nat.eqb (length frows) (if cached then 0 else r_R r) &&
      forallb (fun row => row_cmp r row uv) frows &&
      Nat.eqb (length fres) (if cached then 0 else 1) &&
      forallb (res_at r v) fres &&
      (* the gradient result is at the evaluated vector; its perturbed variables are what the evaluator received *)
      res_at r v g &&
      forallb2 (fun row p => row_cmp r row (to_user r p)) prows (rs_pert g) &&
      forallb2 (fun up p => row_cmp r up (to_user r p)) (rs_upert g) (rs_pert g) &&
      (* every perturbed vector keeps the fixed variables: bit-identical to the evaluated vector *)
      forallb (fun p => agree_fixed_opt (r_mask r) p v) (rs_pert g) &&
      forallb (fun row => agree_fixed_opt (r_mask r) row uv) prows &&
      forallb (fun up => agree_fixed_opt (r_mask r) up uv) (rs_upert g) &&
      (* ... and every variable that no sampler owns (masked out, or sampler index -1) when it is inside its bounds *)
      forallb (fun p => unowned_kept own (r_lbs r) (r_ubs r) v p) (rs_pert g) &&
      (* full prediction where the samples are scripted *)
      match model_pert r v with
      | Some mp => forallb2 (fun p m => row_cmp r p m) (rs_pert g) mp
      | None => true
      end &&
      (* gradients, optimizer- and user-domain copies: full length, exact zeros on fixed positions; the optimizer
         gets free-length rows *)
      negb (Nat.eqb (length (rs_grads g)) 0) &&
      forallb (fun row => zero_fixed_opt (r_mask r) V row) (rs_grads g) &&
      Nat.eqb (length (rs_ugrads g)) (length (rs_grads g)) &&
      forallb (fun row => zero_fixed_opt (r_mask r) V row) (rs_ugrads g) &&
      list_eqb Nat.eqb (cb_ret_g cb) [r_nfun r; nfree r] &&
      list_eqb Nat.eqb (cb_ret_f cb) (if cb_f cb then [r_nfun r] else [0%nat])
  | _ => false
  end.

Definition check_fun_request (r : runrec) (cb : cbrec) (batch : bool) (vs : list (list Q)) : bool :=
  forallb2 (fun row m => row_cmp r row m) (cb_evals cb) (concat (map (fun v => repeat (to_user r v) (r_R r)) vs)) &&
  forallb (fun x => negb (rs_grad x)) (cb_res cb) &&
  forallb2 (fun x v => res_at r v x) (cb_res cb) vs &&
  list_eqb Nat.eqb (cb_ret_g cb) [0%nat] &&
  list_eqb Nat.eqb (cb_ret_f cb) (if batch then [length vs; r_nfun r] else [r_nfun r]).

Definition all_fvars (ir : runrec) : list (list Q) :=
  map rs_vars (filter (fun x => negb (rs_grad x)) (concat (map cb_res (r_cbs ir)))).

Definition check_link (all : list runrec) (cb : cbrec) (ni : option (list Q)) : bool :=
  match ni, cb_nested_in cb, cb_inner cb with
  | None, None, None => true
  | Some v, Some v', Some k =>
      vec_eqb v' v &&
      match nth_error all k with
      | Some ir =>
          vec_eqb (r_start ir) v &&
          match cb_nested cb with
          | Some (NDeliver rr) => existsb (vec_eqb rr) (all_fvars ir)
          | _ => true
          end
      | None => false
      end
  | _, _, _ => false
  end.

(* [cache]: the function-value cache of the run's EnsembleEvaluator (Model/Mask.evaluate) *)
Fixpoint check_cbs (all : list runrec) (r : runrec) (st : cb_state) (cache : option (list Q)) (cbs : list cbrec) : bool :=
  match cbs with
  | [] => true
  | cb :: t =>
      let batch := cb_batch cb in
      let '(ni, out, st') := callback (r_mask r) st (cb_free cb) (cb_nested cb) in
      check_link all cb ni &&
      forallb (fun row => Nat.eqb (length row) (nfree r)) (cb_free cb) &&
      match out with
      | CbEvaluate vs =>
          let '(plan, cache') := evaluate cache (cb_f cb) (cb_g cb) vs in
          Z.eqb (cb_out cb) 0 &&
          match plan with
          | EvFunctions vs' =>
              cb_f cb && negb (cb_g cb) && check_fun_request r cb (batch && negb (is_some (cb_nested cb))) vs'
          | EvGradCached v => negb batch && negb (cb_f cb) && check_grad_request r cb v true
          | EvBoth v => negb batch && check_grad_request r cb v false
          end &&
          check_cbs all r st' cache' t
      | CbNestedFailed => Z.eqb (cb_out cb) 1 && Nat.eqb (length (cb_evals cb)) 0 && Nat.eqb (length t) 0
      | CbUserAbort => Z.eqb (cb_out cb) 2 && Nat.eqb (length (cb_evals cb)) 0 && Nat.eqb (length t) 0
      | CbRaise => Z.eqb (cb_out cb) 3 && Nat.eqb (length (cb_evals cb)) 0 && Nat.eqb (length t) 0
      end
  end.

Definition check_run (all : list runrec) (r : runrec) : bool :=
  let V := length (r_start r) in
  Nat.eqb (length (r_lbs r)) V && Nat.eqb (length (r_ubs r)) V && Nat.eqb (length (r_bts r)) V &&
  Nat.eqb (length (r_mags r)) V && Nat.eqb (length (r_scale r)) V && Nat.eqb (length (r_offset r)) V &&
  match r_mask r with Some m => Nat.eqb (length m) V | None => true end &&
  (* the starting vector is inside the bounds (quantifier of the property) *)
  forallb2 (fun x lu => inb (fst lu) (snd lu) x) (r_start r) (combine (r_lbs r) (r_ubs r)) &&
  (* the optimizer plug-in is started with the full vector; SciPy is handed the free part only *)
  vec_eqb (r_seen_start r) (r_start r) &&
  match r_x0 r with Some x0 => vec_eqb x0 (gather_opt (r_mask r) (r_start r)) | None => true end &&
  match r_nbounds r with Some (a, b) => Nat.eqb a (nfree r) && Nat.eqb b (nfree r) | None => true end &&
  check_cbs all r {| fixed := r_start r |} None (r_cbs r).

(* the outer run's validated magnitudes are what fix_perturbations computes from the user's configuration *)
Definition check_mags (c : case) (r : runrec) : bool :=
  match magnitudes_scaled (c_pts c) (c_lbs c) (c_ubs c) (r_scale r) (r_offset r) (c_ms c) with
  | MagOk m => forallb2 (qcmp (r_exact r) (r_S r)) (r_mags r) m
  | _ => false
  end.

Definition check_case (c : case) : bool :=
  let all := c_runs c in
  let V := length (c_lbs c) in
  Nat.eqb (length (c_ubs c)) V && Nat.eqb (length (c_pts c)) V && Nat.eqb (length (c_ms c)) V &&
  if rel_finite (c_pts c) (c_lbs c) (c_ubs c)
  then negb (c_rejected c) && negb (Nat.eqb (length all) 0) && forallb (check_run all) all &&
       match all with r :: _ => check_mags c r | [] => false end
  else
    (* a RELATIVE variable -- free or fixed -- with an infinite bound: rejected at configuration time, nothing runs *)
    c_rejected c && Nat.eqb (length all) 0.
