(* Model/Store.v -- C06 (d): who writes where.  Python object identity is modelled explicitly: every
   array *reference* occurring in ropt/ensemble_evaluator/_evaluator_results.py, in the construction of
   Function/GradientEvaluations and in their transform_from_optimizer methods has a name ([ref]); an
   environment maps a reference to the *buffer* it points into (named by the reference that allocated it)
   and the buffer's owner.  Three parties own memory: the user evaluator (the arrays of the result object it
   returns, possibly the same on every call), the caller of EnsembleEvaluator.calculate (the variable
   vector it passes and keeps re-using) and ropt.  The three _get_*_results functions,
   _transform_evaluator_result, _propagate_nan_values, the *Evaluations.__post_init__ copies and the
   user-domain copies made for event handlers are programs over eleven operations; running a history of
   calls yields the list of events (writes, attribute assignments, deliveries) that the run-time monitor
   of the harness observes on the real objects.  Executable definitions only. *)
From Coq Require Import List Bool Arith.
Import ListNotations.

Inductive owner := Evaluator | Caller | Ropt.
(* objectives, constraints, evaluation_info arrays; variables, perturbed variables *)
Inductive field := FObj | FCon | FInfo | FVar | FPert.

(* array references; c = index of the calculate() call, b = block (batch member / function or gradient part) *)
Inductive ref :=
| EvalArr (f : field)                 (* attribute of the object the evaluator returned (same buffers on every call) *)
| CallerVec                           (* the variable vector / matrix handed to calculate() (same buffer on every call) *)
| Trans (c : nat) (f : field)         (* field of the result of _transform_evaluator_result *)
| Piece (c : nat) (f : field) (b : nat)   (* np.vsplit / [:R] / [R:] / variables[idx, :] slice *)
| Work (c : nat) (f : field) (b : nat)    (* local variable of _propagate_nan_values after .copy() *)
| Shaped (c : nat) (f : field) (b : nat)  (* after reshape / dict comprehension *)
| Res (c : nat) (f : field) (b : nat)     (* the array stored in the delivered *Evaluations object *)
| Pert (c : nat)                      (* the result of _perturb_variables *)
| Req (c : nat)                       (* the variable matrix handed to the evaluator *)
| TPiece (c : nat) (f : field) (b : nat)  (* constructor argument inside transform_from_optimizer *)
| TRes (c : nat) (f : field) (b : nat).   (* the array stored in the user-domain copy of a delivered result *)

Inductive obj := EvalObj | TransObj (c : nat).   (* the evaluator's result object / ropt's own EvaluatorResult *)

Inductive op :=
| Copy (src dst : ref)          (* dst = src.copy(), _immutable_copy(src): fresh buffer owned by ropt *)
| Fresh (src dst : ref)         (* dst = f(src) by arithmetic / np.repeat / np.vstack: a fresh buffer *)
| View (src dst : ref)          (* dst = src / src[a:b] / src.reshape(..): the same buffer *)
| WriteRows (a : ref)           (* a[failures, :] = nan: in-place write by ropt *)
| NewObj (o : obj)              (* construction of an object by ropt *)
| SetAttr (o : obj) (f : field) (* o.f = ... by ropt *)
| Deliver (a : ref)             (* a is part of a result handed to the user *)
| GiveEval (a : ref)            (* a is passed to the evaluator, which may keep the reference *)
| EvalWrite (f : field)         (* the evaluator overwrites its own buffer (reuse between calls) *)
| EvalWriteRef (a : ref)        (* the evaluator writes through a reference it was given *)
| CallerWrite.                  (* the caller overwrites the vector it passed to calculate() *)

Definition field_eqb (a b : field) : bool :=
  match a, b with FObj, FObj | FCon, FCon | FInfo, FInfo | FVar, FVar | FPert, FPert => true | _, _ => false end.
Definition ref_eqb (x y : ref) : bool :=
  match x, y with
  | EvalArr f, EvalArr g => field_eqb f g
  | CallerVec, CallerVec => true
  | Trans c f, Trans d g => field_eqb f g && Nat.eqb c d
  | Piece c f b, Piece d g e | Work c f b, Work d g e | Shaped c f b, Shaped d g e | Res c f b, Res d g e
  | TPiece c f b, TPiece d g e | TRes c f b, TRes d g e =>
      field_eqb f g && Nat.eqb c d && Nat.eqb b e
  | Pert c, Pert d | Req c, Req d => Nat.eqb c d
  | _, _ => false
  end.
Definition obj_owner (o : obj) : owner := match o with EvalObj => Evaluator | TransObj _ => Ropt end.

(* a buffer: the reference that allocated it, and its owner *)
Definition buf := (ref * owner)%type.
Definition env := ref -> option buf.
Definition upd (e : env) (r : ref) (b : buf) : env := fun r' => if ref_eqb r r' then Some b else e r'.
(* the evaluator's arrays and the caller's vector exist before ropt runs; an unbound reference is treated
   as evaluator memory (worst case), so a program that used one would show up as a foreign write *)
Definition init : env :=
  fun r => match r with
           | EvalArr f => Some (EvalArr f, Evaluator)
           | CallerVec => Some (CallerVec, Caller)
           | _ => None
           end.
Definition look (e : env) (r : ref) : buf := match e r with Some b => b | None => (r, Evaluator) end.

Inductive event :=
| EWrite (actor : owner) (b : buf)        (* in-place write into buffer b *)
| EAttr (o : obj) (f : field)             (* attribute assignment by ropt on object o *)
| EDeliver (b : buf).                     (* buffer b is reachable from a delivered result *)

Fixpoint run (e : env) (ops : list op) : list event :=
  match ops with
  | [] => []
  | Copy _ dst :: t | Fresh _ dst :: t => run (upd e dst (dst, Ropt)) t
  | View src dst :: t => run (upd e dst (look e src)) t
  | WriteRows a :: t => EWrite Ropt (look e a) :: run e t
  | NewObj _ :: t | GiveEval _ :: t => run e t
  | SetAttr o f :: t => EAttr o f :: run e t
  | Deliver a :: t => EDeliver (look e a) :: run e t
  | EvalWrite f :: t => EWrite Evaluator (look e (EvalArr f)) :: run e t
  | EvalWriteRef a :: t => EWrite Evaluator (look e a) :: run e t
  | CallerWrite :: t => EWrite Caller (look e CallerVec) :: run e t
  end.

(* ---- the programs ----------------------------------------------------------------------------- *)
(* the defects repaired by d6c1d61 / daee55f / 61339ec as switches, so that the analysis is seen to detect
   them; bug_var = "the variables are stored as they came" (what _immutable_copy prevents) *)
Record variant := { bug_setattr : bool; bug_nan : bool; bug_info : bool; bug_var : bool }.
Definition head : variant := {| bug_setattr := false; bug_nan := false; bug_info := false; bug_var := false |}.

Inductive shape := SFun (B : nat) | SGrad | SBoth.
(* p_tr_*: a transform of that kind is configured; p_user: the results are also delivered as user-domain
   copies (transform_from_optimizer, what the optimizer / evaluator steps hand to event handlers) *)
Record params := { p_shape : shape; p_con : bool; p_tr_obj : bool; p_tr_con : bool; p_tr_var : bool; p_user : bool }.

Definition cond {A} (b : bool) (l : list A) : list A := if b then l else [].

(* the variable matrix of the request: np.repeat / np.vstack allocate; a gradient-only request hands out
   a reshaped view of the perturbed variables unless a variable transform makes a new array *)
Definition request_ops (c : nat) (p : params) : list op :=
  match p_shape p with
  | SFun _ => [Fresh CallerVec (Req c)]
  | SGrad => [Fresh CallerVec (Pert c); (if p_tr_var p then Fresh else View) (Pert c) (Req c)]
  | SBoth => [Fresh CallerVec (Pert c); Fresh (Pert c) (Req c)]
  end ++ [GiveEval (Req c)].

(* _transform_evaluator_result (variant bug_setattr: the code before daee55f) *)
Definition transform_ops (v : variant) (c : nat) (p : params) : list op :=
  [(if p_tr_obj p then Fresh else View) (EvalArr FObj) (Trans c FObj)] ++
  cond (p_con p) [(if p_tr_con p then Fresh else View) (EvalArr FCon) (Trans c FCon)] ++
  [View (EvalArr FInfo) (Trans c FInfo)] ++
  (if bug_setattr v
   then cond (p_tr_obj p) [SetAttr EvalObj FObj] ++ cond (p_con p && p_tr_con p) [SetAttr EvalObj FCon]
   else [NewObj (TransObj c); SetAttr (TransObj c) FObj] ++ cond (p_con p) [SetAttr (TransObj c) FCon] ++
        [SetAttr (TransObj c) FInfo]).

(* _propagate_nan_values on block b (variant bug_nan: the code before d6c1d61 copied the wrong variable) *)
Definition propagate_ops (v : variant) (c : nat) (p : params) (b : nat) : list op :=
  [Copy (Piece c FObj b) (Work c FObj b); WriteRows (Work c FObj b)] ++
  cond (p_con p) [(if bug_nan v then View else Copy) (Piece c FCon b) (Work c FCon b); WriteRows (Work c FCon b)].

(* is block b of a call of this shape a GradientEvaluations? *)
Definition grad_block (s : shape) (b : nat) : bool :=
  match s with SFun _ => false | SGrad => true | SBoth => Nat.eqb b 1 end.

(* the fields of block b *)
Definition block_fields (p : params) (b : nat) : list field :=
  [FVar] ++ cond (grad_block (p_shape p) b) [FPert] ++ [FObj] ++ cond (p_con p) [FCon] ++ [FInfo].

Definition transformed (p : params) (f : field) : bool :=
  match f with FObj => p_tr_obj p | FCon => p_tr_con p | FVar | FPert => p_tr_var p | FInfo => false end.

(* transform_from_optimizer of block b: every field is either passed on or recomputed, and the constructor
   of the new *Evaluations object copies whatever it gets *)
Definition user_ops (c : nat) (p : params) (b : nat) : list op :=
  flat_map (fun f => [(if transformed p f then Fresh else View) (Res c f b) (TPiece c f b);
                      Copy (TPiece c f b) (TRes c f b); Deliver (TRes c f b)]) (block_fields p b).

(* one block: slice, propagate, reshape, and the copies made by *Evaluations.__post_init__
   (variant bug_info: before 61339ec the evaluation_info arrays were stored as they came) *)
Definition block_ops (v : variant) (c : nat) (p : params) (b : nat) : list op :=
  [View CallerVec (Piece c FVar b);
   (if bug_var v then View else Copy) (Piece c FVar b) (Res c FVar b); Deliver (Res c FVar b)] ++
  cond (grad_block (p_shape p) b) [Copy (Pert c) (Res c FPert b); Deliver (Res c FPert b)] ++
  [View (Trans c FObj) (Piece c FObj b)] ++ cond (p_con p) [View (Trans c FCon) (Piece c FCon b)] ++
  [View (Trans c FInfo) (Piece c FInfo b)] ++
  propagate_ops v c p b ++
  [View (Work c FObj b) (Shaped c FObj b)] ++ cond (p_con p) [View (Work c FCon b) (Shaped c FCon b)] ++
  [View (Piece c FInfo b) (Shaped c FInfo b)] ++
  [Copy (Shaped c FObj b) (Res c FObj b); Deliver (Res c FObj b)] ++
  cond (p_con p) [Copy (Shaped c FCon b) (Res c FCon b); Deliver (Res c FCon b)] ++
  [(if bug_info v then View else Copy) (Shaped c FInfo b) (Res c FInfo b); Deliver (Res c FInfo b)] ++
  cond (p_user p) (user_ops c p b).

Definition blocks (s : shape) : list nat :=
  match s with SFun B => seq 0 B | SGrad => [0] | SBoth => [0; 1] end.

(* one calculate() call: _get_function_results / _get_gradient_results / _get_function_and_gradient_results *)
Definition call_ops (v : variant) (c : nat) (p : params) : list op :=
  request_ops c p ++ transform_ops v c p ++ flat_map (block_ops v c p) (blocks (p_shape p)).

(* a history: after every call the evaluator may overwrite all of its buffers (memoising evaluators that
   reuse arrays) and every variable matrix it was ever handed, and the caller may overwrite its vector *)
Definition reuse_ops (c : nat) : list op :=
  [EvalWrite FObj; EvalWrite FCon; EvalWrite FInfo] ++ map (fun c' => EvalWriteRef (Req c')) (seq 0 (S c)) ++ [CallerWrite].
Fixpoint history_ops (v : variant) (c : nat) (ps : list params) : list op :=
  match ps with
  | [] => []
  | p :: t => call_ops v c p ++ reuse_ops c ++ history_ops v (S c) t
  end.

(* ---- what the monitor looks for --------------------------------------------------------------- *)
Definition is_evaluator (o : owner) : bool := match o with Evaluator => true | _ => false end.
Definition is_ropt (o : owner) : bool := match o with Ropt => true | _ => false end.

(* writes by ropt into buffers it does not own, attribute assignments on the evaluator's object,
   delivered arrays that live in somebody else's memory *)
Definition foreign (ev : event) : bool :=
  match ev with
  | EWrite Ropt (_, o) => negb (is_ropt o)
  | EWrite _ _ => false
  | EAttr o _ => is_evaluator (obj_owner o)
  | EDeliver (_, o) => negb (is_ropt o)
  end.
Definition foreign_events (evs : list event) : list event := filter foreign evs.

(* writes (by anybody) into a buffer after it was delivered *)
Definition buf_eqb (a b : buf) : bool := ref_eqb (fst a) (fst b).
Fixpoint late_writes (evs : list event) : list event :=
  match evs with
  | [] => []
  | EDeliver b :: t =>
      filter (fun ev => match ev with EWrite _ b' => buf_eqb b b' | _ => false end) t ++ late_writes t
  | _ :: t => late_writes t
  end.

(* observation codes shared with the harness *)
Inductive code := CSetAttr (f : field) | CBufferChanged (f : field) | CAlias (f : field) | CDeliveredChanged | COther.
Definition code_eqb (a b : code) : bool :=
  match a, b with
  | CSetAttr f, CSetAttr g | CBufferChanged f, CBufferChanged g | CAlias f, CAlias g => field_eqb f g
  | CDeliveredChanged, CDeliveredChanged | COther, COther => true
  | _, _ => false
  end.
Definition buf_field (b : buf) : field :=
  match fst b with
  | EvalArr f | Trans _ f | Piece _ f _ | Work _ f _ | Shaped _ f _ | Res _ f _ | TPiece _ f _ | TRes _ f _ => f
  | CallerVec | Req _ => FVar
  | Pert _ => FPert
  end.
Definition code_of (ev : event) : code :=
  match ev with
  | EWrite _ b => CBufferChanged (buf_field b)
  | EAttr _ f => CSetAttr f
  | EDeliver b => CAlias (buf_field b)
  end.
(* everything the monitor would report for a history *)
Definition monitor_codes (v : variant) (ps : list params) : list code :=
  let evs := run init (history_ops v 0 ps) in
  map code_of (foreign_events evs) ++ map (fun _ => CDeliveredChanged) (late_writes evs).
