(* Model/Registry.v -- executable model of ropt.plugins._manager.PluginManager.

   Structured like the code:
   * a registry is a Python dict (insertion-ordered association list with unique keys); the two dict
     operations the code uses are modelled as such: `dset` (d[k] = v: replace in place or append) and
     `dupdate` (d.update(src));  add_plugin(prioritize=True) is `{name: plugin}.update(dict(old))`;
   * names are real strings; the model lower-cases them itself (str.lower on ASCII) at add_plugin and at
     lookup, and splits "plugin/method" at the first slash (str.split("/", maxsplit=1));
   * the part after the slash (or the bare method) is handed to the plug-in verbatim; a plug-in is a
     case-insensitive table (`Table`: method.lower() in {...}, all built-ins), a case-sensitive table
     (`Exact`), or the built-in external optimizer (`External`), which supports exactly what a *fresh*
     manager resolves for plug-in type "optimizer";
   * a manager holds one registry per plug-in type (self._plugins[plugin_type]); a universe is a list of
     managers.  Operations on an unknown type / manager answer `ABad` (KeyError / IndexError). *)
From Coq Require Import List Bool Arith String Ascii.
Import ListNotations.

Definition lower_ascii (c : ascii) : ascii :=
  let n := nat_of_ascii c in
  if (65 <=? n) && (n <=? 90) then ascii_of_nat (n + 32) else c.
Fixpoint lower (s : string) : string :=
  match s with EmptyString => EmptyString | String c t => String (lower_ascii c) (lower t) end.

(* split at the first "/": (head, Some tail) if there is a slash, (s, None) otherwise *)
Fixpoint split_slash (s : string) : string * option string :=
  match s with
  | EmptyString => (EmptyString, None)
  | String c t =>
      if Ascii.eqb c "/"%char then (EmptyString, Some t)
      else let (h, r) := split_slash t in (String c h, r)
  end.

Inductive pkind :=
  | Table (methods : list string)     (* is_supported m  :=  m.lower() in methods *)
  | Exact (methods : list string)     (* is_supported m  :=  m in methods (case-sensitive plug-in) *)
  | External.                         (* is_supported m  :=  a fresh manager supports m as an optimizer *)
Record plugin := { pid : nat; kind : pkind; disc : bool }.
Definition registry := list (string * plugin).    (* dict: lower-cased name -> plug-in, in insertion order *)

Definition names (r : registry) : list string := map fst r.
Definition listing (r : registry) : list (string * nat) := map (fun np => (fst np, pid (snd np))) r.

(* ---- the Python dict operations used by add_plugin ------------------------------------- *)
Fixpoint find_name (r : registry) (n : string) : option plugin :=             (* d.get(n) *)
  match r with [] => None | (k, v) :: t => if String.eqb k n then Some v else find_name t n end.
Definition dmem (r : registry) (n : string) : bool :=                          (* n in d *)
  match find_name r n with Some _ => true | None => false end.
Fixpoint dset (d : registry) (k : string) (v : plugin) : registry :=           (* d[k] = v *)
  match d with
  | [] => [(k, v)]
  | (k', v') :: t => if String.eqb k' k then (k', v) :: t else (k', v') :: dset t k v
  end.
Definition dupdate (d src : registry) : registry :=                            (* d.update(src) *)
  fold_left (fun acc kv => dset acc (fst kv) (snd kv)) src d.

Definition in_table (m : string) (ms : list string) : bool := existsb (String.eqb (lower m)) ms.
Definition in_exact (m : string) (ms : list string) : bool := existsb (String.eqb m) ms.

Inductive op :=
  | Add (name : string) (p : plugin) (prio : bool)      (* add_plugin(type, name, p, prioritize=prio) *)
  | Get (method : string)                               (* get_plugin(type, method) *)
  | Sup (method : string)                               (* is_supported(type, method) *)
  | Lst                                                 (* list(plugins(type)) *)
  | Fwd (method : string).                              (* ExternalOptimizer.__init__: resolve the part after
                                                           "external/" in a fresh manager (ok / ConfigError) *)
Inductive ans := AOk | AErr | APlug (id : nat) | ABool (b : bool) | AList (l : list (string * nat)) | ABad.

Fixpoint upd {A} (l : list A) (i : nat) (x : A) : list A :=
  match l, i with [] , _ => [] | _ :: t, O => x :: t | h :: t, S j => h :: upd t j x end.

(* a family of independent components addressed by index (types inside a manager, managers in a universe) *)
Section Family.
  Context {St Op : Type}.
  Variable stp : St -> Op -> St * ans.
  Definition fstep (l : list St) (io : nat * Op) : list St * ans :=
    match nth_error l (fst io) with
    | Some s => let (s', a) := stp s (snd io) in (upd l (fst io) s', a)
    | None => (l, ABad)
    end.
  Fixpoint frun (l : list St) (ops : list (nat * Op)) : list ans * list St :=
    match ops with
    | [] => ([], l)
    | o :: t => let (l', a) := fstep l o in let (r, lf) := frun l' t in (a :: r, lf)
    end.
End Family.

Section WithInit.
  Variable oinit : registry.    (* the "optimizer" registry of PluginManager() right after construction *)

  (* fuel bounds the external plug-in's recursion into a fresh manager; each level strips one
     "name/" prefix, so String.length of the method is enough fuel (Proofs: supports_fuel). *)
  Fixpoint supports (fuel : nat) (p : plugin) (m : string) : bool :=
    match kind p with
    | Table ms => in_table m ms
    | Exact ms => in_exact m ms
    | External =>
        match fuel with
        | O => false
        | S f =>
            (* PluginManager().is_supported("optimizer", m) *)
            match split_slash m with
            | (h, Some t) =>
                match find_name oinit (lower h) with Some q => supports f q t | None => false end
            | (h, None) => existsb (fun np => disc (snd np) && supports f (snd np) h) oinit
            end
        end
    end.

  Definition fuel_of (m : string) : nat := S (String.length m).
  Definition sup1 (p : plugin) (m : string) : bool := supports (fuel_of m) p m.   (* p.is_supported(m) *)

  Fixpoint first_disc (r : registry) (m : string) : option plugin :=
    match r with
    | [] => None
    | (_, p) :: t => if disc p && sup1 p m then Some p else first_disc t m
    end.

  Definition get (r : registry) (method : string) : option plugin :=
    match split_slash method with
    | (h, Some t) =>
        match find_name r (lower h) with
        | Some p => if sup1 p t then Some p else None
        | None => None
        end
    | (h, None) => first_disc r h
    end.

  (* which registered plug-ins get_plugin asks (plugin.is_supported calls: plug-in id, argument) *)
  Fixpoint consulted_bare (r : registry) (m : string) : list (nat * string) :=
    match r with
    | [] => []
    | (_, p) :: t => if disc p then (pid p, m) :: (if sup1 p m then [] else consulted_bare t m)
                     else consulted_bare t m
    end.
  Definition consulted (r : registry) (method : string) : list (nat * string) :=
    match split_slash method with
    | (h, Some t) => match find_name r (lower h) with Some p => [(pid p, t)] | None => [] end
    | (h, None) => consulted_bare r h
    end.

  Definition add (r : registry) (n : string) (p : plugin) (prio : bool) : registry * ans :=
    let nl := lower n in
    if dmem r nl then (r, AErr)
    else if prio then (dupdate [(nl, p)] r, AOk)
    else (dset r nl p, AOk).

  Definition step (r : registry) (o : op) : registry * ans :=
    match o with
    | Add n p prio => add r n p prio
    | Get m => (r, match get r m with Some p => APlug (pid p) | None => AErr end)
    | Sup m => (r, ABool (match get r m with Some _ => true | None => false end))
    | Lst => (r, AList (listing r))
    | Fwd m => (r, match split_slash m with
                   | (_, Some t) => match get oinit t with Some _ => AOk | None => AErr end
                   | (_, None) => ABad
                   end)
    end.

  Fixpoint run (r : registry) (ops : list op) : list ans * registry :=
    match ops with
    | [] => ([], r)
    | o :: t => let (r', a) := step r o in let (l, rf) := run r' t in (a :: l, rf)
    end.

  (* a manager: one registry per plug-in type; a universe: several managers *)
  Definition manager := list registry.
  Definition mstep : manager -> nat * op -> manager * ans := fstep step.
  Definition mrun : manager -> list (nat * op) -> list ans * manager := frun step.
  Definition ustep : list manager -> nat * (nat * op) -> list manager * ans := fstep mstep.
  Definition urun : list manager -> list (nat * (nat * op)) -> list ans * list manager := frun mstep.

  Definition reg_of (u : list manager) (i t : nat) : registry :=
    match nth_error u i with Some m => nth t m [] | None => [] end.
  Fixpoint crun (u : list manager) (ops : list (nat * (nat * op))) : list (list (nat * string)) :=
    match ops with
    | [] => []
    | o :: rest =>
        (match snd (snd o) with
         | Get m | Sup m => consulted (reg_of u (fst o) (fst (snd o))) m
         | _ => []
         end) :: crun (fst (ustep u o)) rest
    end.
End WithInit.
