(* Model/Registry.v -- executable model of ropt.plugins._manager.PluginManager (one plug-in type).
   Mirrors add_plugin / get_plugin / is_supported / plugins.  Names are real strings and the model
   lower-cases them itself (str.lower on ASCII), splits "plugin/method" at the first slash
   (str.split("/", maxsplit=1)).  A plug-in is a table of lower-cased method names, a discovery flag,
   or the built-in external optimizer, which supports exactly what a *fresh* manager resolves. *)
From Coq Require Import List Bool Arith String Ascii.
Import ListNotations.

Definition lower_ascii (c : ascii) : ascii :=
  let n := nat_of_ascii c in
  if (65 <=? n) && (n <=? 90) then ascii_of_nat (n + 32) else c.
Fixpoint lower (s : string) : string :=
  match s with EmptyString => EmptyString | String c t => String (lower_ascii c) (lower t) end.

(* split at the first "/": (head, Some tail) if there is a slash, (s, None) otherwise *)
Fixpoint split_slash (s : string) : string * option string :=
  match s with
  | EmptyString => (EmptyString, None)
  | String c t =>
      if Ascii.eqb c "/"%char then (EmptyString, Some t)
      else let (h, r) := split_slash t in (String c h, r)
  end.

Inductive pkind :=
  | Table (methods : list string)     (* is_supported m  :=  lower m in methods *)
  | External.                         (* is_supported m  :=  a fresh manager supports m *)
Record plugin := { pid : nat; kind : pkind; disc : bool }.
Definition registry := list (string * plugin).    (* lower-cased name -> plug-in, in lookup order *)

Fixpoint find_name (r : registry) (n : string) : option plugin :=
  match r with [] => None | (k, v) :: t => if String.eqb k n then Some v else find_name t n end.

Definition in_table (m : string) (ms : list string) : bool := existsb (String.eqb (lower m)) ms.

Section WithInit.
  Variable init : registry.     (* what PluginManager() contains right after construction *)

  (* fuel bounds the external plug-in's recursion into a fresh manager; each level strips one
     "name/" prefix, so String.length of the method is enough fuel. *)
  Fixpoint supports (fuel : nat) (p : plugin) (m : string) : bool :=
    match kind p with
    | Table ms => in_table m ms
    | External =>
        match fuel with
        | O => false
        | S f =>
            (* fresh.get_plugin(m) succeeds *)
            match split_slash m with
            | (h, Some t) =>
                match find_name init (lower h) with Some q => supports f q t | None => false end
            | (h, None) => existsb (fun np => disc (snd np) && supports f (snd np) h) init
            end
        end
    end.

  Definition fuel_of (m : string) : nat := S (String.length m).

  Fixpoint first_disc (r : registry) (m : string) : option plugin :=
    match r with
    | [] => None
    | (_, p) :: t => if disc p && supports (fuel_of m) p m then Some p else first_disc t m
    end.

  Definition get (r : registry) (method : string) : option plugin :=
    match split_slash method with
    | (h, Some t) =>
        match find_name r (lower h) with
        | Some p => if supports (fuel_of t) p t then Some p else None
        | None => None
        end
    | (h, None) => first_disc r h
    end.

  Inductive op :=
    | Add (name : string) (p : plugin) (prio : bool)
    | Get (method : string)
    | Sup (method : string).
  Inductive ans := AOk | AErr | APlug (id : nat) | ABool (b : bool).

  Definition step (r : registry) (o : op) : registry * ans :=
    match o with
    | Add n p prio =>
        let nl := lower n in
        match find_name r nl with
        | Some _ => (r, AErr)
        | None => ((if prio then (nl, p) :: r else r ++ [(nl, p)]), AOk)
        end
    | Get m => (r, match get r m with Some p => APlug (pid p) | None => AErr end)
    | Sup m => (r, ABool (match get r m with Some _ => true | None => false end))
    end.

  Fixpoint run (r : registry) (ops : list op) : list ans * registry :=
    match ops with
    | [] => ([], r)
    | o :: t => let (r', a) := step r o in let (l, rf) := run r' t in (a :: l, rf)
    end.

  (* several managers: operation addressed to manager i *)
  Fixpoint upd {A} (l : list A) (i : nat) (x : A) : list A :=
    match l, i with [] , _ => [] | _ :: t, O => x :: t | h :: t, S j => h :: upd t j x end.
  Definition ustep (u : list registry) (io : nat * op) : list registry * ans :=
    match nth_error u (fst io) with
    | Some r => let (r', a) := step r (snd io) in (upd u (fst io) r', a)
    | None => (u, AErr)
    end.
  Fixpoint urun (u : list registry) (ops : list (nat * op)) : list ans * list registry :=
    match ops with
    | [] => ([], u)
    | o :: t => let (u', a) := ustep u o in let (l, uf) := urun u' t in (a :: l, uf)
    end.
End WithInit.

Definition names (r : registry) : list string := map fst r.
