(* Model/Framing.v -- C20: the framing layer of _JSONPipeCommunicator (ropt/plugins/optimizer/external.py).
   Executable definitions only.

   write(data) puts `json.dumps(data) + "\n" + DELIMITER + "\n"` on the FIFO; the FIFO delivers that byte stream in
   arbitrary pieces.  read() appends what has arrived to the buffer it keeps, splits the buffer at newlines into
   complete lines and an unfinished rest, looks for the FIRST complete line that is the delimiter, returns the lines
   before it (joined by newlines) and keeps everything after it; without such a line it returns None and keeps the
   buffer.  The code also `.strip()`s the delimiter line and the message: the model is restricted to messages
   without newline and without leading / trailing blanks, which is what json.dumps produces (it escapes newlines
   inside strings and emits no surrounding white space).  Characters are abstract (decidable equality, a
   distinguished newline); the checker instantiates them with byte codes. *)
From Coq Require Import List Arith.
Import ListNotations.

Section Framing.
Variable A : Type.
Variable eq_dec : forall x y : A, {x = y} + {x <> y}.
Variable nl : A.
Variable delim : list A.

Definition wire (m : list A) : list A := m ++ nl :: delim ++ [nl].

(* `self._buffer += decoded chunk` *)
Definition feed (buf chunk : list A) : list A := buf ++ chunk.

(* the first complete line of the buffer and what follows its newline *)
Fixpoint first_line (buf : list A) : option (list A * list A) :=
  match buf with
  | [] => None
  | c :: t => if eq_dec c nl then Some ([], t)
              else match first_line t with Some (l, r) => Some (c :: l, r) | None => None end
  end.

(* "\n".join(lines) *)
Fixpoint join (ls : list (list A)) : list A :=
  match ls with
  | [] => []
  | l :: t => match t with [] => l | _ => l ++ nl :: join t end
  end.

(* `for index, line in enumerate(lines[:-1])`: acc = the complete lines seen so far (fuel >= number of lines) *)
Fixpoint scan (fuel : nat) (acc : list (list A)) (buf : list A) : option (list A * list A) :=
  match fuel with
  | O => None
  | S f =>
      match first_line buf with
      | None => None
      | Some (l, r) => if list_eq_dec eq_dec l delim then Some (join acc, r) else scan f (acc ++ [l]) r
      end
  end.

(* read(): (message or None, buffer afterwards) *)
Definition read (buf : list A) : option (list A) * list A :=
  match scan (S (List.length buf)) [] buf with
  | Some (m, r) => (Some m, r)
  | None => (None, buf)
  end.

(* the caller polls read() until it returns None *)
Fixpoint drain (fuel : nat) (buf : list A) : list (list A) * list A :=
  match fuel with
  | O => ([], buf)
  | S f => match read buf with
           | (Some m, b) => let (ms, b') := drain f b in (m :: ms, b')
           | (None, _) => ([], buf)
           end
  end.
Definition drain_all (buf : list A) : list (list A) * list A := drain (S (List.length buf)) buf.

(* the pieces arrive one by one; after each the reader is polled until it has nothing more *)
Fixpoint run (buf : list A) (chunks : list (list A)) : list (list A) * list A :=
  match chunks with
  | [] => ([], buf)
  | c :: cs => let (ms1, b1) := drain_all (feed buf c) in
               let (ms2, b2) := run b1 cs in (ms1 ++ ms2, b2)
  end.

(* what is returned piece by piece (the probe's observation) *)
Fixpoint run_trace (buf : list A) (chunks : list (list A)) : list (list (list A)) :=
  match chunks with
  | [] => []
  | c :: cs => let (ms1, b1) := drain_all (feed buf c) in ms1 :: run_trace b1 cs
  end.
End Framing.
