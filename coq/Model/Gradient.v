(* Model/Gradient.v -- executable model of the stochastic-gradient estimation of ropt
   (src/ropt/ensemble_evaluator/_gradient.py, EnsembleEvaluator._compute_gradients/_expand_gradients,
   plugins/function_estimator/default.py:calculate_gradient).  Definitions only, no proofs.

   Numbers are exact rationals, NaN is None.  The truncated-SVD solve of _invert_linear_equations is
   modelled as a CERTIFIED least-squares step: an (untrusted) exact solver of the normal equations
   (Cramer's rule over Q) proposes g = N / D, and g is accepted only if it satisfies the normal
   equations A^T (A N - D b) == 0, D <> 0, exactly ([accept], [accept_hom]).  Proofs use only the
   acceptance test.  The 99.9 % energy rule of the
   code is [select_mask]; under the property's conditioning clause it keeps every singular value
   (Proofs/SvdBound.v), so the truncated pseudo-inverse is the full one.

   The merged estimate is modelled as the property states it (weighted least squares: the weighted
   normal equations  sum_i w_i A_i^T (A_i g - b_i) == 0); the current code multiplies only the
   right-hand side by the weights (known finding C02:merged-gradient-scaled). *)
From Coq Require Import QArith Qabs List Bool Arith ZArith.
From Ropt Require Import Base.Num Base.ListX Gen.Generated.
Import ListNotations.
Open Scope Q_scope.

Definition vec := list Q.
Definition mat := list (list Q).

(* ---- arithmetic that stays cheap on float (dyadic) data under vm_compute ------------------------ *)
(* x + y with the fraction reduced; the products are written denominator-first because Pos.mul
   recurses on its first argument and denominators of floats are powers of two *)
Definition radd (x y : Q) : Q :=
  Qred (Qmake (QDen y * Qnum x + QDen x * Qnum y) (Qden x * Qden y)).
Definition rsub (x y : Q) : Q := radd x (- y).

(* ---- vectors ---------------------------------------------------------------------- *)
Definition vzero (n : nat) : vec := repeat 0 n.
Fixpoint vadd (a b : vec) : vec :=
  match a, b with x :: a', y :: b' => radd x y :: vadd a' b' | _, _ => [] end.
Fixpoint vsub (a b : vec) : vec :=
  match a, b with x :: a', y :: b' => rsub x y :: vsub a' b' | _, _ => [] end.
Fixpoint vmul (a b : vec) : vec :=
  match a, b with x :: a', y :: b' => (x * y) :: vmul a' b' | _, _ => [] end.
Fixpoint rdot (a b : vec) : Q :=
  match a, b with x :: a', y :: b' => radd (x * y) (rdot a' b') | _, _ => 0 end.

(* A x  and  A^T y  (A is a list of rows with n columns) *)
Definition mv (A : mat) (x : vec) : vec := map (fun r => rdot r x) A.
Fixpoint tmv (n : nat) (A : mat) (y : vec) : vec :=
  match A, y with
  | r :: A', yi :: y' => vadd (qscale yi r) (tmv n A' y')
  | _, _ => vzero n
  end.
(* sum_i w_i g_i  (np.dot(gradients, weights) with gradients of shape (n, R)) *)
Fixpoint wvsum (n : nat) (ws : vec) (gs : list vec) : vec :=
  match ws, gs with
  | w :: ws', g :: gs' => vadd (qscale w g) (wvsum n ws' gs')
  | _, _ => vzero n
  end.

(* ---- masks: restriction to the free variables, re-expansion with zeros ------------------ *)
Definition restrict_free {A} (mask : list bool) (v : list A) : list A := gather mask v.
(* _expand_gradients: result = zeros(mask.size); result[mask] = gradient *)
Fixpoint expand_with_zeros (mask : list bool) (g : vec) : vec :=
  match mask with
  | [] => []
  | true :: m => match g with x :: g' => x :: expand_with_zeros m g' | [] => 0 :: expand_with_zeros m [] end
  | false :: m => 0 :: expand_with_zeros m g
  end.

(* ---- the 99.9 % energy rule of _invert_linear_equations ---------------------------------- *)
(* select = cumsum(s2) / sum(s2) < tau ;  select[argmin(select)] = True *)
Fixpoint sel (tau T acc : Q) (s : list Q) : list bool :=
  match s with
  | [] => []
  | x :: t => let acc' := acc + x in Qltb (acc' / T) tau :: sel tau T acc' t
  end.
Fixpoint set_first_false (m : list bool) : list bool :=
  match m with [] => [] | true :: t => true :: set_first_false t | false :: t => true :: t end.
Definition select_mask (tau : Q) (s : list Q) : list bool := set_first_false (sel tau (qsum s) 0 s).
(* sigma_inv is 1/sigma where (sigma > 0) & select, else 0: nothing is dropped iff *)
Definition keeps_all (tau : Q) (s2 : list Q) : bool :=
  forallb (fun b : bool => b) (select_mask tau s2) && forallb (fun y => Qltb 0 y) s2.
(* the conditioning clause of the property on a descending list of squared singular values:
   n of them, the smallest at least kappa of the total *)
Definition kappa : Q := 1 # 100.
Fixpoint descending (s : list Q) : bool :=
  match s with x :: ((y :: _) as t) => Qleb y x && descending t | _ => true end.
Definition well_conditioned (n : nat) (s2 : list Q) : bool :=
  (length s2 =? n)%nat && descending s2 && Qltb 0 (qsum s2) && Qleb (kappa * qsum s2) (last s2 0)
  && forallb (fun y => Qleb 0 y) s2.

(* ---- certified least squares -------------------------------------------------------------- *)
(* a weighted family of systems (w_i, A_i, b_i); a single system is the family [(1, A, b)] *)
Definition wsystem := (Q * (mat * vec))%type.

Definition residual (n : nat) (A : mat) (b g : vec) : vec := tmv n A (vsub (mv A g) b).   (* A^T (A g - b) *)
Fixpoint wresidual (n : nat) (sys : list wsystem) (g : vec) : vec :=
  match sys with
  | [] => vzero n
  | (w, (A, b)) :: t => vadd (qscale w (residual n A b g)) (wresidual n t g)
  end.
Definition wf_system (n : nat) (s : wsystem) : bool :=
  let '(_, (A, b)) := s in forallb (fun r => (length r =? n)%nat) A && (length b =? length A)%nat.
(* THE acceptance test: shapes are right and the (weighted) normal equations hold exactly *)
Definition accept (n : nat) (sys : list wsystem) (g : vec) : bool :=
  (length g =? n)%nat && forallb (wf_system n) sys && forallb (fun z => Qeqb z 0) (wresidual n sys g).

(* untrusted proposer: Cramer's rule on  (sum_i w_i A_i^T A_i) g = sum_i w_i A_i^T b_i.  It returns the
   candidate in homogeneous form (N, D), g = N / D, so that for float (dyadic) data the acceptance
   test runs on dyadic numbers only. *)
Definition col (j : nat) (A : mat) : vec := map (fun r => nth j r 0) A.
Definition gram (n : nat) (A : mat) : mat :=
  map (fun j => map (fun k => rdot (col j A) (col k A)) (seq 0 n)) (seq 0 n).
Definition atb (n : nat) (A : mat) (b : vec) : vec := map (fun j => rdot (col j A) b) (seq 0 n).
Fixpoint madd (a b : mat) : mat :=
  match a, b with x :: a', y :: b' => vadd x y :: madd a' b' | _, _ => [] end.
Fixpoint wgram (n : nat) (sys : list wsystem) : mat :=
  match sys with
  | [] => repeat (vzero n) n
  | (w, (A, _)) :: t => madd (map (qscale w) (gram n A)) (wgram n t)
  end.
Fixpoint watb (n : nat) (sys : list wsystem) : vec :=
  match sys with
  | [] => vzero n
  | (w, (A, b)) :: t => vadd (qscale w (atb n A b)) (watb n t)
  end.

Fixpoint remove_nth {A} (j : nat) (l : list A) : list A :=
  match l, j with
  | [], _ => []
  | _ :: t, O => t
  | x :: t, S j' => x :: remove_nth j' t
  end.
Fixpoint replace_nth {A} (j : nat) (y : A) (l : list A) : list A :=
  match l, j with
  | [], _ => []
  | _ :: t, O => y :: t
  | x :: t, S j' => x :: replace_nth j' y t
  end.
(* Laplace expansion along the first row *)
Fixpoint det (fuel : nat) (M : mat) : Q :=
  match fuel, M with
  | S f, r :: M' =>
      (fix go (j : nat) (sgn : Q) (row : vec) : Q :=
         match row with
         | [] => 0
         | x :: row' =>
             if Qeqb x 0 then go (S j) (- sgn) row'
             else radd (sgn * x * det f (map (remove_nth j) M')) (go (S j) (- sgn) row')
         end) 0%nat 1 r
  | _, _ => 1
  end.
Fixpoint replace_col (j : nat) (r : vec) (M : mat) : mat :=
  match M, r with row :: M', x :: r' => replace_nth j x row :: replace_col j r' M' | _, _ => [] end.
Definition propose (n : nat) (sys : list wsystem) : vec * Q :=
  let M := wgram n sys in
  let r := watb n sys in
  (map (fun j => det n (replace_col j r M)) (seq 0 n), det n M).

(* g = N / D is accepted iff D <> 0 and  sum_i w_i A_i^T (A_i N - D b_i) == 0  exactly *)
Definition scale_rhs (D : Q) (sys : list wsystem) : list wsystem :=
  map (fun s : wsystem => (fst s, (fst (snd s), qscale D (snd (snd s))))) sys.
Definition accept_hom (n : nat) (sys : list wsystem) (N : vec) (D : Q) : bool :=
  negb (Qeqb D 0) && accept n (scale_rhs D sys) N.

Definition wlstsq (n : nat) (sys : list wsystem) : option vec :=
  let (N, D) := propose n sys in
  if accept_hom n sys N D then Some (map (fun k => Qred (k / D)) N) else None.
Definition lstsq (n : nat) (A : mat) (b : vec) : option vec := wlstsq n [(1, (A, b))].

(* ---- difference systems of one realization ---------------------------------------------------- *)
Record rdata := {
  r_X : mat;              (* perturbed variables (free columns), one row per perturbation *)
  r_f0 : oQ;              (* unperturbed value of the function, None = failed *)
  r_fp : list oQ          (* perturbed values, None = failed perturbation *)
}.
(* delta_variables = perturbed - variables ; delta_functions = perturbed - unperturbed (NaN-propagating) *)
Definition delta_x (x : vec) (X : mat) : mat := map (fun p => vsub p x) X.
Definition delta_f (f0 : oQ) (fp : list oQ) : list oQ :=
  map (fun p => match f0, p with Some a, Some b => Some (rsub b a) | _, _ => None end) fp.
(* delta_variables[idx, success, :], delta_functions[idx, success] *)
Fixpoint drop_failed_rows (D : mat) (df : list oQ) : mat * vec :=
  match D, df with
  | r :: D', Some v :: df' => let (A, b) := drop_failed_rows D' df' in (r :: A, v :: b)
  | _ :: D', None :: df' => drop_failed_rows D' df'
  | _, _ => ([], [])
  end.
Definition system_of (x : vec) (r : rdata) : mat * vec :=
  drop_failed_rows (delta_x x (r_X r)) (delta_f (r_f0 r) (r_fp r)).

(* _estimate_gradients: one solve per active realization with at least one success, zeros otherwise *)
Definition realization_gradient (n : nat) (x : vec) (r : rdata) (w : Q) : option vec :=
  if Qeqb w 0 then Some (vzero n) else
  match system_of x r with
  | ([], _) => Some (vzero n)
  | (A, b) => lstsq n A b
  end.
Fixpoint estimate_per_realization (n : nat) (x : vec) (rs : list rdata) (ws : vec) : option (list vec) :=
  match rs, ws with
  | r :: rs', w :: ws' =>
      match realization_gradient n x r w, estimate_per_realization n x rs' ws' with
      | Some g, Some gs => Some (g :: gs)
      | _, _ => None
      end
  | _, _ => Some []
  end.

(* _estimate_merged_gradient as the property wants it: all successful rows of all active
   realizations in one weighted least-squares problem *)
Fixpoint merged_systems (x : vec) (rs : list rdata) (ws : vec) : list wsystem :=
  match rs, ws with
  | r :: rs', w :: ws' =>
      if Qeqb w 0 then merged_systems x rs' ws' else (w, system_of x r) :: merged_systems x rs' ws'
  | _, _ => []
  end.
Definition estimate_merged (n : nat) (x : vec) (rs : list rdata) (ws : vec) : option vec :=
  wlstsq n (merged_systems x rs ws).

(* ---- weights: zero the failed realizations, renormalise ------------------------------------------- *)
Fixpoint zero_failed (failed : list bool) (w : vec) : vec :=
  match failed, w with
  | f :: failed', x :: w' => (if f then 0 else x) :: zero_failed failed' w'
  | _, _ => []
  end.
Definition normalize (w : vec) : option vec :=
  let s := qsum w in if Qeqb s 0 then None else Some (map (fun x => Qred (x / s)) w).

(* _get_failed_realizations for gradients: column 0 of the objectives *)
Definition perturbation_ok (p : oQ) : bool := is_some p.
Definition failed_grad (pmin : nat) (r : rdata) : bool :=
  is_none (r_f0 r) || (length (filter perturbation_ok (r_fp r)) <? pmin)%nat.
Definition gate (rmin : nat) (failed : list bool) : bool :=
  (rmin <=? length (filter negb failed))%nat.

(* ---- estimators -------------------------------------------------------------------------------------- *)
Inductive estimator := EMean | EStd.

Definition count_nonzero (w : vec) : nat := length (filter (fun x => negb (Qeqb x 0)) w).
Definition count_pos (w : vec) : nat := length (filter (fun x => Qltb 0 x) w).
Definition nat_Q (k : nat) : Q := inject_Z (Z.of_nat k).
Definition bessel (w : vec) : Q := let N := nat_Q (count_pos w) in N / (N - 1).        (* N / (N - 1) *)

Definition wmean (w f : vec) : Q := rdot f w.
Definition wvariance (c : Q) (w f : vec) : Q :=
  let m := wmean w f in c * rdot (map (fun y => rsub y m * rsub y m) f) w.
(* sigma * grad sigma = c * ( sum_i w_i f_i g_i  -  mean * sum_i w_i g_i ) *)
Definition sd_grad_times_sd (n : nat) (c : Q) (w f : vec) (gs : list vec) : vec :=
  qscale c (vsub (wvsum n (vmul f w) gs) (qscale (wmean w f) (wvsum n w gs))).

Inductive gres :=
  | GMean (g : vec)                  (* gradient of the weighted mean *)
  | GStd (sg : vec) (var : Q)        (* sigma * grad sigma, and sigma^2 *)
  | GSingular                        (* a contributing system has no unique least-squares solution *)
  | GNoWeight                        (* no successful realization carries weight *)
  | GTooFew                          (* stddev with fewer than min_stddev_realizations non-zero weights *)
  | GConfig.                         (* stddev with merge_realizations: rejected by the estimator *)

(* _calculate_gradient for one function *)
Definition calc_gradient (n : nat) (x : vec) (rs : list rdata) (failed : list bool) (w : vec)
    (e : estimator) (merge : bool) : gres :=
  match normalize (zero_failed failed w) with
  | None => GNoWeight
  | Some wh =>
      if merge then
        match e with
        | EMean => match estimate_merged n x rs wh with Some g => GMean g | None => GSingular end
        | EStd => GConfig
        end
      else
        match estimate_per_realization n x rs wh with
        | None => GSingular
        | Some gs =>
            match e with
            | EMean => GMean (wvsum n wh gs)
            | EStd =>
                if (count_nonzero wh <? min_stddev_realizations)%nat then GTooFew
                else if (count_pos wh <? 2)%nat then GNoWeight
                else let f := nan_to_num (map r_f0 rs) in
                     GStd (sd_grad_times_sd n (bessel wh) wh f gs) (wvariance (bessel wh) wh f)
            end
        end
  end.

(* _compute_gradients for one function: restrict variables and perturbed variables to the free
   columns (variables[mask], perturbed_variables[..., mask]), estimate, re-expand with zeros *)
Definition restrict_rdata (mask : list bool) (r : rdata) : rdata :=
  {| r_X := map (restrict_free mask) (r_X r); r_f0 := r_f0 r; r_fp := r_fp r |}.
Definition map_gres (f : vec -> vec) (g : gres) : gres :=
  match g with GMean v => GMean (f v) | GStd v s => GStd (f v) s | o => o end.
Definition compute_gradient (mask : list bool) (x : vec) (rs : list rdata) (failed : list bool) (w : vec)
    (e : estimator) (merge : bool) : gres :=
  map_gres (expand_with_zeros mask)
    (calc_gradient (count_true mask) (restrict_free mask x) (map (restrict_rdata mask) rs) failed w e merge).

(* weighted objective gradient: (objective_weights[:, None] * objective_gradients).sum(axis=0) *)
Definition weighted_objective_gradient (n : nat) (ow : vec) (gs : list vec) : vec := wvsum n ow gs.

(* exact gradients of the ensemble function on an affine ensemble with slopes a_i *)
Definition affine_mean_gradient (n : nat) (wh : vec) (slopes : list vec) : vec := wvsum n wh slopes.
Definition affine_sd_gradient (n : nat) (wh f : vec) (slopes : list vec) : vec :=
  sd_grad_times_sd n (bessel wh) wh f slopes.

(* ---- variable scaling ---------------------------------------------------------------------------- *)
(* VariableScaler.from_optimizer: values * scales + offsets -- what the user's evaluator receives *)
Definition from_optimizer (s o y : vec) : vec := vadd (vmul y s) o.
(* slope of  y |-> f (from_optimizer s o y)  for an affine f with slope a (user coordinates) *)
Definition scale_slope (s a : vec) : vec := vmul s a.
Definition map_rdata_X (f : vec -> vec) (r : rdata) : rdata :=
  {| r_X := map f (r_X r); r_f0 := r_f0 r; r_fp := r_fp r |}.

(* ---- EnsembleOptimizer._gradients_from_results --------------------------------------------------- *)
(* the matrix handed to the optimizer callback: weighted-objective gradient, then the constraint
   gradients, free columns only (gradients.weighted_objective[mask], gradients.constraints[:, mask]) *)
Definition optimizer_matrix (mask : list bool) (wg : vec) (cons : list vec) : list vec :=
  restrict_free mask wg :: map (restrict_free mask) cons.

(* ---- the residual sum of squares, for the least-squares characterisation ----------------------------- *)
Definition rss (A : mat) (b g : vec) : Q := let e := vsub (mv A g) b in rdot e e.
