(* Model/ConstraintInfo.v -- C13: constraint differences, violations and feasibility.
   Executable model of ropt.results._constraint_info.ConstraintInfo (create, __post_init__,
   transform_from_optimizer) and ropt.plugins.plan._utils._violates_constraint.
   Values are exact rationals, bounds and differences are extended reals (Base.Num.ereal);
   definitions only, proofs are in Proofs/ConstraintInfo.v. *)
From Coq Require Import QArith List Bool.
From Ropt Require Import Base.Num Base.ListX.
Import ListNotations.
Open Scope Q_scope.

(* ---- extended-real helpers ------------------------------------------------------- *)
Definition eneg (e : ereal) : ereal := match e with NInf => PInf | PInf => NInf | Fin q => Fin (- q) end.
Definition emax (a b : ereal) : ereal := if ele a b then b else a.            (* np.maximum *)
(* equality of extended reals up to == on the finite part *)
Definition eeq (a b : ereal) : Prop :=
  match a, b with NInf, NInf | PInf, PInf => True | Fin x, Fin y => x == y | _, _ => False end.
(* d * s for a difference d and a scale factor s (s = 0 never occurs: the scaler divides by s) *)
Definition escale (s : Q) (e : ereal) : ereal :=
  match e with Fin q => Fin (q * s) | _ => if Qltb 0 s then e else eneg e end.

Fixpoint zipw {A B C} (f : A -> B -> C) (a : list A) (b : list B) : list C :=
  match a, b with x :: a', y :: b' => f x y :: zipw f a' b' | _, _ => [] end.

(* ---- one family of constraints (variable bounds | linear | non-linear) ----------- *)
(* value - bound, with  v - (-inf) = +inf  and  v - (+inf) = -inf *)
Definition ediff (v : Q) (b : ereal) : ereal := esub_l v b.

(* __post_init__: np.maximum(np.where(lower < 0, -lower, 0), np.where(upper > 0, upper, 0)) *)
Definition viol1 (ld ud : ereal) : ereal :=
  emax (if elt ld (Fin 0) then eneg ld else Fin 0) (if elt (Fin 0) ud then ud else Fin 0).

Record family := { f_lower : list ereal; f_upper : list ereal; f_viol : list ereal }.

(* the dataclass constructor: violations are always derived from the stored differences *)
Definition family_of_diffs (ld ud : list ereal) : family :=
  {| f_lower := ld; f_upper := ud; f_viol := zipw viol1 ld ud |}.

Definition mk_family (vals : list Q) (lb ub : list ereal) : family :=
  family_of_diffs (zipw ediff vals lb) (zipw ediff vals ub).

Record cinfo := { ci_bound : option family; ci_linear : option family; ci_nonlinear : option family }.

(* ---- the part of EnOptConfig that ConstraintInfo.create reads -------------------- *)
Record lincfg := { l_coef : list (list Q); l_lower : list ereal; l_upper : list ereal }.
Record ccfg := {
  v_lower : list ereal; v_upper : list ereal;        (* config.variables.lower_bounds / upper_bounds *)
  c_linear : option lincfg;                          (* config.linear_constraints *)
  c_nonlinear : option (list ereal * list ereal)     (* config.nonlinear_constraints bounds *)
}.

Definition matvec (A : list (list Q)) (x : list Q) : list Q := map (fun r => dot r x) A.

Inductive created := CErr | CNone | CInfo (ci : cinfo).

(* any bound finite  <=>  np.any(np.isfinite(lower)) or np.any(np.isfinite(upper)) *)
Definition any_finite (cfg : ccfg) : bool := existsb efinite (v_lower cfg) || existsb efinite (v_upper cfg).

Definition create (cfg : ccfg) (x : list Q) (cons : option (list Q)) : created :=
  let b := if any_finite cfg then Some (mk_family x (v_lower cfg) (v_upper cfg)) else None in
  let l := match c_linear cfg with
           | Some lc => Some (mk_family (matvec (l_coef lc) x) (l_lower lc) (l_upper lc))
           | None => None end in
  match cons, c_nonlinear cfg with
  | Some _, None => CErr                              (* assert config.nonlinear_constraints is not None *)
  | _, _ =>
    let n := match cons, c_nonlinear cfg with
             | Some c, Some (lo, up) => Some (mk_family c lo up)
             | _, _ => None end in
    match b, l, n with
    | None, None, None => CNone                       (* `if diffs:` is false -> None *)
    | _, _, _ => CInfo {| ci_bound := b; ci_linear := l; ci_nonlinear := n |}
    end
  end.

(* ---- _violates_constraint / feasibility ------------------------------------------ *)
Definition fam_exceeds (tol : Q) (f : option family) : bool :=
  match f with Some f => existsb (fun v => elt (Fin tol) v) (f_viol f) | None => false end.

Definition violates (tol : option Q) (ci : option cinfo) : bool :=
  match tol, ci with
  | Some t, Some ci => fam_exceeds t (ci_bound ci) || fam_exceeds t (ci_linear ci) || fam_exceeds t (ci_nonlinear ci)
  | _, _ => false
  end.
Definition feasible (tol : option Q) (ci : option cinfo) : bool := negb (violates tol ci).

Definition info_of (c : created) : option cinfo := match c with CInfo ci => Some ci | _ => None end.

(* ---- transform_from_optimizer ----------------------------------------------------- *)
(* differences are multiplied by the per-entry factors, violations recomputed by the constructor;
   [None] = the transform (or that factor vector) is absent: the family is left as it is *)
Definition fam_from_opt (sc : option (list Q)) (f : option family) : option family :=
  match sc, f with
  | Some s, Some f => Some (family_of_diffs (zipw (fun d k => escale k d) (f_lower f) s)
                                            (zipw (fun d k => escale k d) (f_upper f) s))
  | _, _ => f
  end.

(* var_scales: VariableScaler scales, eq_scales: its equation scaling (set by
   linear_constraints_to_optimizer), nl_scales: the non-linear constraint scaler's factors *)
Definition cinfo_from_opt (var_scales eq_scales nl_scales : option (list Q)) (ci : cinfo) : cinfo :=
  {| ci_bound := fam_from_opt var_scales (ci_bound ci);
     ci_linear := fam_from_opt eq_scales (ci_linear ci);
     ci_nonlinear := fam_from_opt nl_scales (ci_nonlinear ci) |}.

(* ---- which result a tracker retains (plugins/plan/_utils.py: _get_last_result, _update_optimal_result) ---- *)
(* one delivered function result as the tracker sees it: are function values present, the weighted objective
   ([None] = NaN) and the constraint information of the item the tolerance test is applied to *)
Record titem := { ti_fun : bool; ti_obj : option Q; ti_info : option cinfo }.
Definition ti_ok (tol : option Q) (it : titem) : bool := ti_fun it && feasible tol (ti_info it).

(* _get_last_result: the last delivered item that has function values and does not violate; [i] = index of the
   head of [items] *)
Fixpoint last_ok (tol : option Q) (items : list titem) (i : nat) : option nat :=
  match items with
  | [] => None
  | it :: r => match last_ok tol r (S i) with
               | Some j => Some j
               | None => if ti_ok tol it then Some i else None
               end
  end.

(* _update_optimal_result / _get_new_optimal_result: an admissible item replaces the current optimum when its
   objective is a number and strictly smaller (or there is no optimum yet) *)
Definition improves (o : Q) (cur : option (nat * Q)) : bool :=
  match cur with None => true | Some (_, b) => Qltb o b end.
Definition best_step (tol : option Q) (i : nat) (it : titem) (cur : option (nat * Q)) : option (nat * Q) :=
  if ti_ok tol it then
    match ti_obj it with
    | Some o => if improves o cur then Some (i, o) else cur
    | None => cur
    end
  else cur.
Fixpoint best_ok (tol : option Q) (items : list titem) (i : nat) (cur : option (nat * Q)) : option (nat * Q) :=
  match items with
  | [] => cur
  | it :: r => best_ok tol r (S i) (best_step tol i it cur)
  end.

Definition tracked_last (tol : option Q) (items : list titem) : option nat := last_ok tol items 0.
Definition tracked_best (tol : option Q) (items : list titem) : option nat := option_map fst (best_ok tol items 0 None).
