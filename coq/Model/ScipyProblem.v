(* Model/ScipyProblem.v -- executable model of the problem the SciPy plug-in hands to SciPy (C08).
   Mirrors ropt/plugins/optimizer/utils.py (NormalizedConstraints, get_masked_linear_constraints,
   validate_supported_constraints) and ropt/plugins/optimizer/scipy.py (_initialize_bounds,
   _initialize_constraints[_dict|_object], _parse_options, the kwargs of start()).
   Definitions only; the lemmas are in Proofs/ScipyProblem.v. *)
From Coq Require Import QArith Qabs List Bool String ZArith.
From Ropt Require Import Base.Num Base.ListX Gen.Generated Gen.Gen_C08.
Import ListNotations.
Open Scope Q_scope.

Definition mat := list (list Q).

(* ---- NormalizedConstraints ------------------------------------------------------------------ *)
(* the literal 1e-15 of `abs(upper_bound - lower_bound) < 1e-15` (Gen_C08.norm_eq_tol, exact value of
   that float, re-extracted from the source on every run) *)
Definition eq_tol : Q := norm_eq_tol.

Record row := { r_idx : nat; r_rhs : Q; r_flip : bool; r_eq : bool }.

(* NormalizedConstraints.__init__, one (lower, upper) pair of constraint [i]:
   |upper - lower| < 1e-15 -> one equality row (rhs = lower);  otherwise a row per finite side, the
   upper side flipped.  [af] is the class's [flip] argument (False in the SciPy plug-in). *)
Definition rows_of (af : bool) (i : nat) (l u : ereal) : list row :=
  match l, u with
  | Fin a, Fin b =>
      if Qltb (Qabs (b - a)) eq_tol then [ {| r_idx := i; r_rhs := a; r_flip := af; r_eq := true |} ]
      else [ {| r_idx := i; r_rhs := a; r_flip := af; r_eq := false |};
             {| r_idx := i; r_rhs := b; r_flip := negb af; r_eq := false |} ]
  | Fin a, _ => [ {| r_idx := i; r_rhs := a; r_flip := af; r_eq := false |} ]
  | _, Fin b => [ {| r_idx := i; r_rhs := b; r_flip := negb af; r_eq := false |} ]
  | _, _ => []
  end.

Fixpoint rows_from (af : bool) (i : nat) (bs : list (ereal * ereal)) : list row :=
  match bs with
  | [] => []
  | (l, u) :: t => rows_of af i l u ++ rows_from af (S i) t
  end.
Definition normalize_bounds (af : bool) (bs : list (ereal * ereal)) : list row := rows_from af 0 bs.

(* set_constraints / set_gradients for one row and one raw entry *)
Definition norm_value (r : row) (c : Q) : Q := if r_flip r then - (c - r_rhs r) else c - r_rhs r.
Definition norm_grad (r : row) (g : list Q) : list Q := if r_flip r then map Qopp g else g.

(* all rows; [raw] has one list per constraint (one entry per evaluated point).  An index outside
   [raw] is numpy's IndexError: the whole call fails (None). *)
Fixpoint norm_values (rows : list row) (raw : mat) : option mat :=
  match rows with
  | [] => Some []
  | r :: t =>
      match nth_error raw (r_idx r), norm_values t raw with
      | Some v, Some rest => Some (map (norm_value r) v :: rest)
      | _, _ => None
      end
  end.
Fixpoint norm_jac (rows : list row) (raw : mat) : option mat :=
  match rows with
  | [] => Some []
  | r :: t =>
      match nth_error raw (r_idx r), norm_jac t raw with
      | Some g, Some rest => Some (norm_grad r g :: rest)
      | _, _ => None
      end
  end.

(* what the back-end is told about a row: "eq" means value = 0, "ineq" means value >= 0
   (<= 0 when the class is used with flip=True) *)
Definition sat (af : bool) (r : row) (v : Q) : Prop :=
  if r_eq r then v == 0 else if af then v <= 0 else 0 <= v.
Definition satb (af : bool) (r : row) (v : Q) : bool :=
  if r_eq r then Qeqb v 0 else if af then Qleb v 0 else Qleb 0 v.

(* the configured meaning of a bound pair *)
Definition ele_p (a b : ereal) : Prop :=
  match a, b with NInf, _ => True | _, PInf => True | Fin x, Fin y => x <= y | _, _ => False end.
Definition in_bounds (l u : ereal) (c : Q) : Prop := ele_p l (Fin c) /\ ele_p (Fin c) u.
Definition in_boundsb (l u : ereal) (c : Q) : bool := ele l (Fin c) && ele (Fin c) u.

(* ---- get_masked_linear_constraints ---------------------------------------------------------- *)
Record lincons := { l_A : mat; l_lb : list ereal; l_ub : list ereal }.

Definition is_zero (c : Q) : bool := Qeqb c 0.
Fixpoint sub_offsets (b : list ereal) (o : list Q) : list ereal :=
  match b, o with
  | e :: bt, q :: ot => esub_r e q :: sub_offsets bt ot
  | _, _ => []
  end.

Definition masked_linear (mask : option (list bool)) (x0 : list Q) (lc : lincons) : lincons :=
  match mask with
  | None => lc                                            (* offsets = 0 *)
  | Some m =>
      let fixedm := map negb m in
      (* keep_rows = np.all(coefficients[:, ~mask] == 0, axis=1) *)
      let keep := map (fun a => forallb is_zero (gather fixedm a)) (l_A lc) in
      let A := gather keep (l_A lc) in
      let lb := gather keep (l_lb lc) in
      let ub := gather keep (l_ub lc) in
      (* offsets = coefficients[:, ~mask] @ initial_values[~mask] *)
      let offsets := map (fun a => dot (gather fixedm a) (gather fixedm x0)) A in
      {| l_A := map (gather m) A; l_lb := sub_offsets lb offsets; l_ub := sub_offsets ub offsets |}
  end.

Definition matvec (A : mat) (x : list Q) : list Q := map (fun a => dot a x) A.

(* ---- _initialize_bounds --------------------------------------------------------------------- *)
Definition gmask {A} (mask : option (list bool)) (l : list A) : list A :=
  match mask with None => l | Some m => gather m l end.

Definition exposed_bounds (mask : option (list bool)) (lo hi : list ereal)
  : option (list ereal * list ereal) :=
  if existsb efinite lo || existsb efinite hi then Some (gmask mask lo, gmask mask hi) else None.

(* ---- _parse_options ------------------------------------------------------------------------- *)
Inductive oval := OInt (z : Z) | OBool (b : bool) | OStr (s : string) | OBools (l : list bool).
Inductive options := NoneOpt | ListOpt (l : list string) | DictOpt (kvs : list (string * oval)).
Definition odict := list (string * oval).

Fixpoint lookup (k : string) (d : odict) : option oval :=
  match d with [] => None | (k', v) :: t => if String.eqb k k' then Some v else lookup k t end.
Fixpoint set_key (k : string) (v : oval) (d : odict) : odict :=
  match d with
  | [] => [(k, v)]
  | (k', v') :: t => if String.eqb k k' then (k, v) :: t else (k', v') :: set_key k v t
  end.
Definition has_key (k : string) (d : odict) : bool := match lookup k d with Some _ => true | None => false end.

(* `if self._method == "tnc": options["maxfun"] = ... else: options["maxiter"] = ...` (generated table) *)
Fixpoint assoc_str (k : string) (l : list (string * string)) : option string :=
  match l with [] => None | (k', v) :: t => if String.eqb k k' then Some v else assoc_str k t end.
Definition iter_key (method : string) : string :=
  match assoc_str method iter_key_special with Some k => k | None => iter_key_default end.
Definition add_iterations (method : string) (max_iter : option Z) (d : odict) : odict :=
  match max_iter with Some n => set_key (iter_key method) (OInt n) d | None => d end.

Definition is_de (method : string) : bool := String.eqb method "differential_evolution".

(* The model encodes the property-satisfying behaviour: a configured max_iterations reaches the
   back-end for every form of [options].  (The code returns {} unless options is a dict: known
   finding C08:max-iterations-dropped-without-options.)  disp / integrality follow the code: they
   are only added to an options dict. *)
Definition parse_options (method : string) (max_iter : option Z) (opts : options)
                         (output_dir : bool) (types : option (list bool)) : odict :=
  match opts with
  | DictOpt kvs =>
      let d := add_iterations method max_iter kvs in
      let d := if output_dir then set_key "disp" (OBool true) d else d in
      match types with
      | Some ints => if is_de method && negb (has_key "integrality" d)
                     then set_key "integrality" (OBools ints) d else d
      | None => d
      end
  | _ => add_iterations method max_iter []
  end.

(* ---- validate_supported_constraints --------------------------------------------------------- *)
Definition mem (s : string) (l : list string) : bool := existsb (String.eqb s) l.

Inductive ckind := KBounds | KLinEq | KLinIneq | KNlEq | KNlIneq.
Definition supported_by (k : ckind) : list string :=
  match k with
  | KBounds => scipy_constraint_support_bounds
  | KLinEq => scipy_constraint_support_linear_eq
  | KLinIneq => scipy_constraint_support_linear_ineq
  | KNlEq => scipy_constraint_support_nonlinear_eq
  | KNlIneq => scipy_constraint_support_nonlinear_ineq
  end.
Definition required_by (k : ckind) : list string :=
  match k with KBounds => scipy_constraint_requires_bounds | _ => [] end.

(* _check_constraint: true = passes *)
Definition check_constraint (k : ckind) (method : string) (have : bool) : bool :=
  if have && negb (mem method (supported_by k)) then false
  else if negb have && mem method (required_by k) then false
  else true.

(* np.allclose(lower, upper, rtol=0, atol=1e-15) *)
Definition close_pair (l u : ereal) : bool :=
  match l, u with
  | Fin a, Fin b => Qleb (Qabs (a - b)) allclose_atol
  | PInf, PInf | NInf, NInf => true
  | _, _ => false
  end.
Definition all_close (lb ub : list ereal) : bool := forallb2 close_pair lb ub.

(* ---- the whole construction ----------------------------------------------------------------- *)
Record problem := {
  p_method : string;                       (* lower-cased, plug-in prefix removed, "default" -> "slsqp" *)
  p_mask : option (list bool);
  p_x0 : list Q;
  p_lower : list ereal;
  p_upper : list ereal;
  p_nl : option (list (ereal * ereal));    (* non-linear constraint bounds *)
  p_lin : option lincons;
  p_options : options;
  p_max_iter : option Z;
  p_output_dir : bool;
  p_types : option (list bool);            (* variables.types == INTEGER, when types are configured *)
  p_parallel : bool;
  p_tol : option Q
}.

Definition have_bounds (p : problem) : bool := existsb efinite (p_lower p) || existsb efinite (p_upper p).

Definition validate (p : problem) : bool :=
  let m := p_method p in
  mem m scipy_supported_methods &&
  check_constraint KBounds m (have_bounds p) &&
  match p_lin p with
  | None => true
  | Some lc => let eq := all_close (l_lb lc) (l_ub lc) in
               check_constraint KLinIneq m (negb eq) && check_constraint KLinEq m eq
  end &&
  match p_nl p with
  | None => true
  | Some bs => let eq := all_close (map fst bs) (map snd bs) in
               check_constraint KNlIneq m (negb eq) && check_constraint KNlEq m eq
  end.

(* what start() passes to scipy.optimize.minimize / differential_evolution *)
Record handed := {
  h_de : bool;                                   (* differential_evolution(...) rather than minimize(...) *)
  h_x0 : list Q;                                 (* initial_values[mask] *)
  h_bounds : option (list ereal * list ereal);   (* Bounds(lb, ub) or None *)
  h_jac : bool;                                  (* minimize: jac is a callable (False for gradient-free) *)
  h_rows : list row;                             (* minimize: one constraint dict per row, "eq"/"ineq" *)
  h_row_jac : bool;                              (* the dicts carry a 'jac' entry (not for cobyla) *)
  h_lin : option lincons;                        (* masked linear constraints: DE LinearConstraint / lin_coef *)
  h_nl : option (list (ereal * ereal));          (* DE NonlinearConstraint lb/ub *)
  h_options : odict;                             (* minimize: options dict ({} is passed as None); DE: extra kwargs *)
  h_vectorized : bool;
  h_tol : option Q
}.

Definition lin_pairs (lc : lincons) : list (ereal * ereal) := combine (l_lb lc) (l_ub lc).

Definition construct (p : problem) : option handed :=
  if negb (validate p) then None else
  let m := p_method p in
  let de := is_de m in
  let lin := option_map (masked_linear (p_mask p) (p_x0 p)) (p_lin p) in
  let rows :=
    if de then []
    else normalize_bounds false
           (match p_nl p with Some bs => bs | None => [] end ++
            match lin with Some lc => lin_pairs lc | None => [] end) in
  let par := p_parallel p && de in
  let opts := parse_options m (p_max_iter p) (p_options p) (p_output_dir p) (p_types p) in
  let opts := if par then set_key "workers" (OInt 1) (set_key "updating" (OStr "deferred") opts) else opts in
  Some {| h_de := de;
          h_x0 := gmask (p_mask p) (p_x0 p);
          h_bounds := exposed_bounds (p_mask p) (p_lower p) (p_upper p);
          h_jac := negb (mem m scipy_no_gradient);
          h_rows := rows;
          h_row_jac := negb (String.eqb m "cobyla");
          h_lin := lin;
          h_nl := p_nl p;
          h_options := opts;
          h_vectorized := par;
          h_tol := p_tol p |}.

(* ---- feasibility of a point, configured vs handed ------------------------------------------- *)
(* [xf] free variables, [c] the raw non-linear constraint values at the completed point *)
Fixpoint forall2b {A B} (f : A -> B -> bool) (a : list A) (b : list B) : bool :=
  match a, b with x :: a', y :: b' => f x y && forall2b f a' b' | _, _ => true end.

Definition bounds_okb (lo hi : list ereal) (x : list Q) : bool :=
  forall2b (fun lu c => in_boundsb (fst lu) (snd lu) c) (combine lo hi) x.

(* the raw vector the dict callables normalise: non-linear values, then lin_coef @ x *)
Definition raw_values (h : handed) (c : list Q) (xf : list Q) : list Q :=
  c ++ match h_lin h with Some lc => matvec (l_A lc) xf | None => [] end.

Definition handed_feasible (h : handed) (c : list Q) (xf : list Q) : bool :=
  match h_bounds h with Some (lo, hi) => bounds_okb lo hi xf | None => true end &&
  if h_de h then
    match h_lin h with
    | Some lc => bounds_okb (l_lb lc) (l_ub lc) (matvec (l_A lc) xf)
    | None => true
    end &&
    match h_nl h with
    | Some bs => bounds_okb (map fst bs) (map snd bs) c
    | None => true
    end
  else
    match norm_values (h_rows h) (map (fun v => [v]) (raw_values h c xf)) with
    | Some vs => forall2b (fun r v => match v with [x] => satb false r x | _ => false end) (h_rows h) vs
    | None => false
    end.

(* the configured problem restricted to the free variables: bounds of the free variables, the
   retained linear rows evaluated on the completed vector, the non-linear bounds *)
Definition config_feasible (p : problem) (c : list Q) (xf : list Q) : bool :=
  bounds_okb (gmask (p_mask p) (p_lower p)) (gmask (p_mask p) (p_upper p)) xf &&
  match p_lin p with
  | Some lc =>
      let full := match p_mask p with Some m => scatter m xf (p_x0 p) | None => xf end in
      let keep := match p_mask p with
                  | Some m => map (fun a => forallb is_zero (gather (map negb m) a)) (l_A lc)
                  | None => map (fun _ => true) (l_A lc)
                  end in
      bounds_okb (gather keep (l_lb lc)) (gather keep (l_ub lc)) (matvec (gather keep (l_A lc)) full)
  | None => true
  end &&
  match p_nl p with
  | Some bs => bounds_okb (map fst bs) (map snd bs) c
  | None => true
  end.

(* ---- well-formed problems / test points, decidably (the domain of the end-to-end theorem) ------------- *)
(* a bound pair: lower is not +inf, upper is not -inf, two finite bounds are equal or differ by at least
   the code's equality tolerance *)
Definition saneb (l u : ereal) : bool :=
  match l, u with
  | PInf, _ => false
  | _, NInf => false
  | Fin a, Fin b => Qeqb a b || Qleb eq_tol (Qabs (b - a))
  | _, _ => true
  end.
Definition not_pinf (e : ereal) : bool := match e with PInf => false | _ => true end.
Definition not_ninf (e : ereal) : bool := match e with NInf => false | _ => true end.

Definition wf_linb (n : nat) (lc : lincons) : bool :=
  Nat.eqb (List.length (l_lb lc)) (List.length (l_A lc)) &&
  Nat.eqb (List.length (l_ub lc)) (List.length (l_A lc)) &&
  forallb (fun a => Nat.eqb (List.length a) n) (l_A lc) &&
  forallb (fun b => saneb (fst b) (snd b)) (lin_pairs lc).

Definition wf_problemb (p : problem) : bool :=
  forallb not_pinf (p_lower p) && forallb not_ninf (p_upper p) &&
  match p_nl p with Some bs => forallb (fun b => saneb (fst b) (snd b)) bs | None => true end &&
  match p_lin p with Some lc => wf_linb (List.length (p_x0 p)) lc | None => true end.

Definition wf_pointb (p : problem) (c xf : list Q) : bool :=
  match p_mask p with
  | Some m => Nat.eqb (List.length m) (List.length (p_x0 p)) && Nat.eqb (List.length xf) (count_true m)
  | None => true
  end &&
  Nat.eqb (List.length c) (match p_nl p with Some bs => List.length bs | None => 0%nat end).
