(* Model/Layout.v -- C06: what EnsembleEvaluator asks of the user evaluator and how it reads the answer.
   Executable definitions only, structured like ropt/ensemble_evaluator/_evaluator_results.py
   (_get_function_results / _get_gradient_results / _get_function_and_gradient_results,
   _transform_evaluator_result, _propagate_nan_values, _get_active_realizations) and the cache decision
   of EnsembleEvaluator.calculate.  Floats are exact rationals, NaN = None (Base/Num.v). *)
From Coq Require Import QArith ZArith List Bool Arith.
From Ropt Require Import Base.Num Base.ListX.
Import ListNotations.
Open Scope Q_scope.

Definition vec := list Q.
Definition orow := list oQ.                      (* one row of evaluator output: a value per function *)

(* ---- numpy layout primitives ---------------------------------------------------------------- *)
Definition np_repeat {A} (l : list A) (n : nat) : list A := flat_map (fun a => repeat a n) l.   (* np.repeat(l, n, axis=0) *)
Definition np_tile {A} (l : list A) (n : nat) : list A := concat (repeat l n).                  (* np.tile(l, n) *)
Definition zseq (n : nat) : list Z := map Z.of_nat (seq 0 n).                                   (* np.arange(n) *)

(* ---- (a) labels of one request ---------------------------------------------------------------- *)
(* the three EvaluatorContext constructions *)
Inductive kind := KFun (B : nat) | KGrad | KBoth.

Definition ctx_realizations (k : kind) (R P : nat) : list nat :=
  match k with
  | KFun B => np_tile (seq 0 R) B
  | KGrad => np_repeat (seq 0 R) P
  | KBoth => seq 0 R ++ np_repeat (seq 0 R) P
  end.

Definition ctx_perturbations (k : kind) (R P : nat) : option (list Z) :=
  match k with
  | KFun _ => None
  | KGrad => Some (np_tile (zseq P) R)
  | KBoth => Some (repeat (-1)%Z R ++ np_tile (zseq P) R)
  end.

(* label of row i.  Function requests: (index of the variable vector in the batch, realization);
   the batch index is positional (row i of np.repeat(variables, R) is vector i / R). *)
Definition labels_functions (B R : nat) : list (nat * nat) :=
  combine (np_repeat (seq 0 B) R) (np_tile (seq 0 R) B).
(* gradient requests: (realization, perturbation); perturbation -1 = the unperturbed vector *)
Definition labels_gradient (R P : nat) : list (nat * Z) :=
  combine (np_repeat (seq 0 R) P) (np_tile (zseq P) R).
Definition labels_both (R P : nat) : list (nat * Z) :=
  combine (seq 0 R ++ np_repeat (seq 0 R) P) (repeat (-1)%Z R ++ np_tile (zseq P) R).

(* ---- (a) variable rows of one request --------------------------------------------------------- *)
(* VariableScaler.from_optimizer: x * scale + offset, per variable; None = no variable transform *)
Definition vtransform := option (list (Q * Q)).
Definition from_opt (vt : vtransform) (v : vec) : vec :=
  match vt with
  | None => v
  | Some so => map (fun xso : Q * (Q * Q) => fst xso * fst (snd xso) + snd (snd xso)) (combine v so)
  end.

Definition vadd_scaled (x mags s : vec) : vec :=
  map (fun xms : Q * (Q * Q) => fst xms + fst (snd xms) * snd (snd xms)) (combine x (combine mags s)).
(* _perturb_variables without bounds: x + magnitudes * samples[r][p] *)
Definition perturb (x mags : vec) (S : list (list vec)) : list (list vec) := map (map (vadd_scaled x mags)) S.

Definition rows_functions (X : list vec) (R : nat) : list vec := np_repeat X R.
Definition rows_gradient (PV : list (list vec)) : list vec := concat PV.          (* reshape(-1, V) *)
Definition rows_both (x : vec) (PV : list (list vec)) (R : nat) : list vec := repeat x R ++ concat PV.

Definition request_rows (vt : vtransform) (k : kind) (X : list vec) (PV : list (list vec)) (R : nat) : list vec :=
  map (from_opt vt)
    match k with
    | KFun _ => rows_functions X R
    | KGrad => rows_gradient PV
    | KBoth => rows_both (hd [] X) PV R
    end.

(* ---- (b) reading the answer ------------------------------------------------------------------- *)
(* ObjectiveTransform / NonLinearConstraintTransform .to_optimizer of the scalers: value / scale *)
Definition fscale := option (list Q).
Definition to_opt_row (sc : fscale) (row : orow) : orow :=
  match sc with
  | None => row
  | Some s => map (fun vd : oQ * Q => option_map (fun q => q / snd vd) (fst vd)) (combine row s)
  end.

Definition row_nan (row : orow) : bool := existsb is_none row.
Definition nan_row (row : orow) : orow := map (fun _ => None) row.

(* _propagate_nan_values: a row with a NaN among its objectives or constraints is NaN everywhere *)
Definition row_failures (o : list orow) (c : option (list orow)) : list bool :=
  match c with
  | None => map row_nan o
  | Some c => map (fun oc : orow * orow => row_nan (fst oc) || row_nan (snd oc)) (combine o c)
  end.
Definition blank (fails : list bool) (rows : list orow) : list orow :=
  map (fun fr : bool * orow => if fst fr then nan_row (snd fr) else snd fr) (combine fails rows).
Definition propagate (o : list orow) (c : option (list orow)) : list orow * option (list orow) :=
  let f := row_failures o c in (blank f o, option_map (blank f) c).

Definition chunk_opt {A} (n k : nat) (l : option (list A)) : list (option (list A)) :=
  match l with None => repeat None k | Some l => map Some (chunk n k l) end.

(* one block of R rows = one FunctionEvaluations: (objectives, constraints, evaluation ids) *)
Definition fblock := (list orow * option (list orow) * list nat)%type.
(* one GradientEvaluations: perturbed objectives / constraints / ids indexed [realization][perturbation] *)
Definition gblock := (list (list orow) * option (list (list orow)) * list (list nat))%type.

Definition transform_out (so sc : fscale) (o : list orow) (c : option (list orow)) :=
  (map (to_opt_row so) o, option_map (map (to_opt_row sc)) c).

(* _get_function_results: transform, vsplit into B blocks of R rows, propagate NaN per block *)
Definition report_functions (so sc : fscale) (B R : nat) (o : list orow) (c : option (list orow)) (ids : list nat)
  : list fblock :=
  let (o', c') := transform_out so sc o c in
  map (fun occ : list orow * option (list orow) * list nat =>
         let '(ob, cb, ib) := occ in let (po, pc) := propagate ob cb in (po, pc, ib))
      (combine (combine (chunk R B o') (chunk_opt R B c')) (chunk R B ids)).

(* _GradientEvaluatorResults: propagate NaN, reshape to (R, P, -1) *)
Definition shape_gradient (R P : nat) (o : list orow) (c : option (list orow)) (ids : list nat) : gblock :=
  let (po, pc) := propagate o c in (chunk P R po, option_map (chunk P R) pc, chunk P R ids).

Definition report_gradient (so sc : fscale) (R P : nat) (o : list orow) (c : option (list orow)) (ids : list nat) : gblock :=
  let (o', c') := transform_out so sc o c in shape_gradient R P o' c' ids.

(* _get_function_and_gradient_results: the first R rows are the functions, the rest the perturbations *)
Definition report_both (so sc : fscale) (R P : nat) (o : list orow) (c : option (list orow)) (ids : list nat)
  : fblock * gblock :=
  let (o', c') := transform_out so sc o c in
  let (fo, fc) := propagate (firstn R o') (option_map (firstn R) c') in
  ((fo, fc, firstn R ids), shape_gradient R P (skipn R o') (option_map (skipn R) c') (skipn R ids)).

(* ---- (c) activity ----------------------------------------------------------------------------- *)
Definition nonzero (w : Q) : bool := negb (Qeqb w 0).                   (* np.abs(w) > 0 *)
Definition wmatrix := list (list Q).                                    (* [function][realization] *)
Definition amatrix := option (list (list bool)).                        (* None = everything active *)

(* weights in force: the filtered matrix where there is one, the configured weights for every row otherwise *)
Definition in_force (cfgw : list Q) (n : nat) (m : option wmatrix) : wmatrix :=
  match m with Some m => m | None => repeat cfgw n end.

Definition all_true (m : list (list bool)) : bool := forallb (forallb (fun b => b)) m.

(* _get_active_realizations (objectives and constraints treated independently) *)
Definition active_realizations (cfgw : list Q) (nobj ncon : nat) (ow cw : option wmatrix) : amatrix * amatrix :=
  let ao := map (map nonzero) (in_force cfgw nobj ow) in
  let ac := match cw, ncon with
            | None, O => None
            | _, _ => Some (map (map nonzero) (in_force cfgw ncon cw))
            end in
  if all_true ao && match ac with None => true | Some m => all_true m end then (None, None) else (Some ao, ac).

(* function and combined evaluations: nothing is skipped when realization filters are configured *)
Definition active_function_eval (has_filters : bool) (cfgw : list Q) (nobj ncon : nat) : amatrix * amatrix :=
  if has_filters then (None, None) else active_realizations cfgw nobj ncon None None.
(* gradient-only evaluation after a function evaluation (split evaluations): weights of the cached result *)
Definition active_split_gradient (cfgw : list Q) (nobj ncon : nat) (ow cw : option wmatrix) : amatrix * amatrix :=
  active_realizations cfgw nobj ncon ow cw.

(* is (function j, realization r) flagged active? *)
Definition flag_at (m : amatrix) (j r : nat) : bool :=
  match m with None => true | Some m => nth r (nth j m []) true end.
(* the matrix a None stands for *)
Definition flags (m : amatrix) (n R : nat) : list (list bool) :=
  match m with Some m => m | None => repeat (repeat true R) n end.

(* ---- EvaluatorContext.__post_init__: the aggregate per-realization flag `active` ----------------- *)
(* np.logical_or of two vectors *)
Definition vor (a b : list bool) : list bool := map (fun p : bool * bool => fst p || snd p) (combine a b).
(* np.logical_or.reduce(m, axis=0) of an (n, R) matrix *)
Definition or_reduce (R : nat) (m : list (list bool)) : list bool := fold_right vor (repeat false R) m.
(* a matrix that is None does not take part (the code does NOT read None as "everything active" here) *)
Definition aggregate_active (R : nat) (ao ac : amatrix) : option (list bool) :=
  match ao, ac with
  | None, None => None
  | Some o, None => Some (or_reduce R o)
  | None, Some c => Some (or_reduce R c)
  | Some o, Some c => Some (vor (or_reduce R o) (or_reduce R c))
  end.
Definition agg_at (a : option (list bool)) (r : nat) : bool := match a with None => true | Some l => nth r l true end.
Definition agg_flags (a : option (list bool)) (R : nat) : list bool := match a with Some l => l | None => repeat true R end.
(* the specification of the aggregate: realization r has to be evaluated iff some (function, r) or
   (constraint, r) entry is active, a None matrix standing for "all entries active" *)
Definition agg_spec (R nobj ncon : nat) (ao ac : amatrix) : list bool :=
  map (fun r => existsb (fun row : list bool => nth r row false) (flags ao nobj R ++ flags ac ncon R)) (seq 0 R).

(* ---- cache decision of EnsembleEvaluator.calculate --------------------------------------------- *)
(* the cached function result: its variables and its weights in force *)
Definition cache := option (vec * option wmatrix * option wmatrix).
Inductive request := RFun (X : list vec) | RGrad (x : vec) | RBoth (x : vec).

Definition vec_eqb (a b : vec) : bool := list_eqb Qeqb a b.

(* which of the three requests is issued, and with which activity *)
Definition plan (c : cache) (rq : request) : kind :=
  match rq with
  | RFun X => KFun (length X)
  | RBoth _ => KBoth
  | RGrad x => match c with
               | Some (xc, _, _) => if vec_eqb xc x then KGrad else KBoth
               | None => KBoth
               end
  end.

Definition plan_active (has_filters : bool) (cfgw : list Q) (nobj ncon : nat) (c : cache) (k : kind) : amatrix * amatrix :=
  match k, c with
  | KGrad, Some (_, ow, cw) => active_split_gradient cfgw nobj ncon ow cw
  | _, _ => active_function_eval has_filters cfgw nobj ncon
  end.

(* ---- (c) inertness: "every use of an entry is multiplied by its weight" ------------------------ *)
(* weights after removing failed realizations and normalising (the sum is checked by the caller) *)
Definition nan0 (o : oQ) : Q := match o with Some q => q | None => 0 end.
Definition zero_failed (w : list Q) (failed : list bool) : list Q :=
  map (fun wf : Q * bool => if snd wf then 0 else fst wf) (combine w failed).
(* sum_r w_r * g(v_r): the only way a per-realization value enters a function estimate *)
Definition wsum (g : Q -> Q) (w : list Q) (v : list oQ) : Q :=
  qsum (map (fun wv : Q * oQ => fst wv * g (nan0 (snd wv))) (combine w v)).

(* mean estimator: sum_r w_r v_r / sum_r w_r over the surviving realizations; None when nothing carries weight *)
Definition est_mean (w : list Q) (failed : list bool) (v : list oQ) : oQ :=
  let w0 := zero_failed w failed in
  let s := qsum w0 in
  if Qeqb s 0 then None else Some (wsum (fun x => x) w0 v / s).

(* variance of the stddev estimator: n/(n-1) * sum_r w_r (v_r - mean)^2 with normalised weights *)
Definition count_pos (w : list Q) : nat := length (filter (fun x => Qltb 0 x) w).
Definition est_variance (w : list Q) (failed : list bool) (v : list oQ) : oQ :=
  let w0 := zero_failed w failed in
  let s := qsum w0 in
  let n := count_pos w0 in
  if Qeqb s 0 || Nat.leb n 1 then None
  else let m := wsum (fun x => x) w0 v / s in
       Some (inject_Z (Z.of_nat n) / inject_Z (Z.of_nat n - 1) * (wsum (fun x => (x - m) * (x - m)) w0 v / s)).

(* per-realization data of a gradient evaluation *)
Record realdata := { rd_w : Q; rd_f : oQ; rd_dx : list vec; rd_pf : list oQ }.

Definition vzero (V : nat) : vec := repeat 0 V.
Definition vplus (a b : vec) : vec := map (fun ab : Q * Q => fst ab + snd ab) (combine a b).
Definition vscale (c : Q) (a : vec) : vec := map (fun x => c * x) a.

Section Gradient.
  (* the least-squares solve (SVD pseudo-inverse) is a black box: any function of the successful
     perturbation differences *)
  Variable solve : list vec -> list Q -> vec.
  Variable V : nat.

  Definition successes (d : realdata) : list (vec * Q) :=
    flat_map (fun xp : vec * oQ =>
                match snd xp, rd_f d with
                | Some p, Some f => [(fst xp, p - f)]
                | _, _ => []
                end) (combine (rd_dx d) (rd_pf d)).

  (* _estimate_gradients: realizations without weight are skipped, their gradient stays zero *)
  Definition real_gradient (d : realdata) : vec :=
    if Qeqb (rd_w d) 0 then vzero V
    else match successes d with
         | [] => vzero V
         | s => solve (map fst s) (map snd s)
         end.

  (* mean estimator: sum_r w_r * gradient_r *)
  Definition mean_gradient (l : list realdata) : vec :=
    fold_right (fun d acc => vplus (vscale (rd_w d) (real_gradient d)) acc) (vzero V) l.
  (* the first factor of the stddev chain rule: sum_r (w_r f_r) * gradient_r *)
  Definition fw_gradient (l : list realdata) : vec :=
    fold_right (fun d acc => vplus (vscale (rd_w d * nan0 (rd_f d)) (real_gradient d)) acc) (vzero V) l.
End Gradient.
