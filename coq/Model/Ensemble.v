(* Model/Ensemble.v -- executable model of the ensemble function pipeline (C01, C03).

   Mirrors, in the order of the code:
     ensemble_evaluator/_evaluator_results.py   _propagate_nan_values, request layout of
                                                _get_function_results (np.repeat / np.tile / np.vsplit)
     ensemble_evaluator/_utils.py               _get_failed_realizations
     ensemble_evaluator/_ensemble_evaluator.py  _calculate_filtered_realization_weights,
                                                _calculate_one_set_of_functions / _calculate_both (gates),
                                                _compute_functions, mean part of _compute_gradients
     ensemble_evaluator/_function.py            _calculate_estimated_functions
     ensemble_evaluator/_gradient.py            _estimate_gradients (which rows enter the solve),
                                                _calculate_gradient (weights zeroed / renormalised)
     plugins/function_estimator/default.py      mean, stddev (as the variance), gradient combination
     optimization/_optimizer.py                 _run_evaluations (TOO_FEW_REALIZATIONS gate)
     plugins/plan/evaluator.py                  exit code of the evaluator step
     config/enopt/_realizations_config.py, _gradient_config.py   clamping of the two thresholds

   Definitions only (no proofs).  A float is its exact rational, NaN is None.  The standard deviation is
   modelled by its square (the variance), so no square root is needed.  The least-squares solver
   (_invert_linear_equations, an SVD) is a parameter [solve] of the gradient definitions. *)
From Coq Require Import String QArith Qabs List Bool Arith ZArith Lia.
From Ropt Require Import Base.Num Base.ListX Gen.Generated.
Import ListNotations.
Open Scope Q_scope.

Definition mat := list (list Q).
Definition omat := list (list oQ).

(* Sums and dot products with every intermediate fraction kept in lowest terms (Qred x == x): the same
   values as Num.qsum / Num.dot (Proofs/Ensemble.v: rsum_qsum, rdot_dot), but vm_compute stays fast on
   weights such as 1/3 whose float value has a 53-bit denominator. *)
Definition rsum (l : list Q) : Q := fold_right (fun x a => Qred (x + a)) 0 l.
Definition rdot (a b : list Q) : Q := rsum (map (fun ab : Q * Q => Qred (fst ab * snd ab)) (combine a b)).

(* ------------------------------------------------------------------------------------------------ *)
(* _propagate_nan_values : a NaN in any objective or constraint column fails the whole row           *)
Definition has_nan (r : list oQ) : bool := existsb is_none r.
Definition row_failure (o c : list oQ) : bool := has_nan o || has_nan c.
Definition blank (r : list oQ) : list oQ := map (fun _ => None) r.
Definition propagate_row (oc : list oQ * list oQ) : list oQ * list oQ :=
  if row_failure (fst oc) (snd oc) then (blank (fst oc), blank (snd oc)) else oc.
(* rows are given as pairs (objectives, constraints); without constraints the second part is [] *)
Definition propagate_nan (rows : list (list oQ * list oQ)) : list (list oQ * list oQ) :=
  map propagate_row rows.

(* _get_failed_realizations, function part: np.isnan(objectives[..., 0]) *)
Definition first_is_nan (o : list oQ) : bool := match o with None :: _ => true | _ => false end.
Definition failed_fn (rows : list (list oQ * list oQ)) : list bool := map (fun oc => first_is_nan (fst oc)) rows.

(* a perturbation succeeds iff its (propagated) first objective is not NaN *)
Definition perturbation_ok (oc : list oQ * list oQ) : bool := negb (first_is_nan (fst oc)).
Definition success_count (prows : list (list oQ * list oQ)) : nat := count_true (map perturbation_ok prows).
(* failed_realizations |= success_count < perturbation_min_success *)
Definition failed_grad (pmin : nat) (rows : list (list oQ * list oQ))
           (prows : list (list (list oQ * list oQ))) : list bool :=
  map (fun fp : bool * list (list oQ * list oQ) => fst fp || (success_count (snd fp) <? pmin)%nat)
      (combine (failed_fn rows) prows).

(* np.count_nonzero(~failed_realizations) >= realization_min_success *)
Definition count_ok (failed : list bool) : nat := count_true (map negb failed).
Definition gate (rmin : nat) (failed : list bool) : bool := (rmin <=? count_ok failed)%nat.

(* RealizationsConfig / GradientConfig validators: None or a too large value becomes the maximum *)
Definition clamp_threshold (m : option nat) (n : nat) : nat :=
  match m with None => n | Some k => if (n <? k)%nat then n else k end.

(* ------------------------------------------------------------------------------------------------ *)
(* _calculate_estimated_functions : np.where(failed, 0, w); w /= w.sum(); estimator(column, w)        *)
Definition zero_failed (failed : list bool) (w : list Q) : list Q :=
  map (fun fw : bool * Q => if fst fw then 0 else snd fw) (combine failed w).
(* the division by a zero sum is an explicit error, not a value *)
Definition normalize (w : list Q) : option (list Q) :=
  let s := rsum w in if Qeqb s 0 then None else Some (map (fun x => Qred (x / s)) w).

Definition count_nonzero (w : list Q) : nat := length (filter (fun x => negb (Qeqb x 0)) w).
Definition count_pos (w : list Q) : nat := length (filter (fun x => Qltb 0 x) w).

Inductive ekind := Mean | Stddev.

(* result of one estimated function *)
Inductive fres :=
| FOk (v : Q)        (* Mean: the value; Stddev: the VARIANCE (square of the reported value) *)
| FAbort             (* the estimator raised OptimizationAborted(TOO_FEW_REALIZATIONS) *)
| FDivZero           (* no surviving realization carries weight: 0/0, outside the property's quantifier *)
| FNoEst.            (* estimator index outside the configured tuple: the code leaves the entry unset *)

Definition sq (x : Q) : Q := x * x.
Definition nat_Q (n : nat) : Q := inject_Z (Z.of_nat n).

(* DefaultFunctionEstimator._calculate_function_mean *)
Definition est_mean (f : list oQ) (w : list Q) : Q := rdot (nan_to_num f) w.
(* _mean_stddev: norm = N/(N-1), N = count(w > 0); variance = norm * sum w (f - mean)^2 *)
Definition var_of (fs w : list Q) : Q :=
  let n := nat_Q (count_pos w) in
  let m := rdot fs w in
  (n / (n - 1)) * rdot (map (fun x => Qred (sq (x - m))) fs) w.
(* _calculate_function_stddev *)
Definition est_var (f : list oQ) (w : list Q) : fres :=
  if (count_nonzero w <? min_stddev_realizations)%nat then FAbort
  else if (count_pos w <=? 1)%nat then FDivZero
  else FOk (var_of (nan_to_num f) w).

Definition estimate (k : ekind) (f : list oQ) (wrow : list Q) (failed : list bool) : fres :=
  match normalize (zero_failed failed wrow) with
  | None => FDivZero
  | Some w => match k with Mean => FOk (est_mean f w) | Stddev => est_var f w end
  end.

Definition column (j : nat) (rows : omat) : list oQ := map (fun r => nth j r None) rows.

(* weights in force for function j: the row of the filtered matrix when there is one, else the
   configured realization weights *)
Definition in_force (cfgw : list Q) (wmat : option mat) (j : nat) : list Q :=
  match wmat with None => cfgw | Some m => nth j m [] end.

(* estimator_indices None -> zeros *)
Definition resolve_emap (n : nat) (emap : option (list nat)) : list nat :=
  match emap with None => repeat 0%nat n | Some l => l end.

Definition estimate_fn (ests : list ekind) (emap : list nat) (cfgw : list Q) (wmat : option mat)
           (rows : omat) (failed : list bool) (j : nat) : fres :=
  match nth_error ests (nth j emap 0%nat) with
  | Some k => estimate k (column j rows) (in_force cfgw wmat j) failed
  | None => FNoEst
  end.
Definition estimate_all (ests : list ekind) (emap : list nat) (cfgw : list Q) (wmat : option mat)
           (rows : omat) (failed : list bool) : list fres :=
  map (estimate_fn ests emap cfgw wmat rows failed) (seq 0 (length emap)).

Definition weighted_objective (ow objs : list Q) : Q := rdot ow objs.

(* ------------------------------------------------------------------------------------------------ *)
(* _calculate_filtered_realization_weights.  The weight vector returned by filter k for this
   evaluation is an input (the filters themselves are C04/C05). *)
Inductive fout :=
| FW (w : list Q)      (* get_realization_weights returned w *)
| FTooFew              (* it raised OptimizationAborted(TOO_FEW_REALIZATIONS) *)
| FNotCalled.          (* the harness did not call it (no function is mapped to it) *)

Inductive fw_res :=
| FiltOk (ow cw : option mat)
| FiltAbort
| FiltMissing.         (* the loop needed an output that was not supplied *)

Definition sel_of (idx : nat) (fm : option (list Z)) : option (list bool) :=
  option_map (map (fun k => Z.eqb k (Z.of_nat idx))) fm.
Definition any_sel (s : option (list bool)) : bool :=
  match s with None => false | Some l => existsb (fun b => b) l end.
(* m[sel, :] = w *)
Fixpoint set_rows (m : mat) (sel : list bool) (w : list Q) : mat :=
  match m, sel with
  | row :: m', s :: sel' => (if s then w else row) :: set_rows m' sel' w
  | _, _ => m
  end.
(* if m is None: m = np.tile(configured weights, (n, 1)); m[sel, :] = w *)
Definition assign (cfgw : list Q) (n : nat) (m : option mat) (sel : option (list bool)) (w : list Q) : option mat :=
  match sel with
  | None => m
  | Some s => Some (set_rows (match m with None => repeat cfgw n | Some m' => m' end) s w)
  end.

Fixpoint filter_loop (cfgw : list Q) (no nc : nat) (ofm cfm : option (list Z))
         (idx : nat) (fouts : list fout) (ow cw : option mat) : fw_res :=
  match fouts with
  | [] => FiltOk ow cw
  | fo :: rest =>
      let so := sel_of idx ofm in
      let sc := sel_of idx cfm in
      if negb (any_sel so) && negb (any_sel sc) then filter_loop cfgw no nc ofm cfm (S idx) rest ow cw
      else match fo with
           | FTooFew => FiltAbort
           | FNotCalled => FiltMissing
           | FW w => filter_loop cfgw no nc ofm cfm (S idx) rest (assign cfgw no ow so w) (assign cfgw nc cw sc w)
           end
  end.

(* ------------------------------------------------------------------------------------------------ *)
(* configuration as held by the validated EnOptConfig *)
Record config := {
  cfg_w : list Q;                 (* realizations.weights (normalised by the config) *)
  cfg_ow : list Q;                (* objectives.weights (normalised by the config) *)
  cfg_nc : nat;                   (* number of non-linear constraints, 0 = none configured *)
  cfg_rmin : nat;                 (* realizations.realization_min_success *)
  cfg_pmin : nat;                 (* gradient.perturbation_min_success *)
  cfg_ests : list ekind;          (* function_estimators *)
  cfg_oem : option (list nat);    (* objectives.function_estimators *)
  cfg_cem : option (list nat);    (* nonlinear_constraints.function_estimators *)
  cfg_ofm : option (list Z);      (* objectives.realization_filters *)
  cfg_cfm : option (list Z)       (* nonlinear_constraints.realization_filters (None without constraints) *)
}.
Definition cfg_no (c : config) : nat := length (cfg_ow c).

Definition filtered_weights (c : config) (fouts : list fout) : fw_res :=
  filter_loop (cfg_w c) (cfg_no c) (cfg_nc c) (cfg_ofm c) (cfg_cfm c) 0 fouts None None.

(* _compute_functions *)
Inductive fun_out :=
| AllFailed                                   (* every realization failed: all values are NaN *)
| Values (objs cons : list fres).

Definition compute_functions (c : config) (ow cw : option mat) (rows : list (list oQ * list oQ))
           (failed : list bool) : fun_out :=
  if forallb (fun b => b) failed then AllFailed
  else Values (estimate_all (cfg_ests c) (resolve_emap (cfg_no c) (cfg_oem c)) (cfg_w c) ow (map fst rows) failed)
              (estimate_all (cfg_ests c) (resolve_emap (cfg_nc c) (cfg_cem c)) (cfg_w c) cw (map snd rows) failed).

(* one FunctionResults object *)
Record fresult := {
  r_rows : list (list oQ * list oQ);     (* evaluations.objectives / constraints (NaN-propagated) *)
  r_failed : list bool;                  (* realizations.failed_realizations *)
  r_ow : option mat;                     (* realizations.objective_weights *)
  r_cw : option mat;                     (* realizations.constraint_weights *)
  r_functions : option fun_out           (* None: too few successful realizations, nothing reported *)
}.
Inductive res (A : Type) := Done (a : A) | Aborted | Missing.
Arguments Done {A} a. Arguments Aborted {A}. Arguments Missing {A}.

(* _calculate_one_set_of_functions on the rows returned by the evaluator for one variable vector *)
Definition one_set (c : config) (raw : list (list oQ * list oQ)) (fouts : list fout) : res fresult :=
  let rows := propagate_nan raw in
  match filtered_weights c fouts with
  | FiltAbort => Aborted
  | FiltMissing => Missing
  | FiltOk ow cw =>
      let failed := failed_fn rows in
      Done {| r_rows := rows; r_failed := failed; r_ow := ow; r_cw := cw;
              r_functions := if gate (cfg_rmin c) failed then Some (compute_functions c ow cw rows failed) else None |}
  end.

(* an exception inside an estimator aborts the whole calculate() call *)
Definition has_abort (l : list fres) : bool := existsb (fun r => match r with FAbort => true | _ => false end) l.
Definition functions_abort (f : option fun_out) : bool :=
  match f with Some (Values o c) => has_abort o || has_abort c | _ => false end.
Definition is_undefined (r : fres) : bool := match r with FDivZero | FNoEst => true | _ => false end.
Definition functions_undefined (f : option fun_out) : bool :=
  match f with Some (Values o c) => existsb is_undefined o || existsb is_undefined c | _ => false end.

(* ------------------------------------------------------------------------------------------------ *)
(* request layout of _get_function_results for a batch of B vectors and R realizations:
   variables = np.repeat(vectors, R, axis=0), realizations = np.tile(arange(R), B), and the returned
   rows are cut into B consecutive blocks of R rows (np.vsplit). *)
Definition repeat_each (B R : nat) : list nat := flat_map (fun b => repeat b R) (seq 0 B).
Definition tile (B R : nat) : list nat := concat (repeat (seq 0 R) B).
Definition layout_functions (B R : nat) : list (nat * nat) := combine (repeat_each B R) (tile B R).
Definition eval_batch {A} (ev : nat -> nat -> A) (B R : nat) : list (list A) :=
  chunk R B (map (fun br : nat * nat => ev (fst br) (snd br)) (layout_functions B R)).
Definition eval_single {A} (ev : nat -> nat -> A) (R : nat) (b : nat) : list A := map (ev b) (seq 0 R).

(* calculate(compute_functions=True, compute_gradients=False) on a batch *)
Fixpoint calculate_sets (c : config) (blocks : list (list (list oQ * list oQ))) (fouts : list (list fout))
  : res (list fresult) :=
  match blocks with
  | [] => Done []
  | raw :: rest =>
      match one_set c raw (hd [] fouts) with
      | Aborted => Aborted
      | Missing => Missing
      | Done r =>
          if functions_abort (r_functions r) then Aborted
          else match calculate_sets c rest (tl fouts) with
               | Done rs => Done (r :: rs)
               | e => e
               end
      end
  end.

(* ------------------------------------------------------------------------------------------------ *)
(* Gradients.  Vectors are lists; [solve A b] stands for _invert_linear_equations. *)
Definition vec := list Q.
Definition vzero (n : nat) : vec := repeat 0 n.
Fixpoint vadd (a b : vec) : vec :=
  match a, b with x :: a', y :: b' => (x + y) :: vadd a' b' | _, _ => [] end.
Definition vscale (c : Q) (a : vec) : vec := map (fun x => Qred (c * x)) a.
Fixpoint vsub (a b : vec) : vec :=
  match a, b with x :: a', y :: b' => (x - y) :: vsub a' b' | _, _ => [] end.
Definition osub (a b : oQ) : oQ := match a, b with Some x, Some y => Some (x - y) | _, _ => None end.

(* rows of the least-squares system of one realization: perturbations whose function difference is
   not NaN (delta_variables[idx, success, :], delta_functions[idx, success]) *)
Fixpoint drop_failed_rows (dX : list vec) (df : list oQ) : list vec * list Q :=
  match dX, df with
  | x :: dX', Some d :: df' => let (a, b) := drop_failed_rows dX' df' in (x :: a, d :: b)
  | _ :: dX', None :: df' => drop_failed_rows dX' df'
  | _, _ => ([], [])
  end.

(* result of one estimated gradient *)
Inductive gres :=
| GMean (g : vec)               (* the gradient *)
| GSd (var : Q) (c : vec)       (* the reported gradient times the standard deviation is c; var = sd^2 *)
| GAbort | GDivZero.

Section Gradient.
  Variable solve : list vec -> list Q -> vec.   (* _invert_linear_equations *)
  Variable nv : nat.                            (* number of (free) variables *)

  (* the least-squares system of one realization: x the unperturbed variables, fx its function value,
     pX / pf the perturbed variables and their function values *)
  Definition realization_system (x : vec) (fx : oQ) (pX : list vec) (pf : list oQ) : list vec * list Q :=
    drop_failed_rows (map (fun p => vsub p x) pX) (map (fun v => osub v fx) pf).

  (* _estimate_gradients, one realization; w its normalised weight:
     solved only if active (|w| > 0) and np.any(success), zeros otherwise *)
  Definition realization_gradient (x : vec) (fx : oQ) (pX : list vec) (pf : list oQ) (w : Q) : vec :=
    let sys := realization_system x fx pX pf in
    if negb (Qeqb w 0) && negb (match snd sys with [] => true | _ => false end)
    then solve (fst sys) (snd sys) else vzero nv.

  Fixpoint realization_gradients (x : vec) (fs : list oQ) (pXs : list (list vec)) (pfs : list (list oQ))
           (w : list Q) : list vec :=
    match fs, pXs, pfs, w with
    | f :: fs', pX :: pXs', pf :: pfs', wr :: w' =>
        realization_gradient x f pX pf wr :: realization_gradients x fs' pXs' pfs' w'
    | _, _, _, _ => []
    end.

  (* np.dot(gradients, c) : sum_r c_r g_r *)
  Fixpoint vcomb (c : list Q) (gs : list vec) : vec :=
    match c, gs with
    | cr :: c', g :: gs' => vadd (vscale cr g) (vcomb c' gs')
    | _, _ => vzero nv
    end.

  (* DefaultFunctionEstimator.calculate_gradient (merge_realizations = False); w normalised *)
  Definition combine_gradients (k : ekind) (fs : list oQ) (gs : list vec) (w : list Q) : gres :=
    match k with
    | Mean => GMean (vcomb w gs)
    | Stddev =>
        if (count_nonzero w <? min_stddev_realizations)%nat then GAbort
        else if (count_pos w <=? 1)%nat then GDivZero
        else
          let f := nan_to_num fs in
          let n := nat_Q (count_pos w) in
          let m := rdot f w in
          GSd (var_of f w)
              (vscale (n / (n - 1))
                      (vsub (vcomb (map (fun fw : Q * Q => Qred (fst fw * snd fw)) (combine f w)) gs)
                            (vscale m (vcomb w gs))))
    end.

  (* _calculate_gradient: np.where(failed, 0, w); w /= w.sum(); estimate; combine *)
  Definition gradient_of (k : ekind) (x : vec) (fs : list oQ) (pXs : list (list vec)) (pfs : list (list oQ))
             (wrow : list Q) (failed : list bool) : gres :=
    match normalize (zero_failed failed wrow) with
    | None => GDivZero
    | Some w => combine_gradients k fs (realization_gradients x fs pXs pfs w) w
    end.
End Gradient.

(* _estimate_merged_gradient (gradient.merge_realizations): ONE least-squares solve over the rows (realization r,
   perturbation p) of every realization with a non-zero normalised weight whose function difference is not NaN,
   realization-major.  A row carries the weight of its realization, its variable difference and its function
   difference; [msolve] stands for the weighting of the rows and the solve (the current code multiplies the function
   differences by the weight and calls _invert_linear_equations).  The mean estimator returns the result as it is;
   the stddev estimator rejects merge_realizations at construction. *)
Definition mrow := (Q * vec * Q)%type.
Fixpoint merged_rows (x : vec) (fs : list oQ) (pXs : list (list vec)) (pfs : list (list oQ)) (w : list Q) : list mrow :=
  match fs, pXs, pfs, w with
  | f :: fs', pX :: pXs', pf :: pfs', wr :: w' =>
      (if Qeqb wr 0 then []
       else let sys := realization_system x f pX pf in
            map (fun ab : vec * Q => (wr, fst ab, snd ab)) (combine (fst sys) (snd sys)))
      ++ merged_rows x fs' pXs' pfs' w'
  | _, _, _, _ => []
  end.
Definition merged_gradient_of (msolve : list mrow -> vec) (x : vec) (fs : list oQ) (pXs : list (list vec))
           (pfs : list (list oQ)) (wrow : list Q) (failed : list bool) : gres :=
  match normalize (zero_failed failed wrow) with
  | None => GDivZero
  | Some w => GMean (msolve (merged_rows x fs pXs pfs w))
  end.
(* rows that agree up to == on the weight *)
Definition mrow_eq (a b : mrow) : Prop := fst (fst a) == fst (fst b) /\ snd (fst a) = snd (fst b) /\ snd a = snd b.

(* the ensemble with the failed realizations and, per realization, the failed perturbations removed *)
Definition keep_of (failed : list bool) : list bool := map negb failed.
Definition reduce_pX (pX : list vec) (pf : list oQ) : list vec :=
  gather (map (fun o : oQ => is_some o) pf) pX.
Definition reduce_pf (pf : list oQ) : list oQ := filter (fun o : oQ => is_some o) pf.
Fixpoint map2 {A B C} (f : A -> B -> C) (a : list A) (b : list B) : list C :=
  match a, b with x :: a', y :: b' => f x y :: map2 f a' b' | _, _ => [] end.

(* ------------------------------------------------------------------------------------------------ *)
(* EnsembleOptimizer._run_evaluations: one entry per result = (values missing, failed flags) *)
Definition too_few_after_evaluation (rmin : nat) (allow_nan : bool) (results : list (bool * list bool)) : bool :=
  existsb (fun r : bool * list bool =>
             fst r || ((rmin <? 1)%nat && negb allow_nan && forallb (fun b => b) (snd r))) results.

Definition exit_code_of (name : String.string) : Z :=
  match find (fun p : String.string * Z => String.eqb (fst p) name) enum_OptimizerExitCode with
  | Some p => snd p | None => (-1)%Z end.

(* exit code of an optimizer step whose optimizer asks for exactly one evaluation and then returns *)
Definition optimizer_step_exit (calc_aborted : bool) (rmin : nat) (allow_nan : bool)
           (results : list (bool * list bool)) : Z :=
  if calc_aborted || too_few_after_evaluation rmin allow_nan results
  then exit_code_of "TOO_FEW_REALIZATIONS"%string else exit_code_of "OPTIMIZER_STEP_FINISHED"%string.

(* exit code of the evaluator step: any result without functions *)
Definition evaluator_step_exit (calc_aborted : bool) (missing : list bool) : Z :=
  if calc_aborted || existsb (fun b => b) missing
  then exit_code_of "TOO_FEW_REALIZATIONS"%string else exit_code_of "EVALUATION_STEP_FINISHED"%string.

(* ------------------------------------------------------------------------------------------------ *)
(* Specification vocabulary of Props/C01.v and Props/C03.v (not used by the executable model above). *)

(* element-wise == of rational vectors; results that agree up to == *)
Definition veq (a b : list Q) : Prop := Forall2 Qeq a b.
Definition fres_eq (a b : fres) : Prop :=
  match a, b with
  | FOk x, FOk y => x == y
  | FAbort, FAbort | FDivZero, FDivZero | FNoEst, FNoEst => True
  | _, _ => False
  end.
Definition gres_eq (a b : gres) : Prop :=
  match a, b with
  | GMean g, GMean h => veq g h
  | GSd v c, GSd v' c' => v == v' /\ veq c c'
  | GAbort, GAbort | GDivZero, GDivZero => True
  | _, _ => False
  end.
(* function j is mapped to realization filter k by the index map fm (objectives.realization_filters) *)
Definition mapped_to (fm : option (list Z)) (j k : nat) : Prop :=
  exists l, fm = Some l /\ nth_error l j = Some (Z.of_nat k).
(* an evaluator row without NaN *)
Definition nan_free (oc : list oQ * list oQ) : bool := negb (row_failure (fst oc) (snd oc)).
