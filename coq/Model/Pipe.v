(* Model/Pipe.v -- C20: the external-optimizer protocol of ropt/plugins/optimizer/external.py at message
   granularity.  Executable definitions only.

   Structure follows the code:
     enc_request / dec_request      child `_PluginOptimizer._request(...)` payloads / parent `_handle_request`
     enc_answer  / dec_answer       parent answers / what the child does with `response`
     child_send, child_optimize,
     child_recv                     `_PluginOptimizer.run` + `_callback` (the optimizer is a `strategy`)
     handle, iter                   one pass through the body of `while process.poll() is None:` in
                                    `ExternalOptimizer.start` (answer / exception variables, write retry)
     run                            the loop, driven by a schedule of ticks (was the FIFO readable /
                                    writable in this pass) -- the schedule is the only nondeterminism
     inproc                         the same optimizer strategy calling the callback directly

   Floats are IEEE-754 bit patterns (Z): the comparison with the implementation is byte-exact.
   The OS is not modelled: `terminate` says that a running child that is sent SIGTERM and waited for is
   gone, FIFOs deliver what was written (whole messages: every message is smaller than the pipe
   capacity), `poll` reports a dead child, writing to a FIFO whose reader is gone fails at once (ENXIO at
   the first open, EPIPE afterwards).  A child can die at three kinds of moments, by any signal:
   when it is about to write its k-th message (the optimizer is computing), right after it read the
   answer to its k-th message, and while it is blocked waiting for that answer. *)
From Coq Require Import List Bool Arith ZArith String.
From Ropt Require Import Base.ListX.
Import ListNotations.
Local Open Scope string_scope.
Local Open Scope list_scope.

Definition fl := Z.

(* numpy arrays that cross the pipe: `tolist()` of a 1-D or 2-D float64 array *)
Inductive tensor := T1 (l : list fl) | T2 (m : list (list fl)).

(* JSON values (json.dumps / json.loads; JNum = a float, by its bits) *)
Inductive jv :=
| JNull
| JStr (s : string)
| JNum (z : fl)
| JInt (z : Z)
| JBool (b : bool)
| JArr (l : list jv)
| JObj (l : list (string * jv)).

Fixpoint jv_eqb (a b : jv) {struct a} : bool :=
  match a, b with
  | JNull, JNull => true
  | JStr s, JStr t => String.eqb s t
  | JNum x, JNum y => Z.eqb x y
  | JInt x, JInt y => Z.eqb x y
  | JBool x, JBool y => Bool.eqb x y
  | JArr l, JArr m =>
      (fix go (l m : list jv) {struct l} : bool :=
         match l, m with
         | [], [] => true
         | x :: l', y :: m' => jv_eqb x y && go l' m'
         | _, _ => false
         end) l m
  | JObj l, JObj m =>
      (fix go (l m : list (string * jv)) {struct l} : bool :=
         match l, m with
         | [], [] => true
         | (k, x) :: l', (k', y) :: m' => String.eqb k k' && jv_eqb x y && go l' m'
         | _, _ => false
         end) l m
  | _, _ => false
  end.

Fixpoint jget (k : string) (l : list (string * jv)) : option jv :=
  match l with
  | [] => None
  | (k', v) :: t => if String.eqb k k' then Some v else jget k t
  end.

(* ---- arrays ---------------------------------------------------------------------------------- *)
Definition enc_vec (l : list fl) : jv := JArr (map JNum l).
Definition enc_tensor (t : tensor) : jv :=
  match t with T1 l => enc_vec l | T2 m => JArr (map enc_vec m) end.

Fixpoint dec_items (l : list jv) : option (list fl) :=
  match l with
  | [] => Some []
  | JNum z :: t => match dec_items t with Some r => Some (z :: r) | None => None end
  | _ :: _ => None
  end.
Definition dec_vec (j : jv) : option (list fl) :=
  match j with JArr l => dec_items l | _ => None end.
Fixpoint dec_rows (l : list jv) : option (list (list fl)) :=
  match l with
  | [] => Some []
  | JArr r :: t => match dec_items r, dec_rows t with
                   | Some a, Some b => Some (a :: b)
                   | _, _ => None
                   end
  | _ :: _ => None
  end.
(* np.array(list, dtype=float64): a flat list is 1-D (also the empty one), a list of lists 2-D *)
Definition dec_tensor (j : jv) : option tensor :=
  match j with
  | JArr l => match dec_items l with
              | Some v => Some (T1 v)
              | None => match dec_rows l with Some m => Some (T2 m) | None => None end
              end
  | _ => None
  end.

(* a 2-D array without rows does not survive tolist(); it never occurs (every request has a row) *)
Definition wf_tensor (t : tensor) : bool := match t with T2 [] => false | _ => true end.

(* ---- messages -------------------------------------------------------------------------------- *)
Inductive request :=
| RConfig
| RInitial
| REval (v : tensor) (rf rg : bool)
| RError (msg : string).

Inductive answer :=
| AConfig (c : jv)                (* config.model_dump(round_trip=True), opaque here *)
| AInitial (x : list fl)
| AResult (f g : tensor)
| AAbort.

Definition enc_request (r : request) : jv :=
  match r with
  | RConfig => JStr "config"
  | RInitial => JStr "initial_values"
  | REval v rf rg =>
      JObj [("evaluation",
             JObj [("variables", enc_tensor v); ("return_functions", JBool rf); ("return_gradients", JBool rg)])]
  | RError m => JObj [("error", JStr m)]
  end.

(* `_handle_request`: which request is it?  None = not recognised (the method returns None) *)
Definition dec_request (j : jv) : option request :=
  match j with
  | JStr s => if String.eqb s "config" then Some RConfig
              else if String.eqb s "initial_values" then Some RInitial else None
  | JObj l =>
      match jget "evaluation" l with
      | Some (JObj e) =>
          match jget "variables" e, jget "return_functions" e, jget "return_gradients" e with
          | Some v, Some (JBool rf), Some (JBool rg) =>
              match dec_tensor v with Some t => Some (REval t rf rg) | None => None end
          | _, _, _ => None
          end
      | Some _ => None
      | None => match jget "error" l with Some (JStr m) => Some (RError m) | _ => None end
      end
  | _ => None
  end.

Definition enc_answer (a : answer) : jv :=
  match a with
  | AConfig c => c
  | AInitial x => enc_vec x
  | AResult f g => JObj [("functions", enc_tensor f); ("gradients", enc_tensor g)]
  | AAbort => JStr "abort"
  end.

(* what the child makes of the response to the request it sent *)
Definition dec_answer (r : request) (j : jv) : option answer :=
  match r with
  | RConfig => Some (AConfig j)
  | RInitial => match dec_vec j with Some x => Some (AInitial x) | None => None end
  | REval _ _ _ =>
      match j with
      | JStr s => if String.eqb s "abort" then Some AAbort else None
      | JObj l => match jget "functions" l, jget "gradients" l with
                  | Some f, Some g => match dec_tensor f, dec_tensor g with
                                      | Some f', Some g' => Some (AResult f' g')
                                      | _, _ => None
                                      end
                  | _, _ => None
                  end
      | _ => None
      end
  | RError _ => match j with JStr s => if String.eqb s "abort" then Some AAbort else None | _ => None end
  end.

Definition wf_request (r : request) : bool := match r with REval v _ _ => wf_tensor v | _ => true end.
Definition wf_answer (a : answer) : bool := match a with AResult f g => wf_tensor f && wf_tensor g | _ => true end.
(* the parent's answer fits the request *)
Definition fits (r : request) (a : answer) : bool :=
  match r, a with
  | RConfig, AConfig _ | RInitial, AInitial _ | REval _ _ _, AResult _ _ | REval _ _ _, AAbort
  | RError _, AAbort => true
  | _, _ => false
  end.

(* ---- the callback in the parent: the user's side ---------------------------------------------- *)
Inductive evres :=
| EvOk (f g : tensor)
| EvAbort (code : Z)             (* OptimizationAborted(exit_code) from the callback *)
| EvRaise (cls : string).        (* any other Exception *)
Definition effect := list Z.      (* evaluator calls / delivered results observed inside a callback *)
(* index of the callback, request -> outcome, observable effects *)
Definition evaluator := nat -> tensor -> bool -> bool -> evres * list effect.

Record exchange := {
  x_v : tensor; x_rf : bool; x_rg : bool; x_res : evres; x_eff : list effect
}.

(* ---- the optimizer algorithm ------------------------------------------------------------------ *)
Inductive action :=
| Ask (v : tensor) (rf rg : bool)
| Stop                            (* optimizer.start returns *)
| Fail (msg : string).            (* optimizer.start raises *)
Definition history := list (tensor * tensor).
(* config, initial values, answers so far -> what the optimizer does next *)
Definition strategy := jv -> list fl -> history -> action.
Definition wf_action (a : action) : bool := match a with Ask v _ _ => wf_tensor v | _ => true end.
Definition wf_evres (r : evres) : bool := match r with EvOk f g => wf_tensor f && wf_tensor g | _ => true end.

Inductive exc :=
| ExAbort (code : Z)              (* OptimizationAborted *)
| ExUser (cls : string)           (* the evaluator's own exception, re-raised *)
| ExOptimizer (msg : string)      (* the optimizer failed (external: RuntimeError "External optimizer error") *)
| ExDeath (returncode : Z)        (* RuntimeError "terminated abnormally" *)
| ExPipe.                         (* OSError from comm.write: the reader of the answer FIFO is gone *)
Inductive result := Return | Raise (e : exc).

(* ---- in-process run: optimizer.start(...) calling the callback directly ----------------------- *)
Fixpoint inproc (fuel : nat) (ev : evaluator) (s : history -> action) (hist : history)
         (tr : list exchange) : option (result * list exchange) :=
  match fuel with
  | O => None
  | S fuel' =>
      match s hist with
      | Stop => Some (Return, tr)
      | Fail m => Some (Raise (ExOptimizer m), tr)
      | Ask v rf rg =>
          let (res, eff) := ev (List.length tr) v rf rg in
          let tr' := tr ++ [{| x_v := v; x_rf := rf; x_rg := rg; x_res := res; x_eff := eff |}] in
          match res with
          | EvOk f g => inproc fuel' ev s (hist ++ [(f, g)]) tr'
          | EvAbort c => Some (Raise (ExAbort c), tr')
          | EvRaise cls => Some (Raise (ExUser cls), tr')
          end
      end
  end.

(* ---- the child process ------------------------------------------------------------------------ *)
Inductive fault :=
| NoFault
| DieAfter (k : nat) (sg : positive)     (* dies by signal sg when about to write message number k *)
| DieOnAnswer (k : nat) (sg : positive)  (* dies by signal sg right after reading the answer to message k:
                                            before the next thing it does -- write message k, or return *)
| DieWaiting (k : nat) (sg : positive)   (* killed by signal sg while blocked waiting for the answer to its
                                            k-th message (k >= 1), after the parent has read that message *)
| ExitAfter (k : nat) (code : Z).        (* exits with `code` when about to write message k, without a report *)

Inductive cphase :=
| PConfig
| PInitial (cfg : jv)
| POpt (cfg : jv) (x0 : list fl) (hist : history)
| PError.

Inductive cstate :=
| CWaiting (ph : cphase) (req : request) (sent : nat)   (* request written, blocked in _request *)
| CExited (code : Z)
| CKilled (sig : positive).

Definition sigkill : positive := 9%positive.
Definition sigterm : positive := 15%positive.
Definition sigint : positive := 2%positive.

(* the child does not get to write its message number `sent` *)
Definition dies_now (flt : fault) (sent : nat) : option cstate :=
  match flt with
  | DieAfter k sg | DieOnAnswer k sg => if Nat.leb k sent then Some (CKilled sg) else None
  | ExitAfter k c => if Nat.leb k sent then Some (CExited c) else None
  | NoFault | DieWaiting _ _ => None
  end.
(* the child does not get to return from `run` after `sent` messages *)
Definition dies_at_return (flt : fault) (sent : nat) : option cstate :=
  match flt with
  | DieOnAnswer k sg => if Nat.leb k sent then Some (CKilled sg) else None
  | _ => None
  end.
(* the child is dead when the parent writes the answer to its message number `sent` *)
Definition dead_waiting (flt : fault) (sent : nat) : option positive :=
  match flt with
  | DieWaiting k sg => if Nat.eqb k sent then Some sg else None
  | _ => None
  end.

(* `self._comm.write(request)` of the child's message number `sent` *)
Definition child_send (flt : fault) (ph : cphase) (req : request) (sent : nat) : cstate * option jv :=
  match dies_now flt sent with
  | Some c => (c, None)
  | None => (CWaiting ph req (S sent), Some (enc_request req))
  end.

(* optimizer.start runs until it needs an evaluation, returns, or raises *)
Definition child_optimize (flt : fault) (s : strategy) (cfg : jv) (x0 : list fl) (hist : history)
           (sent : nat) : cstate * option jv :=
  match s cfg x0 hist with
  | Ask v rf rg => child_send flt (POpt cfg x0 hist) (REval v rf rg) sent
  | Stop => match dies_at_return flt sent with Some c => (c, None) | None => (CExited 0, None) end
  | Fail m => child_send flt PError (RError m) sent
  end.

(* the child reads the response `j` to its pending request *)
Definition child_recv (flt : fault) (s : strategy) (ph : cphase) (req : request) (sent : nat) (j : jv)
  : cstate * option jv :=
  match ph, dec_answer req j with
  | PConfig, Some (AConfig cfg) => child_send flt (PInitial cfg) RInitial sent
  | PInitial cfg, Some (AInitial x0) => child_optimize flt s cfg x0 [] sent
  | POpt cfg x0 hist, Some (AResult f g) => child_optimize flt s cfg x0 (hist ++ [(f, g)]) sent
  | POpt _ _ _, Some AAbort => (CExited 0, None)      (* OptimizationAborted -> return 0 *)
  | PError, Some AAbort => (CExited 1, None)          (* assert ... == "abort"; return 1 *)
  | _, _ => (CExited 1, None)                         (* anything else: uncaught exception *)
  end.

Definition running (c : cstate) : bool := match c with CWaiting _ _ _ => true | _ => false end.
Definition returncode (c : cstate) : Z :=
  match c with CExited c => c | CKilled sg => Zneg sg | CWaiting _ _ _ => 0 end.
(* os.kill(pid, SIGTERM); process.wait(_PROCESS_TIMEOUT) *)
Definition terminate (c : cstate) : cstate :=
  match c with CWaiting _ _ _ => CKilled sigterm | c => c end.

(* ---- the parent: ExternalOptimizer.start ------------------------------------------------------ *)
Inductive wev := WR (j : jv) | WW (j : jv).      (* message read / written by the parent, in order *)

Record pstate := {
  p_answer : option answer;       (* `answer` *)
  p_exn : option exc;             (* `exception` *)
  p_trace : list exchange;        (* callbacks made so far *)
  p_wire : list wev
}.

Record sys := { s_par : pstate; s_child : cstate; s_c2p : option jv }.

Inductive tick := Tick (readable writable : bool).
Inductive step_result := Continue (st : sys) | Done (r : result) (st : sys).

(* `_handle_request` after comm.read() returned the message j *)
Definition handle (ev : evaluator) (cfg : jv) (x0 : list fl) (p : pstate) (j : jv) : pstate :=
  let p := {| p_answer := p_answer p; p_exn := p_exn p; p_trace := p_trace p; p_wire := p_wire p ++ [WR j] |} in
  match dec_request j with
  | Some RConfig =>
      {| p_answer := Some (AConfig cfg); p_exn := p_exn p; p_trace := p_trace p; p_wire := p_wire p |}
  | Some RInitial =>
      {| p_answer := Some (AInitial x0); p_exn := p_exn p; p_trace := p_trace p; p_wire := p_wire p |}
  | Some (REval v rf rg) =>
      let (res, eff) := ev (List.length (p_trace p)) v rf rg in
      let tr := p_trace p ++ [{| x_v := v; x_rf := rf; x_rg := rg; x_res := res; x_eff := eff |}] in
      match res with
      | EvOk f g => {| p_answer := Some (AResult f g); p_exn := p_exn p; p_trace := tr; p_wire := p_wire p |}
      | EvAbort c => {| p_answer := Some AAbort; p_exn := Some (ExAbort c); p_trace := tr; p_wire := p_wire p |}
      | EvRaise cls => {| p_answer := Some AAbort; p_exn := Some (ExUser cls); p_trace := tr; p_wire := p_wire p |}
      end
  | Some (RError m) =>
      {| p_answer := Some AAbort; p_exn := Some (ExOptimizer m); p_trace := p_trace p; p_wire := p_wire p |}
  | None => p
  end.

(* `if answer is None: answer = self._handle_request(...)` -- only when a message can be read *)
Definition read_part (ev : evaluator) (cfg : jv) (x0 : list fl) (readable : bool) (st : sys) : sys :=
  match p_answer (s_par st), readable, s_c2p st with
  | None, true, Some j =>
      {| s_par := handle ev cfg x0 (s_par st) j; s_child := s_child st; s_c2p := None |}
  | _, _, _ => st
  end.

(* `if answer is not None and comm.write(answer): ...`
   A child that was killed while it waited for this answer has closed its end of the FIFO: comm.write raises
   (before the stored exception is looked at); the death is placed at the write attempt, which is where it
   becomes observable (in the code the write is attempted in the same pass in which the request was read). *)
Definition pipe_broken (flt : fault) (c : cstate) : option positive :=
  match c with CWaiting _ _ sent => dead_waiting flt sent | _ => None end.

Definition write_part (s : strategy) (flt : fault) (writable : bool) (st : sys) : step_result :=
  match p_answer (s_par st), writable with
  | Some a, true =>
      match pipe_broken flt (s_child st) with
      | Some sg => Done (Raise ExPipe) {| s_par := s_par st; s_child := CKilled sg; s_c2p := s_c2p st |}
      | None =>
      let j := enc_answer a in
      let p := s_par st in
      let p' := {| p_answer := None; p_exn := p_exn p; p_trace := p_trace p; p_wire := p_wire p ++ [WW j] |} in
      match p_exn p with
      | Some e =>
          (* the stored exception is re-raised after SIGTERM + wait *)
          Done (Raise e) {| s_par := p'; s_child := terminate (s_child st); s_c2p := s_c2p st |}
      | None =>
          match s_child st with
          | CWaiting ph req sent =>
              let (c, out) := child_recv flt s ph req sent j in
              Continue {| s_par := p'; s_child := c; s_c2p := out |}
          | c => Continue {| s_par := p'; s_child := c; s_c2p := s_c2p st |}
          end
      end
      end
  | _, _ => Continue st
  end.

(* one pass: `while process.poll() is None:` body, or the code after the loop *)
Definition iter (ev : evaluator) (s : strategy) (flt : fault) (cfg : jv) (x0 : list fl) (t : tick)
           (st : sys) : step_result :=
  if running (s_child st) then
    let (readable, writable) := t in
    write_part s flt writable (read_part ev cfg x0 readable st)
  else if Z.eqb (returncode (s_child st)) 0 then Done Return st
  else Done (Raise (ExDeath (returncode (s_child st)))) st.

Fixpoint run (ev : evaluator) (s : strategy) (flt : fault) (cfg : jv) (x0 : list fl) (sch : list tick)
         (st : sys) : option (result * sys) :=
  match sch with
  | [] => None
  | t :: sch' =>
      match iter ev s flt cfg x0 t st with
      | Done r st' => Some (r, st')
      | Continue st' => run ev s flt cfg x0 sch' st'
      end
  end.

Definition init (flt : fault) : sys :=
  let (c, out) := child_send flt PConfig RConfig 0 in
  {| s_par := {| p_answer := None; p_exn := None; p_trace := []; p_wire := [] |}; s_child := c; s_c2p := out |}.

Definition sync (n : nat) : list tick := repeat (Tick true true) n.
Fixpoint enabled (sch : list tick) : nat :=
  match sch with
  | [] => 0
  | Tick true true :: t => S (enabled t)
  | _ :: t => enabled t
  end.

Definition ext_run ev s flt cfg x0 sch := run ev s flt cfg x0 sch (init flt).

(* ---- scripts: a finite optimizer run as a strategy -------------------------------------------- *)
Definition script_strategy (sc : list action) : strategy :=
  fun _ _ hist => nth (List.length hist) sc Stop.

(* the wrapper's `raise:j` fault: the optimizer's j-th callback raises inside the child *)
Definition with_raise (j : nat) (msg : string) (s : strategy) : strategy :=
  fun cfg x0 hist =>
    match s cfg x0 hist with
    | Ask v rf rg => if Nat.eqb (List.length hist) j then Fail msg else Ask v rf rg
    | a => a
    end.

(* ---- the plan step around optimizer.start ----------------------------------------------------- *)
Inductive outcome := Exit (code : Z) | Error (e : exc).
(* EnsembleOptimizer.start: OPTIMIZER_STEP_FINISHED unless OptimizationAborted carries another code *)
Definition step_outcome (finished : Z) (r : result) : outcome :=
  match r with
  | Return => Exit finished
  | Raise (ExAbort c) => Exit c
  | Raise e => Error e
  end.
