(* Model/Rng.v -- abstract machine for property C16 (runs are reproducible from configuration and
   seed alone).  Definitions only.

   Anchors:  EnsembleEvaluator.__init__   rng = default_rng(config.gradient.seed); every sampler of the
                                          run gets that generator               (seed_of_config, Local)
             _init_samplers / SciPySampler.__init__   plug-in lookup in the (cached) registry, engine
                                          construction (scrambling draws from the run's generator)  (init)
             SciPySampler.generate_samples  draws with random_state=rng / seed=rng            (sampler)
             _perturb_variables            request = point + magnitudes * samples            (request)
             EnsembleOptimizer / SciPy     deterministic strategy on the history so far       (decide)
             everything else in the process (other runs, user code inside the evaluator, other
             libraries) may do anything to the process-wide generators at any time         (foreign)

   The machine makes the read/write set of a run explicit.  What persists in the process between and
   during runs is split in two:
     G  generator-like state: NumPy's legacy global generator, the random_state of the scipy.stats
        distribution objects.  Reading it advances it, so every access is a write; other code may do
        anything to it at any time (foreign operations).
     T  table-like state: module-level containers and defaults of the plug-in modules, class attributes
        of samplers / plug-ins, attributes of the plug-in instances cached by the plug-in manager, the
        configuration object handed to the run.  A run may READ it freely (it is its program text and
        its registry); WRITING it is what makes one run visible to the next.
   The start-up of a run and its samplers are PROGRAMS over the run-local generator, G and T; executing
   them counts the instructions that touch G or write T.  The run-time monitor of the harness counts
   the same things on the real code (must be 0), which is the premise of the theorems. *)
From Coq Require Import List ZArith Bool Arith.
Import ListNotations.

Section Machine.
  Variables G T L V : Type.          (* generator-like / table-like persistent state; run-local generator; drawn value *)
  Variable drawG : G -> G * V.       (* one draw from np.random / mtrand._rand / a distribution's random_state *)
  Variable drawL : L -> L * V.       (* one draw from the Generator created for this run *)

  (* what EnsembleEvaluator.__init__ and generate_samples() may do *)
  Inductive prog (A : Type) : Type :=
  | Ret (a : A)
  | Local (k : V -> prog A)          (* rng.<dist>(...) on the generator handed to the sampler *)
  | Global (k : V -> prog A)         (* np.random.<dist>(...), check_random_state(None).<dist>(...) *)
  | Reseed (s : G) (p : prog A)      (* np.random.seed(...), dist.random_state = ... *)
  | Read (k : T -> prog A)           (* look at module tables, class attributes, cached plug-ins, the config object *)
  | Write (f : T -> T) (p : prog A). (* modify any of them *)
  Arguments Ret {A} a.
  Arguments Local {A} k.
  Arguments Global {A} k.
  Arguments Reseed {A} s p.
  Arguments Read {A} k.
  Arguments Write {A} f p.

  (* result: persistent states, local state, value, number of touches (accesses of G, writes of T) *)
  Fixpoint exec {A} (p : prog A) (g : G) (t : T) (l : L) : G * T * L * A * nat :=
    match p with
    | Ret a => (g, t, l, a, O)
    | Local k => let (l', v) := drawL l in exec (k v) g t l'
    | Global k => let (g', v) := drawG g in
                  let '(g'', t', l', a, n) := exec (k v) g' t l in (g'', t', l', a, S n)
    | Reseed s p' => let '(g'', t', l', a, n) := exec p' s t l in (g'', t', l', a, S n)
    | Read k => exec (k t) g t l
    | Write f p' => let '(g'', t', l', a, n) := exec p' g (f t) l in (g'', t', l', a, S n)
    end.

  Variables Cfg X Req Res Smp : Type.
  Variable seed_of_config : Cfg -> L.                         (* default_rng(config.gradient.seed) *)
  Variable init : Cfg -> prog unit.                           (* plug-in lookup, sampler / engine construction *)
  Variable sampler : Cfg -> prog Smp.                         (* the configured samplers, in calling order *)
  Variable request : Cfg -> X -> option Smp -> Req.           (* evaluator request for a point (and perturbations) *)
  Variable evaluator : Req -> Res.                            (* the user's deterministic evaluator *)
  Variable decide : Cfg -> list (Req * Res) -> option (bool * X).   (* None: stop; Some (perturb?, point) *)
  Variable exit_code : Cfg -> list (Req * Res) -> Z.

  Definition foreign := G -> G.
  (* the foreign operations performed at each micro step of a run: two micro steps per evaluation
     (before the samplers run; inside the evaluator); a schedule that is too short means "nothing" *)
  Definition schedule := list (list foreign).
  Definition apply_foreign (fs : list foreign) (g : G) : G := fold_left (fun g f => f g) fs g.
  Definition pop (s : schedule) : list foreign * schedule :=
    match s with [] => ([], []) | b :: t => (b, t) end.

  Record outcome := {
    o_trace : list (Req * Res);     (* evaluator requests and results, in order *)
    o_exit : Z;
    o_complete : bool;              (* false: the step budget of the model ran out *)
    o_touches : nat;                (* touches of G / writes of T by the run itself *)
    o_global : G;                   (* what the run leaves behind for the rest of the process *)
    o_table : T
  }.

  Fixpoint run_from (fuel : nat) (cfg : Cfg) (s : schedule) (g : G) (t : T) (l : L)
                    (hist : list (Req * Res)) (touches : nat) : outcome :=
    match decide cfg hist with
    | None => {| o_trace := hist; o_exit := exit_code cfg hist; o_complete := true;
                 o_touches := touches; o_global := g; o_table := t |}
    | Some (perturb, x) =>
        match fuel with
        | O => {| o_trace := hist; o_exit := exit_code cfg hist; o_complete := false;
                  o_touches := touches; o_global := g; o_table := t |}
        | S n =>
            let (b1, s1) := pop s in
            let g1 := apply_foreign b1 g in
            let '(g2, t2, l2, smp, k) :=
              if perturb : bool
              then let '(g', t', l', a, k) := exec (sampler cfg) g1 t l in (g', t', l', Some a, k)
              else (g1, t, l, None, O) in
            let (b2, s2) := pop s1 in
            let g3 := apply_foreign b2 g2 in
            let rq := request cfg x smp in
            run_from n cfg s2 g3 t2 l2 (hist ++ [(rq, evaluator rq)]) (touches + k)
        end
    end.

  (* a run derives its generator from its own configuration; nothing of L enters from outside.  The
     start-up program runs first (it may consume from the run's generator: scrambled QMC engines). *)
  Definition run (fuel : nat) (cfg : Cfg) (s : schedule) (g : G) (t : T) : outcome :=
    let '(g0, t0, l0, _, k) := exec (init cfg) g t (seed_of_config cfg) in
    run_from fuel cfg s g0 t0 l0 [] k.

  (* several runs in one process: the persistent state is handed from one run to the next *)
  Fixpoint process (jobs : list (nat * Cfg * schedule)) (g : G) (t : T) : list outcome :=
    match jobs with
    | [] => []
    | (fuel, cfg, s) :: rest => let o := run fuel cfg s g t in o :: process rest (o_global o) (o_table o)
    end.

  (* a complete other run executed at a schedule point of this one (inside the evaluator, in an observer)
     is, for this run, a foreign operation *)
  Definition run_as_foreign (fuel : nat) (cfg : Cfg) (s : schedule) (t : T) : foreign :=
    fun g => o_global (run fuel cfg s g t).

  (* the first perturbation sample of a run *)
  Definition first_sample (cfg : Cfg) (g : G) (t : T) : Smp :=
    let '(g0, t0, l0, _, _) := exec (init cfg) g t (seed_of_config cfg) in
    let '(_, _, _, a, _) := exec (sampler cfg) g0 t0 l0 in a.
End Machine.

Arguments Ret {G T V A} a.
Arguments Local {G T V A} k.
Arguments Global {G T V A} k.
Arguments Reseed {G T V A} s p.
Arguments Read {G T V A} k.
Arguments Write {G T V A} f p.

(* ---- the replay instance used by Check/Chk_C16.v -------------------------------------------------
   Built from a REFERENCE run (fresh interpreter): requests and results are identified by 60-bit
   digests of their byte strings.  The perturbed requests are what the run-local generator yields
   (in order); the strategy replays the reference's sequence of calls; the evaluator is the
   reference's request -> result table.  Foreign operations act on an integer global state; the table
   state is an integer version number which the replayed run only reads. *)
Record script := {
  s_calls : list (bool * Z * Z);   (* per evaluator call: perturbed?, request digest, result digest *)
  s_exit : Z
}.

Definition r_drawG (g : Z) : Z * Z := (Z.succ g, g).
Definition r_drawL (l : list Z) : list Z * Z := match l with [] => ([], (-1)%Z) | v :: t => (t, v) end.
Definition r_seed (c : script) : list Z :=
  flat_map (fun e : bool * Z * Z => let '(p, rq, _) := e in if p then [rq] else []) (s_calls c).
Definition r_init (c : script) : prog Z Z Z unit := Read (fun _ => Ret tt).
Definition r_sampler (c : script) : prog Z Z Z Z := Read (fun _ => Local (fun v => Ret v)).
Definition r_request (c : script) (x : Z) (smp : option Z) : Z := match smp with Some v => v | None => x end.
Fixpoint r_lookup (tbl : list (bool * Z * Z)) (rq : Z) : Z :=
  match tbl with
  | [] => (-1)%Z
  | (_, q, r) :: t => if Z.eqb q rq then r else r_lookup t rq
  end.
Definition r_decide (c : script) (hist : list (Z * Z)) : option (bool * Z) :=
  match nth_error (s_calls c) (length hist) with
  | Some (p, rq, _) => Some (p, rq)
  | None => None
  end.
Definition r_exit (c : script) (hist : list (Z * Z)) : Z := s_exit c.

Definition replay (c : script) (s : schedule Z) (g t : Z) : outcome Z Z Z Z :=
  run Z Z (list Z) Z r_drawG r_drawL script Z Z Z Z r_seed r_init r_sampler r_request (r_lookup (s_calls c)) r_decide r_exit
      (S (length (s_calls c))) c s g t.
