(* Model/Rng.v -- abstract machine for property C16 (runs are reproducible from configuration and
   seed alone).  Definitions only.

   Anchors:  EnsembleEvaluator.__init__   rng = default_rng(config.gradient.seed); every sampler of the
                                          run gets that generator               (seed_of_config, Local)
             SciPySampler.generate_samples  draws with random_state=rng / seed=rng            (sampler)
             _perturb_variables            request = point + magnitudes * samples            (request)
             EnsembleOptimizer / SciPy     deterministic strategy on the history so far       (decide)
             everything else in the process (other runs, user code inside the evaluator, other
             libraries) may do anything to NumPy's legacy global generator at any time      (foreign)

   The machine makes the read/write set of sampling explicit: a sampler is a PROGRAM over two
   generators, the run-local one and the process-global one; executing it counts the instructions
   that touch the global one.  The run-time monitor of the harness counts the same thing on the real
   code (must be 0), which is the premise of the non-interference theorem. *)
From Coq Require Import List ZArith Bool Arith.
Import ListNotations.

Section Machine.
  Variables G L V : Type.            (* global generator state; run-local generator state; drawn value *)
  Variable drawG : G -> G * V.       (* one draw from np.random / mtrand._rand *)
  Variable drawL : L -> L * V.       (* one draw from the Generator created for this run *)

  (* what generate_samples() may do *)
  Inductive prog (A : Type) : Type :=
  | Ret (a : A)
  | Local (k : V -> prog A)          (* rng.<dist>(...) on the generator handed to the sampler *)
  | Global (k : V -> prog A)         (* np.random.<dist>(...), check_random_state(None).<dist>(...) *)
  | Reseed (s : G) (p : prog A).     (* np.random.seed(...) *)
  Arguments Ret {A} a.
  Arguments Local {A} k.
  Arguments Global {A} k.
  Arguments Reseed {A} s p.

  (* result: global state, local state, value, number of touches of the global generator *)
  Fixpoint exec {A} (p : prog A) (g : G) (l : L) : G * L * A * nat :=
    match p with
    | Ret a => (g, l, a, O)
    | Local k => let (l', v) := drawL l in exec (k v) g l'
    | Global k => let (g', v) := drawG g in
                  let '(g'', l', a, t) := exec (k v) g' l in (g'', l', a, S t)
    | Reseed s p' => let '(g'', l', a, t) := exec p' s l in (g'', l', a, S t)
    end.

  Variables Cfg X Req Res Smp : Type.
  Variable seed_of_config : Cfg -> L.                         (* default_rng(config.gradient.seed) *)
  Variable sampler : Cfg -> prog Smp.                         (* the configured samplers, in configured order *)
  Variable request : Cfg -> X -> option Smp -> Req.           (* evaluator request for a point (and perturbations) *)
  Variable evaluator : Req -> Res.                            (* the user's deterministic evaluator *)
  Variable decide : Cfg -> list (Req * Res) -> option (bool * X).   (* None: stop; Some (perturb?, point) *)
  Variable exit_code : Cfg -> list (Req * Res) -> Z.

  Definition foreign := G -> G.
  (* the foreign operations performed at each micro step of a run: two micro steps per evaluation
     (before the samplers run; inside the evaluator); a schedule that is too short means "nothing" *)
  Definition schedule := list (list foreign).
  Definition apply_foreign (fs : list foreign) (g : G) : G := fold_left (fun g f => f g) fs g.
  Definition pop (s : schedule) : list foreign * schedule :=
    match s with [] => ([], []) | b :: t => (b, t) end.

  Record outcome := {
    o_trace : list (Req * Res);     (* evaluator requests and results, in order *)
    o_exit : Z;
    o_complete : bool;              (* false: the step budget of the model ran out *)
    o_touches : nat;                (* touches of the global generator by the run itself *)
    o_global : G                    (* what the run leaves behind for the rest of the process *)
  }.

  Fixpoint run_from (fuel : nat) (cfg : Cfg) (s : schedule) (g : G) (l : L)
                    (hist : list (Req * Res)) (touches : nat) : outcome :=
    match decide cfg hist with
    | None => {| o_trace := hist; o_exit := exit_code cfg hist; o_complete := true;
                 o_touches := touches; o_global := g |}
    | Some (perturb, x) =>
        match fuel with
        | O => {| o_trace := hist; o_exit := exit_code cfg hist; o_complete := false;
                  o_touches := touches; o_global := g |}
        | S n =>
            let (b1, s1) := pop s in
            let g1 := apply_foreign b1 g in
            let '(g2, l2, smp, t) :=
              if perturb : bool
              then let '(g', l', a, t) := exec (sampler cfg) g1 l in (g', l', Some a, t)
              else (g1, l, None, O) in
            let (b2, s2) := pop s1 in
            let g3 := apply_foreign b2 g2 in
            let rq := request cfg x smp in
            run_from n cfg s2 g3 l2 (hist ++ [(rq, evaluator rq)]) (touches + t)
        end
    end.

  (* a run derives its generator from its own configuration; nothing of L enters from outside *)
  Definition run (fuel : nat) (cfg : Cfg) (s : schedule) (g : G) : outcome :=
    run_from fuel cfg s g (seed_of_config cfg) [] O.

  (* several runs in one process: only the global state is handed from one run to the next *)
  Fixpoint process (jobs : list (nat * Cfg * schedule)) (g : G) : list outcome :=
    match jobs with
    | [] => []
    | (fuel, cfg, s) :: t => let o := run fuel cfg s g in o :: process t (o_global o)
    end.

  (* the first perturbation sample of a run *)
  Definition first_sample (cfg : Cfg) (g : G) : Smp :=
    let '(_, _, a, _) := exec (sampler cfg) g (seed_of_config cfg) in a.
End Machine.

Arguments Ret {G V A} a.
Arguments Local {G V A} k.
Arguments Global {G V A} k.
Arguments Reseed {G V A} s p.

(* ---- the replay instance used by Check/Chk_C16.v -------------------------------------------------
   Built from a REFERENCE run (fresh interpreter): requests and results are identified by 63-bit
   digests of their byte strings.  The perturbed requests are what the run-local generator yields
   (in order); the strategy replays the reference's sequence of calls; the evaluator is the
   reference's request -> result table.  Foreign operations act on an integer global state. *)
Record script := {
  s_calls : list (bool * Z * Z);   (* per evaluator call: perturbed?, request digest, result digest *)
  s_exit : Z
}.

Definition r_drawG (g : Z) : Z * Z := (Z.succ g, g).
Definition r_drawL (l : list Z) : list Z * Z := match l with [] => ([], (-1)%Z) | v :: t => (t, v) end.
Definition r_seed (c : script) : list Z :=
  flat_map (fun e : bool * Z * Z => let '(p, rq, _) := e in if p then [rq] else []) (s_calls c).
Definition r_sampler (c : script) : prog Z Z Z := Local (fun v => Ret v).
Definition r_request (c : script) (x : Z) (smp : option Z) : Z := match smp with Some v => v | None => x end.
Fixpoint r_lookup (tbl : list (bool * Z * Z)) (rq : Z) : Z :=
  match tbl with
  | [] => (-1)%Z
  | (_, q, r) :: t => if Z.eqb q rq then r else r_lookup t rq
  end.
Definition r_decide (c : script) (hist : list (Z * Z)) : option (bool * Z) :=
  match nth_error (s_calls c) (length hist) with
  | Some (p, rq, _) => Some (p, rq)
  | None => None
  end.
Definition r_exit (c : script) (hist : list (Z * Z)) : Z := s_exit c.

Definition replay (c : script) (s : schedule Z) (g : Z) : outcome Z Z Z :=
  run Z (list Z) Z r_drawG r_drawL script Z Z Z Z r_seed r_sampler r_request (r_lookup (s_calls c)) r_decide r_exit
      (S (length (s_calls c))) c s g.
