(* Model/Tracker.v -- executable model of ropt's DefaultTrackerHandler (property C12).
   Structured like the code:
     src/ropt/plugins/plan/_utils.py    _violates_constraint, _get_new_optimal_result,
                                        _update_optimal_result, _get_last_result
     src/ropt/plugins/plan/_tracker.py  DefaultTrackerHandler.handle_event
     src/ropt/plan/_plan.py             Plan.emit_event (own handlers, then the parent plan's) / Plan.set / Plan.get
     src/ropt/plan/_basic_optimizer.py  one optimizer step + one 'best' tracker on that step
   Definitions only (no proofs).  A finite float is its exact rational, NaN is None. *)
From Coq Require Import QArith ZArith List Bool Arith String.
From Ropt Require Import Base.Num Gen.Generated.
Import ListNotations.
Open Scope Q_scope.

(* What the tracker can see of ONE Results object (the user-domain one or the transformed one). *)
Record facet := {
  f_isfun : bool;                           (* isinstance(_, FunctionResults) *)
  f_hasf  : bool;                           (* .functions is not None *)
  f_obj   : oQ;                             (* .functions.weighted_objective ; None = NaN *)
  f_viol  : option (list (option (list Q))) (* .constraint_info : None, or [bound; linear; nonlinear]_violation,
                                               each None or an array *)
}.

(* One delivered result: the user-domain object (identified by i_id = object identity) paired with
   its optimizer-domain ("transformed") version. *)
Record item := { i_id : nat; i_u : facet; i_t : facet }.

Record event := {
  e_type : Z;                 (* EventType value *)
  e_src  : nat;               (* id of the emitting step *)
  e_path : list nat;          (* Plan.emit_event: ids of the plans whose handlers are invoked -- the plan of the
                                 emitting step followed by its chain of parents (nested optimizations) *)
  e_has_results : bool;       (* "results" in event.data *)
  e_has_transformed : bool;   (* "transformed_results" in event.data *)
  e_items : list item
}.

Inductive what := Best | Last.
Record config := { c_what : what; c_tol : option Q; c_sources : list nat;
                   c_plan : nat   (* id of the plan the handler was added to *) }.

(* handler state: self["results"] (user object + what can be seen of it) and self._optimal
   (user object, user facet, transformed facet) *)
Record state := { stored : option (nat * facet); optimal : option (nat * facet * facet) }.
Definition init : state := {| stored := None; optimal := None |}.

(* operations on a plan that holds the handler *)
Inductive op :=
| Emit (ev : event)                   (* Plan.emit_event *)
| Put (v : option (nat * facet)).     (* Plan.set(tracker, "results", v)  (reset when None) *)

(* ---- _utils.py ------------------------------------------------------------------ *)
Definition violates (tol : option Q) (f : facet) : bool :=
  match tol with
  | None => false
  | Some t =>
      match f_viol f with
      | None => false
      | Some vs => existsb (fun v => match v with
                                     | None => false
                                     | Some l => existsb (fun x => Qltb t x) l
                                     end) vs
      end
  end.

(* _get_new_optimal_result optimal_result results : is `results` the new optimum ? *)
Definition new_optimal (opt : option facet) (r : facet) : bool :=
  match f_obj r with
  | None => false                                   (* np.isnan(objective) *)
  | Some o =>
      match opt with
      | None => true
      | Some b => match f_obj b with
                  | Some ob => Qltb o ob            (* objective < optimal *)
                  | None => false                   (* x < nan is False *)
                  end
      end
  end.

Definition eligible (tol : option Q) (f : facet) : bool :=
  f_isfun f && f_hasf f && negb (violates tol f).

(* the transformed partner of each item: event.data.get("transformed_results", results) *)
Definition partner (ev : event) (it : item) : facet := if e_has_transformed ev then i_t it else i_u it.

(* _update_optimal_result: loop state (optimal_result, return_result) *)
Definition uo_step (tol : option Q) (acc : option (nat * facet * facet) * option (nat * facet * facet))
                   (p : item * facet) : option (nat * facet * facet) * option (nat * facet * facet) :=
  let (it, t) := p in
  if eligible tol t then
    if new_optimal (option_map snd (fst acc)) t
    then let o := (i_id it, i_u it, t) in (Some o, Some o)
    else acc
  else acc.
Definition update_optimal (tol : option Q) (opt : option (nat * facet * facet)) (ps : list (item * facet))
  : option (nat * facet * facet) := snd (fold_left (uo_step tol) ps (opt, None)).

(* _get_last_result: first match scanning both tuples from the end *)
Definition get_last (tol : option Q) (ps : list (item * facet)) : option (nat * facet) :=
  match find (fun p : item * facet => f_isfun (i_u (fst p)) && f_hasf (i_u (fst p)) && negb (violates tol (snd p)))
             (rev ps) with
  | Some p => Some (i_id (fst p), i_u (fst p))
  | None => None
  end.

(* ---- _tracker.py ---------------------------------------------------------------- *)
Fixpoint zlookup (k : string) (l : list (string * Z)) : option Z :=
  match l with [] => None | (n, v) :: t => if String.eqb k n then Some v else zlookup k t end.
Definition finished_evaluation : option Z := zlookup "FINISHED_EVALUATION" enum_EventType.

Definition accepts (cfg : config) (ev : event) : bool :=
  match finished_evaluation with
  | Some c => Z.eqb (e_type ev) c && e_has_results ev && existsb (Nat.eqb (e_src ev)) (c_sources cfg)
  | None => false
  end.

(* "The stored result may have been reset or replaced" *)
Definition resync (st : state) : option (nat * facet * facet) :=
  match stored st with
  | None => None
  | Some (sid, sf) =>
      match optimal st with
      | Some (oid, _, ot) => if Nat.eqb oid sid then Some (sid, sf, ot) else Some (sid, sf, sf)
      | None => Some (sid, sf, sf)
      end
  end.

Definition handle_event (cfg : config) (st : state) (ev : event) : state :=
  if accepts cfg ev then
    let ps := map (fun it => (it, partner ev it)) (e_items ev) in
    match c_what cfg with
    | Best =>
        let opt := resync st in
        match update_optimal (c_tol cfg) opt ps with
        | Some (oid, ou, ot) => {| stored := Some (oid, ou); optimal := Some (oid, ou, ot) |}
        | None => {| stored := stored st; optimal := opt |}
        end
    | Last =>
        match get_last (c_tol cfg) ps with
        | Some r => {| stored := Some r; optimal := optimal st |}
        | None => st
        end
    end
  else st.

(* ---- _plan.py: Plan.emit_event ---------------------------------------------------- *)
(* the handler is invoked iff its plan is the emitting plan or one of its ancestors *)
Definition reaches (cfg : config) (ev : event) : bool := existsb (Nat.eqb (c_plan cfg)) (e_path ev).
Definition deliver (cfg : config) (st : state) (ev : event) : state :=
  if reaches cfg ev then handle_event cfg st ev else st.

Definition step (cfg : config) (st : state) (o : op) : state :=
  match o with
  | Emit ev => deliver cfg st ev
  | Put v => {| stored := v; optimal := optimal st |}
  end.

Definition track (cfg : config) (st : state) (h : list op) : state := fold_left (step cfg) h st.
Definition stored_id (st : state) : option nat := option_map fst (stored st).

(* what Plan.get(tracker, "results") shows after every operation *)
Fixpoint trace (cfg : config) (st : state) (h : list op) : list (option nat) :=
  match h with
  | [] => []
  | o :: t => let st' := step cfg st o in stored_id st' :: trace cfg st' t
  end.

(* ---- _basic_optimizer.py --------------------------------------------------------- *)
(* BasicOptimizer.run: a fresh plan (id 0, no parent) with one optimizer step (id `sid`) and one tracker
   (what = "best", the given constraint_tolerance, sources = {that step}); every event of the run is
   emitted by that step; the reported result is Plan.get(tracker, "results") at the end. *)
Definition basic_config (sid : nat) (tol : option Q) : config :=
  {| c_what := Best; c_tol := tol; c_sources := [sid]; c_plan := 0 |}.
Definition basic_optimizer (sid : nat) (tol : option Q) (evs : list event) : option nat :=
  stored_id (track (basic_config sid tol) init (map Emit evs)).

(* ---- specification side: the candidates of a history ----------------------------- *)
(* every delivered (user item, partner) pair the handler is asked to look at, in delivery order *)
Definition sees (cfg : config) (ev : event) : bool := reaches cfg ev && accepts cfg ev.
Definition delivered (cfg : config) (h : list event) : list (item * facet) :=
  flat_map (fun ev => if sees cfg ev then map (fun it => (it, partner ev it)) (e_items ev) else []) h.

Definition defined (f : facet) : bool := is_some (f_obj f).
(* candidate for 'best': tracked source, function result with functions, feasible, objective not NaN *)
Definition candidate (tol : option Q) (p : item * facet) : bool := eligible tol (snd p) && defined (snd p).
Definition oval (f : facet) : Q := match f_obj f with Some q => q | None => 0 end.
(* candidate for 'last' *)
Definition last_candidate (tol : option Q) (p : item * facet) : bool :=
  f_isfun (i_u (fst p)) && f_hasf (i_u (fst p)) && negb (violates tol (snd p)).
