(* Model/Config.v -- executable model of EnOptConfig validation (C18).

   Structured like src/ropt/config/utils.py (normalize, broadcast_1d_array), the validators of
   config/enopt/_variables_config.py, _realizations_config.py, _objective_functions_config.py,
   _gradient_config.py (incl. fix_perturbations), _linear_constraints_config.py (incl.
   apply_transformation), _nonlinear_constraints_config.py and the two after-validators of
   _enopt_config.py, with a VariableScaler as the optional validation context.
   A raw configuration (the dictionary after the array conversions of validated_types.py: every
   array field is a list, a scalar is a list of length one) and a validated configuration have the
   same record type, so that `dump` is the identity and re-validation is `validate None None`.
   Frozenness is carried as the per-class sequence of _mutable()/_immutable() calls (the table itself
   is generated from the source, Gen/Gen_C18.v).  Definitions only. *)
From Coq Require Import String.
From Coq Require Import QArith Qabs Qminmax ZArith List Bool Arith.
From Ropt Require Import Base.Num Base.ListX.
Import ListNotations.
Open Scope Q_scope.

(* ---- outcomes ------------------------------------------------------------------------------- *)
(* Reject = pydantic ValidationError;  Unsupported = input outside the modelled domain (zero or
   negative scales, scaler arrays of the wrong length, a linear constraint row that vanishes under a
   scaler): never produced by the generators, and a case that evaluates to it fails the check *)
Inductive outcome (A : Type) := Ok (a : A) | Reject | Unsupported.
Arguments Ok {A} a. Arguments Reject {A}. Arguments Unsupported {A}.

Definition bind {A B} (o : outcome A) (f : A -> outcome B) : outcome B :=
  match o with Ok a => f a | Reject => Reject | Unsupported => Unsupported end.
Notation "x <- e ;; k" := (bind e (fun x => k)) (at level 61, e at next level, right associativity).

Definition guard (ok : bool) : outcome unit := if ok then Ok tt else Reject.
Definition supported (ok : bool) : outcome unit := if ok then Ok tt else Unsupported.

(* ---- utils.py ------------------------------------------------------------------------------- *)
(* np.broadcast_to(array, (n,)) of a 1-D array *)
Definition bcast_to {A} (n : nat) (l : list A) : outcome (list A) :=
  match l with
  | [x] => Ok (repeat x n)
  | _ => if Nat.eqb (length l) n then Ok l else Reject
  end.

(* broadcast_1d_array(array, name, size) *)
Definition broadcast1 {A} (n : nat) (l : list A) : outcome (list A) :=
  if Nat.eqb n 0 then Ok [] else bcast_to n l.

(* np.broadcast_arrays(a, b) of two 1-D arrays *)
Definition bcast_pair {A} (a b : list A) : outcome (list A * list A) :=
  match a, b with
  | [x], _ => Ok (repeat x (length b), b)
  | _, [y] => Ok (a, repeat y (length a))
  | _, _ => if Nat.eqb (length a) (length b) then Ok (a, b) else Reject
  end.

(* np.finfo(np.float64).eps *)
Definition float_eps : Q := Q_ 1 4503599627370496.

(* normalize(array): a sum below eps is rejected *)
Definition normalize (w : list Q) : outcome (list Q) :=
  let s := qsum w in
  if Qltb s float_eps then Reject else Ok (map (fun x => x / s) w).

(* check_enum_values *)
Definition enum_ok (lo hi : Z) (l : list Z) : bool := forallb (fun z => Z.leb lo z && Z.leb z hi) l.

(* np.any(lower > upper) *)
Definition any_gt (lo up : list ereal) : bool := existsb (fun p : ereal * ereal => negb (ele (fst p) (snd p))) (combine lo up).

(* ---- enumerations the validators refer to (instantiated from the generated tables) --------------- *)
Record enums := {
  vt_lo : Z; vt_hi : Z;            (* VariableType range *)
  pt_lo : Z; pt_hi : Z;            (* PerturbationType range *)
  bt_lo : Z; bt_hi : Z;            (* BoundaryType range *)
  pt_abs : Z; pt_rel : Z           (* PerturbationType.ABSOLUTE / RELATIVE *)
}.

(* ---- configuration records -------------------------------------------------------------------- *)
Record variables := {
  v_initial : list Q; v_lower : list ereal; v_upper : list ereal;
  v_types : option (list Z); v_mask : option (list bool)
}.
Record gradient := {
  g_P : nat; g_pmin : option nat; g_mags : list Q; g_ptypes : list Z; g_btypes : list Z
}.
Record linear := { l_coeffs : list (list Q); l_lower : list ereal; l_upper : list ereal }.
Record nonlinear := { n_lower : list ereal; n_upper : list ereal }.
Record config := {
  c_vars : variables;
  c_obj_w : list Q;                 (* objectives.weights *)
  c_real_w : list Q;                (* realizations.weights *)
  c_rmin : option nat;              (* realizations.realization_min_success *)
  c_grad : gradient;
  c_lin : option linear;
  c_nonlin : option nonlinear
}.

(* validation context: OptModelTransforms(variables=VariableScaler(scales, offsets)) *)
Record scaler := { s_scales : option (list Q); s_offsets : option (list Q) }.

(* ---- VariableScaler --------------------------------------------------------------------------- *)
Definition map2 {A B C} (f : A -> B -> C) (a : list A) (b : list B) : list C :=
  map (fun p : A * B => f (fst p) (snd p)) (combine a b).

Definition ediv (e : ereal) (s : Q) : ereal :=       (* s > 0 *)
  match e with Fin b => Fin (b / s) | NInf => NInf | PInf => PInf end.

Definition scaler_ok (n : nat) (sc : scaler) : bool :=
  match s_scales sc with None => true | Some s => Nat.eqb (length s) n && forallb (fun x => Qltb 0 x) s end &&
  match s_offsets sc with None => true | Some o => Nat.eqb (length o) n end.

(* to_optimizer: (values - offsets) / scales *)
Definition to_opt_q (sc : scaler) (x : list Q) : list Q :=
  let x := match s_offsets sc with None => x | Some o => map2 Qminus x o end in
  match s_scales sc with None => x | Some s => map2 Qdiv x s end.
Definition to_opt_e (sc : scaler) (x : list ereal) : list ereal :=
  let x := match s_offsets sc with None => x | Some o => map2 esub_r x o end in
  match s_scales sc with None => x | Some s => map2 ediv x s end.

(* magnitudes_to_optimizer: values / scales *)
Definition mags_to_opt (sc : scaler) (m : list Q) : list Q :=
  match s_scales sc with None => m | Some s => map2 Qdiv m s end.

(* linear_constraints_to_optimizer: bounds - A.offsets; A * scales; every row and its bounds divided
   by the largest coefficient magnitude of the row *)
Definition row_scale (row : list Q) : Q := fold_right Qmax 0 (map Qabs row).
Definition lin_to_opt (sc : scaler) (l : linear) : outcome linear :=
  let off := match s_offsets sc with None => map (fun _ => 0) (l_coeffs l) | Some o => map (fun row => dot row o) (l_coeffs l) end in
  let lo := map2 esub_r (l_lower l) off in
  let up := map2 esub_r (l_upper l) off in
  let A := match s_scales sc with None => l_coeffs l | Some s => map (fun row => map2 Qmult row s) (l_coeffs l) end in
  let es := map row_scale A in
  _ <- supported (forallb (fun e => Qltb 0 e) es) ;;
  Ok {| l_coeffs := map2 (fun row e => map (fun a => a / e) row) A es;
        l_lower := map2 ediv lo es; l_upper := map2 ediv up es |}.

(* ---- VariablesConfig._broadcast_and_transform --------------------------------------------------- *)
Definition omap {A B} (f : A -> outcome B) (o : option A) : outcome (option B) :=
  match o with None => Ok None | Some a => b <- f a ;; Ok (Some b) end.

Definition validate_variables (E : enums) (ctx : option scaler) (v : variables) : outcome variables :=
  let n := length (v_initial v) in
  lo <- broadcast1 n (v_lower v) ;;
  up <- broadcast1 n (v_upper v) ;;
  _ <- match ctx with None => Ok tt | Some sc => supported (scaler_ok n sc) end ;;
  let ini := match ctx with None => v_initial v | Some sc => to_opt_q sc (v_initial v) end in
  let lo := match ctx with None => lo | Some sc => to_opt_e sc lo end in
  let up := match ctx with None => up | Some sc => to_opt_e sc up end in
  _ <- guard (negb (any_gt lo up)) ;;
  ty <- omap (fun t => _ <- guard (enum_ok (vt_lo E) (vt_hi E) t) ;; broadcast1 n t) (v_types v) ;;
  mk <- omap (broadcast1 n) (v_mask v) ;;
  Ok {| v_initial := ini; v_lower := lo; v_upper := up; v_types := ty; v_mask := mk |}.

(* ---- success thresholds -------------------------------------------------------------------------- *)
(* None or larger than the count -> the count *)
Definition clamp_min (m : option nat) (count : nat) : option nat :=
  match m with
  | None => Some count
  | Some k => if Nat.ltb count k then Some count else Some k
  end.

(* ---- GradientConfig validators (field level) ------------------------------------------------------- *)
Definition validate_gradient_fields (E : enums) (g : gradient) : outcome gradient :=
  _ <- guard (Nat.ltb 0 (g_P g)) ;;                                   (* PositiveInt *)
  _ <- guard (match g_pmin g with Some 0%nat => false | _ => true end) ;;  (* PositiveInt | None *)
  _ <- guard (enum_ok (pt_lo E) (pt_hi E) (g_ptypes g)) ;;
  _ <- guard (enum_ok (bt_lo E) (bt_hi E) (g_btypes g)) ;;
  Ok {| g_P := g_P g; g_pmin := clamp_min (g_pmin g) (g_P g); g_mags := g_mags g;
        g_ptypes := g_ptypes g; g_btypes := g_btypes g |}.

(* ---- GradientConfig.fix_perturbations(variables, transforms) ---------------------------------------- *)
(* np.where(relative, (upper - lower) * magnitudes, magnitudes); relative entries need finite bounds *)
Fixpoint relative_scale (rel : Z) (ty : list Z) (lo up : list ereal) (m : list Q) : outcome (list Q) :=
  match ty, lo, up, m with
  | t :: ty', l :: lo', u :: up', x :: m' =>
      r <- relative_scale rel ty' lo' up' m' ;;
      if Z.eqb t rel then
        match l, u with Fin a, Fin b => Ok ((b - a) * x :: r) | _, _ => Reject end
      else Ok (x :: r)
  | [], [], [], [] => Ok []
  | _, _, _, _ => Unsupported          (* lengths differ: excluded by the broadcasts before *)
  end.

(* magnitudes[absolute] = transformed[absolute] *)
Definition select_abs (abs : Z) (ty : list Z) (transformed m : list Q) : list Q :=
  map (fun p : Z * (Q * Q) => if Z.eqb (fst p) abs then fst (snd p) else snd (snd p)) (combine ty (combine transformed m)).

Definition fix_perturbations (E : enums) (ctx : option scaler) (vars : variables) (g : gradient) : outcome gradient :=
  let n := length (v_initial vars) in
  mags <- bcast_to n (g_mags g) ;;
  bt <- bcast_to n (g_btypes g) ;;
  ty <- bcast_to n (g_ptypes g) ;;
  mags <- relative_scale (pt_rel E) ty (v_lower vars) (v_upper vars) mags ;;
  let mags := match ctx with None => mags | Some sc => select_abs (pt_abs E) ty (mags_to_opt sc mags) mags end in
  let ty := map (fun t => if Z.eqb t (pt_rel E) then pt_abs E else t) ty in
  Ok {| g_P := g_P g; g_pmin := g_pmin g; g_mags := mags; g_ptypes := ty; g_btypes := bt |}.

(* ---- LinearConstraintsConfig ------------------------------------------------------------------------ *)
Definition validate_linear_fields (l : linear) : outcome linear :=
  let size := length (l_coeffs l) in
  _ <- guard (match l_coeffs l with [] => true | r :: t => forallb (fun r' => Nat.eqb (length r') (length r)) t end) ;; (* a 2-D array *)
  lo <- broadcast1 size (l_lower l) ;;
  up <- broadcast1 size (l_upper l) ;;
  _ <- guard (negb (any_gt lo up)) ;;
  Ok {| l_coeffs := l_coeffs l; l_lower := lo; l_upper := up |}.

Definition apply_transformation (ctx : option scaler) (vars : variables) (l : linear) : outcome linear :=
  let n := length (v_initial vars) in
  _ <- guard (forallb (fun r => Nat.eqb (length r) n) (l_coeffs l)) ;;
  match ctx with None => Ok l | Some sc => lin_to_opt sc l end.

(* ---- NonlinearConstraintsConfig ------------------------------------------------------------------------ *)
(* nls = the scales of a NonLinearConstraintTransform in the validation context whose bounds_to_optimizer divides the
   bounds by positive scales (ropt defines only the abstract class; the harness supplies this one) *)
Definition nl_ok (k : nat) (nls : option (list Q)) : bool :=
  match nls with None => true | Some s => Nat.eqb (length s) k && forallb (fun x => Qltb 0 x) s end.

Definition validate_nonlinear (nls : option (list Q)) (nl : nonlinear) : outcome nonlinear :=
  p <- bcast_pair (n_lower nl) (n_upper nl) ;;
  _ <- supported (nl_ok (length (fst p)) nls) ;;
  let lo := match nls with None => fst p | Some s => map2 ediv (fst p) s end in
  let up := match nls with None => snd p | Some s => map2 ediv (snd p) s end in
  _ <- guard (negb (any_gt lo up)) ;;
  Ok {| n_lower := lo; n_upper := up |}.

(* ---- EnOptConfig.model_validate(raw, context=OptModelTransforms(variables=ctx, nonlinear_constraints=nls)) ------ *)
Definition validate (E : enums) (ctx : option scaler) (nls : option (list Q)) (raw : config) : outcome config :=
  vars <- validate_variables E ctx (c_vars raw) ;;
  ow <- normalize (c_obj_w raw) ;;
  lin <- omap validate_linear_fields (c_lin raw) ;;
  nl <- omap (validate_nonlinear nls) (c_nonlin raw) ;;
  rw <- normalize (c_real_w raw) ;;
  g <- validate_gradient_fields E (c_grad raw) ;;
  lin <- omap (apply_transformation ctx vars) lin ;;
  g <- fix_perturbations E ctx vars g ;;
  Ok {| c_vars := vars; c_obj_w := ow; c_real_w := rw; c_rmin := clamp_min (c_rmin raw) (length rw);
        c_grad := g; c_lin := lin; c_nonlin := nl |}.

(* model_dump(round_trip=True): the validated record read as a raw configuration *)
Definition dump (c : config) : config := c.

(* ---- equivalence of configurations: reals up to ==, everything discrete identical ------------------------- *)
Definition qlist_eqb (a b : list Q) : bool := list_eqb Qeqb a b.
Definition elist_eqb (a b : list ereal) : bool := list_eqb eeqb a b.
Definition zlist_eqb (a b : list Z) : bool := list_eqb Z.eqb a b.
Definition onat_eqb (a b : option nat) : bool := option_eqb Nat.eqb a b.

Definition variables_equiv (a b : variables) : bool :=
  qlist_eqb (v_initial a) (v_initial b) && elist_eqb (v_lower a) (v_lower b) && elist_eqb (v_upper a) (v_upper b)
  && option_eqb zlist_eqb (v_types a) (v_types b) && option_eqb (list_eqb Bool.eqb) (v_mask a) (v_mask b).
Definition gradient_equiv (a b : gradient) : bool :=
  Nat.eqb (g_P a) (g_P b) && onat_eqb (g_pmin a) (g_pmin b) && qlist_eqb (g_mags a) (g_mags b)
  && zlist_eqb (g_ptypes a) (g_ptypes b) && zlist_eqb (g_btypes a) (g_btypes b).
Definition linear_equiv (a b : linear) : bool :=
  list_eqb qlist_eqb (l_coeffs a) (l_coeffs b) && elist_eqb (l_lower a) (l_lower b) && elist_eqb (l_upper a) (l_upper b).
Definition nonlinear_equiv (a b : nonlinear) : bool :=
  elist_eqb (n_lower a) (n_lower b) && elist_eqb (n_upper a) (n_upper b).
Definition equiv (a b : config) : bool :=
  variables_equiv (c_vars a) (c_vars b) && qlist_eqb (c_obj_w a) (c_obj_w b) && qlist_eqb (c_real_w a) (c_real_w b)
  && onat_eqb (c_rmin a) (c_rmin b) && gradient_equiv (c_grad a) (c_grad b)
  && option_eqb linear_equiv (c_lin a) (c_lin b) && option_eqb nonlinear_equiv (c_nonlin a) (c_nonlin b).

(* ---- the _mutable()/_immutable() discipline of the configuration classes ---------------------------------- *)
Inductive fcall := FM | FI.                                  (* self._mutable() / self._immutable() *)
Inductive fitem := Call (c : fcall) | Cond (b : list fcall). (* unconditional call / calls inside one `if` *)
Inductive ckind := KImmutableBase | KFrozen | KPlain.        (* ImmutableBaseModel / BaseModel frozen=True / other *)
Inductive fstate := Unset | Mutable | Immutable.

Definition run_call (st : fstate) (c : fcall) : fstate := match c with FM => Mutable | FI => Immutable end.
Definition run_calls (st : fstate) (b : list fcall) : fstate := fold_left run_call b st.

(* all flag states a sequence of validator items can end in (a conditional block may or may not run) *)
Fixpoint finals (sts : list fstate) (items : list fitem) : list fstate :=
  match items with
  | [] => sts
  | Call c :: t => finals (map (fun st => run_call st c) sts) t
  | Cond b :: t => finals (sts ++ map (fun st => run_calls st b) sts) t
  end.

Definition is_immutable (st : fstate) : bool := match st with Immutable => true | _ => false end.

Record cclass := {
  cc_name : string;
  cc_kind : ckind;
  cc_validators : list (string * list fitem)      (* model validators in definition (= execution) order *)
}.

(* a validated instance of the class rejects attribute assignment *)
Definition final_immutable (c : cclass) : bool :=
  match cc_kind c with
  | KFrozen => true
  | KPlain => false
  | KImmutableBase => forallb is_immutable (finals [Unset] (concat (map snd (cc_validators c))))
  end.

Definition find_class (tbl : list cclass) (name : string) : option cclass :=
  find (fun c => String.eqb (cc_name c) name) tbl.

(* ---- where the arrays stored in a configuration object come from ------------------------------------------- *)
(* The expression assigned to an array field (self.<field> = e, model_copy(update={"field": e}),
   values.update(field=e) before model_construct of the values), classified by the translator:
     SImmutableArray         immutable_array(...)            (utils.py: np.array(...); setflags(write=False))
     SNormalize              normalize(...)                  (returns immutable_array(...))
     SBroadcast1d            broadcast_1d_array(...)         (immutable_array([]) or np.broadcast_to(immutable_array(a), ..))
     SBroadcastToImmutable   np.broadcast_to(immutable_array(...), ...)   (a view of a read-only array is read-only)
     SBroadcastArrays        an element of broadcast_arrays(...)          (tuple(immutable_array(r) ...))
     SField                  self.<array field>              (converted by the BeforeValidator of its annotated type)
     SOther                  anything else (np.where, arithmetic, a transform's result, ...): a fresh writable array
   A local variable is classified by ALL expressions assigned to it in the function. *)
Inductive asrc := SImmutableArray | SNormalize | SBroadcast1d | SBroadcastToImmutable | SBroadcastArrays | SField | SOther.

Definition src_immutable (s : asrc) : bool := match s with SOther => false | _ => true end.

Record astore := {
  as_class : string;          (* configuration class *)
  as_site : string;           (* validator / method holding the store *)
  as_field : string;          (* array field stored into *)
  as_sources : list asrc      (* the expressions that can reach the store *)
}.

(* the stored array is read-only: at least one source, and every source yields a read-only array *)
Definition store_immutable (s : astore) : bool :=
  match as_sources s with [] => false | l => forallb src_immutable l end.

(* annotated array types of validated_types.py: name, classification of the value returned by its converter *)
Definition converter_immutable (c : string * asrc) : bool :=
  match snd c with SImmutableArray => true | _ => false end.

(* ---- the converters of validated_types.py and the index arrays --------------------------------------------------- *)
(* A converter does np.array(x, ndmin = k) and then _check_ndim(.., k): an input with more than k dimensions is rejected
   (a missing entry or None in the generated table array_ndims = the converter does not check).  [dims] lists, for every array
   field given in the dictionary, its array type and the number of dimensions of the value given. *)
Definition ndim_ok (tbl : list (string * option nat)) (d : string * nat) : bool :=
  match find (fun e : string * option nat => String.eqb (fst e) (fst d)) tbl with
  | Some (_, Some k) => Nat.leb (snd d) k
  | Some (_, None) => true
  | None => false                      (* an array type the table does not know *)
  end.
Definition dims_ok (tbl : list (string * option nat)) (dims : list (string * nat)) : bool := forallb (ndim_ok tbl) dims.

(* the index arrays: gradient.samplers (one sampler per variable), objectives.realization_filters / function_estimators (one
   per objective), nonlinear_constraints.realization_filters / function_estimators (one per constraint) *)
Record indices := {
  i_samplers : option (list Z);
  i_obj_filters : option (list Z); i_obj_estimators : option (list Z);
  i_nl_filters : option (list Z); i_nl_estimators : option (list Z)
}.

(* broadcast_1d_array(indices, name, size) in ObjectiveFunctionsConfig._broadcast_and_normalize (size = weights.size),
   NonlinearConstraintsConfig._broadcast_and_check (size = lower_bounds.size after the broadcast of the bounds) and
   GradientConfig.fix_perturbations (size = number of variables) *)
Definition nonlinear_count (c : config) : nat := match c_nonlin c with Some nl => length (n_lower nl) | None => 0%nat end.

Definition validate_indices (V nobj nnl : nat) (ix : indices) : outcome indices :=
  orf <- omap (broadcast1 nobj) (i_obj_filters ix) ;;
  ofe <- omap (broadcast1 nobj) (i_obj_estimators ix) ;;
  nrf <- omap (broadcast1 nnl) (i_nl_filters ix) ;;
  nfe <- omap (broadcast1 nnl) (i_nl_estimators ix) ;;
  smp <- omap (broadcast1 V) (i_samplers ix) ;;
  Ok {| i_samplers := smp; i_obj_filters := orf; i_obj_estimators := ofe; i_nl_filters := nrf; i_nl_estimators := nfe |}.

(* EnOptConfig.model_validate of a dictionary: field conversions first, then the validators *)
Definition validate_full (E : enums) (tbl : list (string * option nat)) (ctx : option scaler) (nls : option (list Q))
    (dims : list (string * nat)) (ix : indices) (raw : config) : outcome (config * indices) :=
  _ <- guard (dims_ok tbl dims) ;;
  c <- validate E ctx nls raw ;;
  ix' <- validate_indices (length (v_initial (c_vars c))) (length (c_obj_w c)) (nonlinear_count c) ix ;;
  Ok (c, ix').

Definition ozlist_eqb (a b : option (list Z)) : bool := option_eqb zlist_eqb a b.
Definition indices_eqb (a b : indices) : bool :=
  ozlist_eqb (i_samplers a) (i_samplers b) && ozlist_eqb (i_obj_filters a) (i_obj_filters b)
  && ozlist_eqb (i_obj_estimators a) (i_obj_estimators b) && ozlist_eqb (i_nl_filters a) (i_nl_filters b)
  && ozlist_eqb (i_nl_estimators a) (i_nl_estimators b).
