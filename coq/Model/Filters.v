(* Model/Filters.v -- executable model of ropt's default realization filters (C04, C05):
   plugins/realization_filter/default.py (sort-objective, sort-constraint, cvar-objective,
   cvar-constraint, _check_range, get_realization_weights) and of the way the ensemble evaluator
   applies them (EnsembleEvaluator._calculate_filtered_realization_weights, _compute_functions with
   the mean estimator).  Definitions only; facts are in Proofs/SortX.v and Proofs/Filters.v.

   Representation: finite float = Q, NaN = None, +-inf bounds = ereal, arrays = lists, masks =
   list bool, exceptions = outcome constructors.  np.argsort is not stable; the model breaks ties by
   realization index, the checkers accept every tie order (predicates [window_ok], [stair_ok]). *)
From Coq Require Import String QArith Qabs Qround Qminmax Bool Arith ZArith List Permutation.
From Ropt Require Import Base.Num Base.ListX Gen.Generated.
Import ListNotations.
Open Scope Q_scope.

Definition nq (n : nat) : Q := inject_Z (Z.of_nat n).

(* ---- insertion sort (generic in the order) ----------------------------------------------- *)
Section ISort.
  Context {A : Type} (leb : A -> A -> bool).
  Fixpoint insert (x : A) (l : list A) : list A :=
    match l with
    | [] => [x]
    | y :: t => if leb x y then x :: y :: t else y :: insert x t
    end.
  Fixpoint isort (l : list A) : list A :=
    match l with [] => [] | x :: t => insert x (isort t) end.
End ISort.

(* ---- np.argsort on keys with NaN: ascending, NaN last, (model) ties by index --------------- *)
Definition key_leb (a b : oQ * nat) : bool :=
  match fst a, fst b with
  | Some x, Some y => Qltb x y || (Qleb x y && Nat.leb (snd a) (snd b))
  | Some _, None => true
  | None, Some _ => false
  | None, None => Nat.leb (snd a) (snd b)
  end.

Fixpoint index_from {A} (i : nat) (l : list A) : list (A * nat) :=
  match l with [] => [] | x :: t => (x, i) :: index_from (S i) t end.

Definition argsort (keys : list oQ) : list nat := map snd (isort key_leb (index_from 0 keys)).

(* values = np.where(failed, nan, values) *)
Definition mask_keys (failed : list bool) (values : list Q) : list oQ :=
  map (fun fv : bool * Q => if fst fv then None else Some (snd fv)) (combine failed values).

(* np.count_nonzero(~failed) *)
Definition count_ok (failed : list bool) : nat := length (filter negb failed).

(* indices = np.argsort(values)[: count_nonzero(~failed)] : the successful realizations, ascending *)
Definition ranked (failed : list bool) (values : list Q) : list nat :=
  firstn (count_ok failed) (argsort (mask_keys failed values)).

(* ---- scatter assignment  w[idx] = vals ---------------------------------------------------- *)
Fixpoint set_nth {A} (i : nat) (v : A) (l : list A) : list A :=
  match l, i with
  | [], _ => []
  | _ :: t, O => v :: t
  | x :: t, S i' => x :: set_nth i' v t
  end.

Fixpoint assign {A} (idx : list nat) (vals : list A) (w : list A) : list A :=
  match idx, vals with
  | i :: it, v :: vt => assign it vt (set_nth i v w)
  | _, _ => w
  end.

Definition zeros (n : nat) : list Q := repeat 0 n.

(* ---- _sort_and_select --------------------------------------------------------------------- *)
(* indices[first : last + 1] *)
Definition window {A} (first last : nat) (l : list A) : list A := firstn (last + 1 - first) (skipn first l).

Definition sort_and_select (values cfgw : list Q) (failed : list bool) (first last : nat) : list Q :=
  let sel := window first last (ranked failed values) in
  assign sel (map (fun i => nth i cfgw 0) sel) (zeros (length cfgw)).

(* ---- _get_cvar_weights_from_percentile ---------------------------------------------------- *)
Definition cvar_weights (p : Q) (values : list Q) (failed : list bool) : list Q :=
  let idx := ranked failed values in
  let n := length idx in
  if Nat.eqb n 0 then zeros (length values)
  else
    let p_max := 1 / nq n in
    let n_var := Z.to_nat (qfloor (p * nq n)) in
    let p_var := Qmax (p - nq n_var * p_max) 0 in
    let w := assign (firstn n_var idx) (repeat p_max n_var) (zeros (length values)) in
    if Nat.ltb n_var n then assign [nth n_var idx 0%nat] [p_var] w else w.

(* ---- ranking values ------------------------------------------------------------------------ *)
Definition nan0 (o : oQ) : Q := match o with Some q => q | None => 0 end.

(* np.isnan(a[..., 0]) *)
Definition col0_failed (m : list (list oQ)) : list bool := map (fun row => is_none (nth 0 row None)) m.

(* nan_to_num(objectives[..., sort]) then, with more than one objective configured, the dot product
   with objective weights[sort]; otherwise the (single) selected column itself *)
Definition objective_key (ow : list Q) (sort : list nat) (row : list oQ) : Q :=
  let sel := map (fun j => nan0 (nth j row None)) sort in
  if Nat.ltb 1 (length ow) then dot sel (map (fun j => nth j ow 0) sort) else nth 0 sel 0.

Definition constraint_col (sort : nat) (rows : list (list oQ)) : list Q :=
  map (fun row => nan0 (nth sort row None)) rows.

(* np.maximum(lower - c, c - upper) for one constraint.  All realizations share the two bounds, so
   whenever an infinite term decides the maximum it is the same infinity for every realization and
   the ranking is a total tie; the model returns the constant 0 there. *)
Definition badness (lo up : ereal) (c : Q) : Q :=
  match lo, up with
  | Fin l, Fin u => Qmax (l - c) (c - u)
  | Fin l, PInf => l - c
  | NInf, Fin u => c - u
  | _, _ => 0
  end.

(* ---- the filter object ----------------------------------------------------------------------- *)
Inductive method :=
| SortObjective (sort : list nat) (first last : nat)
| SortConstraint (sort first last : nat)
| CvarObjective (sort : list nat) (p : Q)
| CvarConstraint (sort : nat) (p : Q).

Record config := {
  c_rw : list Q;          (* realizations.weights, as stored in the validated configuration *)
  c_ow : list Q;          (* objectives.weights, as stored *)
  c_lower : list ereal;   (* nonlinear_constraints.lower_bounds ([] without constraints) *)
  c_upper : list ereal
}.

Inductive outcome (A : Type) :=
| Ok (a : A)
| Abort (code : Z)            (* OptimizationAborted(exit_code) *)
| Raise (cls : string).       (* any other exception, by class name *)
Arguments Ok {A} a. Arguments Abort {A} code. Arguments Raise {A} cls.

Definition exit_code (name : string) : Z :=
  match find (fun e : string * Z => String.eqb (fst e) name) enum_OptimizerExitCode with
  | Some e => snd e
  | None => (-1)%Z
  end.
Definition too_few : Z := exit_code "TOO_FEW_REALIZATIONS".

(* _check_range (first/last are NonNegativeInt, so the "< 0" tests of the code cannot fire) *)
Definition check_range (R first last : nat) : bool :=
  Nat.ltb first R && Nat.ltb last R && Nat.leb first last.

Definition valid_percentile (p : Q) : bool := Qltb 0 p && Qleb p 1.

(* DefaultRealizationFilter.__init__ *)
Definition create (cfg : config) (m : method) : outcome unit :=
  match m with
  | SortObjective _ f l | SortConstraint _ f l =>
      if check_range (length (c_rw cfg)) f l then Ok tt else Raise "ConfigError"
  | CvarObjective _ p | CvarConstraint _ p =>
      if valid_percentile p then Ok tt else Raise "ValidationError"
  end.

Definition sort_objectives (cfg : config) (sort : list nat) (first last : nat) (objs : list (list oQ)) : list Q :=
  sort_and_select (map (objective_key (c_ow cfg) sort) objs) (c_rw cfg) (col0_failed objs) first last.

Definition sort_constraint (cfg : config) (sort first last : nat) (cns : list (list oQ)) : list Q :=
  sort_and_select (constraint_col sort cns) (c_rw cfg) (col0_failed cns) first last.

Definition cvar_objective_keys (cfg : config) (sort : list nat) (objs : list (list oQ)) : list Q :=
  map (fun row => - objective_key (c_ow cfg) sort row) objs.

Definition cvar_objectives (cfg : config) (sort : list nat) (p : Q) (objs : list (list oQ)) : list Q :=
  cvar_weights p (cvar_objective_keys cfg sort objs) (col0_failed objs).

Definition cvar_constraint_keys (cfg : config) (sort : nat) (cns : list (list oQ)) : list Q :=
  map (fun c => - badness (nth sort (c_lower cfg) NInf) (nth sort (c_upper cfg) PInf) c) (constraint_col sort cns).

Definition cvar_constraint (cfg : config) (sort : nat) (p : Q) (cns : list (list oQ)) : list Q :=
  cvar_weights p (cvar_constraint_keys cfg sort cns) (col0_failed cns).

(* the vector computed by the method; None = "case _" (constraint method without constraints) *)
Definition method_weights (cfg : config) (m : method) (objs : list (list oQ)) (cns : option (list (list oQ)))
  : option (list Q) :=
  match m with
  | SortObjective sort f l => Some (sort_objectives cfg sort f l objs)
  | SortConstraint sort f l => option_map (sort_constraint cfg sort f l) cns
  | CvarObjective sort p => Some (cvar_objectives cfg sort p objs)
  | CvarConstraint sort p => option_map (cvar_constraint cfg sort p) cns
  end.

Definition any_positive (w : list Q) : bool := existsb (Qltb 0) w.

(* get_realization_weights *)
Definition get_weights (cfg : config) (m : method) (objs : list (list oQ)) (cns : option (list (list oQ)))
  : outcome (list Q) :=
  match method_weights cfg m objs cns with
  | None => Raise "ConfigError"
  | Some w => if any_positive w then Ok w else Abort too_few
  end.

(* ---- EnsembleEvaluator._calculate_filtered_realization_weights ---------------------------- *)
Definition matrix := list (list Q).

(* m[mask, :] = w *)
Definition set_rows (mask : list bool) (w : list Q) (m : matrix) : matrix :=
  map (fun br : bool * list Q => if fst br then w else snd br) (combine mask m).

Definition applies (fmap : option (list Z)) (idx : Z) : option (list bool) := option_map (map (Z.eqb idx)) fmap.
Definition none_applies (a : option (list bool)) : bool :=
  match a with None => true | Some l => negb (existsb (fun b => b) l) end.

Definition default_matrix (m : option matrix) (rows : nat) (w : list Q) : matrix :=
  match m with Some x => x | None => repeat w rows end.

Fixpoint filter_loop (cfg : config) (filters : list method) (idx : Z) (ofm cfm : option (list Z))
    (objs : list (list oQ)) (cns : option (list (list oQ))) (ow cw : option matrix)
  : outcome (option matrix * option matrix) :=
  match filters with
  | [] => Ok (ow, cw)
  | m :: rest =>
      let ao := applies ofm idx in
      let ac := applies cfm idx in
      if none_applies ao && none_applies ac then filter_loop cfg rest (idx + 1)%Z ofm cfm objs cns ow cw
      else
        match get_weights cfg m objs cns with
        | Ok w =>
            let ow' := match ao with
                       | Some a => Some (set_rows a w (default_matrix ow (length (c_ow cfg)) (c_rw cfg)))
                       | None => ow end in
            let cw' := match ac with
                       | Some a => Some (set_rows a w (default_matrix cw (length (c_lower cfg)) (c_rw cfg)))
                       | None => cw end in
            filter_loop cfg rest (idx + 1)%Z ofm cfm objs cns ow' cw'
        | Abort c => Abort c
        | Raise s => Raise s
        end
  end.

Definition filtered_weights (cfg : config) (filters : list method) (ofm cfm : option (list Z))
    (objs : list (list oQ)) (cns : option (list (list oQ))) :=
  filter_loop cfg filters 0%Z ofm cfm objs cns None None.

(* ---- one function evaluation with the default (mean) estimator --------------------------- *)
(* _propagate_nan_values: a NaN anywhere in a realization's objectives or constraints fails it *)
Definition row_failed (row : list oQ) : bool := existsb is_none row.
Definition blank_rows (f : list bool) (m : list (list oQ)) : list (list oQ) :=
  map (fun fr : bool * list oQ => if fst fr then map (fun _ => None) (snd fr) else snd fr) (combine f m).
Definition propagate_nan (objs : list (list oQ)) (cns : option (list (list oQ))) :=
  let fo := map row_failed objs in
  let f := match cns with
           | None => fo
           | Some c => map (fun ab : bool * bool => fst ab || snd ab) (combine fo (map row_failed c))
           end in
  (blank_rows f objs, option_map (blank_rows f) cns).

Definition column (j : nat) (m : list (list oQ)) : list Q := map (fun row => nan0 (nth j row None)) m.

(* weights = where(failed, 0, w); weights /= weights.sum(); dot(nan_to_num(f), weights) *)
Definition mean_value (w : list Q) (failed : list bool) (f : list Q) : oQ :=
  let wz := map (fun fw : bool * Q => if fst fw then 0 else snd fw) (combine failed w) in
  let s := qsum wz in
  if Qeqb s 0 then None else Some (dot f (map (fun x => x / s) wz)).

Definition estimate (cfg : config) (wm : option matrix) (failed : list bool) (count : nat) (m : list (list oQ))
  : list oQ :=
  map (fun j => mean_value (match wm with Some x => nth j x [] | None => c_rw cfg end) failed (column j m))
      (seq 0 count).

Record evaluation := {
  e_failed : list bool;
  e_ow : option matrix;
  e_cw : option matrix;
  e_functions : option (list oQ * option (list oQ))    (* None: below realization_min_success *)
}.

Definition all_failed (f : list bool) : bool := forallb (fun b => b) f.

(* _init_realization_filters: every configured filter is constructed, used or not *)
Fixpoint create_all (cfg : config) (fs : list method) : outcome unit :=
  match fs with
  | [] => Ok tt
  | m :: t => match create cfg m with Ok _ => create_all cfg t | Abort c => Abort c | Raise s => Raise s end
  end.

(* EnsembleEvaluator.__init__ followed by one calculate(compute_functions=True) on a single vector *)
Definition evaluate (cfg : config) (filters : list method) (ofm cfm : option (list Z)) (rmin : nat)
    (objs0 : list (list oQ)) (cns0 : option (list (list oQ))) : outcome evaluation :=
  match create_all cfg filters with
  | Abort c => Abort c
  | Raise s => Raise s
  | Ok _ =>
    let (objs, cns) := propagate_nan objs0 cns0 in
    match filtered_weights cfg filters ofm cfm objs cns with
    | Abort c => Abort c
    | Raise s => Raise s
    | Ok (ow, cw) =>
      let failed := col0_failed objs in
      let no := length (c_ow cfg) in
      let nc := length (c_lower cfg) in
      let fn :=
        if Nat.ltb (count_ok failed) rmin then None
        else if all_failed failed then
          Some (repeat None no, option_map (fun _ => repeat None nc) cns)
        else Some (estimate cfg ow failed no objs, option_map (estimate cfg cw failed nc) cns) in
      Ok {| e_failed := failed; e_ow := ow; e_cw := cw; e_functions := fn |}
    end
  end.

(* ---- specifications (short, independent of the sort) ---------------------------------------- *)
(* s comes before r in the model's ranking: smaller key, ties by index *)
Definition precedes (values : list Q) (s r : nat) : bool :=
  Qltb (nth s values 0) (nth r values 0) || (Qeqb (nth s values 0) (nth r values 0) && Nat.ltb s r).

Definition succeeded (failed : list bool) (r : nat) : bool := negb (nth r failed true).

Definition successes (failed : list bool) : list nat := filter (succeeded failed) (seq 0 (length failed)).

(* ascending rank of realization r among the successful realizations *)
Definition rank (values : list Q) (failed : list bool) (r : nat) : nat :=
  length (filter (fun s => precedes values s r) (successes failed)).

(* the sort filter [first, last] selects realization r *)
Definition selected (values : list Q) (failed : list bool) (first last r : nat) : bool :=
  succeeded failed r && Nat.leb first (rank values failed r) && Nat.leb (rank values failed r) last.

(* any ranking the implementation may use: the successful realizations, each once, values non-decreasing
   (np.argsort fixes nothing about the order of tied values) *)
Definition valid_order (values : list Q) (failed : list bool) (idx : list nat) : Prop :=
  Permutation idx (successes failed) /\
  forall i j, (i < j < length idx)%nat -> nth (nth i idx 0%nat) values 0 <= nth (nth j idx 0%nat) values 0.

(* the vector _sort_and_select builds from ANY ranking idx (sort_and_select is this along the model's ranking) *)
Definition select_along (idx : list nat) (cfgw : list Q) (first last : nat) : list Q :=
  let sel := window first last idx in
  assign sel (map (fun i => nth i cfgw 0) sel) (zeros (length cfgw)).

(* the vector _get_cvar_weights_from_percentile builds from ANY ranking idx of n = length idx successes *)
Definition cvar_along (p : Q) (idx : list nat) (size : nat) : list Q :=
  let n := length idx in
  if Nat.eqb n 0 then zeros size
  else
    let p_max := 1 / nq n in
    let n_var := Z.to_nat (qfloor (p * nq n)) in
    let p_var := Qmax (p - nq n_var * p_max) 0 in
    let w := assign (firstn n_var idx) (repeat p_max n_var) (zeros size) in
    if Nat.ltb n_var n then assign [nth n_var idx 0%nat] [p_var] w else w.

(* the CVaR staircase as a function of the rank k (n successes, percentile p) *)
Definition stair_m (p : Q) (n : nat) : nat := Z.to_nat (qfloor (p * nq n)).
Definition stair (p : Q) (n k : nat) : Q :=
  let m := stair_m p n in
  if Nat.ltb k m then 1 / nq n else if Nat.eqb k m then p - nq m / nq n else 0.

(* CVaR_p tail mean of the empirical distribution of f along a ranking idx (worst first) *)
Definition tail_mean (p : Q) (idx : list nat) (f : list Q) : Q :=
  (1 / p) * qsum (map (fun k => stair p (length idx) k * nth (nth k idx 0%nat) f 0) (seq 0 (length idx))).

(* ---- tie-robust executable characterisations (evaluated on the implementation's output) ----- *)
Definition countb {A} (f : A -> bool) (l : list A) : nat := length (filter f l).

(* number of ranks t with lo <= t < ge and first <= t <= last *)
Definition overlap (lo ge first last : nat) : nat := Nat.min ge (last + 1) - Nat.max lo first.

Section Window.
  Variables (values cfgw : list Q) (failed : list bool) (first last : nat).
  Let S := successes failed.
  Definition grp_lo (r : nat) : nat := countb (fun s => Qltb (nth s values 0) (nth r values 0)) S.
  Definition grp_ge (r : nat) : nat := countb (fun s => Qleb (nth s values 0) (nth r values 0)) S.
  Definition same_key (r s : nat) : bool := Qeqb (nth s values 0) (nth r values 0).
  (* how many members of r's tie group every valid ranking puts inside the window *)
  Definition grp_quota (r : nat) : nat := overlap (grp_lo r) (grp_ge r) first last.

  (* w is the weight vector of SOME ranking consistent with the values *)
  Definition window_ok (w : list Q) : bool :=
    Nat.eqb (length w) (length failed) &&
    forallb (fun r =>
      let wr := nth r w 0 in
      if nth r failed true then Qeqb wr 0
      else (Qeqb wr (nth r cfgw 0) || Qeqb wr 0) &&
           let sel := countb (fun s => same_key r s && negb (Qeqb (nth s w 0) 0)) S in
           let amb := countb (fun s => same_key r s && Qeqb (nth s cfgw 0) 0) S in
           Nat.leb sel (grp_quota r) && Nat.leb (grp_quota r) (sel + amb))
      (seq 0 (length failed)).

  (* SOME consistent ranking selects no positive weight (the abort is justified) *)
  Definition window_may_abort : bool :=
    forallb (fun r => Nat.leb (grp_quota r) (countb (fun s => same_key r s && Qleb (nth s cfgw 0) 0) S)) S.

  (* EVERY consistent ranking selects a positive weight (the abort is not justified) -- not needed *)
End Window.

Definition distinct_keys (values : list Q) (failed : list bool) : bool :=
  let S := successes failed in
  forallb (fun r => forallb (fun s => Nat.eqb r s || negb (Qeqb (nth r values 0) (nth s values 0))) S) S.

(* staircase: ~u on a prefix, then at most one entry in [0, u], then exact zeros *)
Definition all_zero (v : list Q) : bool := forallb (fun x => Qeqb x 0) v.
Fixpoint stair_shape (u : Q) (v : list Q) : bool :=
  match v with
  | [] => true
  | x :: t => if all_zero t then Qleb 0 x && Qleb x (u + (tol_abs + tol_rel * u))
              else close 1 x u && stair_shape u t
  end.

(* ties sorted in the implementation's favour: equal keys by decreasing weight *)
Definition fav_leb (a b : Q * Q) : bool :=
  Qltb (fst a) (fst b) || (Qeqb (fst a) (fst b) && Qleb (snd b) (snd a)).

Definition stair_ok (p : Q) (values : list Q) (failed : list bool) (w : list Q) : bool :=
  let S := successes failed in
  let n := length S in
  Nat.eqb (length w) (length failed) &&
  forallb (fun r => if nth r failed true then Qeqb (nth r w 0) 0 else Qleb 0 (nth r w 0)) (seq 0 (length failed)) &&
  (Nat.eqb n 0 ||
   let v := map snd (isort fav_leb (map (fun r => (nth r values 0, nth r w 0)) S)) in
   stair_shape (1 / nq n) v && close 1 (qsum v) p).

(* p*n is so close to an integer that float rounding may move the floor *)
Definition near_integer (p : Q) (n : nat) : bool :=
  let x := p * nq n in
  let r := inject_Z (qfloor (x + (Q_ 1 2))) in
  Qleb (Qabs (x - r)) (Q_ 1 1000000000000 * (1 + nq n)).

Definition same_zero_pattern (a b : list Q) : bool :=
  forallb2 (fun x y => Bool.eqb (Qeqb x 0) (Qeqb y 0)) a b.

(* ---- acceptance of one implementation answer (shared by Check/Chk_C04.v and Check/Chk_C05.v) -- *)
(* the (ranking values, failure mask) a method works on *)
Definition method_inputs (cfg : config) (m : method) (objs : list (list oQ)) (cns : option (list (list oQ)))
  : option (list Q * list bool) :=
  match m with
  | SortObjective sort _ _ => Some (map (objective_key (c_ow cfg) sort) objs, col0_failed objs)
  | SortConstraint sort _ _ => option_map (fun c => (constraint_col sort c, col0_failed c)) cns
  | CvarObjective sort _ => Some (cvar_objective_keys cfg sort objs, col0_failed objs)
  | CvarConstraint sort _ => option_map (fun c => (cvar_constraint_keys cfg sort c, col0_failed c)) cns
  end.

(* helper level: one answer of _sort_and_select / _get_cvar_weights_from_percentile *)
Definition select_answer_ok (values cfgw : list Q) (failed : list bool) (first last : nat) (w : list Q) : bool :=
  window_ok values cfgw failed first last w &&
  (negb (distinct_keys values failed) || list_eqb Qeqb w (sort_and_select values cfgw failed first last)).

Definition cvar_answer_ok (p : Q) (values : list Q) (failed : list bool) (w : list Q) : bool :=
  stair_ok p values failed w &&
  (negb (distinct_keys values failed) ||
   let mw := cvar_weights p values failed in
   forallb2 (close 1) w mw && (near_integer p (count_ok failed) || same_zero_pattern w mw)).

(* a weight vector returned by get_realization_weights *)
Definition weights_ok (cfg : config) (m : method) (objs : list (list oQ)) (cns : option (list (list oQ)))
    (w : list Q) : bool :=
  match method_inputs cfg m objs cns with
  | None => false
  | Some (values, failed) =>
      any_positive w &&
      match m with
      | SortObjective _ f l | SortConstraint _ f l => select_answer_ok values (c_rw cfg) failed f l w
      | CvarObjective _ p | CvarConstraint _ p => cvar_answer_ok p values failed w
      end
  end.

(* an OptimizationAborted raised by get_realization_weights *)
Definition abort_ok (cfg : config) (m : method) (objs : list (list oQ)) (cns : option (list (list oQ)))
    (code : Z) : bool :=
  Z.eqb code too_few &&
  match method_inputs cfg m objs cns with
  | None => false
  | Some (values, failed) =>
      match m with
      | SortObjective _ f l | SortConstraint _ f l => window_may_abort values (c_rw cfg) failed f l
      | CvarObjective _ _ | CvarConstraint _ _ => Nat.eqb (count_ok failed) 0
      end
  end.

(* construction followed by get_realization_weights *)
Definition filter_answer_ok (cfg : config) (m : method) (objs : list (list oQ)) (cns : option (list (list oQ)))
    (obs : outcome (list Q)) : bool :=
  match create cfg m with
  | Raise s => match obs with Raise s' => String.eqb s s' | _ => false end
  | Abort _ => false
  | Ok _ =>
      match obs with
      | Ok w => weights_ok cfg m objs cns w
      | Abort c => abort_ok cfg m objs cns c
      | Raise s => match method_weights cfg m objs cns with
                   | None => String.eqb s "ConfigError"
                   | Some _ => false
                   end
      end
  end.

(* end to end *)
Record e2e_case := {
  x_cfg : config;
  x_filters : list method;
  x_ofm : option (list Z);
  x_cfm : option (list Z);
  x_rmin : nat;
  x_objs : list (list oQ);            (* as returned by the user's evaluator *)
  x_cons : option (list (list oQ));
  x_S : Q;                            (* largest input magnitude *)
  x_obs : outcome evaluation          (* construction + calculate of the real EnsembleEvaluator *)
}.

Definition in_use (ofm cfm : option (list Z)) (k : Z) : bool :=
  negb (none_applies (applies ofm k) && none_applies (applies cfm k)).

Definition znth {A} (k : Z) (l : list A) : option A :=
  if Z.ltb k 0 then None else nth_error l (Z.to_nat k).

(* some filter in use ranks tied values: the outcome may depend on the (unspecified) tie order *)
Definition e2e_has_ties (c : e2e_case) : bool :=
  let (objs, cns) := propagate_nan (x_objs c) (x_cons c) in
  existsb (fun km : nat * method =>
             in_use (x_ofm c) (x_cfm c) (Z.of_nat (fst km)) &&
             match method_inputs (x_cfg c) (snd km) objs cns with
             | Some (values, failed) => negb (distinct_keys values failed)
             | None => false
             end)
          (combine (seq 0 (length (x_filters c))) (x_filters c)).

Definition rows_ok_gen (cfg : config) (filters : list method) (objs : list (list oQ)) (cns : option (list (list oQ)))
    (fmap : option (list Z)) (count : nat) (obs model : option matrix) : bool :=
  match obs, model with
  | None, None => true
  | Some om, Some mm =>
      Nat.eqb (length om) count &&
      forallb2 (fun (j : nat) (row : list Q) =>
                  match fmap with
                  | None => false
                  | Some fm =>
                      match znth (nth j fm (-1)%Z) filters with
                      | Some m => weights_ok cfg m objs cns row
                      | None => list_eqb Qeqb row (c_rw cfg)
                      end
                  end && forallb2 (close 1) row (nth j mm []))
               (seq 0 count) om
  | _, _ => false
  end.

Definition rows_ok (c : e2e_case) := rows_ok_gen (x_cfg c) (x_filters c).

Definition values_ok (S : Q) (obs model : list oQ) : bool := forallb2 (oclose S) obs model.

Definition e2e_ok (c : e2e_case) : bool :=
  if e2e_has_ties c then true
  else
    let cfg := x_cfg c in
    let (objs, cns) := propagate_nan (x_objs c) (x_cons c) in
    match evaluate cfg (x_filters c) (x_ofm c) (x_cfm c) (x_rmin c) (x_objs c) (x_cons c), x_obs c with
    | Raise s, Raise s' => String.eqb s s'
    | Abort a, Abort b => Z.eqb a b
    | Ok me, Ok oe =>
        list_eqb Bool.eqb (e_failed oe) (e_failed me) &&
        rows_ok c objs cns (x_ofm c) (length (c_ow cfg)) (e_ow oe) (e_ow me) &&
        rows_ok c objs cns (x_cfm c) (length (c_lower cfg)) (e_cw oe) (e_cw me) &&
        match e_functions oe, e_functions me with
        | None, None => true
        | Some (fo, co), Some (fm, cm) =>
            values_ok (x_S c) fo fm &&
            match co, cm with
            | None, None => true
            | Some a, Some b => values_ok (x_S c) a b
            | _, _ => false
            end
        | _, _ => false
        end
    | _, _ => false
    end.

(* ==== gradients and request sequences on ONE EnsembleEvaluator ================================================
   calculate(x, compute_functions, compute_gradients) issued repeatedly on the same object: function-only requests
   fill _cache_for_gradient, a gradient-only request at the cached point re-uses the cached function result and its
   weight matrices (_calculate_gradients), every other gradient request evaluates functions and perturbations
   together (_calculate_both) and clears the cache.  One optimisation variable; the user's evaluator is affine
   around each point, so the gradient of realization r of function j is the slope table entry (the least-squares
   estimate is exact for one variable and at least one successful perturbation). *)
Record point := {
  pt_objs : list (list oQ);            (* per realization: the objectives returned for the unperturbed vector *)
  pt_cons : option (list (list oQ));
  pt_oslope : list (list Q);           (* per realization: d objective_j / dx *)
  pt_cslope : list (list Q);
  pt_pfail : list (list bool)          (* per realization, per perturbation: the perturbed evaluation has a NaN *)
}.

Record gresult := {
  g_failed : list bool;
  g_ow : option matrix;
  g_cw : option matrix;
  g_gradients : option (list oQ * option (list oQ))     (* None: below realization_min_success *)
}.

Inductive result := RFun (e : evaluation) | RGrad (g : gresult).
(* function request, gradient request, both, and a function request for a BATCH of vectors (a matrix) *)
Inductive request := ReqF (k : nat) | ReqG (k : nat) | ReqFG (k : nat) | ReqB (ks : list nat).

Record senv := {
  s_cfg : config;
  s_filters : list method;
  s_ofm : option (list Z);
  s_cfm : option (list Z);
  s_rmin : nat;                        (* realization_min_success *)
  s_pmin : nat;                        (* perturbation_min_success *)
  s_points : list point
}.

Definition req_points (rq : request) : list nat :=
  match rq with ReqF k | ReqG k | ReqFG k => [k] | ReqB ks => ks end.
Definition req_point (rq : request) : nat := hd 0%nat (req_points rq).
(* the point result number i of the answer to rq is about *)
Definition result_point (rq : request) (i : nat) : nat :=
  match rq with ReqF k | ReqG k | ReqFG k => k | ReqB ks => nth i ks 0%nat end.

(* _get_failed_realizations with perturbations: failed |= #successful perturbations < perturbation_min_success *)
Definition grad_failed (pmin : nat) (failed : list bool) (pfail : list (list bool)) : list bool :=
  map (fun fp : bool * list bool => fst fp || Nat.ltb (count_ok (snd fp)) pmin) (combine failed pfail).

Definition somes (m : list (list Q)) : list (list oQ) := map (map (@Some Q)) m.

(* the GradientResults built from the function evaluation e of the same point: the weight matrices are e's, the
   gradient of function j is the mean estimator applied to the slopes with row j (failed realizations zeroed) *)
Definition gradient_result (env : senv) (e : evaluation) (pt : point) : gresult :=
  let cfg := s_cfg env in
  let fg := grad_failed (s_pmin env) (e_failed e) (pt_pfail pt) in
  {| g_failed := fg; g_ow := e_ow e; g_cw := e_cw e;
     g_gradients :=
       if Nat.ltb (count_ok fg) (s_rmin env) then None
       else Some (estimate cfg (e_ow e) fg (length (c_ow cfg)) (somes (pt_oslope pt)),
                  option_map (fun _ => estimate cfg (e_cw e) fg (length (c_lower cfg)) (somes (pt_cslope pt)))
                             (pt_cons pt)) |}.

Definition eval_point (env : senv) (k : nat) : outcome (point * evaluation) :=
  match nth_error (s_points env) k with
  | None => Raise "IndexError"
  | Some pt =>
      match evaluate (s_cfg env) (s_filters env) (s_ofm env) (s_cfm env) (s_rmin env) (pt_objs pt) (pt_cons pt) with
      | Ok e => Ok (pt, e)
      | Abort c => Abort c
      | Raise s => Raise s
      end
  end.

Definition cache := option (nat * evaluation).

(* _calculate_both: the cache is cleared first *)
Definition calc_both (env : senv) (k : nat) : cache * outcome (list result) :=
  match eval_point env k with
  | Ok (pt, e) => (None, Ok [RFun e; RGrad (gradient_result env e pt)])
  | Abort c => (None, Abort c)
  | Raise s => (None, Raise s)
  end.

(* _calculate_functions on a matrix: the vectors are processed one after the other, the first abort ends the call *)
Fixpoint eval_batch (env : senv) (ks : list nat) : outcome (list evaluation) :=
  match ks with
  | [] => Ok []
  | k :: rest =>
      match eval_point env k with
      | Ok (_, e) =>
          match eval_batch env rest with
          | Ok es => Ok (e :: es)
          | Abort c => Abort c
          | Raise s => Raise s
          end
      | Abort c => Abort c
      | Raise s => Raise s
      end
  end.

(* one call of calculate *)
Definition calc (env : senv) (ch : cache) (rq : request) : cache * outcome (list result) :=
  match rq with
  | ReqF k =>
      match eval_point env k with
      | Ok (_, e) => (Some (k, e), Ok [RFun e])
      | Abort c => (ch, Abort c)          (* the exception leaves the cache as it was *)
      | Raise s => (ch, Raise s)
      end
  | ReqG k =>
      match ch with
      | Some (k', e) =>
          if Nat.eqb k k' then
            match nth_error (s_points env) k with
            | Some pt => (ch, Ok [RGrad (gradient_result env e pt)])
            | None => (ch, Raise "IndexError")
            end
          else calc_both env k
      | None => calc_both env k
      end
  | ReqFG k => calc_both env k
  | ReqB ks =>
      match eval_batch env ks with
      | Ok es => (match es with e :: _ => Some (hd 0%nat ks, e) | [] => ch end, Ok (map RFun es))   (* function_results[0] is cached *)
      | Abort c => (ch, Abort c)
      | Raise s => (ch, Raise s)
      end
  end.

(* the caller keeps calling after an exception (direct use of the evaluator object) *)
Fixpoint run_direct (env : senv) (ch : cache) (reqs : list request) : list (outcome (list result)) :=
  match reqs with
  | [] => []
  | rq :: rest => let (ch', out) := calc env ch rq in out :: run_direct env ch' rest
  end.

(* EnsembleOptimizer._run_evaluations: results without functions / gradients, or (realization_min_success < 1 and
   an optimizer that cannot handle NaN) results in which every realization failed, end the step *)
Definition step_finished : Z := exit_code "OPTIMIZER_STEP_FINISHED".
Definition evaluation_finished : Z := exit_code "EVALUATION_STEP_FINISHED".

Definition result_stops (env : senv) (allow_nan : bool) (r : result) : bool :=
  let chk := Nat.ltb (s_rmin env) 1 && negb allow_nan in
  match r with
  | RFun e => is_none (e_functions e) || (chk && all_failed (e_failed e))
  | RGrad g => is_none (g_gradients g) || (chk && all_failed (g_failed g))
  end.

(* an optimizer step whose optimizer issues the requests in order: (results delivered to the observers, exit code).
   A filter that finds no positive weight aborts inside calculate: nothing is delivered for that request. *)
Fixpoint run_step (env : senv) (allow_nan : bool) (ch : cache) (reqs : list request) : list (list result) * outcome Z :=
  match reqs with
  | [] => ([], Ok step_finished)
  | rq :: rest =>
      let (ch', out) := calc env ch rq in
      match out with
      | Ok rs =>
          if existsb (result_stops env allow_nan) rs then ([rs], Ok too_few)
          else let (d, c) := run_step env allow_nan ch' rest in (rs :: d, c)
      | Abort c => ([], Ok c)
      | Raise s => ([], Raise s)
      end
  end.

(* an evaluator step: one function request (a vector or a batch); every result is checked for missing values *)
Definition lacks_functions (r : result) : bool :=
  match r with RFun e => is_none (e_functions e) | RGrad _ => false end.
Definition run_evalstep (env : senv) (rq : request) : list (list result) * outcome Z :=
  match snd (calc env None rq) with
  | Ok rs => ([rs], Ok (if existsb lacks_functions rs then too_few else evaluation_finished))
  | Abort c => ([], Ok c)
  | Raise s => ([], Raise s)
  end.

(* ---- specification vocabulary for request sequences -------------------------------------------------------- *)
(* the gradient results of a fresh evaluation of point k *)
Definition fresh_gradient (env : senv) (k : nat) : outcome gresult :=
  match eval_point env k with
  | Ok (pt, e) => Ok (gradient_result env e pt)
  | Abort c => Abort c
  | Raise s => Raise s
  end.

Definition fresh_function (env : senv) (k : nat) : outcome evaluation :=
  match eval_point env k with
  | Ok (_, e) => Ok e
  | Abort c => Abort c
  | Raise s => Raise s
  end.

(* the cache holds the function evaluation of the point it is labelled with *)
Definition cache_ok (env : senv) (ch : cache) : Prop :=
  match ch with Some (k, e) => fresh_function env k = Ok e | None => True end.


(* result number i of an answer is the result of a fresh evaluation of the point it is about *)
Definition result_fresh (env : senv) (rq : request) (i : nat) (r : result) : Prop :=
  match r with
  | RFun e => fresh_function env (result_point rq i) = Ok e
  | RGrad g => fresh_gradient env (result_point rq i) = Ok g
  end.

Definition answer_fresh (env : senv) (rq : request) (a : outcome (list result)) : Prop :=
  match a with
  | Ok rs => forall i r, nth_error rs i = Some r -> result_fresh env rq i r
  | Abort c => exists k, In k (req_points rq) /\ fresh_function env k = Abort c
  | Raise _ => True
  end.

(* ---- acceptance of an observed request sequence ------------------------------------------------------------- *)
Inductive via := ViaCalculate | ViaStep (allow_nan : bool) | ViaEvalStep.

Record seq_case := {
  q_env : senv;
  q_via : via;
  q_reqs : list request;
  q_S : Q;
  q_answers : outcome (list (outcome (list result)));    (* ViaCalculate: one per request; Raise = construction failed *)
  q_delivered : list (list result);                       (* steps: the result tuples of the FINISHED_EVALUATION events *)
  q_exit : outcome Z                                      (* steps: exit code / exception class *)
}.

Definition point_has_ties (env : senv) (pt : point) : bool :=
  let (objs, cns) := propagate_nan (pt_objs pt) (pt_cons pt) in
  existsb (fun km : nat * method =>
             in_use (s_ofm env) (s_cfm env) (Z.of_nat (fst km)) &&
             match method_inputs (s_cfg env) (snd km) objs cns with
             | Some (values, failed) => negb (distinct_keys values failed)
             | None => false
             end)
          (combine (seq 0 (length (s_filters env))) (s_filters env)).

Definition seq_has_ties (c : seq_case) : bool := existsb (point_has_ties (q_env c)) (s_points (q_env c)).

Definition ovalues_ok (S : Q) (obs model : option (list oQ * option (list oQ))) : bool :=
  match obs, model with
  | None, None => true
  | Some (fo, co), Some (fm, cm) =>
      values_ok S fo fm &&
      match co, cm with
      | None, None => true
      | Some a, Some b => values_ok S a b
      | _, _ => false
      end
  | _, _ => false
  end.

Definition weights_match (env : senv) (pt : point) (oow ocw mow mcw : option matrix) : bool :=
  let cfg := s_cfg env in
  let (objs, cns) := propagate_nan (pt_objs pt) (pt_cons pt) in
  rows_ok_gen cfg (s_filters env) objs cns (s_ofm env) (length (c_ow cfg)) oow mow &&
  rows_ok_gen cfg (s_filters env) objs cns (s_cfm env) (length (c_lower cfg)) ocw mcw.

(* A gradient entry is ill-conditioned when (almost) all of the row's mass sits on realizations that are lost in the
   gradient (too few successful perturbations): what survives is at most a staircase remainder of rounding size, and
   whether it is 0 or 1e-17 -- NaN or a slope after normalisation -- is decided by the rounding of p*n (DESIGN C04,
   Reading).  Such entries are not compared with the model (the Python oracle still judges them against the weights
   the implementation reports). *)
Definition surviving_mass (w : list Q) (failed : list bool) : Q :=
  qsum (map (fun fw : bool * Q => if fst fw then 0 else snd fw) (combine failed w)).
Definition row_ill (w : list Q) (failed : list bool) : bool :=
  Qleb (surviving_mass w failed) (Q_ 1 1000000000 * qsum (map Qabs w)).
Definition grad_entries_ok (S : Q) (cfg : config) (wm : option matrix) (failed : list bool) (obs model : list oQ) : bool :=
  Nat.eqb (length obs) (length model) &&
  forallb (fun j => row_ill (match wm with Some x => nth j x [] | None => c_rw cfg end) failed
                    || oclose S (nth j obs None) (nth j model None))
          (seq 0 (length model)).
Definition gvalues_ok (S : Q) (cfg : config) (mg : gresult) (obs : option (list oQ * option (list oQ))) : bool :=
  match obs, g_gradients mg with
  | None, None => true
  | Some (fo, co), Some (fm, cm) =>
      grad_entries_ok S cfg (g_ow mg) (g_failed mg) fo fm &&
      match co, cm with
      | None, None => true
      | Some a, Some b => grad_entries_ok S cfg (g_cw mg) (g_failed mg) a b
      | _, _ => false
      end
  | _, _ => false
  end.

Definition result_ok (env : senv) (S : Q) (pt : point) (obs model : result) : bool :=
  match obs, model with
  | RFun oe, RFun me =>
      list_eqb Bool.eqb (e_failed oe) (e_failed me) &&
      weights_match env pt (e_ow oe) (e_cw oe) (e_ow me) (e_cw me) &&
      ovalues_ok S (e_functions oe) (e_functions me)
  | RGrad og, RGrad mg =>
      list_eqb Bool.eqb (g_failed og) (g_failed mg) &&
      weights_match env pt (g_ow og) (g_cw og) (g_ow mg) (g_cw mg) &&
      gvalues_ok S (s_cfg env) mg (g_gradients og)
  | _, _ => false
  end.

Fixpoint results_ok_from (env : senv) (S : Q) (rq : request) (i : nat) (obs model : list result) : bool :=
  match obs, model with
  | [], [] => true
  | o :: ot, m :: mt =>
      match nth_error (s_points env) (result_point rq i) with
      | Some pt => result_ok env S pt o m
      | None => false
      end && results_ok_from env S rq (Datatypes.S i) ot mt
  | _, _ => false
  end.

Definition results_ok (env : senv) (S : Q) (rq : request) (obs model : list result) : bool :=
  results_ok_from env S rq 0 obs model.

Definition answer_ok (env : senv) (S : Q) (rq : request) (obs model : outcome (list result)) : bool :=
  match obs, model with
  | Ok a, Ok b => results_ok env S rq a b
  | Abort a, Abort b => Z.eqb a b
  | Raise a, Raise b => String.eqb a b
  | _, _ => false
  end.

(* the requests whose results were delivered, in order *)
Fixpoint delivered_requests (env : senv) (allow_nan : bool) (ch : cache) (reqs : list request) : list request :=
  match reqs with
  | [] => []
  | rq :: rest =>
      let (ch', out) := calc env ch rq in
      match out with
      | Ok rs => rq :: (if existsb (result_stops env allow_nan) rs then []
                        else delivered_requests env allow_nan ch' rest)
      | _ => []
      end
  end.

Definition exit_ok (obs model : outcome Z) : bool :=
  match obs, model with
  | Ok a, Ok b => Z.eqb a b
  | Raise a, Raise b => String.eqb a b
  | _, _ => false
  end.

Definition delivered_ok (env : senv) (S : Q) (rqs : list request) (obs model : list (list result)) : bool :=
  Nat.eqb (length obs) (length model) && Nat.eqb (length rqs) (length model) &&
  forallb2 (fun (rq : request) (om : list result * list result) => results_ok env S rq (fst om) (snd om))
           rqs (combine obs model).

Definition seq_ok (c : seq_case) : bool :=
  if seq_has_ties c then true
  else
    let env := q_env c in
    match create_all (s_cfg env) (s_filters env) with
    | Raise s =>
        match q_via c with
        | ViaCalculate => match q_answers c with Raise s' => String.eqb s s' | _ => false end
        | _ => match q_exit c with Raise s' => String.eqb s s' | _ => false end
        end
    | Abort _ => false
    | Ok _ =>
        match q_via c with
        | ViaCalculate =>
            match q_answers c with
            | Ok obs =>
                forallb2 (fun (rq : request) (om : outcome (list result) * outcome (list result)) =>
                            answer_ok env (q_S c) rq (fst om) (snd om))
                         (q_reqs c) (combine obs (run_direct env None (q_reqs c))) &&
                Nat.eqb (length obs) (length (q_reqs c))
            | _ => false
            end
        | ViaStep allow_nan =>
            let (d, code) := run_step env allow_nan None (q_reqs c) in
            exit_ok (q_exit c) code &&
            delivered_ok env (q_S c) (delivered_requests env allow_nan None (q_reqs c)) (q_delivered c) d
        | ViaEvalStep =>
            match q_reqs c with
            | [rq] =>
                match rq with
                | ReqF _ | ReqB (_ :: _) =>
                    let (d, code) := run_evalstep env rq in
                    exit_ok (q_exit c) code && delivered_ok env (q_S c) (map (fun _ => rq) d) (q_delivered c) d
                | _ => false
                end
            | _ => false
            end
        end
    end.
