(* Model/Sampler.v -- executable model of ropt's built-in SciPy sampler (C17).

   Structured like src/ropt/plugins/sampler/scipy.py (SciPySampler.generate_samples,
   _generate_stats_samples, _generate_qmc_samples) and _init_samplers/_get_mask of
   ensemble_evaluator/_ensemble_evaluator.py.  The SciPy distributions and QMC engines are
   oracles: what they return for one call is the [raw] input of [generate]; the model is
   what ropt does with those draws (reshape, scaling to [-1,1], sharing, scatter into the
   handled variables).  Definitions only; lemmas are in Proofs/Sampler.v. *)
From Coq Require Import QArith ZArith List Bool Arith Qround.
From Ropt Require Import Base.Num Base.ListX.
Import ListNotations.
Open Scope Q_scope.

Inductive method := Uniform | Norm | Truncnorm | Sobol | Halton | Lhs.

(* _STATS_SAMPLERS / _QMC_ENGINES *)
Definition is_qmc (m : method) : bool := match m with Sobol | Halton | Lhs => true | _ => false end.
(* the methods whose default range is [-1, 1] *)
Definition is_bounded (m : method) : bool := match m with Norm => false | _ => true end.

(* what the SciPy object returned for one call:
   stats:  rvs(size=(R', P, D)) flattened in C order;  qmc: engine.random(R' * P), one point per row *)
Inductive raw := RawStats (flat : list Q) | RawQmc (pts : list (list Q)).

Definition arr3 := list (list (list Q)).

(* ---- _get_mask(idx, gradient.samplers, variables.mask) ------------------------------------ *)
Definition assigned_to (idx : nat) (a : list Z) : list bool := map (fun s => Z.eqb s (Z.of_nat idx)) a.
Definition and_masks (m s : list bool) : list bool := map (fun p : bool * bool => fst p && snd p) (combine m s).

Definition get_mask (idx : nat) (assign : option (list Z)) (varmask : option (list bool)) : option (list bool) :=
  match assign with
  | None => varmask
  | Some a =>
      match varmask with
      | None => Some (assigned_to idx a)
      | Some m => Some (and_masks m (assigned_to idx a))
      end
  end.

(* does the sampler handle variable v ? *)
Definition handled (mask : option (list bool)) (v : nat) : bool :=
  match mask with None => true | Some m => nth v m false end.

(* sample_dim = variable_count if mask is None else mask.sum() *)
Definition sample_dim (V : nat) (mask : option (list bool)) : nat :=
  match mask with None => V | Some m => count_true m end.

(* ---- reshape((R, P, D)) of a C-ordered flat array; wrong size is an error ------------------ *)
Definition reshape3 {A} (R P D : nat) (flat : list A) : option (list (list (list A))) :=
  if Nat.eqb (length flat) (R * P * D) then Some (chunk P R (chunk D (R * P) flat)) else None.

(* scipy.stats.qmc.scale(sample, l, u) = sample * (u - l) + l, here with l = -1, u = 1 *)
Definition scale_to (l u x : Q) : Q := x * (u - l) + l.
Definition scale_unit (x : Q) : Q := scale_to (-1) 1 x.

(* _generate_stats_samples: the rvs output already has shape (R', P, D) *)
Definition stats_samples (R' P D : nat) (flat : list Q) : option arr3 := reshape3 R' P D flat.

(* _generate_qmc_samples: scale(engine.random(R' * P), -1, 1).reshape((R', P, D)) *)
Definition qmc_samples (R' P D : nat) (pts : list (list Q)) : option arr3 :=
  if Nat.eqb (length pts) (R' * P) && forallb (fun pt => Nat.eqb (length pt) D) pts
  then reshape3 R' P D (concat (map (map scale_unit) pts))
  else None.

(* np.repeat(samples, R, axis=0) *)
Definition repeat_axis0 {A} (R : nat) (samples : list A) : list A := flat_map (fun b => repeat b R) samples.

(* result = zeros(V); result[mask] = vec *)
Fixpoint scatter0 (mask : list bool) (vec : list Q) : list Q :=
  match mask with
  | [] => []
  | true :: m => match vec with x :: t => x :: scatter0 m t | [] => 0 :: scatter0 m [] end
  | false :: m => 0 :: scatter0 m vec
  end.

Definition embed (mask : option (list bool)) (vec : list Q) : list Q :=
  match mask with None => vec | Some m => scatter0 m vec end.

(* the rows (one per (realization, perturbation) pair) that ropt makes out of the raw draw *)
Definition raw_rows (m : method) (R' P D : nat) (rw : raw) : option arr3 :=
  match rw with
  | RawStats flat => if is_qmc m then None else stats_samples R' P D flat
  | RawQmc pts => if is_qmc m then qmc_samples R' P D pts else None
  end.

(* SciPySampler.generate_samples() *)
Definition generate (m : method) (shared : bool) (R P V : nat) (mask : option (list bool)) (rw : raw)
  : option arr3 :=
  let D := sample_dim V mask in
  let R' := if shared then 1%nat else R in
  match raw_rows m R' P D rw with
  | None => None
  | Some samples =>
      let samples := if shared then repeat_axis0 R samples else samples in
      match mask with
      | None => Some samples
      | Some mk => if Nat.eqb (length mk) V then Some (map (map (scatter0 mk)) samples) else None
      end
  end.

(* ---- Latin-hypercube strata ---------------------------------------------------------------- *)
(* stratum of u in [0,1) among n equal cells; of a scaled value x in [-1,1) *)
Definition stratum (n : nat) (u : Q) : Z := Qfloor (inject_Z (Z.of_nat n) * u).
Definition unscale_unit (x : Q) : Q := (x + 1) / 2.
Definition stratum_scaled (n : nat) (x : Q) : Z := stratum n (unscale_unit x).

Definition column (j : nat) (rows : list (list Q)) : list Q := map (fun row => nth j row 0) rows.
(* position of variable v among the handled ones *)
Definition rank (mask : option (list bool)) (v : nat) : nat :=
  match mask with None => v | Some m => count_true (firstn v m) end.

(* the distinct perturbation vectors of one call, in engine order *)
Definition vectors (shared : bool) (out : arr3) : list (list Q) :=
  concat (if shared then firstn 1 out else out).

(* ---- _perturb_variables: which samplers run, in which order, and what becomes of their output ---- *)
(* unique, indices = np.unique(np.compress(samplers >= 0, samplers), return_index=True);
   sampler_indices = unique[np.argsort(indices)]: the non-negative entries of gradient.samplers in order
   of FIRST APPEARANCE (all samplers draw from one generator, so the order is observable) *)
Fixpoint first_appearance (seen : list Z) (a : list Z) : list Z :=
  match a with
  | [] => []
  | s :: t => if Z.ltb s 0 || existsb (Z.eqb s) seen then first_appearance seen t
              else s :: first_appearance (s :: seen) t
  end.
(* without gradient.samplers only samplers[0] is called *)
Definition sampler_order (assign : option (list Z)) : list nat :=
  match assign with None => [0%nat] | Some a => map Z.to_nat (first_appearance [] a) end.

(* samples += other : both operands have shape (R, P, V); anything else is an error *)
Fixpoint zip_with {A B C} (f : A -> B -> option C) (a : list A) (b : list B) : option (list C) :=
  match a, b with
  | [], [] => Some []
  | x :: a', y :: b' =>
      match f x y, zip_with f a' b' with Some z, Some t => Some (z :: t) | _, _ => None end
  | _, _ => None
  end.
Definition add_vec (a b : list Q) : option (list Q) := zip_with (fun x y => Some (x + y)) a b.
Definition add3 (a b : arr3) : option arr3 := zip_with (zip_with add_vec) a b.

(* the outputs of the samplers called, in calling order; no sampler at all is an IndexError in ropt *)
Definition total_samples (outs : list (option arr3)) : option arr3 :=
  match outs with
  | [] => None
  | o :: t => fold_left (fun acc o' => match acc, o' with Some a, Some b => add3 a b | _, _ => None end) t o
  end.

(* variables + perturbation_magnitudes * samples (broadcast over realizations and perturbations);
   no bound is finite / BoundaryType.NONE, so _apply_bounds is the identity *)
Fixpoint perturb_vec (x mag vec : list Q) : option (list Q) :=
  match x, mag, vec with
  | [], [], [] => Some []
  | xi :: x', mi :: m', si :: v' =>
      match perturb_vec x' m' v' with Some t => Some (xi + mi * si :: t) | None => None end
  | _, _, _ => None
  end.
Fixpoint map_opt {A B} (f : A -> option B) (l : list A) : option (list B) :=
  match l with
  | [] => Some []
  | x :: t => match f x, map_opt f t with Some y, Some r => Some (y :: r) | _, _ => None end
  end.
Definition perturb (x mag : list Q) (samples : arr3) : option arr3 := map_opt (map_opt (perturb_vec x mag)) samples.

(* the variable is perturbed by sampler k *)
Definition owner_is (assign : option (list Z)) (varmask : option (list bool)) (k v : nat) : bool :=
  handled (get_mask k assign varmask) v.
