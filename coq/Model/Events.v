(* Model/Events.v -- delivery log of plan runs and the abort machine (C15).

   Mirrors
     ropt.plan._plan.Plan.emit_event   (own handlers in registration order, then the parent plan's
                                        emit_event, ..., finally OptimizerContext.call_observers),
     Plan.run_step / Plan.abort        (latched _aborted flag, PlanAborted for further steps),
     DefaultOptimizerStep.run / DefaultEvaluatorStep.run
                                       (START event, body, FINISHED event always emitted; an
                                        OptimizationAborted raised anywhere inside -> USER_ABORT,
                                        plan.abort()), and
     DefaultOptimizerStep._run_nested_plan / EnsembleOptimizer._optimizer_callback
                                       (the nested plan runs before the outer START_EVALUATION of
                                        every outer request; nested plan aborted -> outer aborts).

   Every delivery of an event to a handler or observer, and every call of the evaluator, is one
   entry of a global log.  The abort index k makes the recipient of entry number k raise
   OptimizationAborted(USER_ABORT).  Which evaluations a step performs and with which exit code it
   ends when nobody aborts comes from the exit-code machine Model/Step.v ([compile_step]).
   Definitions only; proofs are in Proofs/Events.v. *)
From Coq Require Import String List Bool Arith.
From Ropt Require Import Model.Step.
Import ListNotations.
Open Scope nat_scope.

Inductive entry :=
  | Deliv (rcpt : nat) (sid : nat) (e : evt)      (* event e of step sid handed to recipient rcpt *)
  | Call.                                         (* the user's evaluator is called *)

(* plans from the outermost (index 0) to the innermost, each with its handlers in registration
   order; the observers registered with the shared OptimizerContext *)
Record world := { plans : list (list nat); obsv : list nat }.

(* Plan.emit_event on the plan whose ancestor path (itself first) is [path] *)
Fixpoint recipients_up (path : list (list nat)) (obs : list nat) : list nat :=
  match path with
  | [] => obs                                         (* no parent: call_observers *)
  | hs :: parents => hs ++ recipients_up parents obs  (* own handlers, then parent.emit_event *)
  end.
Definition path_of (w : world) (lvl : nat) : list (list nat) := rev (firstn (S lvl) (plans w)).
Definition recipients (w : world) (lvl : nat) : list nat := recipients_up (path_of w lvl) (obsv w).

(* step ids: top-level steps are numbered 0, 1, ...; the step of the nested plan is 100 *)
Definition level_of (sid : nat) : nat := if 100 <=? sid then 1 else 0.

Inductive stepkind := SKOpt | SKEval.
Definition start_of (sk : stepkind) : evt := match sk with SKOpt => StartOpt | SKEval => StartEvalStep end.
Definition fin_of (sk : stepkind) : evt := match sk with SKOpt => FinOpt | SKEval => FinEvalStep end.

(* what a plan run does, as seen from the event system *)
Inductive prog :=
  | PSkip
  | PEmit (sid : nat) (e : evt)                 (* step sid emits e through its plan *)
  | PCall                                       (* evaluator call *)
  | PSeq (p q : prog)
  | PStep (sid : nat) (sk : stepkind) (ex : code) (body : prog).
      (* Plan.run_step of step sid: START, body, FINISHED; ex = exit code when nobody aborts *)

Definition hit (k : option nat) (n : nat) : bool :=
  match k with Some k => n =? k | None => false end.

(* hand one event to the recipients in order; the recipient of log entry number k raises *)
Fixpoint deliver (k : option nat) (rc : list nat) (sid : nat) (e : evt) (log : list entry)
  : list entry * bool :=
  match rc with
  | [] => (log, false)
  | r :: t =>
      if hit k (length log) then (log ++ [Deliv r sid e], true)
      else deliver k t sid e (log ++ [Deliv r sid e])
  end.

Definition is_abort (c : code) : bool := match c with UserAbort => true | _ => false end.

(* returns (log, an abort leaves this program, exit codes of the run_step calls in completion order) *)
Fixpoint exec (w : world) (p : prog) (k : option nat) (log : list entry)
  : list entry * bool * list (nat * code) :=
  match p with
  | PSkip => (log, false, [])
  | PEmit sid e =>
      let (l, r) := deliver k (recipients w (level_of sid)) sid e log in (l, r, [])
  | PCall => (log ++ [Call], hit k (length log), [])
  | PSeq p q =>
      let '(l1, r1, x1) := exec w p k log in
      if r1 then (l1, true, x1)
      else let '(l2, r2, x2) := exec w q k l1 in (l2, r2, x1 ++ x2)
  | PStep sid sk ex body =>
      let rc := recipients w (level_of sid) in
      (* try: START event; body   except OptimizationAborted: exit_code = USER_ABORT *)
      let (l0, r0) := deliver k rc sid (start_of sk) log in
      let '(l1, r1, x1) := if r0 then (l0, true, []) else exec w body k l0 in
      let ex1 := if r1 then UserAbort else ex in
      (* FINISHED event is always emitted and may abort as well *)
      let (l2, r2) := deliver k rc sid (fin_of sk) l1 in
      let ex2 := if r2 then UserAbort else ex1 in
      (* USER_ABORT: plan.abort(); the caller (next run_step / the outer optimizer) sees the flag *)
      (l2, is_abort ex2, x1 ++ [(sid, ex2)])
  end.

(* ---- a sequence of run_step calls on the outermost plan -------------------------- *)
Inductive ret := RExit (c : code) | RPlanAborted.

(* ab = Plan._aborted of the outermost plan.  Returns (log, outcome of every run_step call, flag) *)
Fixpoint run_steps (w : world) (steps : list prog) (k : option nat) (log : list entry) (ab : bool)
  : list entry * list (nat * ret) * bool :=
  match steps with
  | [] => (log, [], ab)
  | p :: t =>
      let sid := match p with PStep s _ _ _ => s | _ => 0 end in
      if ab then
        let '(l, x, a) := run_steps w t k log ab in (l, (sid, RPlanAborted) :: x, a)
      else
        let '(l1, r1, x1) := exec w p k log in
        let '(l, x, a) := run_steps w t k l1 r1 in
        (l, map (fun sc => (fst sc, RExit (snd sc))) x1 ++ x, a)
  end.

(* ---- the sharpest form of the property: prefix + closure --------------------------- *)
Definition is_start (e : evt) : bool := match e with StartOpt | StartEvalStep => true | _ => false end.
Definition is_fin (e : evt) : bool := match e with FinOpt | FinEvalStep => true | _ => false end.
Definition fin_for (e : evt) : evt := match e with StartEvalStep => FinEvalStep | _ => FinOpt end.

(* the steps that are open after a log segment, innermost first, with their FINISHED event: a step
   opens with the first delivery of its START event and closes with the first delivery of its
   FINISHED event *)
Fixpoint scan (l : list entry) (st : list (nat * evt)) : list (nat * evt) :=
  match l with
  | [] => st
  | Call :: t => scan t st
  | Deliv _ sid e :: t =>
      if is_start e then
        match st with
        | (s, _) :: _ => if s =? sid then scan t st else scan t ((sid, fin_for e) :: st)
        | [] => scan t [(sid, fin_for e)]
        end
      else if is_fin e then
        match st with
        | (s, _) :: st' => if s =? sid then scan t st' else scan t st
        | [] => scan t []
        end
      else scan t st
  end.

(* the FINISHED event of every open step, innermost first, each to its full recipient list *)
Definition closure (w : world) (st : list (nat * evt)) : list entry :=
  flat_map (fun sf => map (fun r => Deliv r (fst sf) (snd sf)) (recipients w (level_of (fst sf)))) st.

(* the aborted log predicted from the unaborted log D *)
Definition predict (w : world) (D : list entry) (k : option nat) : list entry :=
  match k with
  | Some k => if k <? length D then firstn (S k) D ++ closure w (scan (firstn (S k) D) []) else D
  | None => D
  end.

(* ---- compiling steps from the exit-code machine ---------------------------------- *)
Inductive stepspec :=
  | SEval (c : cfg) (script : list req)
  | SOpt (c : cfg) (script : list req) (inner : option (cfg * list (list req))).

(* evaluation events of a step -> program; the nested runs (one per outer evaluation) are placed
   before the START_EVALUATION of their outer request (_optimizer_callback runs the nested
   optimizer first) *)
Fixpoint items (sid : nat) (evs : list evt) (inners : list prog) : prog :=
  match evs with
  | [] => PSkip
  | StartEval :: t =>
      match inners with
      | ip :: rest => PSeq ip (PSeq (PEmit sid StartEval) (PSeq PCall (items sid t rest)))
      | [] => PSeq (PEmit sid StartEval) (PSeq PCall (items sid t []))
      end
  | e :: t => PSeq (PEmit sid e) (items sid t inners)
  end.

Definition is_eval_evt (e : evt) : bool := match e with StartEval | FinEval => true | _ => false end.
Definition inner_sid : nat := 100.

Definition compile_inner (ic : cfg) (script : list req) : option prog :=
  match run ic script 0 None with
  | (Exit ex, _, evs, _) => Some (PStep inner_sid SKOpt ex (items inner_sid evs []))
  | (Raise, _, _, _) => None
  end.

Fixpoint all_some {A} (l : list (option A)) : option (list A) :=
  match l with
  | [] => Some []
  | Some x :: t => match all_some t with Some r => Some (x :: r) | None => None end
  | None :: _ => None
  end.

Definition compile_step (sid : nat) (s : stepspec) : option prog :=
  match s with
  | SEval c script =>
      match script with
      | r :: _ =>
          match run_evaluator_step c r with
          | (Exit ex, _, evs) => Some (PStep sid SKEval ex (items sid (filter is_eval_evt evs) []))
          | (Raise, _, _) => None
          end
      | [] => None
      end
  | SOpt c script inner =>
      match run c script 0 None with
      | (Exit ex, _, evs, _) =>
          match inner with
          | None => Some (PStep sid SKOpt ex (items sid evs []))
          | Some (ic, scripts) =>
              match all_some (map (compile_inner ic) scripts) with
              | Some ips => Some (PStep sid SKOpt ex (items sid evs ips))
              | None => None
              end
          end
      | (Raise, _, _, _) => None
      end
  end.

Fixpoint compile_steps (i : nat) (l : list stepspec) : option (list prog) :=
  match l with
  | [] => Some []
  | s :: t =>
      match compile_step i s, compile_steps (S i) t with
      | Some p, Some ps => Some (p :: ps)
      | _, _ => None
      end
  end.

(* ---- well-formedness used by the theorems ---------------------------------------- *)
Fixpoint ids (p : prog) : list nat :=
  match p with
  | PSeq p q => ids p ++ ids q
  | PStep sid _ _ body => sid :: ids body
  | _ => []
  end.
(* a step never contains a step with its own id *)
Fixpoint wf (p : prog) : Prop :=
  match p with
  | PSeq p q => wf p /\ wf q
  | PStep sid _ _ body => ~ In sid (ids body) /\ wf body
  | _ => True
  end.
(* no step ends with USER_ABORT of its own accord (aborts come from the abort index only) *)
Fixpoint quiet (p : prog) : Prop :=
  match p with
  | PSeq p q => quiet p /\ quiet q
  | PStep _ _ ex body => ex <> UserAbort /\ quiet body
  | _ => True
  end.
