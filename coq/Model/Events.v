(* Model/Events.v -- delivery log of plan runs and the abort machine (C15).

   Mirrors
     ropt.plan._plan.Plan.emit_event   (own handlers in registration order, then the parent plan's
                                        emit_event, ..., finally OptimizerContext.call_observers),
     Plan.run_step / Plan.abort        (latched _aborted flag, PlanAborted for further steps),
     DefaultOptimizerStep.run / DefaultEvaluatorStep.run
                                       (START event, body, FINISHED event always emitted; an
                                        OptimizationAborted raised anywhere inside -> USER_ABORT,
                                        plan.abort()), and
     DefaultOptimizerStep._run_nested_plan / EnsembleOptimizer._optimizer_callback
                                       (the nested plan runs before the outer START_EVALUATION of
                                        every outer request; nested plan aborted -> outer aborts;
                                        nesting to any depth), and
     OptimizerContext.add_observer / call_observers
                                       (observers are registered per event type; BasicOptimizer's
                                        abort callback is an observer of START_EVALUATION only).

   Every delivery of an event to a handler or observer, and every call of the evaluator, is one
   entry of a global log.  The abort index k makes the recipient of entry number k raise
   OptimizationAborted(USER_ABORT).  Which evaluations a step performs and with which exit code it
   ends when nobody aborts comes from the exit-code machine Model/Step.v ([compile_step]).
   Definitions only; proofs are in Proofs/Events.v. *)
From Coq Require Import String List Bool Arith.
From Ropt Require Import Model.Step.
Import ListNotations.
Open Scope nat_scope.

Inductive entry :=
  | Deliv (rcpt : nat) (sid : nat) (e : evt)      (* event e of step sid handed to recipient rcpt *)
  | Call.                                         (* the user's evaluator is called *)

(* plans from the outermost (index 0) to the innermost, each with its handlers in registration
   order; the observers registered with the shared OptimizerContext for each event type, in
   registration order (OptimizerContext._subscribers) *)
Record world := { plans : list (list nat); obsv : evt -> list nat }.

(* Plan.emit_event on the plan whose ancestor path (itself first) is [path] *)
Fixpoint recipients_up (path : list (list nat)) (obs : list nat) : list nat :=
  match path with
  | [] => obs                                         (* no parent: call_observers *)
  | hs :: parents => hs ++ recipients_up parents obs  (* own handlers, then parent.emit_event *)
  end.
Definition path_of (w : world) (lvl : nat) : list (list nat) := rev (firstn (S lvl) (plans w)).
Definition recipients (w : world) (lvl : nat) (e : evt) : list nat := recipients_up (path_of w lvl) (obsv w e).

(* step ids: top-level steps are numbered 0, 1, ... (< 100); the step of the plan nested at depth d is 100 * d *)
Definition level_of (sid : nat) : nat := sid / 100.
Global Arguments level_of : simpl never.

Inductive stepkind := SKOpt | SKEval.
Definition start_of (sk : stepkind) : evt := match sk with SKOpt => StartOpt | SKEval => StartEvalStep end.
Definition fin_of (sk : stepkind) : evt := match sk with SKOpt => FinOpt | SKEval => FinEvalStep end.

(* what a plan run does, as seen from the event system *)
Inductive prog :=
  | PSkip
  | PEmit (sid : nat) (e : evt)                 (* step sid emits e through its plan *)
  | PCall                                       (* evaluator call *)
  | PSeq (p q : prog)
  | PStep (sid : nat) (sk : stepkind) (ex : code) (body : prog).
      (* Plan.run_step of step sid: START, body, FINISHED; ex = exit code when nobody aborts *)

Definition hit (k : option nat) (n : nat) : bool :=
  match k with Some k => n =? k | None => false end.

(* hand one event to the recipients in order; the recipient of log entry number k raises *)
Fixpoint deliver (k : option nat) (rc : list nat) (sid : nat) (e : evt) (log : list entry)
  : list entry * bool :=
  match rc with
  | [] => (log, false)
  | r :: t =>
      if hit k (length log) then (log ++ [Deliv r sid e], true)
      else deliver k t sid e (log ++ [Deliv r sid e])
  end.

Definition is_abort (c : code) : bool := match c with UserAbort => true | _ => false end.

(* returns (log, an abort leaves this program, exit codes of the run_step calls in completion order) *)
Fixpoint exec (w : world) (p : prog) (k : option nat) (log : list entry)
  : list entry * bool * list (nat * code) :=
  match p with
  | PSkip => (log, false, [])
  | PEmit sid e =>
      let (l, r) := deliver k (recipients w (level_of sid) e) sid e log in (l, r, [])
  | PCall => (log ++ [Call], hit k (length log), [])
  | PSeq p q =>
      let '(l1, r1, x1) := exec w p k log in
      if r1 then (l1, true, x1)
      else let '(l2, r2, x2) := exec w q k l1 in (l2, r2, x1 ++ x2)
  | PStep sid sk ex body =>
      let rc := recipients w (level_of sid) in
      (* try: START event; body   except OptimizationAborted: exit_code = USER_ABORT *)
      let (l0, r0) := deliver k (rc (start_of sk)) sid (start_of sk) log in
      let '(l1, r1, x1) := if r0 then (l0, true, []) else exec w body k l0 in
      let ex1 := if r1 then UserAbort else ex in
      (* FINISHED event is always emitted and may abort as well *)
      let (l2, r2) := deliver k (rc (fin_of sk)) sid (fin_of sk) l1 in
      let ex2 := if r2 then UserAbort else ex1 in
      (* USER_ABORT: plan.abort(); the caller (next run_step / the outer optimizer) sees the flag *)
      (l2, is_abort ex2, x1 ++ [(sid, ex2)])
  end.

(* ---- a sequence of run_step calls on the outermost plan -------------------------- *)
Inductive ret := RExit (c : code) | RPlanAborted.

(* ab = Plan._aborted of the outermost plan.  Returns (log, outcome of every run_step call, flag) *)
Fixpoint run_steps (w : world) (steps : list prog) (k : option nat) (log : list entry) (ab : bool)
  : list entry * list (nat * ret) * bool :=
  match steps with
  | [] => (log, [], ab)
  | p :: t =>
      let sid := match p with PStep s _ _ _ => s | _ => 0 end in
      if ab then
        let '(l, x, a) := run_steps w t k log ab in (l, (sid, RPlanAborted) :: x, a)
      else
        let '(l1, r1, x1) := exec w p k log in
        let '(l, x, a) := run_steps w t k l1 r1 in
        (l, map (fun sc => (fst sc, RExit (snd sc))) x1 ++ x, a)
  end.

(* ---- the sharpest form of the property: prefix + closure --------------------------- *)
Definition is_start (e : evt) : bool := match e with StartOpt | StartEvalStep => true | _ => false end.
Definition is_fin (e : evt) : bool := match e with FinOpt | FinEvalStep => true | _ => false end.
Definition fin_for (e : evt) : evt := match e with StartEvalStep => FinEvalStep | _ => FinOpt end.

(* the steps that are open after a log segment, innermost first, with their FINISHED event: a step
   opens with the first delivery of its START event and closes with the first delivery of its
   FINISHED event *)
Fixpoint scan (l : list entry) (st : list (nat * evt)) : list (nat * evt) :=
  match l with
  | [] => st
  | Call :: t => scan t st
  | Deliv _ sid e :: t =>
      if is_start e then
        match st with
        | (s, _) :: _ => if s =? sid then scan t st else scan t ((sid, fin_for e) :: st)
        | [] => scan t [(sid, fin_for e)]
        end
      else if is_fin e then
        match st with
        | (s, _) :: st' => if s =? sid then scan t st' else scan t st
        | [] => scan t []
        end
      else scan t st
  end.

(* the FINISHED event of every open step, innermost first, each to its full recipient list *)
Definition closure (w : world) (st : list (nat * evt)) : list entry :=
  flat_map (fun sf => map (fun r => Deliv r (fst sf) (snd sf)) (recipients w (level_of (fst sf)) (snd sf))) st.

(* the aborted log predicted from the unaborted log D *)
Definition predict (w : world) (D : list entry) (k : option nat) : list entry :=
  match k with
  | Some k => if k <? length D then firstn (S k) D ++ closure w (scan (firstn (S k) D) []) else D
  | None => D
  end.

(* ---- compiling steps from the exit-code machine ---------------------------------- *)
Inductive stepspec :=
  | SEval (c : cfg) (script : list req)
  | SOpt (t : nscript).              (* optimizer step, with its nested optimizations (Step.leaf: none) *)

Fixpoint pseq (l : list prog) : prog :=
  match l with [] => PSkip | p :: t => PSeq p (pseq t) end.
Definition sequence (f : tr -> option prog) :=
  fix go (l : list tr) : option (list prog) :=
    match l with
    | [] => Some []
    | x :: t => match f x, go t with Some p, Some ps => Some (p :: ps) | _, _ => None end
    end.

Definition nested_sid (lvl : nat) : nat := 100 * S lvl.

(* trace of a step at nesting level lvl -> program: every START_EVALUATION is followed by the evaluator call;
   every nested run is a complete run_step of the nested plan's step *)
Fixpoint tprog (lvl sid : nat) (x : tr) {struct x} : option prog :=
  match x with
  | TE StartEval => Some (PSeq (PEmit sid StartEval) PCall)
  | TE e => Some (PEmit sid e)
  | TInner Raise _ => None
  | TInner (Exit ex) sub =>
      option_map (fun ps => PStep (nested_sid lvl) SKOpt ex (pseq ps))
                 (sequence (tprog (S lvl) (nested_sid lvl)) sub)
  end.
Definition tbody (lvl sid : nat) (l : list tr) : option prog := option_map pseq (sequence (tprog lvl sid) l).

Definition is_eval_evt (e : evt) : bool := match e with StartEval | FinEval => true | _ => false end.

(* hs = the trackers of the nested plans (nearest first) already hold a result (they survive from step to step) *)
Definition compile_step (sid : nat) (s : stepspec) (hs : list bool) : option (prog * list bool) :=
  match s with
  | SEval c script =>
      match script with
      | r :: _ =>
          match run_evaluator_step c r with
          | (Exit ex, _, evs) =>
              option_map (fun b => (PStep sid SKEval ex b, hs)) (tbody 0 sid (map TE (filter is_eval_evt evs)))
          | (Raise, _, _) => None
          end
      | [] => None
      end
  | SOpt t =>
      match run_tree t hs with
      | (Exit ex, _, l, (hs', _)) => option_map (fun b => (PStep sid SKOpt ex b, hs')) (tbody 0 sid l)
      | (Raise, _, _, _) => None
      end
  end.

(* the steps come with their ids: a step object that is run again keeps its id *)
Fixpoint compile_steps (l : list (nat * stepspec)) (hs : list bool) : option (list prog) :=
  match l with
  | [] => Some []
  | (sid, s) :: t =>
      match compile_step sid s hs with
      | Some (p, hs') =>
          match compile_steps t hs' with Some ps => Some (p :: ps) | None => None end
      | None => None
      end
  end.

(* ---- specification of the run in which nobody aborts ------------------------------ *)
Definition block (rc : list nat) (sid : nat) (e : evt) : list entry := map (fun r => Deliv r sid e) rc.
Definition eblock (w : world) (sid : nat) (e : evt) : list entry := block (recipients w (level_of sid) e) sid e.

(* the unaborted delivery log of a program: every event is delivered once to its full recipient list *)
Fixpoint trace (w : world) (p : prog) : list entry :=
  match p with
  | PSkip => []
  | PEmit sid e => eblock w sid e
  | PCall => [Call]
  | PSeq p q => trace w p ++ trace w q
  | PStep sid sk _ body => eblock w sid (start_of sk) ++ trace w body ++ eblock w sid (fin_of sk)
  end.
(* exit codes of the run_step calls of the unaborted run, in completion order *)
Fixpoint rets (p : prog) : list (nat * code) :=
  match p with
  | PSeq p q => rets p ++ rets q
  | PStep sid _ ex body => rets body ++ [(sid, ex)]
  | _ => []
  end.

(* exit codes returned when entry number j of the program's own trace aborts: run_step calls completed
   before keep their code, every step whose span contains j returns USER_ABORT (innermost first),
   later run_step calls do not happen *)
Fixpoint arets (w : world) (p : prog) (j : nat) : list (nat * code) :=
  match p with
  | PSeq p q =>
      if j <? length (trace w p) then arets w p j else rets p ++ arets w q (j - length (trace w p))
  | PStep sid sk _ body =>
      let nb := length (recipients w (level_of sid) (start_of sk)) in
      (if j <? nb then []
       else if j <? nb + length (trace w body) then arets w body (j - nb)
       else rets body) ++ [(sid, UserAbort)]
  | _ => []
  end.

(* the same for a sequence of run_step calls on the outermost plan: after the aborted step every
   further run_step raises PlanAborted *)
Definition step_sid (p : prog) : nat := match p with PStep s _ _ _ => s | _ => 0 end.
Definition exits (x : list (nat * code)) : list (nat * ret) := map (fun sc => (fst sc, RExit (snd sc))) x.
Definition refused (ps : list prog) : list (nat * ret) := map (fun p => (step_sid p, RPlanAborted)) ps.
Fixpoint top_rets (w : world) (ps : list prog) (j : nat) : list (nat * ret) :=
  match ps with
  | [] => []
  | p :: t =>
      if j <? length (trace w p) then exits (arets w p j) ++ refused t
      else exits (rets p) ++ top_rets w t (j - length (trace w p))
  end.

(* ---- well-formedness used by the theorems ---------------------------------------- *)
Fixpoint ids (p : prog) : list nat :=
  match p with
  | PSeq p q => ids p ++ ids q
  | PStep sid _ _ body => sid :: ids body
  | _ => []
  end.
(* a step never contains a step with its own id; START_/FINISHED_ step events come from PStep only *)
Fixpoint wf (p : prog) : Prop :=
  match p with
  | PSeq p q => wf p /\ wf q
  | PStep sid _ _ body => ~ In sid (ids body) /\ wf body
  | PEmit _ e => is_start e = false /\ is_fin e = false   (* step events are emitted by PStep only *)
  | _ => True
  end.
(* no step ends with USER_ABORT of its own accord (aborts come from the abort index only) *)
Fixpoint quiet (p : prog) : Prop :=
  match p with
  | PSeq p q => quiet p /\ quiet q
  | PStep _ _ ex body => ex <> UserAbort /\ quiet body
  | _ => True
  end.

(* boolean versions, evaluated by the checker on every compiled scenario *)
Fixpoint wfb (p : prog) : bool :=
  match p with
  | PSeq p q => wfb p && wfb q
  | PStep sid _ _ body => negb (existsb (Nat.eqb sid) (ids body)) && wfb body
  | PEmit _ e => negb (is_start e) && negb (is_fin e)
  | _ => true
  end.
Fixpoint quietb (p : prog) : bool :=
  match p with
  | PSeq p q => quietb p && quietb q
  | PStep _ _ ex body => negb (is_abort ex) && quietb body
  | _ => true
  end.
