(* Model/Events.v -- delivery log of plan runs and the abort machine (C15).

   Mirrors
     ropt.plan._plan.Plan.emit_event   (own handlers in registration order, then the parent plan's
                                        emit_event, ..., finally OptimizerContext.call_observers),
     Plan.run_step / Plan.abort        (latched _aborted flag, PlanAborted for further steps),
     DefaultOptimizerStep.run / DefaultEvaluatorStep.run
                                       (START event, body, FINISHED event always emitted; an
                                        OptimizationAborted raised anywhere inside -> USER_ABORT,
                                        plan.abort()), and
     DefaultOptimizerStep._run_nested_plan / EnsembleOptimizer._optimizer_callback
                                       (the nested plan runs before the outer START_EVALUATION of
                                        every outer request; nested plan aborted -> outer aborts).

   Every delivery of an event to a handler or observer, and every call of the evaluator, is one
   entry of a global log.  The abort index k makes the recipient of entry number k raise
   OptimizationAborted(USER_ABORT).  Which evaluations a step performs and with which exit code it
   ends when nobody aborts comes from the exit-code machine Model/Step.v ([compile_step]).
   Definitions only; proofs are in Proofs/Events.v. *)
From Coq Require Import String List Bool Arith.
From Ropt Require Import Model.Step.
Import ListNotations.
Open Scope nat_scope.

Inductive entry :=
  | Deliv (rcpt : nat) (sid : nat) (e : evt)      (* event e of step sid handed to recipient rcpt *)
  | Call.                                         (* the user's evaluator is called *)

(* plans from the outermost (index 0) to the innermost, each with its handlers in registration
   order; the observers registered with the shared OptimizerContext *)
Record world := { plans : list (list nat); obsv : list nat }.

(* Plan.emit_event on the plan whose ancestor path (itself first) is [path] *)
Fixpoint recipients_up (path : list (list nat)) (obs : list nat) : list nat :=
  match path with
  | [] => obs                                         (* no parent: call_observers *)
  | hs :: parents => hs ++ recipients_up parents obs  (* own handlers, then parent.emit_event *)
  end.
Definition path_of (w : world) (lvl : nat) : list (list nat) := rev (firstn (S lvl) (plans w)).
Definition recipients (w : world) (lvl : nat) : list nat := recipients_up (path_of w lvl) (obsv w).

(* step ids: top-level steps are numbered 0, 1, ...; the step of the nested plan is 100 *)
Definition level_of (sid : nat) : nat := if 100 <=? sid then 1 else 0.

Inductive stepkind := SKOpt | SKEval.
Definition start_of (sk : stepkind) : evt := match sk with SKOpt => StartOpt | SKEval => StartEvalStep end.
Definition fin_of (sk : stepkind) : evt := match sk with SKOpt => FinOpt | SKEval => FinEvalStep end.

(* what a plan run does, as seen from the event system *)
Inductive prog :=
  | PSkip
  | PEmit (sid : nat) (e : evt)                 (* step sid emits e through its plan *)
  | PCall                                       (* evaluator call *)
  | PSeq (p q : prog)
  | PStep (sid : nat) (sk : stepkind) (ex : code) (body : prog).
      (* Plan.run_step of step sid: START, body, FINISHED; ex = exit code when nobody aborts *)

Definition hit (k : option nat) (n : nat) : bool :=
  match k with Some k => n =? k | None => false end.

(* hand one event to the recipients in order; the recipient of log entry number k raises *)
Fixpoint deliver (k : option nat) (rc : list nat) (sid : nat) (e : evt) (log : list entry)
  : list entry * bool :=
  match rc with
  | [] => (log, false)
  | r :: t =>
      if hit k (length log) then (log ++ [Deliv r sid e], true)
      else deliver k t sid e (log ++ [Deliv r sid e])
  end.

Definition is_abort (c : code) : bool := match c with UserAbort => true | _ => false end.

(* returns (log, an abort leaves this program, exit codes of the run_step calls in completion order) *)
Fixpoint exec (w : world) (p : prog) (k : option nat) (log : list entry)
  : list entry * bool * list (nat * code) :=
  match p with
  | PSkip => (log, false, [])
  | PEmit sid e =>
      let (l, r) := deliver k (recipients w (level_of sid)) sid e log in (l, r, [])
  | PCall => (log ++ [Call], hit k (length log), [])
  | PSeq p q =>
      let '(l1, r1, x1) := exec w p k log in
      if r1 then (l1, true, x1)
      else let '(l2, r2, x2) := exec w q k l1 in (l2, r2, x1 ++ x2)
  | PStep sid sk ex body =>
      let rc := recipients w (level_of sid) in
      (* try: START event; body   except OptimizationAborted: exit_code = USER_ABORT *)
      let (l0, r0) := deliver k rc sid (start_of sk) log in
      let '(l1, r1, x1) := if r0 then (l0, true, []) else exec w body k l0 in
      let ex1 := if r1 then UserAbort else ex in
      (* FINISHED event is always emitted and may abort as well *)
      let (l2, r2) := deliver k rc sid (fin_of sk) l1 in
      let ex2 := if r2 then UserAbort else ex1 in
      (* USER_ABORT: plan.abort(); the caller (next run_step / the outer optimizer) sees the flag *)
      (l2, is_abort ex2, x1 ++ [(sid, ex2)])
  end.

(* ---- a sequence of run_step calls on the outermost plan -------------------------- *)
Inductive ret := RExit (c : code) | RPlanAborted.

(* ab = Plan._aborted of the outermost plan.  Returns (log, outcome of every run_step call, flag) *)
Fixpoint run_steps (w : world) (steps : list prog) (k : option nat) (log : list entry) (ab : bool)
  : list entry * list (nat * ret) * bool :=
  match steps with
  | [] => (log, [], ab)
  | p :: t =>
      let sid := match p with PStep s _ _ _ => s | _ => 0 end in
      if ab then
        let '(l, x, a) := run_steps w t k log ab in (l, (sid, RPlanAborted) :: x, a)
      else
        let '(l1, r1, x1) := exec w p k log in
        let '(l, x, a) := run_steps w t k l1 r1 in
        (l, map (fun sc => (fst sc, RExit (snd sc))) x1 ++ x, a)
  end.

(* ---- the sharpest form of the property: prefix + closure --------------------------- *)
Definition is_start (e : evt) : bool := match e with StartOpt | StartEvalStep => true | _ => false end.
Definition is_fin (e : evt) : bool := match e with FinOpt | FinEvalStep => true | _ => false end.
Definition fin_for (e : evt) : evt := match e with StartEvalStep => FinEvalStep | _ => FinOpt end.

(* the steps that are open after a log segment, innermost first, with their FINISHED event: a step
   opens with the first delivery of its START event and closes with the first delivery of its
   FINISHED event *)
Fixpoint scan (l : list entry) (st : list (nat * evt)) : list (nat * evt) :=
  match l with
  | [] => st
  | Call :: t => scan t st
  | Deliv _ sid e :: t =>
      if is_start e then
        match st with
        | (s, _) :: _ => if s =? sid then scan t st else scan t ((sid, fin_for e) :: st)
        | [] => scan t [(sid, fin_for e)]
        end
      else if is_fin e then
        match st with
        | (s, _) :: st' => if s =? sid then scan t st' else scan t st
        | [] => scan t []
        end
      else scan t st
  end.

(* the FINISHED event of every open step, innermost first, each to its full recipient list *)
Definition closure (w : world) (st : list (nat * evt)) : list entry :=
  flat_map (fun sf => map (fun r => Deliv r (fst sf) (snd sf)) (recipients w (level_of (fst sf)))) st.

(* the aborted log predicted from the unaborted log D *)
Definition predict (w : world) (D : list entry) (k : option nat) : list entry :=
  match k with
  | Some k => if k <? length D then firstn (S k) D ++ closure w (scan (firstn (S k) D) []) else D
  | None => D
  end.

(* ---- compiling steps from the exit-code machine ---------------------------------- *)
Inductive stepspec :=
  | SEval (c : cfg) (script : list req)
  | SOpt (c : cfg) (script : list req) (inner : option (cfg * list (list req))).

(* evaluation events of a step -> program: every START_EVALUATION is followed by the evaluator call *)
Fixpoint items (sid : nat) (evs : list evt) : prog :=
  match evs with
  | [] => PSkip
  | StartEval :: t => PSeq (PEmit sid StartEval) (PSeq PCall (items sid t))
  | e :: t => PSeq (PEmit sid e) (items sid t)
  end.

Definition is_eval_evt (e : evt) : bool := match e with StartEval | FinEval => true | _ => false end.
Definition inner_sid : nat := 100.

(* trace of an outer step with a nested optimization: every nested run is a complete run_step of the
   inner plan's step, placed before the START_EVALUATION of its outer request *)
Fixpoint titems (sid : nat) (t : list tr) : option prog :=
  match t with
  | [] => Some PSkip
  | TE StartEval :: t' => option_map (fun q => PSeq (PEmit sid StartEval) (PSeq PCall q)) (titems sid t')
  | TE e :: t' => option_map (PSeq (PEmit sid e)) (titems sid t')
  | TInner (Exit ex) evs :: t' => option_map (PSeq (PStep inner_sid SKOpt ex (items inner_sid evs))) (titems sid t')
  | TInner Raise _ :: _ => None
  end.

(* has = the nested plan's tracker already holds a result (it survives from step to step) *)
Definition compile_step (sid : nat) (s : stepspec) (has : bool) : option (prog * bool) :=
  match s with
  | SEval c script =>
      match script with
      | r :: _ =>
          match run_evaluator_step c r with
          | (Exit ex, _, evs) => Some (PStep sid SKEval ex (items sid (filter is_eval_evt evs)), has)
          | (Raise, _, _) => None
          end
      | [] => None
      end
  | SOpt c script None =>
      match run c script 0 None with
      | (Exit ex, _, evs, _) => Some (PStep sid SKOpt ex (items sid evs), has)
      | (Raise, _, _, _) => None
      end
  | SOpt c script (Some (ic, scripts)) =>
      if negb (length scripts =? length script) then None else     (* one nested script per outer request *)
      match run_nested c ic (combine script scripts) 0 None has with
      | (Exit ex, _, t, (_, has')) =>
          match titems sid t with
          | Some body => Some (PStep sid SKOpt ex body, has')
          | None => None
          end
      | (Raise, _, _, _) => None
      end
  end.

Fixpoint compile_steps (i : nat) (l : list stepspec) (has : bool) : option (list prog) :=
  match l with
  | [] => Some []
  | s :: t =>
      match compile_step i s has with
      | Some (p, has') =>
          match compile_steps (S i) t has' with Some ps => Some (p :: ps) | None => None end
      | None => None
      end
  end.

(* ---- specification of the run in which nobody aborts ------------------------------ *)
Definition block (rc : list nat) (sid : nat) (e : evt) : list entry := map (fun r => Deliv r sid e) rc.

(* the unaborted delivery log of a program: every event is delivered once to its full recipient list *)
Fixpoint trace (w : world) (p : prog) : list entry :=
  match p with
  | PSkip => []
  | PEmit sid e => block (recipients w (level_of sid)) sid e
  | PCall => [Call]
  | PSeq p q => trace w p ++ trace w q
  | PStep sid sk _ body =>
      block (recipients w (level_of sid)) sid (start_of sk) ++ trace w body ++
      block (recipients w (level_of sid)) sid (fin_of sk)
  end.
(* exit codes of the run_step calls of the unaborted run, in completion order *)
Fixpoint rets (p : prog) : list (nat * code) :=
  match p with
  | PSeq p q => rets p ++ rets q
  | PStep sid _ ex body => rets body ++ [(sid, ex)]
  | _ => []
  end.

(* exit codes returned when entry number j of the program's own trace aborts: run_step calls completed
   before keep their code, every step whose span contains j returns USER_ABORT (innermost first),
   later run_step calls do not happen *)
Fixpoint arets (w : world) (p : prog) (j : nat) : list (nat * code) :=
  match p with
  | PSeq p q =>
      if j <? length (trace w p) then arets w p j else rets p ++ arets w q (j - length (trace w p))
  | PStep sid sk _ body =>
      let nb := length (recipients w (level_of sid)) in
      (if j <? nb then []
       else if j <? nb + length (trace w body) then arets w body (j - nb)
       else rets body) ++ [(sid, UserAbort)]
  | _ => []
  end.

(* the same for a sequence of run_step calls on the outermost plan: after the aborted step every
   further run_step raises PlanAborted *)
Definition step_sid (p : prog) : nat := match p with PStep s _ _ _ => s | _ => 0 end.
Definition exits (x : list (nat * code)) : list (nat * ret) := map (fun sc => (fst sc, RExit (snd sc))) x.
Definition refused (ps : list prog) : list (nat * ret) := map (fun p => (step_sid p, RPlanAborted)) ps.
Fixpoint top_rets (w : world) (ps : list prog) (j : nat) : list (nat * ret) :=
  match ps with
  | [] => []
  | p :: t =>
      if j <? length (trace w p) then exits (arets w p j) ++ refused t
      else exits (rets p) ++ top_rets w t (j - length (trace w p))
  end.

(* ---- well-formedness used by the theorems ---------------------------------------- *)
Fixpoint ids (p : prog) : list nat :=
  match p with
  | PSeq p q => ids p ++ ids q
  | PStep sid _ _ body => sid :: ids body
  | _ => []
  end.
(* a step never contains a step with its own id; START_/FINISHED_ step events come from PStep only *)
Fixpoint wf (p : prog) : Prop :=
  match p with
  | PSeq p q => wf p /\ wf q
  | PStep sid _ _ body => ~ In sid (ids body) /\ wf body
  | PEmit _ e => is_start e = false /\ is_fin e = false   (* step events are emitted by PStep only *)
  | _ => True
  end.
(* no step ends with USER_ABORT of its own accord (aborts come from the abort index only) *)
Fixpoint quiet (p : prog) : Prop :=
  match p with
  | PSeq p q => quiet p /\ quiet q
  | PStep _ _ ex body => ex <> UserAbort /\ quiet body
  | _ => True
  end.

(* boolean versions, evaluated by the checker on every compiled scenario *)
Fixpoint wfb (p : prog) : bool :=
  match p with
  | PSeq p q => wfb p && wfb q
  | PStep sid _ _ body => negb (existsb (Nat.eqb sid) (ids body)) && wfb body
  | PEmit _ e => negb (is_start e) && negb (is_fin e)
  | _ => true
  end.
Fixpoint quietb (p : prog) : bool :=
  match p with
  | PSeq p q => quietb p && quietb q
  | PStep _ _ ex body => negb (is_abort ex) && quietb body
  | _ => true
  end.
