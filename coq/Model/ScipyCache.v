(* Model/ScipyCache.v -- executable model of the SciPy plug-in's point cache (C07).
   Mirrors ropt/plugins/optimizer/scipy.py: _check_cached_variables, _get_function_or_gradient,
   _compute_functions_and_gradients, _function, _gradient, _constraint_functions,
   _constraint_gradients, the dict callables _fun/_jac (lazily filled NormalizedConstraints cache)
   and the NonlinearConstraint callables of differential_evolution; and the function cache of
   EnsembleEvaluator.calculate (_cache_for_gradient).
   Points are pool indices: [Single i] is a 1-D vector, [Batch l] a matrix of points (population
   methods); two requests are "the same point" iff they have the same shape and the same indices.
   Definitions only; the lemmas are in Proofs/ScipyCache.v. *)
From Coq Require Import QArith List Bool Arith String.
From Ropt Require Import Base.Num Base.ListX Gen.Generated Model.ScipyProblem.
Import ListNotations.

Inductive pt := Single (i : nat) | Batch (l : list nat).

Definition pt_eqb (a b : pt) : bool :=
  match a, b with
  | Single i, Single j => Nat.eqb i j
  | Batch l, Batch m => list_eqb Nat.eqb l m
  | _, _ => false
  end.
Definition is_batch (x : pt) : bool := match x with Batch _ => true | Single _ => false end.
Definition is_empty_batch (x : pt) : bool := match x with Batch [] => true | _ => false end.

(* the ensemble values at a pool point, as the optimizer callback returns them *)
Definition fval := (Q * list Q)%type.            (* weighted objective, non-linear constraint values *)
Definition gval := (list Q * mat)%type.          (* objective gradient, constraint gradient rows *)

Record config := {
  c_spec : bool;            (* optimizer.speculative *)
  c_split : bool;           (* optimizer.split_evaluations *)
  c_nograd : bool;          (* method in _NO_GRADIENT *)
  c_has_nl : bool;          (* config.nonlinear_constraints is not None *)
  c_rows : list row;        (* NormalizedConstraints rows of the dict callables *)
  c_lin : option mat        (* lin_coef bound into the dict callables *)
}.

(* one invocation of the optimizer callback: (variables, return_functions, return_gradients) *)
Definition inv := (pt * bool * bool)%type.

Inductive op :=
  | Obj (x : pt)                 (* fun(x) *)
  | Grad (x : pt)                (* jac(x) *)
  | Con (k : nat) (x : pt)       (* constraints[k]["fun"](x)  (minimize) *)
  | Jac (k : nat) (x : pt)       (* constraints[k]["jac"](x) *)
  | ConAll (x : pt)              (* NonlinearConstraint.fun(x)  (differential_evolution) *)
  | JacAll (x : pt).             (* NonlinearConstraint.jac(x) *)

Definition op_pt (o : op) : pt :=
  match o with Obj x | Grad x | Con _ x | Jac _ x | ConAll x | JacAll x => x end.

Inductive ret :=
  | RVec (v : list Q)
  | RMat (m : mat)
  | RErr.                        (* the callable raised (AssertionError / IndexError) *)

Record st := {
  cx : option pt;                (* _cached_variables *)
  cf : option (list fval);       (* _cached_function: one row per point *)
  cg : option gval;              (* _cached_gradient *)
  nc : option mat;               (* NormalizedConstraints._constraints *)
  nj : option mat                (* NormalizedConstraints._gradients *)
}.
Definition empty : st := {| cx := None; cf := None; cg := None; nc := None; nj := None |}.

(* _check_cached_variables: reset everything unless the point (shape and values) is the cached one *)
Definition invalidate (x : pt) (s : st) : st :=
  match cx s with
  | Some y => if pt_eqb x y then s else empty
  | None => empty
  end.

Fixpoint transpose_n (n : nat) (m : mat) : mat :=   (* n = number of columns *)
  match n with
  | O => []
  | S n' => map (fun r => hd 0 r) m :: transpose_n n' (map (fun r => tl r) m)
  end.
(* functions[:, 1:].transpose(): one row per constraint, one column per point *)
Definition transpose (m : mat) : mat := transpose_n (List.length (hd [] m)) m.

Section WithOracle.
  Variable Fp : nat -> fval.        (* ensemble functions at pool point i *)
  Variable Gp : nat -> gval.        (* ensemble gradients at pool point i *)
  Variable Xp : nat -> list Q.      (* coordinates of pool point i (for lin_coef @ x) *)
  Variable c : config.

  (* what the optimizer callback returns for a point *)
  Definition Fm (x : pt) : list fval :=
    match x with Single i => [Fp i] | Batch l => map Fp l end.

  (* _compute_functions_and_gradients: the callback invocations *)
  Definition compute_calls (x : pt) (cmp_f cmp_g : bool) : list inv :=
    if cmp_f && cmp_g && c_split c then [(x, true, false); (x, false, true)] else [(x, cmp_f, cmp_g)].

  (* _get_function_or_gradient for a single point (gradients are never computed for batches).
     Returns the new state, the callback invocations, and the (function, gradient) pair. *)
  Definition fetch (s : st) (i : nat) (get_f get_g : bool)
    : st * list inv * option (list fval) * option gval :=
    let x := Single i in
    let get_g := get_g && negb (c_nograd c) in
    let s0 := invalidate x s in
    let function := if get_f then cf s0 else None in
    let gradient := if get_g then cg s0 else None in
    let cmp_f := get_f && is_none function in
    let cmp_g := get_g && is_none gradient in
    if cmp_f || cmp_g then
      let sp := c_spec c && negb (c_nograd c) in
      let cmp_f := cmp_f || sp in
      let cmp_g := cmp_g || sp in
      let s1 := {| cx := Some x;
                   cf := if cmp_f then Some (Fm x) else cf s0;
                   cg := if cmp_g then Some (Gp i) else cg s0;
                   nc := nc s0; nj := nj s0 |} in
      (s1, compute_calls x cmp_f cmp_g,
       if get_f then (if cmp_f then Some (Fm x) else function) else None,
       if get_g then (if cmp_g then Some (Gp i) else gradient) else None)
    else (s0, [], function, gradient).

  (* the same for a batch: only functions (the guard in [step] admits batches only for
     gradient-free methods, for which get_gradient is forced to False and speculative is off) *)
  Definition fetch_batch (s : st) (l : list nat) : st * list inv * option (list fval) :=
    let x := Batch l in
    let s0 := invalidate x s in
    match cf s0 with
    | Some f => (s0, [], Some f)
    | None =>
        ({| cx := Some x; cf := Some (Fm x); cg := cg s0; nc := nc s0; nj := nj s0 |},
         compute_calls x true false, Some (Fm x))
    end.

  (* raw constraint values / Jacobian rows the dict callables normalise *)
  Definition raw_con (f : fval) (i : nat) : mat :=
    (if c_has_nl c then map (fun v => [v]) (snd f) else []) ++
    match c_lin c with Some A => map (fun v => [v]) (matvec A (Xp i)) | None => [] end.
  Definition raw_jac (g : gval) : mat :=
    (if c_has_nl c then snd g else []) ++ match c_lin c with Some A => A | None => [] end.

  Definition row_ret (m : option mat) (k : nat) : ret :=
    match m with
    | Some rows => match nth_error rows k with Some v => RVec v | None => RErr end
    | None => RErr
    end.

  Definition set_nc (s : st) (v : option mat) : st :=
    {| cx := cx s; cf := cf s; cg := cg s; nc := v; nj := nj s |}.
  Definition set_nj (s : st) (v : option mat) : st :=
    {| cx := cx s; cf := cf s; cg := cg s; nc := nc s; nj := v |}.

  Definition step (s : st) (o : op) : st * list inv * ret :=
    match o with
    (* --- single points ----------------------------------------------------------------------- *)
    | Obj (Single i) =>
        let '(s1, calls, f, _) := fetch s i true false in
        (s1, calls, match f with Some [fv] => RVec [fst fv] | _ => RErr end)
    | Grad (Single i) =>
        let '(s1, calls, _, g) := fetch s i false true in
        (s1, calls, match g with Some gv => RVec (fst gv) | None => RErr end)   (* assert gradients is not None *)
    | Con k (Single i) =>
        let s0 := invalidate (Single i) s in
        match nc s0 with
        | Some _ => (s0, [], row_ret (nc s0) k)
        | None =>
            (* the non-linear part comes from _constraint_functions (only when configured) *)
            let '(s1, calls, f) :=
              if c_has_nl c then let '(s1, calls, f, _) := fetch s0 i true false in (s1, calls, f)
              else (s0, [], Some [Fp i]) in
            match f with
            | Some [fv] =>
                let v := norm_values (c_rows c) (raw_con fv i) in
                (set_nc s1 v, calls, row_ret v k)
            | _ => (s1, calls, RErr)
            end
        end
    | Jac k (Single i) =>
        let s0 := invalidate (Single i) s in
        match nj s0 with
        | Some _ => (s0, [], row_ret (nj s0) k)
        | None =>
            let '(s1, calls, g) :=
              if c_has_nl c then let '(s1, calls, _, g) := fetch s0 i false true in (s1, calls, g)
              else (s0, [], Some (Gp i)) in
            match g with
            | Some gv =>
                let v := norm_jac (c_rows c) (raw_jac gv) in
                (set_nj s1 v, calls, row_ret v k)
            | None => (s1, calls, RErr)                         (* assert gradients is not None *)
            end
        end
    | ConAll (Single i) =>
        let '(s1, calls, f, _) := fetch s i true false in
        (s1, calls, match f with Some [fv] => RVec (snd fv) | _ => RErr end)
    | JacAll (Single i) =>
        let '(s1, calls, _, g) := fetch s i false true in
        (s1, calls, match g with Some gv => RMat (snd gv) | None => RErr end)
    (* --- batches (population methods) -------------------------------------------------------- *)
    | Obj (Batch l) =>
        if negb (c_nograd c) then (s, [], RErr)                 (* outside the modelled domain *)
        else match l with
        | [] => (s, [], RVec [])                                (* variables.size == 0: nothing happens *)
        | _ => let '(s1, calls, f) := fetch_batch s l in
               (s1, calls, match f with Some fs => RVec (map fst fs) | None => RErr end)
        end
    | ConAll (Batch l) =>
        if negb (c_nograd c) then (s, [], RErr)
        else match l with
        | [] => (s, [], RVec [])
        | _ => let '(s1, calls, f) := fetch_batch s l in
               (s1, calls, match f with
                           | Some fs => RMat (transpose (map snd fs))
                           | None => RErr end)
        end
    | JacAll (Batch l) =>
        if negb (c_nograd c) then (s, [], RErr)
        else (invalidate (Batch l) s, [], RErr)                 (* get_gradient forced off: assert fails *)
    | Grad (Batch _) | Con _ (Batch _) | Jac _ (Batch _) => (s, [], RErr)   (* never issued: not modelled *)
    end.

  (* ---- EnsembleEvaluator.calculate: which rows the user's evaluator is asked for -------------- *)
  Inductive evcall :=
    | EvF (x : pt)          (* functions only, all points of x *)
    | EvG (i : nat)         (* perturbations only: the cached functions of the same point are reused *)
    | EvFG (i : nat)        (* functions and perturbations in one call *)
    | EvBad.                (* assert variables.ndim == 1 *)

  Definition first_pt (x : pt) : option nat :=
    match x with Single i => Some i | Batch l => hd_error l end.

  Definition calculate (ec : option nat) (iv : inv) : option nat * evcall :=
    let '(x, rf, rg) := iv in
    if rf && negb rg then (first_pt x, EvF x)
    else match x with
         | Batch _ => (ec, EvBad)
         | Single i =>
             if negb rf && match ec with Some j => Nat.eqb i j | None => false end
             then (ec, EvG i) else (None, EvFG i)
         end.

  Fixpoint calc_all (ec : option nat) (ivs : list inv) : option nat * list (inv * evcall) :=
    match ivs with
    | [] => (ec, [])
    | iv :: t => let (ec1, e) := calculate ec iv in
                 let (ec2, r) := calc_all ec1 t in (ec2, (iv, e) :: r)
    end.

  (* ---- a whole request sequence ------------------------------------------------------------- *)
  Fixpoint run (s : st) (ops : list op) : list (op * list inv * ret) :=
    match ops with
    | [] => []
    | o :: t => let '(s1, calls, r) := step s o in (o, calls, r) :: run s1 t
    end.

  (* the state after a sequence, and all callback invocations of a run *)
  Fixpoint exec (s : st) (ops : list op) : st :=
    match ops with
    | [] => s
    | o :: t => let '(s1, _, _) := step s o in exec s1 t
    end.
  Definition all_calls (rs : list (op * list inv * ret)) : list inv :=
    List.concat (map (fun t => snd (fst t)) rs).

  Fixpoint run_ev (s : st) (ec : option nat) (ops : list op) : list (ret * list (inv * evcall)) :=
    match ops with
    | [] => []
    | o :: t => let '(s1, calls, r) := step s o in
                let (ec1, evs) := calc_all ec calls in
                (r, evs) :: run_ev s1 ec1 t
    end.

  (* ---- several runs on ONE plug-in object and ONE EnsembleEvaluator ------------------------------
     SciPyOptimizer.start() clears _cached_variables/_cached_function/_cached_gradient; the
     NormalizedConstraints object (and EnsembleEvaluator._cache_for_gradient) is kept as it is. *)
  Definition restart (s : st) : st := {| cx := None; cf := None; cg := None; nc := nc s; nj := nj s |}.

  Fixpoint exec_ev (s : st) (ec : option nat) (ops : list op) : st * option nat :=
    match ops with
    | [] => (s, ec)
    | o :: t => let '(s1, calls, _) := step s o in
                let (ec1, _) := calc_all ec calls in exec_ev s1 ec1 t
    end.

  Fixpoint run_chain (s : st) (ec : option nat) (seqs : list (list op))
    : list (list (ret * list (inv * evcall))) :=
    match seqs with
    | [] => []
    | ops :: t => let s0 := restart s in
                  run_ev s0 ec ops :: (let (s1, ec1) := exec_ev s0 ec ops in run_chain s1 ec1 t)
    end.

  (* ---- the specification: the value of a request computed directly from the oracle ------------ *)
  Definition expected (o : op) : ret :=
    match o with
    | Obj (Single i) => RVec [fst (Fp i)]
    | Grad (Single i) => if c_nograd c then RErr else RVec (fst (Gp i))
    | Con k (Single i) => row_ret (norm_values (c_rows c) (raw_con (Fp i) i)) k
    | Jac k (Single i) =>
        if c_has_nl c && c_nograd c then RErr else row_ret (norm_jac (c_rows c) (raw_jac (Gp i))) k
    | ConAll (Single i) => RVec (snd (Fp i))
    | JacAll (Single i) => if c_nograd c then RErr else RMat (snd (Gp i))
    | Obj (Batch l) => if negb (c_nograd c) then RErr else RVec (map (fun i => fst (Fp i)) l)
    | ConAll (Batch l) =>
        if negb (c_nograd c) then RErr else
        match l with
        | [] => RVec []
        | _ => RMat (transpose (map (fun i => snd (Fp i)) l))
        end
    | JacAll (Batch _) | Grad (Batch _) | Con _ (Batch _) | Jac _ (Batch _) => RErr
    end.
End WithOracle.

Definition rf_of (iv : inv) : bool := snd (fst iv).      (* return_functions *)
Definition rg_of (iv : inv) : bool := snd iv.            (* return_gradients *)
Definition pt_of (iv : inv) : pt := fst (fst iv).
Definition count_rf (l : list inv) : nat := List.length (filter rf_of l).
Definition count_rg (l : list inv) : nat := List.length (filter rg_of l).
(* shape of the array handed to a callable: None = 1-D vector, Some n = matrix of n points *)
Definition shape (x : pt) : option nat := match x with Single _ => None | Batch l => Some (List.length l) end.

Definition with_spec (b : bool) (c : config) : config :=
  {| c_spec := b; c_split := c_split c; c_nograd := c_nograd c; c_has_nl := c_has_nl c;
     c_rows := c_rows c; c_lin := c_lin c |}.

(* configuration of the cache model from the problem description (method tables are generated) *)
Definition make_config (p : problem) (spec split : bool) : option config :=
  match construct p with
  | None => None
  | Some h =>
      Some {| c_spec := spec; c_split := split;
              c_nograd := mem (p_method p) scipy_no_gradient;
              c_has_nl := match p_nl p with Some _ => true | None => false end;
              c_rows := h_rows h;
              c_lin := if h_de h then None else option_map l_A (h_lin h) |}
  end.
