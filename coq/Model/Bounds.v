(* Model/Bounds.v -- executable model of the perturbation code of
   ropt/ensemble_evaluator/_gradient.py (_apply_bounds, _perturb_variables) and of
   GradientConfig.fix_perturbations (magnitudes).  Definitions only; lemmas are in Proofs/Bounds.v.

   Representation: finite float -> Q, a bound -> ereal (-inf | Fin q | +inf), boundary / perturbation
   types -> the numeric enum codes of the source (Z), looked up by name in the generated tables, the
   (realizations x perturbations x variables) sample array -> list (list (list Q)). *)
From Coq Require Import QArith ZArith List Bool String Arith.
From Ropt Require Import Base.Num Base.ListX Gen.Generated.
Import ListNotations.
Open Scope Q_scope.

(* ---- enum codes (regenerated from ropt/enums.py on every run) ---------------------------------- *)
Fixpoint enum_code (name : string) (tbl : list (string * Z)) : Z :=
  match tbl with
  | [] => (-1)%Z
  | (n, z) :: t => if String.eqb n name then z else enum_code name t
  end.
Definition bt_none : Z := enum_code "NONE" enum_BoundaryType.
Definition bt_truncate : Z := enum_code "TRUNCATE_BOTH" enum_BoundaryType.
Definition bt_mirror : Z := enum_code "MIRROR_BOTH" enum_BoundaryType.
Definition pt_absolute : Z := enum_code "ABSOLUTE" enum_PerturbationType.
Definition pt_relative : Z := enum_code "RELATIVE" enum_PerturbationType.

(* ---- one component of _apply_bounds ------------------------------------------------------------- *)
(* variables < lower_bounds ; variables > upper_bounds *)
Definition below (y : Q) (lb : ereal) : bool :=
  match lb with Fin l => Qltb y l | NInf => false | PInf => true end.
Definition above (y : Q) (ub : ereal) : bool :=
  match ub with Fin u => Qltb u y | PInf => false | NInf => true end.
(* 2 * bounds - variables (only ever selected at a finite bound when the bounds are proper, see [okb]) *)
Definition refl (b : ereal) (y : Q) : Q := match b with Fin c => 2 * c - y | _ => y end.
(* the inner helper: np.where(mask & condition, 2 * bounds - variables, variables) *)
Definition mirror (mask cond : bool) (b : ereal) (v : Q) : Q := if mask && cond then refl b v else v.
(* one pass of the first loop (mask1: started below the lower bound) / of the second loop (mask2) *)
Definition mstep_lo (m : bool) (lb ub : ereal) (v : Q) : Q :=
  let v1 := mirror m (below v lb) lb v in mirror m (above v1 ub) ub v1.
Definition mstep_hi (m : bool) (lb ub : ereal) (v : Q) : Q :=
  let v1 := mirror m (above v ub) ub v in mirror m (below v1 lb) lb v1.
Fixpoint iter {A} (n : nat) (f : A -> A) (x : A) : A :=
  match n with O => x | S k => iter k f (f x) end.
(* np.clip(v, lb, ub) = minimum(maximum(v, lb), ub) *)
Definition clip (lb ub : ereal) (v : Q) : Q :=
  let v1 := match lb with Fin l => if Qleb l v then v else l | _ => v end in
  match ub with Fin u => if Qleb v1 u then v1 else u | _ => v1 end.

Definition apply_bounds_gen (rep : nat) (t : Z) (lb ub : ereal) (y : Q) : Q :=
  let is_mirror := Z.eqb t bt_mirror in
  let mask1 := is_mirror && below y lb in          (* computed once, from the incoming value *)
  let mask2 := is_mirror && above y ub in
  let v1 := iter rep (mstep_lo mask1 lb ub) y in
  let v2 := iter rep (mstep_hi mask2 lb ub) v1 in
  if Z.eqb t bt_none then v2 else clip lb ub v2.
Definition apply_bounds_1 : Z -> ereal -> ereal -> Q -> Q := apply_bounds_gen mirror_repeat.

(* proper bounds: lower is not +inf, upper is not -inf, lower <= upper (VariablesConfig rejects
   lower > upper; a vector inside the bounds exists only for such bounds) *)
Definition okb (lb ub : ereal) : bool :=
  match lb, ub with
  | PInf, _ | _, NInf => false
  | Fin l, Fin u => Qleb l u
  | _, _ => true
  end.
Definition inb (lb ub : ereal) (y : Q) : bool := negb (below y lb) && negb (above y ub).

(* ---- vectors and the (R, P, V) array ------------------------------------------------------------ *)
Fixpoint apply_bounds (ts : list Z) (lbs ubs : list ereal) (ys : list Q) : list Q :=
  match ts, lbs, ubs, ys with
  | t :: ts', l :: lbs', u :: ubs', y :: ys' => apply_bounds_1 t l u y :: apply_bounds ts' lbs' ubs' ys'
  | _, _, _, _ => []
  end.

Definition arr3 := list (list (list Q)).
Fixpoint map2 {A B C} (f : A -> B -> C) (a : list A) (b : list B) : list C :=
  match a, b with x :: a', y :: b' => f x y :: map2 f a' b' | _, _ => [] end.
Definition add3 (a b : arr3) : arr3 := map2 (map2 (map2 Qplus)) a b.
(* samples of the first sampler, the others added in order (`samples += ...`) *)
Definition sum_samples (ss : list arr3) : arr3 :=
  match ss with [] => [] | s :: rest => fold_left add3 rest s end.

(* variables + perturbation_magnitudes * samples, one row *)
Fixpoint pre_bounds (x mags s : list Q) : list Q :=
  match x, mags, s with
  | xv :: x', m :: mags', sv :: s' => (xv + m * sv) :: pre_bounds x' mags' s'
  | _, _, _ => []
  end.
Definition perturb_row (ts : list Z) (lbs ubs : list ereal) (x mags s : list Q) : list Q :=
  apply_bounds ts lbs ubs (pre_bounds x mags s).
Definition perturb (ts : list Z) (lbs ubs : list ereal) (x mags : list Q) (samples : arr3) : arr3 :=
  map (map (perturb_row ts lbs ubs x mags)) samples.

(* ---- GradientConfig.fix_perturbations ----------------------------------------------------------- *)
Inductive mag_result := MagOk (m : list Q) | MagInfinite | MagShape.
(* np.broadcast_to(a, (n,)) for a 1-D array: size 1 or size n *)
Definition broadcast {A} (n : nat) (l : list A) : option (list A) :=
  match l with
  | [x] => Some (repeat x n)
  | _ => if Nat.eqb (List.length l) n then Some l else None
  end.
Fixpoint rel_finite (pts : list Z) (lbs ubs : list ereal) : bool :=
  match pts, lbs, ubs with
  | p :: pts', l :: lbs', u :: ubs' =>
      (negb (Z.eqb p pt_relative) || (efinite l && efinite u)) && rel_finite pts' lbs' ubs'
  | _, _, _ => true
  end.
Definition magnitude_1 (p : Z) (lb ub : ereal) (m : Q) : Q :=
  if Z.eqb p pt_relative
  then match lb, ub with Fin l, Fin u => (u - l) * m | _, _ => m end
  else m.
Fixpoint magnitudes_vec (pts : list Z) (lbs ubs : list ereal) (ms : list Q) : list Q :=
  match pts, lbs, ubs, ms with
  | p :: pts', l :: lbs', u :: ubs', m :: ms' => magnitude_1 p l u m :: magnitudes_vec pts' lbs' ubs' ms'
  | _, _, _, _ => []
  end.
Definition magnitudes_of (pts : list Z) (lbs ubs : list ereal) (ms : list Q) : mag_result :=
  let n := List.length lbs in
  match broadcast n ms, broadcast n pts with
  | Some ms', Some pts' =>
      if rel_finite pts' lbs ubs then MagOk (magnitudes_vec pts' lbs ubs ms') else MagInfinite
  | _, _ => MagShape
  end.

(* ---- a VariableScaler in force (user = optimizer * scale + offset, scale > 0) -------------------- *)
(* VariablesConfig stores initial values and bounds in the optimizer domain: to_optimizer = (v - offset) / scale;
   GradientConfig.fix_perturbations then takes RELATIVE magnitudes from those transformed bounds and divides
   ABSOLUTE magnitudes by the scale (VariableScaler.magnitudes_to_optimizer) *)
Definition to_opt1 (s o x : Q) : Q := (x - o) / s.
Definition from_opt1 (s o x : Q) : Q := x * s + o.
Definition eb_to_opt (s o : Q) (b : ereal) : ereal := match b with Fin q => Fin (to_opt1 s o q) | e => e end.
Fixpoint map3 {A B C D} (f : A -> B -> C -> D) (a : list A) (b : list B) (c : list C) : list D :=
  match a, b, c with x :: a', y :: b', z :: c' => f x y z :: map3 f a' b' c' | _, _, _ => [] end.
Definition vec_to_opt (ss os x : list Q) : list Q := map3 to_opt1 ss os x.
Definition vec_from_opt (ss os x : list Q) : list Q := map3 from_opt1 ss os x.
Definition bounds_to_opt (ss os : list Q) (bs : list ereal) : list ereal := map3 eb_to_opt ss os bs.
Definition magnitude_1s (p : Z) (lb ub : ereal) (s m : Q) : Q :=     (* lb, ub: optimizer domain *)
  if Z.eqb p pt_relative
  then match lb, ub with Fin l, Fin u => (u - l) * m | _, _ => m end
  else m / s.
Fixpoint magnitudes_vec_s (pts : list Z) (lbs ubs : list ereal) (ss ms : list Q) : list Q :=
  match pts, lbs, ubs, ss, ms with
  | p :: pts', l :: lbs', u :: ubs', s :: ss', m :: ms' =>
      magnitude_1s p l u s m :: magnitudes_vec_s pts' lbs' ubs' ss' ms'
  | _, _, _, _, _ => []
  end.
(* the whole of fix_perturbations for user-domain bounds [lbs]/[ubs] and a scaler [ss]/[os] *)
Definition magnitudes_scaled (pts : list Z) (lbs ubs : list ereal) (ss os ms : list Q) : mag_result :=
  let n := List.length lbs in
  let lbs' := bounds_to_opt ss os lbs in
  let ubs' := bounds_to_opt ss os ubs in
  match broadcast n ms, broadcast n pts with
  | Some ms', Some pts' =>
      if rel_finite pts' lbs' ubs' then MagOk (magnitudes_vec_s pts' lbs' ubs' ss ms') else MagInfinite
  | _, _ => MagShape
  end.
