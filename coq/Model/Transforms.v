(* Model/Transforms.v -- C11: scaling transforms.
   Executable model of ropt.transforms.VariableScaler (to/from_optimizer, magnitudes_to_optimizer,
   linear_constraints_to_optimizer with equation scaling, the difference back-transforms), of the places
   where EnOptConfig validation applies it (VariablesConfig bounds and initial values, GradientConfig
   magnitudes, LinearConstraintsConfig, NonlinearConstraintsConfig), of the diagonal objective / constraint
   scalers users write, of _perturb_variables / _apply_bounds (own per-component copy of the boundary
   function, kept here for the equivariance theorem) and of the variable vectors handed to the evaluator.
   Absent scales / offsets are the neutral vectors of ones / zeros.  Definitions only. *)
From Coq Require Import String ZArith QArith Qabs Qminmax Bool List.
From Ropt Require Import Base.Num Base.ListX Model.ConstraintInfo Gen.Generated.
Import ListNotations.
Open Scope Q_scope.

(* ---- VariableScaler ---------------------------------------------------------------- *)
(* to_optimizer: values - offsets, then / scales;  from_optimizer: values * scales, then + offsets *)
Definition to_opt (ss os x : list Q) : list Q := zipw Qdiv (zipw Qminus x os) ss.
Definition from_opt (ss os y : list Q) : list Q := zipw Qplus (zipw Qmult y ss) os.
Definition magnitudes_to_opt (ss m : list Q) : list Q := zipw Qdiv m ss.

(* the same on bound vectors, which may hold infinite entries *)
Definition esubq (e : ereal) (o : Q) : ereal := match e with Fin q => Fin (q - o) | _ => e end.
Definition edivq (e : ereal) (s : Q) : ereal :=
  match e with Fin q => Fin (q / s) | _ => if Qltb 0 s then e else eneg e end.
Definition bounds_to_opt (ss os : list Q) (b : list ereal) : list ereal := zipw edivq (zipw esubq b os) ss.

(* linear_constraints_to_optimizer: right-hand sides corrected by A.offsets, columns multiplied by the
   scales, every row (and its bounds) divided by its largest absolute coefficient (equation scaling).
   An all-zero row has equation scaling 0: outside the property's domain, reported as None. *)
Definition qabs_max (r : list Q) : Q := fold_right (fun a m => Qmax (Qabs a) m) 0 r.
Definition scale_rows (A : list (list Q)) (ss : list Q) : list (list Q) := map (fun r => zipw Qmult r ss) A.
Definition equation_scaling (A : list (list Q)) (ss : list Q) : list Q := map qabs_max (scale_rows A ss).
Definition linear_to_opt (ss os : list Q) (lc : lincfg) : option (lincfg * list Q) :=
  let offs := matvec (l_coef lc) os in
  let eq := equation_scaling (l_coef lc) ss in
  if forallb (fun e => Qltb 0 e) eq then
    Some ({| l_coef := zipw (fun r e => map (fun a => a / e) r) (scale_rows (l_coef lc) ss) eq;
             l_lower := zipw edivq (zipw esubq (l_lower lc) offs) eq;
             l_upper := zipw edivq (zipw esubq (l_upper lc) offs) eq |}, eq)
  else None.

(* back-transforms of the constraint differences *)
Definition diffs_from_opt (k : list Q) (d : list ereal) : list ereal := zipw (fun e s => escale s e) d k.

(* ---- diagonal objective / non-linear constraint scalers ---------------------------------- *)
Definition fun_to_opt (sc f : list Q) : list Q := zipw Qdiv f sc.
Definition fun_from_opt (sc f : list Q) : list Q := zipw Qmult f sc.
Definition ebounds_div (sc : list Q) (b : list ereal) : list ereal := zipw edivq b sc.

(* ---- the part of the configuration C13 reads, transformed at validation -------------------- *)
Definition ccfg_to_opt (ss os nls : list Q) (cfg : ccfg) : option (ccfg * option (list Q)) :=
  let lin := match c_linear cfg with
             | Some lc => match linear_to_opt ss os lc with Some (lc', eq) => Some (Some lc', Some eq) | None => None end
             | None => Some (None, None) end in
  match lin with
  | Some (lc', eq) =>
    Some ({| v_lower := bounds_to_opt ss os (v_lower cfg); v_upper := bounds_to_opt ss os (v_upper cfg);
             c_linear := lc';
             c_nonlinear := match c_nonlinear cfg with
                            | Some (lo, up) => Some (ebounds_div nls lo, ebounds_div nls up) | None => None end |}, eq)
  | None => None
  end.

(* ---- perturbation magnitudes (GradientConfig.fix_perturbations) ---------------------------- *)
Inductive ptype := PAbs | PRel.
Inductive btype := BNone | BTrunc | BMirror.

Definition code_name (tbl : list (string * Z)) (z : Z) : option string :=
  match find (fun p => Z.eqb (snd p) z) tbl with Some p => Some (fst p) | None => None end.
Definition ptype_of_code (z : Z) : option ptype :=
  match code_name enum_PerturbationType z with
  | Some n => if String.eqb n "ABSOLUTE" then Some PAbs else if String.eqb n "RELATIVE" then Some PRel else None
  | None => None end.
Definition btype_of_code (z : Z) : option btype :=
  match code_name enum_BoundaryType z with
  | Some n => if String.eqb n "NONE" then Some BNone else if String.eqb n "TRUNCATE_BOTH" then Some BTrunc
              else if String.eqb n "MIRROR_BOTH" then Some BMirror else None
  | None => None end.

(* one variable: bounds already in the optimizer domain; relative = (upper - lower) * m needs finite
   bounds (ValueError otherwise: None); absolute = m / scale *)
Definition fix_magnitude (s : Q) (lb ub : ereal) (pt : ptype) (m : Q) : option Q :=
  match pt with
  | PRel => match lb, ub with Fin l, Fin u => Some ((u - l) * m) | _, _ => None end
  | PAbs => Some (m / s)
  end.

Fixpoint zipw5 {A B C D E F} (f : A -> B -> C -> D -> E -> F)
    (a : list A) (b : list B) (c : list C) (d : list D) (e : list E) : list F :=
  match a, b, c, d, e with
  | x1 :: a', x2 :: b', x3 :: c', x4 :: d', x5 :: e' => f x1 x2 x3 x4 x5 :: zipw5 f a' b' c' d' e'
  | _, _, _, _, _ => []
  end.
Fixpoint all_some {A} (l : list (option A)) : option (list A) :=
  match l with
  | [] => Some []
  | Some x :: t => match all_some t with Some r => Some (x :: r) | None => None end
  | None :: _ => None
  end.
Definition fix_magnitudes (ss : list Q) (lb ub : list ereal) (pt : list ptype) (m : list Q) : option (list Q) :=
  all_some (zipw5 fix_magnitude ss lb ub pt m).

(* ---- _apply_bounds, one component ----------------------------------------------------------- *)
(* assumption (ASSUMPTIONS of C11): a lower bound is never +inf, an upper bound never -inf *)
Definition below (y : Q) (lb : ereal) : bool := match lb with Fin l => Qltb y l | _ => false end.   (* y < lb *)
Definition above (y : Q) (ub : ereal) : bool := match ub with Fin u => Qltb u y | _ => false end.   (* y > ub *)
Definition refl (b : ereal) (y : Q) : Q := match b with Fin c => 2 * c - y | _ => y end.
(* one pass of the first loop:  mirror at lower where v < lb, then at upper where v > ub *)
Definition mstep_lo (lb ub : ereal) (v : Q) : Q :=
  let v1 := if below v lb then refl lb v else v in if above v1 ub then refl ub v1 else v1.
(* one pass of the second loop *)
Definition mstep_hi (lb ub : ereal) (v : Q) : Q :=
  let v1 := if above v ub then refl ub v else v in if below v1 lb then refl lb v1 else v1.
Fixpoint iter {A} (n : nat) (f : A -> A) (x : A) : A := match n with O => x | S k => iter k f (f x) end.
Definition clip (lb ub : ereal) (v : Q) : Q :=                       (* np.clip = min(max(v, lb), ub) *)
  let v1 := match lb with Fin l => if Qltb v l then l else v | _ => v end in
  match ub with Fin u => if Qltb u v1 then u else v1 | _ => v1 end.

(* mask1 / mask2 are taken from the incoming value; the first loop runs where mask1, the second where
   mask2; finally everything except NONE is clipped *)
Definition apply_bounds_1 (rep : nat) (t : btype) (lb ub : ereal) (y : Q) : Q :=
  let m1 := match t with BMirror => below y lb | _ => false end in
  let m2 := match t with BMirror => above y ub | _ => false end in
  let v1 := if m1 then iter rep (mstep_lo lb ub) y else y in
  let v2 := if m2 then iter rep (mstep_hi lb ub) v1 else v1 in
  match t with BNone => v2 | _ => clip lb ub v2 end.

Fixpoint zipw4 {A B C D E} (f : A -> B -> C -> D -> E) (a : list A) (b : list B) (c : list C) (d : list D) : list E :=
  match a, b, c, d with
  | x1 :: a', x2 :: b', x3 :: c', x4 :: d' => f x1 x2 x3 x4 :: zipw4 f a' b' c' d'
  | _, _, _, _ => []
  end.

(* ---- the validated variable / gradient part of a configuration --------------------------------- *)
Record ucfg := {                     (* as written by the user *)
  u_x0 : list Q; u_lb : list ereal; u_ub : list ereal;
  u_mag : list Q; u_pt : list ptype; u_bt : list btype }.
Record vcfg := {                     (* after EnOptConfig.model_validate(..., context=transforms) *)
  g_x0 : list Q; g_lb : list ereal; g_ub : list ereal; g_mag : list Q; g_bt : list btype }.

Definition validate_vars (ss os : list Q) (u : ucfg) : option vcfg :=
  let lb := bounds_to_opt ss os (u_lb u) in
  let ub := bounds_to_opt ss os (u_ub u) in
  if existsb (fun b : bool => b) (zipw (fun l h => elt h l) lb ub) then None     (* lower > upper: ValueError *)
  else match fix_magnitudes ss lb ub (u_pt u) (u_mag u) with
       | Some m => Some {| g_x0 := to_opt ss os (u_x0 u); g_lb := lb; g_ub := ub; g_mag := m; g_bt := u_bt u |}
       | None => None
       end.

Definition ones (n : nat) : list Q := repeat 1 n.
Definition zeros (n : nat) : list Q := repeat 0 n.

(* ---- _perturb_variables and the vectors handed to the evaluator ---------------------------------- *)
(* apply_bounds(variables + magnitudes * samples, lower, upper, boundary types) *)
Definition perturb (rep : nat) (c : vcfg) (y z : list Q) : list Q :=
  zipw4 (fun v l u t => apply_bounds_1 rep t l u v) (zipw Qplus y (zipw Qmult (g_mag c) z)) (g_lb c) (g_ub c) (g_bt c).

(* samples : realization -> perturbation -> variable;  rows ordered like the reshape(-1, V) in the code *)
Definition perturbed_rows (rep : nat) (c : vcfg) (y : list Q) (samples : list (list (list Q))) : list (list Q) :=
  concat (map (fun zr => map (perturb rep c y) zr) samples).

Inductive reqkind := RFunctions | RGradient | RBoth.
(* optimizer-domain rows of one evaluator call at the optimizer-domain point y *)
Definition request_rows (rep R : nat) (k : reqkind) (c : vcfg) (y : list Q) (samples : list (list (list Q))) : list (list Q) :=
  match k with
  | RFunctions => repeat y R
  | RGradient => perturbed_rows rep c y samples
  | RBoth => repeat y R ++ perturbed_rows rep c y samples
  end.
(* a function request for a batch of points (2-D variables): np.repeat(variables, R, axis=0) *)
Definition batch_rows (R : nat) (ys : list (list Q)) : list (list Q) := concat (map (fun y => repeat y R) ys).
Definition batch_requests (R : nat) (ss os : list Q) (ys : list (list Q)) : list (list Q) :=
  map (from_opt ss os) (batch_rows R ys).
(* what the user's evaluator receives: every row mapped back with from_optimizer *)
Definition requests (rep R : nat) (k : reqkind) (ss os : list Q) (c : vcfg) (y : list Q) samples : list (list Q) :=
  map (from_opt ss os) (request_rows rep R k c y samples).

(* ---- feasibility of a point with respect to bounds and linear constraints --------------------------- *)
Definition within (l u : ereal) (v : Q) : bool := ele l (Fin v) && ele (Fin v) u.
Definition all_within (lb ub : list ereal) (v : list Q) : bool :=
  forallb (fun b : bool => b) (zipw (fun vl u => within (snd vl) u (fst vl)) (combine v lb) ub).
Definition feasible_point (cfg : ccfg) (x : list Q) : bool :=
  all_within (v_lower cfg) (v_upper cfg) x &&
  match c_linear cfg with
  | Some lc => all_within (l_lower lc) (l_upper lc) (matvec (l_coef lc) x)
  | None => true
  end.

(* ---- a minimal estimator used to show that the homogeneity hypothesis of the result-invariance
        theorem is satisfiable: the normalised weighted mean of the per-realization values ------------ *)
Definition wmean (w f : list Q) : Q := dot w f / qsum w.
