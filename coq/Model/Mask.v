(* Model/Mask.v -- executable model of the variable-mask handling (property C09):
   EnsembleOptimizer._get_completed_variables / _optimizer_callback (fixed-vector state, nested
   deliveries), EnsembleEvaluator._expand_gradients, _get_mask / _init_samplers, the order in which
   _perturb_variables runs the samplers, and how samplers fill only their own variables.
   Definitions only; lemmas are in Proofs/Mask.v. *)
From Coq Require Import QArith Qabs ZArith List Bool Arith.
From Ropt Require Import Base.Num Base.ListX Model.Bounds.
Import ListNotations.
Open Scope Q_scope.

(* ---- _get_completed_variables ------------------------------------------------------------------- *)
(* tmp = fixed.copy(); tmp[mask] = free   (Base.ListX.scatter mask free fixed) *)
Definition complete {A} (mask : list bool) (fixed free : list A) : list A := scatter mask free fixed.
Definition complete_opt {A} (mask : option (list bool)) (fixed free : list A) : list A :=
  match mask with Some m => complete m fixed free | None => free end.
(* what the optimizer plug-in exposes / gets back: x[mask] *)
Definition gather_opt {A} (mask : option (list bool)) (v : list A) : list A :=
  match mask with Some m => gather m v | None => v end.
Definition free_count (mask : option (list bool)) (n : nat) : nat :=
  match mask with Some m => count_true m | None => n end.

(* ---- _expand_gradients -------------------------------------------------------------------------- *)
(* result = zeros(mask.size); result[mask] = gradients *)
Definition expand_zeros (mask : list bool) (g : list Q) : list Q := complete mask (repeat 0 (length mask)) g.
Definition expand_opt (mask : option (list bool)) (g : list Q) : list Q :=
  match mask with Some m => expand_zeros m g | None => g end.

(* ---- samplers ----------------------------------------------------------------------------------- *)
(* _get_mask(idx, gradient.samplers, variables.mask) *)
Definition sampler_mask (idx : Z) (gs : option (list Z)) (mask : option (list bool)) : option (list bool) :=
  match gs, mask with
  | None, _ => mask
  | Some g, None => Some (map (Z.eqb idx) g)
  | Some g, Some m => Some (map2 andb m (map (Z.eqb idx) g))
  end.
(* unique[argsort(first index)] of the non-negative entries: order of first appearance *)
Fixpoint zmem (z : Z) (l : list Z) : bool := match l with [] => false | y :: t => Z.eqb z y || zmem z t end.
Fixpoint first_appearance (seen g : list Z) : list Z :=
  match g with
  | [] => []
  | z :: t => if (z <? 0)%Z || zmem z seen then first_appearance seen t else z :: first_appearance (z :: seen) t
  end.
Definition sampler_order (gs : option (list Z)) : list Z :=
  match gs with None => [0%Z] | Some g => first_appearance [] g end.
(* a sampler restricted to a variable set writes its values there and literal zeros elsewhere:
   result = zeros; result[..., mask] = dense   (SciPySampler.generate_samples) *)
Definition sampler_fill (m : option (list bool)) (dense : list Q) : list Q := expand_opt m dense.
(* the injected test sampler: a full scripted row, np.where(mask, script, 0) *)
Definition mask_zero (m : option (list bool)) (full : list Q) : list Q :=
  match m with Some mk => map2 (fun (b : bool) s => if b then s else 0) mk full | None => full end.

(* ---- the optimizer callback --------------------------------------------------------------------- *)
Record cb_state := { fixed : list Q }.
(* what the nested optimization (a black box here) hands back *)
Inductive nested_outcome := NDeliver (r : list Q) | NNone | NAborted.
Inductive cb_outcome :=
| CbEvaluate (rows : list (list Q))      (* vectors passed on to EnsembleEvaluator.calculate *)
| CbNestedFailed | CbUserAbort           (* OptimizationAborted with that exit code *)
| CbRaise.                               (* RuntimeError: nested optimization with a batch request *)

(* one call of _optimizer_callback with the free-variable rows of the request (one row for a vector
   argument); returns the vector handed to the nested optimization (if any), the outcome, the new state *)
Definition callback (mask : option (list bool)) (st : cb_state) (free_rows : list (list Q))
           (nested : option nested_outcome) : option (list Q) * cb_outcome * cb_state :=
  let vs := map (complete_opt mask (fixed st)) free_rows in
  match nested with
  | None => (None, CbEvaluate vs, st)
  | Some n =>
      match vs with
      | [v] =>
          match n with
          | NDeliver r => (Some v, CbEvaluate [r], {| fixed := r |})
          | NNone => (Some v, CbNestedFailed, st)
          | NAborted => (Some v, CbUserAbort, st)
          end
      | _ => (None, CbRaise, st)
      end
  end.

Definition request := (list (list Q) * option nested_outcome)%type.
(* the whole optimization: start() stores the initial vector, then the callbacks until one aborts *)
Fixpoint run_from (mask : option (list bool)) (st : cb_state) (reqs : list request)
  : list (option (list Q) * cb_outcome) :=
  match reqs with
  | [] => []
  | (free, n) :: t =>
      let '(ni, out, st') := callback mask st free n in
      (ni, out) :: match out with CbEvaluate _ => run_from mask st' t | _ => [] end
  end.
Definition run (mask : option (list bool)) (start : list Q) (reqs : list request) :=
  run_from mask {| fixed := start |} reqs.

(* the value the fixed variables must show: the starting vector or the last nested delivery *)
Fixpoint last_delivered (cur : list Q) (reqs : list request) : list Q :=
  match reqs with
  | [] => cur
  | (_, Some (NDeliver r)) :: t => last_delivered r t
  | _ :: t => last_delivered cur t
  end.

(* ---- perturbation of one evaluated vector ------------------------------------------------------- *)
(* samples of the samplers in [order], each filled into its own variable set, summed *)
Definition fill3 (m : option (list bool)) (dense : arr3) : arr3 := map (map (sampler_fill m)) dense.
Definition zero3 (m : option (list bool)) (full : arr3) : arr3 := map (map (mask_zero m)) full.

(* _perturb_variables: the samplers that own a variable run in order of first appearance, each fills its own
   variable set (the scripted test sampler: np.where(mask, script, 0)), the arrays are added *)
Definition run_samplers (gs : option (list Z)) (mask : option (list bool)) (scripts : list arr3) : arr3 :=
  sum_samples (map (fun k => zero3 (sampler_mask k gs mask) (nth (Z.to_nat k) scripts [])) (sampler_order gs)).
(* positions written by some sampler that runs: free, and (when samplers are assigned) a non-negative index *)
Definition owned (gs : option (list Z)) (mask : option (list bool)) (n : nat) : list bool :=
  let m := match mask with Some mk => mk | None => repeat true n end in
  match gs with
  | None => m
  | Some g => map2 (fun (b : bool) z => b && negb (z <? 0)%Z) m g
  end.
(* positions no sampler owns keep the evaluated vector's entry, bit for bit, when that entry is inside its bounds *)
Fixpoint unowned_kept (own : list bool) (lbs ubs : list ereal) (v p : list Q) : bool :=
  match own, lbs, ubs, v, p with
  | [], [], [], [], [] => true
  | o :: own', l :: lbs', u :: ubs', x :: v', y :: p' =>
      (o || negb (inb l u x) || Qeqb y x) && unowned_kept own' lbs' ubs' v' p'
  | _, _, _, _, _ => false
  end.

(* ---- the function-value cache of EnsembleEvaluator.calculate ------------------------------------- *)
(* np.allclose(cached, variables, rtol=0, atol=1e-15) on the FULL vectors (fixed variables included) *)
Definition cache_atol : Q := Q_ 1 1000000000000000.
Definition same_point (a b : list Q) : bool := forallb2 (fun x y => Qleb (Qabs (x - y)) cache_atol) a b.
Inductive eval_plan :=
| EvFunctions (vs : list (list Q))     (* _calculate_functions: R rows per vector; caches the FIRST vector *)
| EvGradCached (v : list Q)            (* _calculate_gradients: perturbed rows only, functions from the cache *)
| EvBoth (v : list Q).                 (* _calculate_both: R rows, then the perturbed rows; clears the cache *)
Definition evaluate (cache : option (list Q)) (f g : bool) (vs : list (list Q)) : eval_plan * option (list Q) :=
  if f && negb g then (EvFunctions vs, match vs with v :: _ => Some v | [] => cache end)
  else if negb g then (EvFunctions [], cache)     (* assertion failure in the source: nothing requested *)
  else match vs with
       | [v] =>
           match cache with
           | Some c => if negb f && same_point c v then (EvGradCached v, cache) else (EvBoth v, None)
           | None => (EvBoth v, None)
           end
       | _ => (EvFunctions [], cache)     (* assertion failure in the source: gradients need one vector *)
       end.

(* agreement of two vectors on the positions where the mask is false *)
Fixpoint agree_fixed (mask : list bool) (a b : list Q) : bool :=
  match mask, a, b with
  | [], [], [] => true
  | m :: mask', x :: a', y :: b' => (m || Qeqb x y) && agree_fixed mask' a' b'
  | _, _, _ => false
  end.
Definition agree_fixed_opt (mask : option (list bool)) (a b : list Q) : bool :=
  match mask with Some m => agree_fixed m a b | None => Nat.eqb (length a) (length b) end.
(* exact zeros on the positions where the mask is false *)
Fixpoint zero_fixed (mask : list bool) (g : list Q) : bool :=
  match mask, g with
  | [], [] => true
  | m :: mask', x :: g' => (m || Qeqb x 0) && zero_fixed mask' g'
  | _, _ => false
  end.
Definition zero_fixed_opt (mask : option (list bool)) (n : nat) (g : list Q) : bool :=
  match mask with Some m => zero_fixed m g | None => Nat.eqb (length g) n end.
