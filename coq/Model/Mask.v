(* Model/Mask.v -- executable model of the variable-mask handling (property C09):
   EnsembleOptimizer._get_completed_variables / _optimizer_callback (fixed-vector state, nested
   deliveries), EnsembleEvaluator._expand_gradients, _get_mask / _init_samplers, the order in which
   _perturb_variables runs the samplers, and how samplers fill only their own variables.
   Definitions only; lemmas are in Proofs/Mask.v. *)
From Coq Require Import QArith ZArith List Bool Arith.
From Ropt Require Import Base.Num Base.ListX Model.Bounds.
Import ListNotations.
Open Scope Q_scope.

(* ---- _get_completed_variables ------------------------------------------------------------------- *)
(* tmp = fixed.copy(); tmp[mask] = free   (Base.ListX.scatter mask free fixed) *)
Definition complete {A} (mask : list bool) (fixed free : list A) : list A := scatter mask free fixed.
Definition complete_opt {A} (mask : option (list bool)) (fixed free : list A) : list A :=
  match mask with Some m => complete m fixed free | None => free end.
(* what the optimizer plug-in exposes / gets back: x[mask] *)
Definition gather_opt {A} (mask : option (list bool)) (v : list A) : list A :=
  match mask with Some m => gather m v | None => v end.
Definition free_count (mask : option (list bool)) (n : nat) : nat :=
  match mask with Some m => count_true m | None => n end.

(* ---- _expand_gradients -------------------------------------------------------------------------- *)
(* result = zeros(mask.size); result[mask] = gradients *)
Definition expand_zeros (mask : list bool) (g : list Q) : list Q := complete mask (repeat 0 (length mask)) g.
Definition expand_opt (mask : option (list bool)) (g : list Q) : list Q :=
  match mask with Some m => expand_zeros m g | None => g end.

(* ---- samplers ----------------------------------------------------------------------------------- *)
(* _get_mask(idx, gradient.samplers, variables.mask) *)
Definition sampler_mask (idx : Z) (gs : option (list Z)) (mask : option (list bool)) : option (list bool) :=
  match gs, mask with
  | None, _ => mask
  | Some g, None => Some (map (Z.eqb idx) g)
  | Some g, Some m => Some (map2 andb m (map (Z.eqb idx) g))
  end.
(* unique[argsort(first index)] of the non-negative entries: order of first appearance *)
Fixpoint zmem (z : Z) (l : list Z) : bool := match l with [] => false | y :: t => Z.eqb z y || zmem z t end.
Fixpoint first_appearance (seen g : list Z) : list Z :=
  match g with
  | [] => []
  | z :: t => if (z <? 0)%Z || zmem z seen then first_appearance seen t else z :: first_appearance (z :: seen) t
  end.
Definition sampler_order (gs : option (list Z)) : list Z :=
  match gs with None => [0%Z] | Some g => first_appearance [] g end.
(* a sampler restricted to a variable set writes its values there and literal zeros elsewhere:
   result = zeros; result[..., mask] = dense   (SciPySampler.generate_samples) *)
Definition sampler_fill (m : option (list bool)) (dense : list Q) : list Q := expand_opt m dense.
(* the injected test sampler: a full scripted row, np.where(mask, script, 0) *)
Definition mask_zero (m : option (list bool)) (full : list Q) : list Q :=
  match m with Some mk => map2 (fun (b : bool) s => if b then s else 0) mk full | None => full end.

(* ---- the optimizer callback --------------------------------------------------------------------- *)
Record cb_state := { fixed : list Q }.
(* what the nested optimization (a black box here) hands back *)
Inductive nested_outcome := NDeliver (r : list Q) | NNone | NAborted.
Inductive cb_outcome :=
| CbEvaluate (rows : list (list Q))      (* vectors passed on to EnsembleEvaluator.calculate *)
| CbNestedFailed | CbUserAbort           (* OptimizationAborted with that exit code *)
| CbRaise.                               (* RuntimeError: nested optimization with a batch request *)

(* one call of _optimizer_callback with the free-variable rows of the request (one row for a vector
   argument); returns the vector handed to the nested optimization (if any), the outcome, the new state *)
Definition callback (mask : option (list bool)) (st : cb_state) (free_rows : list (list Q))
           (nested : option nested_outcome) : option (list Q) * cb_outcome * cb_state :=
  let vs := map (complete_opt mask (fixed st)) free_rows in
  match nested with
  | None => (None, CbEvaluate vs, st)
  | Some n =>
      match vs with
      | [v] =>
          match n with
          | NDeliver r => (Some v, CbEvaluate [r], {| fixed := r |})
          | NNone => (Some v, CbNestedFailed, st)
          | NAborted => (Some v, CbUserAbort, st)
          end
      | _ => (None, CbRaise, st)
      end
  end.

Definition request := (list (list Q) * option nested_outcome)%type.
(* the whole optimization: start() stores the initial vector, then the callbacks until one aborts *)
Fixpoint run_from (mask : option (list bool)) (st : cb_state) (reqs : list request)
  : list (option (list Q) * cb_outcome) :=
  match reqs with
  | [] => []
  | (free, n) :: t =>
      let '(ni, out, st') := callback mask st free n in
      (ni, out) :: match out with CbEvaluate _ => run_from mask st' t | _ => [] end
  end.
Definition run (mask : option (list bool)) (start : list Q) (reqs : list request) :=
  run_from mask {| fixed := start |} reqs.

(* the value the fixed variables must show: the starting vector or the last nested delivery *)
Fixpoint last_delivered (cur : list Q) (reqs : list request) : list Q :=
  match reqs with
  | [] => cur
  | (_, Some (NDeliver r)) :: t => last_delivered r t
  | _ :: t => last_delivered cur t
  end.

(* ---- perturbation of one evaluated vector ------------------------------------------------------- *)
(* samples of the samplers in [order], each filled into its own variable set, summed *)
Definition fill3 (m : option (list bool)) (dense : arr3) : arr3 := map (map (sampler_fill m)) dense.
Definition zero3 (m : option (list bool)) (full : arr3) : arr3 := map (map (mask_zero m)) full.

(* agreement of two vectors on the positions where the mask is false *)
Fixpoint agree_fixed (mask : list bool) (a b : list Q) : bool :=
  match mask, a, b with
  | [], [], [] => true
  | m :: mask', x :: a', y :: b' => (m || Qeqb x y) && agree_fixed mask' a' b'
  | _, _, _ => false
  end.
Definition agree_fixed_opt (mask : option (list bool)) (a b : list Q) : bool :=
  match mask with Some m => agree_fixed m a b | None => Nat.eqb (length a) (length b) end.
(* exact zeros on the positions where the mask is false *)
Fixpoint zero_fixed (mask : list bool) (g : list Q) : bool :=
  match mask, g with
  | [], [] => true
  | m :: mask', x :: g' => (m || Qeqb x 0) && zero_fixed mask' g'
  | _, _ => false
  end.
Definition zero_fixed_opt (mask : option (list bool)) (n : nat) (g : list Q) : bool :=
  match mask with Some m => zero_fixed m g | None => Nat.eqb (length g) n end.
