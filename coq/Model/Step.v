(* Model/Step.v -- the exit-code machine of an optimizer step / evaluator step (C14; reused by C15).

   Mirrors, in execution order,
     ropt.optimization._optimizer.EnsembleOptimizer._optimizer_callback / _check_stopping_criteria /
       _run_evaluations  (budget check, START_EVALUATION, calculate, too-few test, FINISHED_EVALUATION
       with the results, raise TOO_FEW_REALIZATIONS, count the function results),
     ropt.ensemble_evaluator.EnsembleEvaluator.calculate / _calculate_functions / _calculate_gradients /
       _calculate_both  (gradient cache, filter weights first, realization_min_success threshold,
       estimators; realization filters and the stddev estimator raise TOO_FEW inside calculate),
     ropt.plugins.plan.optimizer.DefaultOptimizerStep.run and evaluator.DefaultEvaluatorStep.run
       (START_/FINISHED_ step events, OptimizationAborted -> exit code, other exceptions propagate).

   The optimizer back-end is a script of requests, the user's evaluator a fault script: each request
   carries what its (single) evaluator call does -- raise an exception, raise the user abort, or
   return values whose NaN pattern is given by masks (true = failed).
   Definitions only; proofs are in Proofs/Step.v. *)
From Coq Require Import String List Bool Arith ZArith QArith Qround.
From Ropt Require Import Base.Num.
Import ListNotations.
Open Scope nat_scope.

Inductive kind := KF | KG | KFG.                 (* return_functions / return_gradients / both *)
Inductive code := TooFew | MaxFunctions | UserAbort | OptFinished | EvalFinished | NestedFailed.
Inductive evt := StartEval | FinEval | StartOpt | FinOpt | StartEvalStep | FinEvalStep.
Inductive outcome := Exit (c : code) | Raise.    (* Raise = the evaluator's own exception reaches the caller *)

Inductive rkind := RF | RG.
(* a delivered result: FunctionResults / GradientResults, functions (gradients) is not None,
   all(realizations.failed_realizations) *)
Record res := { r_kind : rkind; r_has : bool; r_allf : bool }.

(* what the evaluator call of a request does.  fm : one row per variable vector, one flag per
   realization (function rows); pm : one row per realization, one flag per perturbation. *)
Inductive fault := FRaise | FAbort | FMasks (fm : list (list bool)) (pm : list (list bool)).
(* batch = 0: a single vector (1-D), batch = b > 0: a b-row matrix; pt identifies the (first) point *)
Record req := { rk : kind; pt : nat; batch : nat; flt : fault }.

Inductive filt := NoFilter | SortF (first last : nat) | CvarF (p : Q).
Inductive est := Mean | Stddev.
Record cfg := {
  nreal : nat;               (* number of realizations *)
  rmin : nat;                (* realization_min_success *)
  pmin : nat;                (* perturbation_min_success *)
  allow_nan : bool;          (* Optimizer.allow_nan *)
  maxf : option nat;         (* optimizer.max_functions *)
  cfilt : filt;              (* realization filter applied to objective and constraint *)
  cest : est;                (* function estimator *)
  order : list nat;          (* the realizations by ascending objective/constraint value *)
  zerow : list nat           (* the realizations whose configured weight is zero (all others: positive) *)
}.
Definition wpos (c : cfg) (r : nat) : bool := negb (existsb (Nat.eqb r) (zerow c)).

(* ---- masks -------------------------------------------------------------------- *)
Definition count_ok (l : list bool) : nat := length (filter negb l).
Definition all_failed (l : list bool) : bool := forallb (fun b => b) l.
Definition failed_at (l : list bool) (r : nat) : bool := nth r l true.

(* _get_failed_realizations with perturbed objectives: a realization also fails when fewer than
   perturbation_min_success of its perturbations succeed *)
Definition failed_grad (c : cfg) (fm : list bool) (pm : list (list bool)) : list bool :=
  map (fun r => failed_at fm r || (count_ok (nth r pm []) <? pmin c)) (seq 0 (nreal c)).

(* ---- realization filters: which realizations receive a positive weight ---------- *)
(* successful realizations in ranking order (argsort, NaNs dropped) *)
Definition ranked (c : cfg) (failed : list bool) : list nat :=
  filter (fun r => negb (failed_at failed r)) (order c).

(* None: no filter, configured weights in force.  _sort_and_select keeps ranks first..last and gives them
   their configured weight (positive or zero); _get_cvar_weights_from_percentile ranks the largest values
   first, gives 1/n to the first int(p*n) and the remainder p - n_var/n (when positive) to the next one. *)
Definition chosen (c : cfg) (failed : list bool) : option (list nat) :=
  match cfilt c with
  | NoFilter => None
  | SortF a b => Some (filter (wpos c) (firstn (S b - a) (skipn a (ranked c failed))))
  | CvarF p =>
      let rk := rev (ranked c failed) in
      match length rk with
      | O => Some []
      | S _ as n =>
          let nq := inject_Z (Z.of_nat n) in
          let nv := Z.to_nat (Qfloor (p * nq)) in
          let pv := (p - inject_Z (Z.of_nat nv) / nq)%Q in
          Some (firstn nv rk ++ (if (nv <? n) && Qltb 0 pv then firstn 1 (skipn nv rk) else []))
      end
  end.
Definition selected (ch : option (list nat)) (r : nat) : bool :=
  match ch with None => true | Some l => existsb (Nat.eqb r) l end.
(* DefaultRealizationFilter.get_realization_weights: no positive weight -> TOO_FEW_REALIZATIONS *)
Definition filter_few (ch : option (list nat)) : bool :=
  match ch with Some [] => true | _ => false end.

(* count_nonzero of the normalised weights seen by the estimator: weights of failed realizations are
   zeroed, then divided by their sum; a zero sum turns every entry into NaN, which counts as nonzero *)
Definition in_force (c : cfg) (ch : option (list nat)) (r : nat) : bool :=
  match ch with None => wpos c r | Some _ => selected ch r end.
Definition nz (c : cfg) (ch : option (list nat)) (failed : list bool) : nat :=
  let act := length (filter (fun r => negb (failed_at failed r) && in_force c ch r) (seq 0 (nreal c))) in
  if act =? 0 then nreal c else act.
Definition is_stddev (e : est) : bool := match e with Stddev => true | Mean => false end.
Definition min_stddev : nat := 2.     (* _MIN_STDDEV_REALIZATIONS, tied to Gen.Generated in Check/Chk_C14.v *)

(* ---- one set of functions (_calculate_one_set_of_functions / first half of _calculate_both) ---- *)
Inductive fpart := FFilter | FEst | FRes (has allf : bool) (ch : option (list nat)).
Definition fun_part (c : cfg) (fm : list bool) : fpart :=
  let ch := chosen c fm in
  if filter_few ch then FFilter else
  if rmin c <=? count_ok fm then
    if all_failed fm then FRes true true ch                      (* NaN functions, no estimator call *)
    else if is_stddev (cest c) && (nz c ch fm <? min_stddev) then FEst
    else FRes true false ch
  else FRes false (all_failed fm) ch.                            (* functions = None *)

(* ---- one gradient (_calculate_gradients / second half of _calculate_both) ------- *)
Inductive gpart := GEst | GRes (has allf : bool).
Definition grad_part (c : cfg) (fm : list bool) (pm : list (list bool)) (ch : option (list nat)) : gpart :=
  let fg := failed_grad c fm pm in
  if rmin c <=? count_ok fg then
    if is_stddev (cest c) && (nz c ch fg <? min_stddev) then GEst else GRes true (all_failed fg)
  else GRes false (all_failed fg).

(* ---- one request = one evaluator call ------------------------------------------ *)
Inductive decider := ByFilter | ByEstimator.
(* _cache_for_gradient: point, function failure flags and filter choice of the last function result *)
Definition cache := option (nat * list bool * option (list nat)).
Inductive evalres :=
  | VRaise                                       (* evaluator exception *)
  | VAbort                                       (* evaluator raised OptimizationAborted(USER_ABORT) *)
  | VInside (d : decider) (rs : list res)        (* TOO_FEW raised inside calculate; rs = the results
                                                    the property requires to be delivered all the same *)
  | VResults (rs : list res) (counted : nat) (c' : cache).

Definition mkres (k : rkind) (h a : bool) : res := {| r_kind := k; r_has := h; r_allf := a |}.

Fixpoint eval_vectors (c : cfg) (fms : list (list bool)) : decider + list res :=
  match fms with
  | [] => inr []
  | fm :: t =>
      match fun_part c fm with
      | FFilter => inl ByFilter
      | FEst => inl ByEstimator
      | FRes h a _ =>
          match eval_vectors c t with inl d => inl d | inr rs => inr (mkres RF h a :: rs) end
      end
  end.

Definition eval_F (c : cfg) (p : nat) (fms : list (list bool)) : evalres :=
  match eval_vectors c fms with
  | inl d => VInside d (map (fun fm => mkres RF false (all_failed fm)) fms)
  | inr rs => VResults rs (length rs) (Some (p, hd [] fms, chosen c (hd [] fms)))
  end.

Definition eval_both (c : cfg) (fms : list (list bool)) (pm : list (list bool)) (counted : nat) : evalres :=
  let fm := hd [] fms in
  match fun_part c fm with
  | FFilter => VInside ByFilter [mkres RF false (all_failed fm); mkres RG false false]
  | FEst => VInside ByEstimator [mkres RF false (all_failed fm); mkres RG false false]
  | FRes h a ch =>
      match grad_part c fm pm ch with
      | GEst => VInside ByEstimator [mkres RF h a; mkres RG false false]
      | GRes gh ga => VResults [mkres RF h a; mkres RG gh ga] counted None
      end
  end.

Definition eval_G_cached (c : cfg) (ca : cache) (cfm : list bool) (cch : option (list nat))
           (pm : list (list bool)) : evalres :=
  match grad_part c cfm pm cch with
  | GEst => VInside ByEstimator [mkres RG false false]
  | GRes gh ga => VResults [mkres RG gh ga] 0 ca
  end.

Definition eval_req (c : cfg) (r : req) (ca : cache) : evalres :=
  match flt r with
  | FRaise => VRaise
  | FAbort => VAbort
  | FMasks fms pm =>
      match rk r with
      | KF => eval_F c (pt r) fms
      | KFG => eval_both c fms pm 1
      | KG =>
          match ca with
          | Some (p, cfm, cch) =>
              if p =? pt r then eval_G_cached c ca cfm cch pm
              else eval_both c fms pm 0           (* no cached function at this point: both are evaluated *)
          | None => eval_both c fms pm 0
          end
      end
  end.

(* ---- the optimizer step ---------------------------------------------------------- *)
Definition over_budget (c : cfg) (completed : nat) : bool :=
  match maxf c with Some m => m <=? completed | None => false end.
Definition check_failures (c : cfg) : bool := (rmin c <? 1) && negb (allow_nan c).
(* _run_evaluations: functions/gradients None, or all realizations failed when NaN is not allowed *)
Definition few_opt (c : cfg) (rs : list res) : bool :=
  existsb (fun r => negb (r_has r) || (check_failures c && r_allf r)) rs.

(* returns (outcome, delivered results, evaluation events, completed function count) *)
Fixpoint run (c : cfg) (script : list req) (completed : nat) (ca : cache)
  : outcome * list res * list evt * nat :=
  match script with
  | [] => (Exit OptFinished, [], [], completed)
  | r :: t =>
      if over_budget c completed then (Exit MaxFunctions, [], [], completed) else
      match eval_req c r ca with
      | VRaise => (Raise, [], [StartEval], completed)
      | VAbort => (Exit UserAbort, [], [StartEval], completed)
      | VInside _ rs => (Exit TooFew, rs, [StartEval; FinEval], completed)
      | VResults rs n ca' =>
          if few_opt c rs then (Exit TooFew, rs, [StartEval; FinEval], completed)
          else
            let '(o, d, e, k) := run c t (completed + n) ca' in
            (o, rs ++ d, StartEval :: FinEval :: e, k)
      end
  end.

Definition closing (o : outcome) (e : evt) : list evt := match o with Exit _ => [e] | Raise => [] end.

Definition run_optimizer_step (c : cfg) (script : list req) : outcome * list res * list evt :=
  let '(o, d, e, _) := run c script 0 None in
  (o, d, StartOpt :: e ++ closing o FinOpt).

(* ---- the evaluator step: one function evaluation, no budget, no NaN-tolerance test ---- *)
Definition few_eval (rs : list res) : bool := existsb (fun r => negb (r_has r)) rs.
Definition vectors (r : req) : list (list bool) := match flt r with FMasks fm _ => fm | _ => [] end.

Definition run_evaluator_step (c : cfg) (r : req) : outcome * list res * list evt :=
  match flt r with
  | FRaise => (Raise, [], [StartEvalStep; StartEval])
  | FAbort => (Exit UserAbort, [], [StartEvalStep; StartEval; FinEvalStep])
  | FMasks fms _ =>
      match eval_F c (pt r) fms with
      | VInside _ rs => (Exit TooFew, rs, [StartEvalStep; StartEval; FinEval; FinEvalStep])
      | VResults rs _ _ =>
          (Exit (if few_eval rs then TooFew else EvalFinished), rs,
           [StartEvalStep; StartEval; FinEval; FinEvalStep])
      | VRaise => (Raise, [], [StartEvalStep; StartEval])
      | VAbort => (Exit UserAbort, [], [StartEvalStep; StartEval; FinEvalStep])
      end
  end.

(* ---- optimizer steps with nested optimizations, to any depth ------------------------
   EnsembleOptimizer._optimizer_callback runs the nested optimizer (DefaultOptimizerStep.
   _run_nested_plan: the nested plan's function runs the nested plan's optimizer step -- which may
   itself have a nested optimization -- and returns the result held by that plan's tracker) after the
   budget check and before the evaluation of every request: nested plan aborted -> USER_ABORT
   (checked first), no result -> NESTED_OPTIMIZER_FAILED.  A tracker keeps its result from one nested
   run to the next (the nested plans are objects shared by all runs).  A run is a tree: every request
   carries the script of the nested run it triggers (None: the step has no nested optimization). *)
Inductive nscript := NS (c : cfg) (items : list (req * option nscript)).

(* a result the tracker can hold: function values that are present and not NaN *)
Definition trackable (r : res) : bool :=
  match r_kind r with RF => r_has r && negb (r_allf r) | RG => false end.
Definition has_result (d : list res) : bool := existsb trackable d.

(* trace: events of the step itself, and whole nested runs (outcome, trace of the nested step) *)
Inductive tr := TE (e : evt) | TInner (o : outcome) (sub : list tr).

(* what the outer optimizer makes of a finished nested run; h = the nested plan's tracker holds a result *)
Definition nested_verdict (io : outcome) (h : bool) : option outcome :=
  match io with
  | Raise => Some Raise                                   (* the exception passes through every level *)
  | Exit UserAbort => Some (Exit UserAbort)               (* nested plan aborted: checked before the result *)
  | Exit _ => if h then None else Some (Exit NestedFailed)
  end.

(* (outcome, delivered results of all levels in delivery order, trace,
    (tracker flags of the plans below this one - nearest first -, this run delivered a trackable result of its own)) *)
Definition tres : Type := outcome * list res * list tr * (list bool * bool).

Definition run_items (rec : nscript -> list bool -> tres) (c : cfg) :=
  fix go (items : list (req * option nscript)) (completed : nat) (ca : cache) (hs : list bool) (own : bool)
    {struct items} : tres :=
  match items with
  | [] => (Exit OptFinished, [], [], (hs, own))
  | (r, sub) :: rest =>
      if over_budget c completed then (Exit MaxFunctions, [], [], (hs, own)) else
      let '(verdict, id, it, hs1) :=
        match sub with
        | None => (None, [], [], hs)
        | Some st =>
            let '(io, id, itr, (hst, iown)) := rec st (tl hs) in
            let h := hd false hs || iown in
            (nested_verdict io h, id, [TInner io itr], h :: hst)
        end in
      match verdict with
      | Some o => (o, id, it, (hs1, own))
      | None =>
          match eval_req c r ca with
          | VRaise => (Raise, id, it ++ [TE StartEval], (hs1, own))
          | VAbort => (Exit UserAbort, id, it ++ [TE StartEval], (hs1, own))
          | VInside _ rs =>
              (Exit TooFew, id ++ rs, it ++ [TE StartEval; TE FinEval], (hs1, own || has_result rs))
          | VResults rs n ca' =>
              if few_opt c rs then
                (Exit TooFew, id ++ rs, it ++ [TE StartEval; TE FinEval], (hs1, own || has_result rs))
              else
                let '(o, d, e, st') := go rest (completed + n) ca' hs1 (own || has_result rs) in
                (o, id ++ rs ++ d, it ++ TE StartEval :: TE FinEval :: e, st')
          end
      end
  end.

Fixpoint run_tree (t : nscript) (hs : list bool) {struct t} : tres :=
  match t with NS c items => run_items run_tree c items 0 None hs false end.

(* the events seen by an observer of all event types *)
Fixpoint flat_one (x : tr) : list evt :=
  match x with
  | TE e => [e]
  | TInner o sub => StartOpt :: flat_map flat_one sub ++ closing o FinOpt
  end.
Definition flat_tr (l : list tr) : list evt := flat_map flat_one l.

Definition tree_step (t : nscript) (hs : list bool) : outcome * list res * list evt :=
  let '(o, d, l, _) := run_tree t hs in
  (o, d, StartOpt :: flat_tr l ++ closing o FinOpt).
Definition run_tree_step (t : nscript) : outcome * list res * list evt := tree_step t [].

(* a step without nested optimization as a tree *)
Definition leaf (c : cfg) (script : list req) : nscript := NS c (map (fun r => (r, None)) script).

(* Plan.aborted of the nested plans after the step: the plan j+1 levels below the owner of the trace is aborted
   exactly when one of its runs ended with USER_ABORT *)
Fixpoint ab_depth (j : nat) (x : tr) : bool :=
  match x with
  | TE _ => false
  | TInner o sub =>
      match j with
      | O => match o with Exit UserAbort => true | _ => false end
      | S j' => existsb (ab_depth j') sub
      end
  end.
Definition aborted_below (depth : nat) (l : list tr) : list bool :=
  map (fun j => existsb (ab_depth j) l) (seq 0 depth).

(* ---- numeric values of the enums (compared with Gen.Generated in the checker) ---- *)
Definition code_name (c : code) : string :=
  match c with
  | TooFew => "TOO_FEW_REALIZATIONS" | MaxFunctions => "MAX_FUNCTIONS_REACHED" | UserAbort => "USER_ABORT"
  | OptFinished => "OPTIMIZER_STEP_FINISHED" | EvalFinished => "EVALUATION_STEP_FINISHED"
  | NestedFailed => "NESTED_OPTIMIZER_FAILED"
  end%string.
Definition evt_name (e : evt) : string :=
  match e with
  | StartEval => "START_EVALUATION" | FinEval => "FINISHED_EVALUATION"
  | StartOpt => "START_OPTIMIZER_STEP" | FinOpt => "FINISHED_OPTIMIZER_STEP"
  | StartEvalStep => "START_EVALUATOR_STEP" | FinEvalStep => "FINISHED_EVALUATOR_STEP"
  end%string.
