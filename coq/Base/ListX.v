(* Base/ListX.v -- list helpers shared by models and checkers. *)
From Coq Require Import List Bool Arith Lia.
Import ListNotations.

Fixpoint list_eqb {A} (e : A -> A -> bool) (a b : list A) : bool :=
  match a, b with
  | [], [] => true
  | x :: a', y :: b' => e x y && list_eqb e a' b'
  | _, _ => false
  end.

Fixpoint forallb2 {A B} (f : A -> B -> bool) (a : list A) (b : list B) : bool :=
  match a, b with
  | [], [] => true
  | x :: a', y :: b' => f x y && forallb2 f a' b'
  | _, _ => false
  end.

Definition option_eqb {A} (e : A -> A -> bool) (a b : option A) : bool :=
  match a, b with Some x, Some y => e x y | None, None => true | _, _ => false end.

Lemma list_eqb_refl {A} (e : A -> A -> bool) : (forall x, e x x = true) -> forall l, list_eqb e l l = true.
Proof. intros H l; induction l as [|x l IH]; cbn; [reflexivity | rewrite H, IH; reflexivity]. Qed.

Lemma list_eqb_eq {A} (e : A -> A -> bool) :
  (forall x y, e x y = true -> x = y) -> forall a b, list_eqb e a b = true -> a = b.
Proof.
  intros H a; induction a as [|x a IH]; intros [|y b]; cbn; try discriminate; [reflexivity|].
  intros E. apply andb_prop in E as [E1 E2]. f_equal; [apply H; exact E1 | apply IH; exact E2].
Qed.

Lemma forallb2_length {A B} (f : A -> B -> bool) a b : forallb2 f a b = true -> length a = length b.
Proof.
  revert b; induction a as [|x a IH]; intros [|y b]; cbn; try discriminate; [reflexivity|].
  intros E. apply andb_prop in E as [_ E]. f_equal. apply IH; exact E.
Qed.

(* indices of the cases on which a boolean checker fails; the only thing the harness reads back *)
Fixpoint failing {A} (chk : A -> bool) (i : nat) (l : list A) : list nat :=
  match l with
  | [] => []
  | c :: t => if chk c then failing chk (S i) t else i :: failing chk (S i) t
  end.

Lemma failing_nil_all {A} (chk : A -> bool) l i : failing chk i l = [] -> forallb chk l = true.
Proof.
  revert i; induction l as [|c t IH]; intros i; cbn; [reflexivity|].
  destruct (chk c); [apply IH | discriminate].
Qed.

(* chunk n l : consecutive blocks of length n (np.reshape(-1, n)); count blocks given explicitly *)
Fixpoint chunk {A} (n k : nat) (l : list A) : list (list A) :=
  match k with O => [] | S k' => firstn n l :: chunk n k' (skipn n l) end.

Lemma chunk_length {A} n k (l : list A) : length (chunk n k l) = k.
Proof. revert l; induction k as [|k IH]; intros l; cbn; [reflexivity | rewrite IH; reflexivity]. Qed.

Lemma concat_chunk {A} n k (l : list A) : length l = k * n -> concat (chunk n k l) = l.
Proof.
  revert l; induction k as [|k IH]; intros l H; cbn.
  - destruct l; [reflexivity | discriminate].
  - rewrite IH; [apply firstn_skipn|]. rewrite skipn_length. cbn in H. lia.
Qed.

Definition count_true (l : list bool) : nat := length (filter (fun b => b) l).

(* gather l mask : entries of l at true positions ; scatter : inverse, default from d *)
Fixpoint gather {A} (mask : list bool) (l : list A) : list A :=
  match mask, l with
  | true :: m, x :: t => x :: gather m t
  | false :: m, _ :: t => gather m t
  | _, _ => []
  end.
Fixpoint scatter {A} (mask : list bool) (free : list A) (d : list A) : list A :=
  match mask, d with
  | true :: m, _ :: dt => match free with x :: ft => x :: scatter m ft dt | [] => [] end
  | false :: m, y :: dt => y :: scatter m free dt
  | _, _ => []
  end.
