(* Base/Num.v -- exact rational arithmetic helpers shared by every model.
   Conventions (DESIGN 2.1): a finite float64 is its exact rational value (Q), NaN is
   None : option Q, +-inf in bounds is the small inductive [ereal].  Definitions here
   are executable (vm_compute) and come with the basic lemmas the proofs need. *)
From Coq Require Import QArith Qabs Qround Qminmax List Bool Lia Lqa ZArith.
Import ListNotations.
Open Scope Q_scope.

(* literal constructor used by the harness: (Q_ (-3) 4) *)
Definition Q_ (n : Z) (d : positive) : Q := Qmake n d.
Arguments Q_ n%Z d%positive.

Definition oQ := option Q.

(* ---- boolean comparisons ------------------------------------------------------- *)
Definition Qleb (a b : Q) : bool := Qle_bool a b.
Definition Qltb (a b : Q) : bool := negb (Qle_bool b a).
Definition Qeqb (a b : Q) : bool := Qeq_bool a b.

Lemma Qleb_le a b : Qleb a b = true <-> a <= b.
Proof. unfold Qleb. apply Qle_bool_iff. Qed.
Lemma Qleb_nle a b : Qleb a b = false <-> ~ a <= b.
Proof. unfold Qleb. rewrite <- Qle_bool_iff. destruct (Qle_bool a b); split; congruence. Qed.
Lemma Qltb_lt a b : Qltb a b = true <-> a < b.
Proof.
  unfold Qltb. rewrite negb_true_iff. rewrite <- not_true_iff_false, Qle_bool_iff. split; intro H; lra.
Qed.
Lemma Qltb_nlt a b : Qltb a b = false <-> ~ a < b.
Proof.
  unfold Qltb. rewrite negb_false_iff, Qle_bool_iff. split; intro H; lra.
Qed.
Lemma Qeqb_eq a b : Qeqb a b = true <-> a == b.
Proof. unfold Qeqb. apply Qeq_bool_iff. Qed.
Lemma Qeqb_neq a b : Qeqb a b = false <-> ~ a == b.
Proof. unfold Qeqb. rewrite <- Qeq_bool_iff. destruct (Qeq_bool a b); split; congruence. Qed.

(* destruct every boolean comparison in sight, leaving Prop facts for lra *)
Ltac qb := repeat match goal with
  | H : context [Qle_bool ?a ?b] |- _ => let E := fresh "E" in destruct (Qle_bool a b) eqn:E;
      [apply Qle_bool_iff in E | assert (~ a <= b) by (rewrite <- Qle_bool_iff; congruence); clear E]
  | |- context [Qle_bool ?a ?b] => let E := fresh "E" in destruct (Qle_bool a b) eqn:E;
      [apply Qle_bool_iff in E | assert (~ a <= b) by (rewrite <- Qle_bool_iff; congruence); clear E]
  | H : context [Qeq_bool ?a ?b] |- _ => let E := fresh "E" in destruct (Qeq_bool a b) eqn:E;
      [apply Qeq_bool_iff in E | assert (~ a == b) by (rewrite <- Qeq_bool_iff; congruence); clear E]
  | |- context [Qeq_bool ?a ?b] => let E := fresh "E" in destruct (Qeq_bool a b) eqn:E;
      [apply Qeq_bool_iff in E | assert (~ a == b) by (rewrite <- Qeq_bool_iff; congruence); clear E]
  end.
Ltac qbu := unfold Qleb, Qltb, Qeqb in *; qb.

(* ---- sums and dot products ----------------------------------------------------- *)
Definition qsum (l : list Q) : Q := fold_right Qplus 0 l.
Definition dot (a b : list Q) : Q := qsum (map (fun ab : Q * Q => fst ab * snd ab) (combine a b)).
Definition qscale (c : Q) (l : list Q) : list Q := map (fun x => c * x) l.
Definition qmaxl (l : list Q) : Q := fold_right Qmax 0 (map Qabs l).   (* largest magnitude, 0 for [] *)

Lemma qsum_nil : qsum [] = 0. Proof. reflexivity. Qed.
Lemma qsum_cons x l : qsum (x :: l) = x + qsum l. Proof. reflexivity. Qed.
Lemma qsum_app a b : qsum (a ++ b) == qsum a + qsum b.
Proof. induction a as [|x a IH]; [rewrite app_nil_l, qsum_nil; ring | rewrite <- app_comm_cons, !qsum_cons, IH; ring]. Qed.
Lemma dot_nil_l b : dot [] b = 0. Proof. reflexivity. Qed.
Lemma dot_cons x a y b : dot (x :: a) (y :: b) = x * y + dot a b. Proof. reflexivity. Qed.
Lemma qsum_scale c l : qsum (qscale c l) == c * qsum l.
Proof. induction l as [|x l IH]; unfold qscale in *; [cbn; ring | cbn [map]; rewrite !qsum_cons, IH; ring]. Qed.
Lemma qsum_nonneg l : Forall (fun x => 0 <= x) l -> 0 <= qsum l.
Proof. induction 1 as [|x l Hx _ IH]; [cbn; lra | rewrite qsum_cons; lra]. Qed.
Global Opaque qsum.

(* ---- tolerance comparison (DESIGN 2.2) ----------------------------------------- *)
(* accept iff |x - m| <= 1e-12 * S + 1e-9 * |m| ; x = implementation, m = model *)
Definition tol_abs : Q := Q_ 1 1000000000000.
Definition tol_rel : Q := Q_ 1 1000000000.
Definition close (S x m : Q) : bool := Qleb (Qabs (x - m)) (tol_abs * S + tol_rel * Qabs m).
Definition oclose (S : Q) (x m : oQ) : bool :=
  match x, m with Some a, Some b => close S a b | None, None => true | _, _ => false end.
(* looser comparison for chains of divisions / square roots *)
Definition close_tol (t S x m : Q) : bool := Qleb (Qabs (x - m)) (t * (S + Qabs m)).

(* ---- extended reals ------------------------------------------------------------ *)
Inductive ereal := NInf | Fin (q : Q) | PInf.
Definition ele (a b : ereal) : bool :=
  match a, b with
  | NInf, _ => true | _, PInf => true
  | Fin x, Fin y => Qleb x y
  | _, _ => false end.
Definition elt (a b : ereal) : bool := negb (ele b a).
Definition efinite (a : ereal) : bool := match a with Fin _ => true | _ => false end.
Definition eeqb (a b : ereal) : bool :=
  match a, b with NInf, NInf | PInf, PInf => true | Fin x, Fin y => Qeqb x y | _, _ => false end.
(* q - e and e - q as extended reals (q finite) *)
Definition esub_l (q : Q) (e : ereal) : ereal := match e with NInf => PInf | PInf => NInf | Fin b => Fin (q - b) end.
Definition esub_r (e : ereal) (q : Q) : ereal := match e with NInf => NInf | PInf => PInf | Fin b => Fin (b - q) end.
Definition eclose (S : Q) (x m : ereal) : bool :=
  match x, m with Fin a, Fin b => close S a b | NInf, NInf | PInf, PInf => true | _, _ => false end.

(* ---- option helpers ------------------------------------------------------------ *)
Definition is_none {A} (o : option A) : bool := match o with None => true | Some _ => false end.
Definition is_some {A} (o : option A) : bool := negb (is_none o).
Definition nan_to_num (f : list oQ) : list Q := map (fun o => match o with Some q => q | None => 0 end) f.

(* ---- floor --------------------------------------------------------------------- *)
Definition qfloor (x : Q) : Z := Qfloor x.
Lemma qfloor_spec x : inject_Z (qfloor x) <= x < inject_Z (qfloor x) + 1.
Proof.
  unfold qfloor. split; [apply Qfloor_le|].
  pose proof (Qlt_floor x) as H. rewrite inject_Z_plus in H. exact H.
Qed.
