(* Proofs/SvdBound.v -- the 99.9 % energy rule of _invert_linear_equations keeps every singular value
   whenever the smallest squared singular value is at least kappa = 1 % of the total, provided
   1 - kappa < SVD_TOLERANCE.  The side condition is discharged against Gen/Generated.v, i.e. against
   the constant found in the source on this run. *)
From Coq Require Import QArith Qabs List Bool Arith Lia Lqa.
From Ropt Require Import Base.Num Base.ListX Gen.Generated Model.Gradient.
Import ListNotations.
Open Scope Q_scope.

Lemma qsum_snoc l x : qsum (l ++ [x]) == qsum l + x.
Proof. rewrite qsum_app, qsum_cons, qsum_nil. ring. Qed.

Lemma sel_all_but_last tau T k : 0 < T -> 1 - k < tau ->
  forall s acc x, Forall (fun y => 0 <= y) (s ++ [x]) -> acc + qsum (s ++ [x]) == T -> k * T <= x ->
  exists b, sel tau T acc (s ++ [x]) = repeat true (length s) ++ [b].
Proof.
  intros HT Hk. induction s as [|y s IH]; intros acc x Hnn Hsum Hx.
  - cbn. eexists; reflexivity.
  - rewrite <- app_comm_cons in *. inversion Hnn as [|? ? Hy Hrest]; subst.
    rewrite qsum_cons in Hsum.
    assert (Hsum' : acc + y + qsum (s ++ [x]) == T) by lra.
    destruct (IH (acc + y) x Hrest Hsum' Hx) as [b Hb].
    cbn [sel length repeat app]. rewrite Hb. exists b. f_equal.
    assert (Hq : 0 <= qsum s) by (apply qsum_nonneg; apply Forall_app in Hrest; tauto).
    pose proof (qsum_snoc s x) as Hsx.
    assert (Hlt : (acc + y) / T < tau).
    { apply Qlt_shift_div_r; [exact HT|]. rewrite Hsx in Hsum'. nra. }
    apply Qltb_lt. exact Hlt.
Qed.

Lemma set_first_false_all n b : set_first_false (repeat true n ++ [b]) = repeat true (S n).
Proof. induction n as [|n IH]; cbn; [destruct b; reflexivity | cbn in IH; rewrite IH; reflexivity]. Qed.

Theorem no_truncation tau k s x : 1 - k < tau ->
  Forall (fun y => 0 <= y) (s ++ [x]) -> 0 < qsum (s ++ [x]) -> k * qsum (s ++ [x]) <= x ->
  select_mask tau (s ++ [x]) = repeat true (length (s ++ [x])).
Proof.
  intros Hk Hnn HT Hx. unfold select_mask.
  destruct (sel_all_but_last tau _ k HT Hk s 0 x Hnn ltac:(ring) Hx) as [b Hb]. rewrite Hb.
  rewrite set_first_false_all, app_length. cbn [length]. rewrite Nat.add_1_r. reflexivity.
Qed.

(* the constant of the source satisfies the side conditions (checked by computation on every run) *)
Lemma svd_tolerance_in_range : 1 - kappa < svd_tolerance /\ svd_tolerance < 1.
Proof. split; vm_compute; reflexivity. Qed.

Lemma forallb_repeat_true n : forallb (fun b : bool => b) (repeat true n) = true.
Proof. induction n; cbn; auto. Qed.

Lemma descending_ge_last s x : descending (s ++ [x]) = true -> Forall (fun y => x <= y) (s ++ [x]).
Proof.
  induction s as [|y s IH]; intros H.
  - constructor; [lra | constructor].
  - rewrite <- app_comm_cons in *. destruct s as [|z s].
    + cbn in H. apply andb_prop in H as [H _]. apply Qleb_le in H.
      constructor; [exact H | constructor; [lra | constructor]].
    + cbn [descending app] in H. apply andb_prop in H as [H1 H2].
      specialize (IH H2). constructor; [|exact IH].
      inversion IH as [|? ? Hz _]; subst. apply Qleb_le in H1. lra.
Qed.

(* inside the property's conditioning clause nothing is truncated and every kept value is positive *)
Theorem well_conditioned_keeps_all n s2 :
  well_conditioned n s2 = true -> keeps_all svd_tolerance s2 = true /\ length s2 = n.
Proof.
  unfold well_conditioned. intros H.
  apply andb_prop in H as [H Hnn]. apply andb_prop in H as [H Hlast]. apply andb_prop in H as [H Hpos].
  apply andb_prop in H as [Hlen Hdesc].
  apply Nat.eqb_eq in Hlen. apply Qltb_lt in Hpos. apply Qleb_le in Hlast.
  split; [|exact Hlen].
  assert (Hne : s2 <> []) by (intros ->; rewrite qsum_nil in Hpos; lra).
  destruct (exists_last Hne) as [s [x E]]. subst s2. rewrite last_last in Hlast.
  assert (Hnn' : Forall (fun y => 0 <= y) (s ++ [x])).
  { apply Forall_forall. intros y Hy. rewrite forallb_forall in Hnn. apply Qleb_le, Hnn, Hy. }
  unfold keeps_all. apply andb_true_intro. split.
  - rewrite (no_truncation svd_tolerance kappa s x (proj1 svd_tolerance_in_range) Hnn' Hpos Hlast).
    apply forallb_repeat_true.
  - apply forallb_forall. intros y Hy. apply Qltb_lt.
    pose proof (descending_ge_last s x Hdesc) as Hge. rewrite Forall_forall in Hge.
    specialize (Hge y Hy). unfold kappa in Hlast. nra.
Qed.
