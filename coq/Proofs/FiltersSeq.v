(* Proofs/FiltersSeq.v -- facts about the request-sequence part of Model/Filters.v (C04, C05): the results of any
   sequence of calculate() calls on one evaluator are those of a fresh evaluation of the requested point (weights in
   force for gradient results, gradient-only path included), the exit code of an optimizer step, and the filter loop
   never producing a value when a filter in use finds no positive weight. *)
From Coq Require Import String QArith Qabs Qround Qminmax Bool Arith ZArith List Lia Lqa Permutation Sorted.
From Ropt Require Import Base.Num Base.ListX Gen.Generated Model.Filters Proofs.SortX Proofs.Filters Proofs.FiltersTies.
Import ListNotations.

(* ---- the filter loop ------------------------------------------------------------------------------------------ *)
Lemma get_weights_abort cfg m objs cns c : get_weights cfg m objs cns = Abort c -> c = too_few.
Proof.
  rewrite get_weights_unfold. destruct (method_weights cfg m objs cns) as [w|]; [|discriminate].
  destruct (any_positive w); [discriminate|]. intros H. injection H as <-. reflexivity.
Qed.

(* Ok: every filter in use returned weights.  Abort: some filter in use found no positive weight. *)
Lemma filter_loop_in_use cfg ofm cfm objs cns : forall filters idx ow cw,
  match filter_loop cfg filters idx ofm cfm objs cns ow cw with
  | Ok _ => forall k m, nth_error filters k = Some m -> in_use ofm cfm (idx + Z.of_nat k) = true ->
                        exists w, get_weights cfg m objs cns = Ok w
  | Abort c => c = too_few /\
               exists k m, nth_error filters k = Some m /\ in_use ofm cfm (idx + Z.of_nat k) = true /\
                           get_weights cfg m objs cns = Abort too_few
  | Raise _ => True
  end.
Proof.
  induction filters as [|m rest IH]; intros idx ow cw; cbn [filter_loop].
  - intros k m Hk. destruct k; discriminate.
  - destruct (none_applies (applies ofm idx) && none_applies (applies cfm idx)) eqn:Hskip.
    + specialize (IH (idx + 1)%Z ow cw).
      destruct (filter_loop cfg rest (idx + 1) ofm cfm objs cns ow cw) as [r|c|s]; [| |exact I].
      * intros k m' Hk Hu. destruct k as [|k].
        -- exfalso. unfold in_use in Hu. rewrite Z.add_0_r, Hskip in Hu. discriminate.
        -- cbn [nth_error] in Hk. apply (IH k m' Hk). rewrite <- Hu. f_equal. lia.
      * destruct IH as [Hc [k [m' [Hk [Hu Hw]]]]]. split; [exact Hc|].
        exists (S k), m'. split; [exact Hk|]. split; [|exact Hw]. rewrite <- Hu. f_equal. lia.
    + destruct (get_weights cfg m objs cns) as [w|c|s] eqn:Hw; [| |exact I].
      * match goal with |- match filter_loop cfg rest (idx + 1) ofm cfm objs cns ?a ?b with _ => _ end =>
          specialize (IH (idx + 1)%Z a b); destruct (filter_loop cfg rest (idx + 1) ofm cfm objs cns a b) as [r|c|s] end;
          [| |exact I].
        -- intros k m' Hk Hu. destruct k as [|k].
           ++ cbn [nth_error] in Hk. injection Hk as <-. exists w. exact Hw.
           ++ cbn [nth_error] in Hk. apply (IH k m' Hk). rewrite <- Hu. f_equal. lia.
        -- destruct IH as [Hc [k [m' [Hk [Hu Hw']]]]]. split; [exact Hc|].
           exists (S k), m'. split; [exact Hk|]. split; [|exact Hw']. rewrite <- Hu. f_equal. lia.
      * pose proof (get_weights_abort _ _ _ _ _ Hw) as ->. split; [reflexivity|].
        exists 0%nat, m. split; [reflexivity|]. split; [|exact Hw].
        unfold in_use. rewrite Z.add_0_r, Hskip. reflexivity.
Qed.

Theorem filtered_weights_ok_in_use cfg filters ofm cfm objs cns r :
  filtered_weights cfg filters ofm cfm objs cns = Ok r ->
  forall k m, nth_error filters k = Some m -> in_use ofm cfm (Z.of_nat k) = true ->
    exists w, get_weights cfg m objs cns = Ok w.
Proof.
  intros H. unfold filtered_weights in H.
  pose proof (filter_loop_in_use cfg ofm cfm objs cns filters 0%Z None None) as L. rewrite H in L. exact L.
Qed.

Theorem filtered_weights_abort cfg filters ofm cfm objs cns c :
  filtered_weights cfg filters ofm cfm objs cns = Abort c ->
  c = too_few /\ exists k m, nth_error filters k = Some m /\ in_use ofm cfm (Z.of_nat k) = true /\
                             get_weights cfg m objs cns = Abort too_few.
Proof.
  intros H. unfold filtered_weights in H.
  pose proof (filter_loop_in_use cfg ofm cfm objs cns filters 0%Z None None) as L. rewrite H in L. exact L.
Qed.

(* ---- evaluate --------------------------------------------------------------------------------------------------- *)
Lemma create_all_never_aborts cfg fs c : create_all cfg fs <> Abort c.
Proof.
  induction fs as [|m t IH]; cbn [create_all]; [discriminate|].
  destruct (create cfg m) as [u|c'|s] eqn:E; [exact IH| |discriminate].
  exfalso. exact (create_never_aborts cfg m c' E).
Qed.

Lemma evaluate_ok cfg filters ofm cfm rmin objs0 cns0 e :
  evaluate cfg filters ofm cfm rmin objs0 cns0 = Ok e ->
  create_all cfg filters = Ok tt /\
  filtered_weights cfg filters ofm cfm (fst (propagate_nan objs0 cns0)) (snd (propagate_nan objs0 cns0)) = Ok (e_ow e, e_cw e) /\
  e_failed e = col0_failed (fst (propagate_nan objs0 cns0)).
Proof.
  unfold evaluate. destruct (create_all cfg filters) as [[]|c|s]; try discriminate.
  destruct (propagate_nan objs0 cns0) as [objs cns]. cbn [fst snd].
  destruct (filtered_weights cfg filters ofm cfm objs cns) as [[ow cw]|c|s]; try discriminate.
  intros H. injection H as <-. cbn [e_ow e_cw e_failed]. repeat split; reflexivity.
Qed.

Lemma evaluate_abort cfg filters ofm cfm rmin objs0 cns0 c :
  evaluate cfg filters ofm cfm rmin objs0 cns0 = Abort c ->
  filtered_weights cfg filters ofm cfm (fst (propagate_nan objs0 cns0)) (snd (propagate_nan objs0 cns0)) = Abort c.
Proof.
  unfold evaluate. destruct (create_all cfg filters) as [[]|c'|s] eqn:Ec; try discriminate.
  - destruct (propagate_nan objs0 cns0) as [objs cns]. cbn [fst snd].
    destruct (filtered_weights cfg filters ofm cfm objs cns) as [[ow cw]|c'|s]; try discriminate.
    intros H. injection H as <-. reflexivity.
  - exfalso. exact (create_all_never_aborts _ _ _ Ec).
Qed.

(* a value is produced only if every filter in use selected a realization with positive weight; an abort always
   carries TOO_FEW_REALIZATIONS and is caused by a filter in use that selected none *)
Theorem evaluate_in_use cfg filters ofm cfm rmin objs0 cns0 :
  let objs := fst (propagate_nan objs0 cns0) in
  let cns := snd (propagate_nan objs0 cns0) in
  match evaluate cfg filters ofm cfm rmin objs0 cns0 with
  | Ok _ => forall k m, nth_error filters k = Some m -> in_use ofm cfm (Z.of_nat k) = true ->
                        exists w, get_weights cfg m objs cns = Ok w
  | Abort c => c = too_few /\
               exists k m, nth_error filters k = Some m /\ in_use ofm cfm (Z.of_nat k) = true /\
                           get_weights cfg m objs cns = Abort too_few
  | Raise _ => True
  end.
Proof.
  intros objs cns. destruct (evaluate cfg filters ofm cfm rmin objs0 cns0) as [e|c|s] eqn:E; [| |exact I].
  - destruct (evaluate_ok _ _ _ _ _ _ _ _ E) as [_ [Hw _]].
    exact (filtered_weights_ok_in_use _ _ _ _ _ _ _ Hw).
  - apply evaluate_abort in E. exact (filtered_weights_abort _ _ _ _ _ _ _ E).
Qed.

(* ---- request sequences ------------------------------------------------------------------------------------------ *)
Lemma eval_point_pt env k pt e : eval_point env k = Ok (pt, e) -> nth_error (s_points env) k = Some pt.
Proof.
  unfold eval_point. destruct (nth_error (s_points env) k) as [pt'|]; [|discriminate].
  destruct (evaluate _ _ _ _ _ _ _); try discriminate. intros H. injection H as <- _. reflexivity.
Qed.

Lemma calc_both_spec env k :
  fst (calc_both env k) = None /\
  match snd (calc_both env k) with
  | Ok rs => exists e g, rs = [RFun e; RGrad g] /\ fresh_function env k = Ok e /\ fresh_gradient env k = Ok g
  | Abort c => fresh_function env k = Abort c
  | Raise s => fresh_function env k = Raise s
  end.
Proof.
  unfold calc_both, fresh_function, fresh_gradient.
  destruct (eval_point env k) as [[pt e]|c|s]; cbn [fst snd]; split; try reflexivity.
  exists e, (gradient_result env e pt). repeat split; reflexivity.
Qed.

Lemma eval_batch_spec env : forall ks,
  match eval_batch env ks with
  | Ok es => length es = length ks /\
             forall i e, nth_error es i = Some e -> fresh_function env (nth i ks 0%nat) = Ok e
  | Abort c => exists k, In k ks /\ fresh_function env k = Abort c
  | Raise _ => True
  end.
Proof.
  induction ks as [|k rest IH]; cbn [eval_batch].
  - split; [reflexivity|]. intros i e H. destruct i; discriminate.
  - unfold fresh_function in *. destruct (eval_point env k) as [[pt e]|c|s] eqn:E; [| |exact I].
    + destruct (eval_batch env rest) as [es|c|s]; [| |exact I].
      * destruct IH as [HL IH]. split; [cbn [length]; rewrite HL; reflexivity|].
        intros i e' H. destruct i as [|i]; cbn [nth_error nth] in *.
        -- injection H as <-. rewrite E. reflexivity.
        -- apply IH. exact H.
      * destruct IH as [k' [Hin Hk']]. exists k'. split; [right; exact Hin | exact Hk'].
    + exists k. split; [left; reflexivity|]. rewrite E. reflexivity.
Qed.

(* one call: the cache invariant is kept, and every result of the call is the result of a fresh evaluation of the
   point it is about -- whatever the cache held *)
Lemma calc_spec env ch rq : cache_ok env ch ->
  cache_ok env (fst (calc env ch rq)) /\ answer_fresh env rq (snd (calc env ch rq)).
Proof.
  intros Hc.
  assert (Hboth : forall k, result_point rq = (fun _ => k) -> req_points rq = [k] ->
            cache_ok env (fst (calc_both env k)) /\ answer_fresh env rq (snd (calc_both env k))).
  { intros k Hrp Hps. destruct (calc_both_spec env k) as [H1 H2]. rewrite H1. split; [exact I|].
    destruct (snd (calc_both env k)) as [rs|c|s]; cbn [answer_fresh]; [| |exact I].
    - destruct H2 as [e [g [-> [He Hg]]]]. intros i r Hi. unfold result_fresh. rewrite Hrp.
      destruct i as [|[|i]]; cbn [nth_error] in Hi; try (destruct i; discriminate).
      + injection Hi as <-. exact He.
      + injection Hi as <-. exact Hg.
    - exists k. rewrite Hps. split; [left; reflexivity | exact H2]. }
  destruct rq as [k|k|k|ks]; cbn [calc].
  - unfold fresh_function. destruct (eval_point env k) as [[pt e]|c|s] eqn:E; cbn [fst snd answer_fresh].
    + split; [unfold cache_ok, fresh_function; rewrite E; reflexivity|].
      intros i r Hi. destruct i as [|i]; cbn [nth_error] in Hi; [|destruct i; discriminate].
      injection Hi as <-. unfold result_fresh, fresh_function. cbn [result_point]. rewrite E. reflexivity.
    + split; [exact Hc|]. exists k. split; [left; reflexivity|]. unfold fresh_function. rewrite E. reflexivity.
    + split; [exact Hc | exact I].
  - destruct ch as [[k' e]|]; [|apply Hboth; reflexivity].
    destruct (Nat.eqb_spec k k') as [<-|Hne]; [|apply Hboth; reflexivity].
    unfold cache_ok, fresh_function in Hc.
    destruct (eval_point env k) as [[pt e']|c|s] eqn:E; try discriminate. injection Hc as ->.
    rewrite (eval_point_pt _ _ _ _ E). cbn [fst snd answer_fresh]. split.
    + unfold cache_ok, fresh_function. rewrite E. reflexivity.
    + intros i r Hi. destruct i as [|i]; cbn [nth_error] in Hi; [|destruct i; discriminate].
      injection Hi as <-. unfold result_fresh, fresh_gradient. cbn [result_point]. rewrite E. reflexivity.
  - apply Hboth; reflexivity.
  - pose proof (eval_batch_spec env ks) as HB.
    destruct (eval_batch env ks) as [es|c|s]; cbn [fst snd answer_fresh].
    + destruct HB as [HL HB]. split.
      * destruct es as [|e0 es']; [exact Hc|]. unfold cache_ok.
        specialize (HB 0%nat e0 eq_refl). destruct ks as [|k0 ks']; [discriminate|]. exact HB.
      * intros i r Hi. rewrite nth_error_map in Hi. destruct (nth_error es i) as [e|] eqn:Ei; [|discriminate].
        injection Hi as <-. unfold result_fresh. cbn [result_point]. apply HB. exact Ei.
    + split; [exact Hc | exact HB].
    + split; [exact Hc | exact I].
Qed.

(* any sequence of calls on one evaluator: answer i is about request i only *)
Theorem run_direct_spec env : forall reqs ch, cache_ok env ch ->
  forall i rq, nth_error reqs i = Some rq ->
  exists a, nth_error (run_direct env ch reqs) i = Some a /\ answer_fresh env rq a.
Proof.
  induction reqs as [|r rest IH]; intros ch Hc i rq Hi; [destruct i; discriminate|].
  cbn [run_direct]. pose proof (calc_spec env ch r Hc) as [Hc' Ha].
  destruct (calc env ch r) as [ch' out]. cbn [fst snd] in *.
  destruct i as [|i]; cbn [nth_error] in *.
  - injection Hi as <-. exists out. split; [reflexivity | exact Ha].
  - exact (IH ch' Hc' i rq Hi).
Qed.

Lemma run_direct_length env : forall reqs ch, length (run_direct env ch reqs) = length reqs.
Proof.
  induction reqs as [|r rest IH]; intros ch; [reflexivity|]. cbn [run_direct].
  destruct (calc env ch r) as [ch' out]. cbn [length]. rewrite IH. reflexivity.
Qed.

(* the weight matrices reported with gradient results are those of the function evaluation of the same point *)
Lemma fresh_gradient_weights env k g : fresh_gradient env k = Ok g ->
  exists e, fresh_function env k = Ok e /\ g_ow g = e_ow e /\ g_cw g = e_cw e /\
            g_failed g = grad_failed (s_pmin env) (e_failed e) (match nth_error (s_points env) k with Some pt => pt_pfail pt | None => [] end).
Proof.
  unfold fresh_gradient, fresh_function. destruct (eval_point env k) as [[pt e]|c|s] eqn:E; try discriminate.
  intros H. injection H as <-. exists e. rewrite (eval_point_pt _ _ _ _ E). repeat split; reflexivity.
Qed.

(* ---- optimizer step ------------------------------------------------------------------------------------------------ *)
Lemma fresh_abort_too_few env k c : fresh_function env k = Abort c -> c = too_few.
Proof.
  unfold fresh_function, eval_point. intros Ha.
  destruct (nth_error (s_points env) k) as [pt|]; [|discriminate].
  destruct (evaluate (s_cfg env) (s_filters env) (s_ofm env) (s_cfm env) (s_rmin env) (pt_objs pt) (pt_cons pt)) as [e|c'|s] eqn:E;
    try discriminate.
  injection Ha as <-.
  pose proof (evaluate_in_use (s_cfg env) (s_filters env) (s_ofm env) (s_cfm env) (s_rmin env) (pt_objs pt) (pt_cons pt)) as L.
  cbv zeta in L. rewrite E in L. exact (proj1 L).
Qed.

Lemma calc_abort_too_few env ch rq c : cache_ok env ch -> snd (calc env ch rq) = Abort c -> c = too_few.
Proof.
  intros Hc H. pose proof (calc_spec env ch rq Hc) as [_ Ha]. rewrite H in Ha.
  destruct Ha as [k [_ Hk]]. exact (fresh_abort_too_few env k c Hk).
Qed.

(* exit code of an optimizer step: OPTIMIZER_STEP_FINISHED exactly when every request delivered results that all carry
   values; otherwise TOO_FEW_REALIZATIONS, caused either by the last delivered tuple (a result without values) or by
   the next request, the evaluation of one of whose points was ended by a filter that found no positive weight
   (nothing delivered) *)
Theorem run_step_exit env an : forall reqs ch d code, cache_ok env ch ->
  run_step env an ch reqs = (d, Ok code) ->
  (code = step_finished /\ length d = length reqs /\
   Forall (fun rs => existsb (result_stops env an) rs = false) d) \/
  (code = too_few /\
   ((exists d' rs, d = d' ++ [rs] /\ existsb (result_stops env an) rs = true /\
                   Forall (fun rs => existsb (result_stops env an) rs = false) d') \/
    (exists rq k, nth_error reqs (length d) = Some rq /\ In k (req_points rq) /\
                  fresh_function env k = Abort too_few /\
                  Forall (fun rs => existsb (result_stops env an) rs = false) d))).
Proof.
  induction reqs as [|rq rest IH]; intros ch d code Hc H; cbn [run_step] in H.
  - injection H as <- <-. left. repeat split; constructor.
  - pose proof (calc_spec env ch rq Hc) as [Hc' Ha].
    pose proof (calc_abort_too_few env ch rq) as Hab.
    destruct (calc env ch rq) as [ch' out]. cbn [fst snd] in *.
    destruct out as [rs|c|s]; [| |discriminate].
    + destruct (existsb (result_stops env an) rs) eqn:Hs.
      * injection H as <- <-. right. split; [reflexivity|]. left. exists [], rs. repeat split; [exact Hs | constructor].
      * destruct (run_step env an ch' rest) as [d0 c0] eqn:Hr. injection H as <- ->.
        destruct (IH ch' d0 code Hc' Hr) as [[E1 [E2 E3]]|[E1 [[d' [rs' [E2 [E3 E4]]]]|[rq' [k' [E2 [E3 [E4 E5]]]]]]]].
        -- left. split; [exact E1|]. split; [cbn [length]; lia | constructor; assumption].
        -- right. split; [exact E1|]. left. exists (rs :: d'), rs'. rewrite E2. repeat split; [exact E3 | constructor; assumption].
        -- right. split; [exact E1|]. right. exists rq', k'. cbn [length nth_error].
           repeat split; [exact E2 | exact E3 | exact E4 | constructor; assumption].
    + injection H as <- <-. pose proof (Hab c Hc eq_refl) as ->. right. split; [reflexivity|]. right.
      cbn [answer_fresh] in Ha. destruct Ha as [k [Hin Hk]].
      exists rq, k. cbn [length nth_error]. repeat split; [exact Hin | exact Hk | constructor].
Qed.

(* a window emptied by failures at the first evaluation of a step: TOO_FEW_REALIZATIONS, nothing delivered *)
Theorem run_step_first_abort env an rq rest k c :
  req_points rq = [k] -> fresh_function env k = Abort c -> run_step env an None (rq :: rest) = ([], Ok c).
Proof.
  intros Hp H. unfold fresh_function in H. cbn [run_step].
  destruct rq as [k'|k'|k'|ks]; cbn [req_points] in Hp.
  1-3: injection Hp as ->; cbn [calc]; unfold calc_both;
       destruct (eval_point env k) as [[pt e]|c'|s]; try discriminate; injection H as ->; reflexivity.
  subst ks. cbn [calc eval_batch]. destruct (eval_point env k) as [[pt e]|c'|s]; try discriminate. injection H as ->. reflexivity.
Qed.

Theorem run_evalstep_exit env rq d code : run_evalstep env rq = (d, Ok code) ->
  match snd (calc env None rq) with
  | Ok rs => d = [rs] /\ answer_fresh env rq (Ok rs) /\
             code = (if existsb lacks_functions rs then too_few else evaluation_finished)
  | Abort c => d = [] /\ code = c /\ c = too_few /\ exists k, In k (req_points rq) /\ fresh_function env k = Abort too_few
  | Raise _ => False
  end.
Proof.
  unfold run_evalstep. intros H.
  pose proof (calc_spec env None rq I) as [_ Ha].
  pose proof (calc_abort_too_few env None rq) as Hab.
  destruct (snd (calc env None rq)) as [rs|c|s]; [| |discriminate].
  - injection H as <- <-. repeat split. exact Ha.
  - injection H as <- <-. pose proof (Hab c I eq_refl) as ->. repeat split. exact Ha.
Qed.

(* ---- gradient values -------------------------------------------------------------------------------------------------- *)
(* the gradient reported for objective j at point k -- by ANY request that returns gradient results for k, see
   run_direct_spec -- is the mean estimator applied to the realizations' slopes with the weight vector of the filter
   mapped to j evaluated on the FUNCTION values of point k (the weights in force), realizations that failed or have
   too few successful perturbations zeroed *)
Theorem gradient_objective_value env k g fm j :
  fresh_gradient env k = Ok g -> s_ofm env = Some fm ->
  length fm = length (c_ow (s_cfg env)) -> (j < length fm)%nat ->
  (s_rmin env <= count_ok (g_failed g))%nat ->
  exists pt e go gc w,
    nth_error (s_points env) k = Some pt /\ fresh_function env k = Ok e /\
    g_failed g = grad_failed (s_pmin env) (e_failed e) (pt_pfail pt) /\
    g_gradients g = Some (go, gc) /\
    nth j go None = mean_value w (g_failed g) (column j (somes (pt_oslope pt))) /\
    match znth (nth j fm (-1)%Z) (s_filters env) with
    | Some m => get_weights (s_cfg env) m (fst (propagate_nan (pt_objs pt) (pt_cons pt)))
                            (snd (propagate_nan (pt_objs pt) (pt_cons pt))) = Ok w
    | None => w = c_rw (s_cfg env)
    end.
Proof.
  intros Hg Hofm HF Hj Hmin. unfold fresh_gradient in Hg.
  destruct (eval_point env k) as [[pt e]|c|s] eqn:E; try discriminate. injection Hg as <-.
  pose proof (eval_point_pt _ _ _ _ E) as Hpt.
  assert (He : evaluate (s_cfg env) (s_filters env) (Some fm) (s_cfm env) (s_rmin env) (pt_objs pt) (pt_cons pt) = Ok e).
  { unfold eval_point in E. rewrite Hpt, Hofm in E.
    destruct (evaluate (s_cfg env) (s_filters env) (Some fm) (s_cfm env) (s_rmin env) (pt_objs pt) (pt_cons pt)); try discriminate.
    injection E as <-. reflexivity. }
  destruct (evaluate_functions _ _ _ _ _ _ _ _ He) as [_ [Hw _]].
  cbn [gradient_result g_failed g_gradients] in *.
  set (fg := grad_failed (s_pmin env) (e_failed e) (pt_pfail pt)) in *.
  assert (Hlt : Nat.ltb (count_ok fg) (s_rmin env) = false) by (apply Nat.ltb_ge; exact Hmin).
  rewrite Hlt.
  exists pt, e, (estimate (s_cfg env) (e_ow e) fg (length (c_ow (s_cfg env))) (somes (pt_oslope pt))),
         (option_map (fun _ => estimate (s_cfg env) (e_cw e) fg (length (c_lower (s_cfg env))) (somes (pt_cslope pt))) (pt_cons pt)),
         (nth j (default_matrix (e_ow e) (length (c_ow (s_cfg env))) (c_rw (s_cfg env))) []).
  split; [exact Hpt|]. split; [unfold fresh_function; rewrite E; reflexivity|]. split; [reflexivity|].
  split; [reflexivity|]. split.
  - rewrite estimate_nth by lia.
    rewrite (row_in_force (e_ow e) (length (c_ow (s_cfg env))) (c_rw (s_cfg env)) j) by lia. reflexivity.
  - exact (filtered_rows_objectives _ _ fm _ _ _ (e_ow e) (e_cw e) HF Hw j Hj).
Qed.

(* ... so the gradient of an objective mapped to a cvar-objective filter is the CVaR_p tail mean of the realizations'
   gradients along the ranking of the FUNCTION values, whenever no realization is lost to perturbation failures *)
Theorem gradient_cvar_objective_value env k g fm j sort p :
  fresh_gradient env k = Ok g -> s_ofm env = Some fm ->
  length fm = length (c_ow (s_cfg env)) -> (j < length fm)%nat ->
  znth (nth j fm (-1)%Z) (s_filters env) = Some (CvarObjective sort p) -> (0 < p)%Q -> (p <= 1)%Q ->
  exists pt e, nth_error (s_points env) k = Some pt /\ fresh_function env k = Ok e /\
    let objs := fst (propagate_nan (pt_objs pt) (pt_cons pt)) in
    let failed := col0_failed objs in
    (g_failed g = failed -> length (pt_oslope pt) = length objs ->
     (s_rmin env <= count_ok failed)%nat -> (0 < count_ok failed)%nat ->
     exists go gc v, g_gradients g = Some (go, gc) /\ nth j go None = Some v /\
       (v == tail_mean p (ranked failed (cvar_objective_keys (s_cfg env) sort objs)) (column j (somes (pt_oslope pt))))%Q).
Proof.
  intros Hg Hofm HF Hj Hm Hp Hp1.
  assert (Hg' := Hg). unfold fresh_gradient in Hg'.
  destruct (eval_point env k) as [[pt e]|c|s] eqn:E; try discriminate. injection Hg' as Hgr.
  exists pt, e. split; [exact (eval_point_pt _ _ _ _ E)|]. split; [unfold fresh_function; rewrite E; reflexivity|].
  intros objs failed Hsame Hsl Hmin Hpos.
  assert (Hmin' : (s_rmin env <= count_ok (g_failed g))%nat) by (rewrite Hsame; exact Hmin).
  destruct (gradient_objective_value env k g fm j Hg Hofm HF Hj Hmin') as [pt' [e' [go [gc [w [Hpt [_ [_ [Hgg [Hv Hw]]]]]]]]]].
  rewrite (eval_point_pt _ _ _ _ E) in Hpt. injection Hpt as <-.
  rewrite Hm in Hw. fold objs in Hw. rewrite cvar_objective_outcome in Hw by assumption. fold failed in Hw.
  destruct (Nat.eqb_spec (count_ok failed) 0) as [H0|H0]; [lia|]. injection Hw as <-.
  assert (HL : length failed = length (cvar_objective_keys (s_cfg env) sort objs)).
  { unfold failed, cvar_objective_keys. rewrite col0_failed_length, map_length. reflexivity. }
  assert (HFl : length (column j (somes (pt_oslope pt))) = length failed).
  { unfold failed, column, somes. rewrite col0_failed_length, !map_length. exact Hsl. }
  destruct (cvar_tail_mean p (cvar_objective_keys (s_cfg env) sort objs) failed (column j (somes (pt_oslope pt))) HL HFl Hp Hp1 Hpos)
    as [v [Ev Hv']].
  exists go, gc, v. split; [exact Hgg|]. split; [|exact Hv'].
  rewrite Hv, Hsame. unfold cvar_objectives. fold failed. exact Ev.
Qed.
