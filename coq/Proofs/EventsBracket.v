(* Proofs/EventsBracket.v -- bracketing facts for C15 that do not need the simulation invariant:
   (a) every run_step call, aborted anywhere or not, delivers its START event first and its FINISHED
       event last;
   (b) the evaluation events of an optimizer step alternate START_EVALUATION / FINISHED_EVALUATION and a
       START_EVALUATION stays unmatched only when the evaluator raised or aborted inside that very
       evaluation. *)
From Coq Require Import List Bool Arith Lia.
From Ropt Require Import Model.Step Model.Events Proofs.Step Proofs.Events.
Import ListNotations.
Open Scope nat_scope.
Local Arguments firstn : simpl never.

(* ---- (a) START first, FINISHED last ------------------------------------------------------------ *)
Lemma deliver_shape k rc sid e : forall log,
  exists m, fst (deliver k rc sid e log) = log ++ block (firstn m rc) sid e /\ (rc <> [] -> 1 <= m <= length rc).
Proof.
  assert (G : forall log, exists m, fst (deliver k rc sid e log) = log ++ block (firstn m rc) sid e /\
                                    m <= length rc /\ (rc <> [] -> 1 <= m)).
  { induction rc as [|r t IH]; intros log.
    - exists 0. cbn. rewrite app_nil_r. split; [reflexivity|]. split; [lia|]. intros H; now destruct H.
    - cbn [deliver]. destruct (hit k (length log)).
      + exists 1. cbn. split; [reflexivity|]. split; lia.
      + destruct (IH (log ++ [Deliv r sid e])) as (m & Hm & Hle & _). exists (S m). rewrite Hm.
        rewrite <- app_assoc. rewrite firstn_S_cons. cbn. split; [reflexivity|]. split; lia. }
  intros log. destruct (G log) as (m & Hm & Hle & Hge). exists m. split; [exact Hm|]. intros Hne.
  specialize (Hge Hne). lia.
Qed.

Lemma exec_extends w p : forall k log, exists ext, fst (fst (exec w p k log)) = log ++ ext.
Proof.
  induction p as [| sid e | | p IHp q IHq | sid sk ex body IH]; intros k log; cbn [exec].
  - exists []. now rewrite app_nil_r.
  - destruct (deliver_shape k (recipients w (level_of sid) e) sid e log) as (m & Hm & _).
    destruct (deliver k (recipients w (level_of sid) e) sid e log) as [l r]. cbn in *. eexists. exact Hm.
  - eexists. reflexivity.
  - destruct (IHp k log) as (e1 & H1). destruct (exec w p k log) as [[l1 r1] x1]. cbn in H1. subst l1.
    destruct r1; [eexists; reflexivity|].
    destruct (IHq k (log ++ e1)) as (e2 & H2). destruct (exec w q k (log ++ e1)) as [[l2 r2] x2]. cbn in *.
    subst l2. exists (e1 ++ e2). now rewrite app_assoc.
  - destruct (deliver_shape k (recipients w (level_of sid) (start_of sk)) sid (start_of sk) log) as (m0 & H0 & _).
    destruct (deliver k (recipients w (level_of sid) (start_of sk)) sid (start_of sk) log) as [l0 r0]. cbn in H0. subst l0.
    set (l0 := log ++ block (firstn m0 (recipients w (level_of sid) (start_of sk))) sid (start_of sk)).
    assert (Hb : exists e1, fst (fst (if r0 then (l0, true, []) else exec w body k l0)) = l0 ++ e1).
    { destruct r0; [exists []; cbn; now rewrite app_nil_r | apply IH]. }
    destruct Hb as (e1 & H1).
    destruct (if r0 then (l0, true, []) else exec w body k l0) as [[l1 r1] x1]. cbn in H1. subst l1.
    destruct (deliver_shape k (recipients w (level_of sid) (fin_of sk)) sid (fin_of sk) (l0 ++ e1)) as (m2 & H2 & _).
    destruct (deliver k (recipients w (level_of sid) (fin_of sk)) sid (fin_of sk) (l0 ++ e1)) as [l2 r2].
    cbn [fst snd] in *. subst l2.
    unfold l0. rewrite <- !app_assoc. eexists. reflexivity.
Qed.

(* whatever the abort index, the log of a run_step call starts with a delivery of the step's START event (to the
   first recipient) and ends with a delivery of its FINISHED event *)
Theorem step_bracketed w sid sk ex body k :
  recipients w (level_of sid) (start_of sk) <> [] -> recipients w (level_of sid) (fin_of sk) <> [] ->
  let l := fst (fst (exec w (PStep sid sk ex body) k [])) in
  (exists post, l = Deliv (hd 0 (recipients w (level_of sid) (start_of sk))) sid (start_of sk) :: post) /\
  (exists pre r, l = pre ++ [Deliv r sid (fin_of sk)] /\ In r (recipients w (level_of sid) (fin_of sk))).
Proof.
  intros Hnes Hnef. cbn [exec].
  set (rcs := recipients w (level_of sid) (start_of sk)) in *.
  set (rcf := recipients w (level_of sid) (fin_of sk)) in *.
  destruct (deliver_shape k rcs sid (start_of sk) []) as (m0 & H0 & B0).
  destruct (deliver k rcs sid (start_of sk) []) as [l0 r0]. cbn in H0. subst l0.
  set (l0 := block (firstn m0 rcs) sid (start_of sk)).
  assert (Hb : exists e1, fst (fst (if r0 then (l0, true, []) else exec w body k l0)) = l0 ++ e1).
  { destruct r0; [exists []; cbn; now rewrite app_nil_r | apply exec_extends]. }
  destruct Hb as (e1 & H1).
  destruct (if r0 then (l0, true, []) else exec w body k l0) as [[l1 r1] x1]. cbn in H1. subst l1.
  destruct (deliver_shape k rcf sid (fin_of sk) (l0 ++ e1)) as (m2 & H2 & B2).
  destruct (deliver k rcf sid (fin_of sk) (l0 ++ e1)) as [l2 r2]. cbn in *. subst l2.
  specialize (B0 Hnes). specialize (B2 Hnef). split.
  - unfold l0. destruct rcs as [|a rc']; [now destruct Hnes|]. destruct m0 as [|m0]; [lia|].
    cbn. eexists. reflexivity.
  - destruct (firstn m2 rcf) as [|a t] eqn:E.
    + apply (f_equal (@length nat)) in E. rewrite firstn_length in E. cbn in E. lia.
    + assert (Hin : forall x, In x (a :: t) -> In x rcf).
      { intros x Hx. rewrite <- E in Hx. rewrite <- (firstn_skipn m2 rcf). apply in_or_app. now left. }
      destruct (exists_last (l := a :: t) ltac:(discriminate)) as (pre & r & Ep). rewrite Ep in *.
      unfold block. rewrite map_app. cbn. exists ((l0 ++ e1) ++ map (fun r0 => Deliv r0 sid (fin_of sk)) pre), r.
      split; [now rewrite <- !app_assoc|]. apply Hin. apply in_or_app. right. now left.
Qed.

(* ---- (b) evaluation events alternate ----------------------------------------------------------- *)
Fixpoint pairs (m : nat) : list evt :=
  match m with O => [] | S m => StartEval :: FinEval :: pairs m end.

(* the evaluation events of an optimizer step: m complete START/FINISHED pairs, then at most one unmatched
   START_EVALUATION, which occurs only when the evaluator raised an exception or the abort inside that evaluation *)
Theorem run_events_paired c : forall script n ca o d e k,
  run c script n ca = (o, d, e, k) ->
  exists m, (e = pairs m) \/ (e = pairs m ++ [StartEval] /\ (o = Raise \/ o = Exit UserAbort)).
Proof.
  induction script as [|r t IH]; intros n ca o d e k H; cbn [run] in H.
  - injection H as <- <- <- <-. exists 0. now left.
  - destruct (over_budget c n); [injection H as <- <- <- <-; exists 0; now left|].
    destruct (eval_req c r ca) as [| | dd rs | rs cnt ca'].
    + injection H as <- <- <- <-. exists 0. right. split; [reflexivity | now left].
    + injection H as <- <- <- <-. exists 0. right. split; [reflexivity | now right].
    + injection H as <- <- <- <-. exists 1. now left.
    + destruct (few_opt c rs); [injection H as <- <- <- <-; exists 1; now left|].
      destruct (run c t (n + cnt) ca') as [[[o' d'] e'] k'] eqn:E. injection H as <- <- <- <-.
      destruct (IH _ _ _ _ _ _ E) as (m & [Hm | (Hm & Ho)]); exists (S m); [left | right]; subst e'; cbn; auto.
Qed.

(* the evaluator step: START_EVALUATOR_STEP first; one START_EVALUATION, matched by its FINISHED_EVALUATION unless
   the evaluator raised or aborted inside it; FINISHED_EVALUATOR_STEP last whenever the step returns *)
Theorem evaluator_step_events c r o d e :
  run_evaluator_step c r = (o, d, e) ->
  (e = [StartEvalStep; StartEval; FinEval; FinEvalStep] /\ exists x, o = Exit x /\ x <> UserAbort) \/
  (e = [StartEvalStep; StartEval; FinEvalStep] /\ o = Exit UserAbort) \/
  (e = [StartEvalStep; StartEval] /\ o = Raise).
Proof.
  unfold run_evaluator_step. destruct (flt r) as [| | fms pm].
  - intros H; injection H as <- <- <-. right; right. now split.
  - intros H; injection H as <- <- <-. right; left. now split.
  - destruct (eval_F c (pt r) fms) as [| | dd rs | rs cnt ca'] eqn:E; intros H; injection H as <- <- <-.
    + right; right. now split.
    + right; left. now split.
    + left. split; [reflexivity|]. eexists; split; [reflexivity | discriminate].
    + left. split; [reflexivity|]. eexists; split; [reflexivity|]. destruct (few_eval rs); discriminate.
Qed.

(* ---- (c) every started step is finished, innermost first, whatever the abort index ---------------- *)
Section Closed.
Variable w : world.
Hypothesis rc_nonempty : forall lvl e, recipients w lvl e <> [].

(* a stack of open steps as [scan] builds them: distinct step ids, each with a FINISHED event *)
Definition good (S : list (nat * evt)) : Prop :=
  NoDup (map fst S) /\ Forall (fun sf => is_fin (snd sf) = true) S.

(* emitting the FINISHED events of the open steps, innermost first, closes them all *)
Lemma scan_closure : forall S st, good S -> (forall s, In s (map fst S) -> ~ In s (map fst st)) ->
  scan (closure w S) (S ++ st) = st.
Proof.
  induction S as [|[sid f] S IH]; intros st [Hnd Hf] Hdis; [reflexivity|].
  cbn [map fst] in Hnd. inversion Hnd as [|? ? Hnin Hnd']; subst. inversion Hf as [|? ? Hfin Hf']; subst. cbn in Hfin.
  unfold closure. cbn [flat_map fst snd]. fold (closure w S). rewrite scan_app. cbn [app].
  change (map (fun r => Deliv r sid f) (recipients w (level_of sid) f)) with (block (recipients w (level_of sid) f) sid f).
  rewrite scan_block_fin; [| apply rc_nonempty | exact Hfin |].
  - apply IH; [split; assumption|]. intros s Hs. apply Hdis. cbn. now right.
  - rewrite map_app. intros Hin. apply in_app_or in Hin as [Hin|Hin]; [contradiction|].
    apply (Hdis sid); [cbn; now left | exact Hin].
Qed.

Lemma good_nil : good []. Proof. split; constructor. Qed.
Lemma good_single sid sk : good [(sid, fin_of sk)].
Proof. split; [cbn; constructor; [intros [] | constructor] | constructor; [apply fin_of_is_fin | constructor]]. Qed.

(* the steps open after any prefix of the trace of a well-formed program: a good stack of steps of that program *)
Lemma prefix_stack p : wf p -> forall j,
  good (scan (firstn j (trace w p)) []) /\
  (forall s, In s (map fst (scan (firstn j (trace w p)) [])) -> In s (ids p)).
Proof.
  induction p as [| sid e | | p IHp q IHq | sid sk ex body IH]; cbn [trace ids wf]; unfold eblock; intros Hwf j.
  - rewrite firstn_nil. split; [apply good_nil | intros s []].
  - destruct Hwf as [Hs Hf]. rewrite firstn_block, scan_block_other by assumption. split; [apply good_nil | intros s []].
  - destruct j; [rewrite firstn_O | rewrite firstn_S_cons, firstn_nil]; cbn; (split; [apply good_nil | intros s []]).
  - destruct Hwf as [Hp Hq]. destruct (le_lt_dec j (length (trace w p))) as [Hle|Hgt].
    + rewrite firstn_app_le by exact Hle. destruct (IHp Hp j) as [G I]. split; [exact G|].
      intros s Hs. apply in_or_app. left. now apply I.
    + rewrite firstn_app_ge by lia. rewrite scan_app.
      rewrite (trace_balanced w rc_nonempty p Hp []) by (intros s _ []).
      destruct (IHq Hq (j - length (trace w p))) as [G I]. split; [exact G|].
      intros s Hs. apply in_or_app. right. now apply I.
  - destruct Hwf as [Hn Hb].
    set (rcs := recipients w (level_of sid) (start_of sk)). set (rcf := recipients w (level_of sid) (fin_of sk)).
    assert (Hrcs : rcs <> []) by apply rc_nonempty. assert (Hrcf : rcf <> []) by apply rc_nonempty.
    set (bs := block rcs sid (start_of sk)). set (bf := block rcf sid (fin_of sk)).
    assert (Lbs : length bs = length rcs) by apply block_length.
    assert (Hsbs : scan bs [] = [(sid, fin_of sk)]).
    { unfold bs. rewrite scan_block_start; [now rewrite fin_for_start | exact Hrcs | apply start_of_is_start | intros []]. }
    destruct (le_lt_dec j (length bs)) as [H1|H1].
    + (* inside the START block *)
      rewrite firstn_app_le by exact H1. unfold bs. rewrite firstn_block.
      destruct (firstn j rcs) as [|a t] eqn:E.
      * cbn. split; [apply good_nil | intros s []].
      * rewrite scan_block_start; [| discriminate | apply start_of_is_start | intros []].
        rewrite fin_for_start. split; [apply good_single|]. intros s [<-|[]]. now left.
    + rewrite firstn_app_ge by lia. rewrite scan_app, Hsbs.
      destruct (le_lt_dec (j - length bs) (length (trace w body))) as [H2|H2].
      * (* inside the body *)
        rewrite firstn_app_le by exact H2.
        destruct (IH Hb (j - length bs)) as [[Gn Gf] I].
        rewrite (scan_base0 (firstn (j - length bs) (trace w body)) [(sid, fin_of sk)]).
        2:{ intros s Hs [E|[]]. cbn in E. subst s. apply Hn.
            apply (trace_sids w body Hb). exact (step_sids_firstn_incl _ _ _ Hs). }
        split; [split|].
        -- rewrite map_app. cbn. apply nodup_app_intro; [exact Gn | constructor; [intros [] | constructor] |].
           intros s Hs [E|[]]. subst s. apply Hn. now apply I.
        -- apply Forall_app. split; [exact Gf | constructor; [apply fin_of_is_fin | constructor]].
        -- intros s Hs. rewrite map_app in Hs. apply in_app_or in Hs as [Hs|[E|[]]]; [right; now apply I | now left].
      * (* inside the FINISHED block *)
        rewrite firstn_app_ge by lia. rewrite scan_app.
        rewrite (trace_balanced w rc_nonempty body Hb [(sid, fin_of sk)]).
        2:{ intros s Hs [E|[]]. cbn in E. subst s. contradiction. }
        unfold bf. rewrite firstn_block.
        destruct (firstn (j - length bs - length (trace w body)) rcf) as [|a t] eqn:E.
        -- exfalso. apply (f_equal (@length nat)) in E. rewrite firstn_length in E. cbn in E.
           destruct rcf; [congruence | cbn in E; lia].
        -- rewrite scan_block_fin; [| discriminate | apply fin_of_is_fin | intros []].
           split; [apply good_nil | intros s []].
Qed.

Lemma prefix_stack_list ps : Forall wf ps -> forall j, good (scan (firstn j (flat_map (trace w) ps)) []).
Proof.
  induction ps as [|p t IH]; intros Hw j; [cbn; rewrite firstn_nil; apply good_nil|].
  inversion Hw as [|? ? Hp Ht]; subst. cbn [flat_map].
  destruct (le_lt_dec j (length (trace w p))) as [Hle|Hgt].
  - rewrite firstn_app_le by exact Hle. apply (prefix_stack p Hp j).
  - rewrite firstn_app_ge by lia. rewrite scan_app.
    rewrite (trace_balanced w rc_nonempty p Hp []) by (intros s _ []). apply IH. exact Ht.
Qed.

Lemma full_log_balanced ps : Forall wf ps -> scan (flat_map (trace w) ps) [] = [].
Proof.
  induction ps as [|p t IH]; intros Hw; [reflexivity|]. inversion Hw as [|? ? Hp Ht]; subst. cbn [flat_map].
  rewrite scan_app. rewrite (trace_balanced w rc_nonempty p Hp []) by (intros s _ []). now apply IH.
Qed.

(* the log predicted for ANY abort index leaves no step open: every step whose START event was delivered (to at least
   one recipient) gets its FINISHED event, and FINISHED events come innermost first *)
Theorem predict_closed ps k : Forall wf ps -> scan (predict w (flat_map (trace w) ps) k) [] = [].
Proof.
  intros Hw. destruct k as [k|]; cbn [predict]; [|now apply full_log_balanced].
  destruct (k <? length (flat_map (trace w) ps)); [|now apply full_log_balanced].
  rewrite scan_app.
  set (S := scan (firstn (Datatypes.S k) (flat_map (trace w) ps)) []).
  pose proof (prefix_stack_list ps Hw (Datatypes.S k)) as G. fold S in G.
  rewrite <- (app_nil_r S) at 2. apply scan_closure; [exact G | intros s _ []].
Qed.

Theorem run_steps_closed ps k : Forall wf ps -> Forall quiet ps ->
  scan (fst (fst (run_steps w ps k [] false))) [] = [].
Proof.
  intros Hw Hq. destruct k as [k|].
  - destruct (prefix_closure w rc_nonempty ps k Hw Hq) as [_ H]. rewrite H. now apply predict_closed.
  - destruct (prefix_closure w rc_nonempty ps 0 Hw Hq) as [H _]. rewrite H. now apply full_log_balanced.
Qed.

End Closed.

(* ---- (d) the programs compiled from the exit-code machine satisfy the side conditions of the theorems ----------
   wf: step ids are not reused inside a step and START_/FINISHED_ step events come from run_step only -- for every step
   specification (any fault script, nesting to any depth) with a top-level id below 100;
   quiet: no step ends with USER_ABORT of its own accord -- when no evaluator call of the fault script raises the abort. *)
(* ---- nested induction principles ---- *)
Section TrInd.
Variable P : tr -> Prop.
Hypothesis HE : forall e, P (TE e).
Hypothesis HI : forall o sub, Forall P sub -> P (TInner o sub).
Fixpoint tr_ind' (x : tr) : P x :=
  match x with
  | TE e => HE e
  | TInner o sub =>
      HI o sub ((fix go (l : list tr) : Forall P l :=
                   match l with [] => Forall_nil P | y :: t => Forall_cons y (tr_ind' y) (go t) end) sub)
  end.
End TrInd.

Section NsInd.
Variable P : nscript -> Prop.
Hypothesis H : forall c items, (forall r st, In (r, Some st) items -> P st) -> P (NS c items).
Lemma ns_ind' : forall t, P t.
Proof.
  fix IH 1. intros [c items]. apply H.
  induction items as [|[r o] l IHl]; intros r' st Hin; [destruct Hin|].
  destruct Hin as [E|Hin]; [|exact (IHl r' st Hin)].
  destruct o as [st0|]; [|discriminate]. injection E as _ <-. apply IH.
Qed.
End NsInd.

(* ---- traces of the tree machine ---- *)
Fixpoint ok_one (x : tr) : bool :=
  match x with TE e => is_eval_evt e | TInner _ sub => forallb ok_one sub end.
Definition is_ua (o : outcome) : bool := match o with Exit UserAbort => true | _ => false end.
Fixpoint calm_one (x : tr) : bool :=
  match x with TE _ => true | TInner o sub => negb (is_ua o) && forallb calm_one sub end.

Definition tr_of (x : tres) : list tr := snd (fst x).
Definition out_of (x : tres) : outcome := fst (fst (fst x)).

Lemma run_items_ok rec c :
  forall items, (forall r st, In (r, Some st) items -> forall hs, forallb ok_one (tr_of (rec st hs)) = true) ->
  forall n ca hs own, forallb ok_one (tr_of (run_items rec c items n ca hs own)) = true.
Proof.
  induction items as [|[r sub] rest IH]; intros Hrec n ca hs own; cbn [run_items]; [reflexivity|].
  assert (IH' := IH (fun r' st' Hin => Hrec r' st' (or_intror Hin))). clear IH.
  destruct (over_budget c n); [reflexivity|].
  assert (G : forall id it hs1 (Hit : forallb ok_one it = true),
    forallb ok_one (tr_of
      match eval_req c r ca with
      | VRaise => (Raise, id, it ++ [TE StartEval], (hs1, own))
      | VAbort => (Exit UserAbort, id, it ++ [TE StartEval], (hs1, own))
      | VInside _ rs => (Exit TooFew, id ++ rs, it ++ [TE StartEval; TE FinEval], (hs1, own || has_result rs))
      | VResults rs m ca' =>
          if few_opt c rs then (Exit TooFew, id ++ rs, it ++ [TE StartEval; TE FinEval], (hs1, own || has_result rs))
          else let '(o, d, e, st') := run_items rec c rest (n + m) ca' hs1 (own || has_result rs) in
               (o, id ++ rs ++ d, it ++ TE StartEval :: TE FinEval :: e, st')
      end) = true).
  { intros id it hs1 Hit. destruct (eval_req c r ca) as [| |dc rs|rs m ca1]; unfold tr_of; cbn [fst snd];
      try (rewrite forallb_app, Hit; reflexivity).
    destruct (few_opt c rs); [unfold tr_of; cbn [fst snd]; rewrite forallb_app, Hit; reflexivity|].
    specialize (IH' (n + m) ca1 hs1 (own || has_result rs)).
    destruct (run_items rec c rest (n + m) ca1 hs1 (own || has_result rs)) as [[[o d] e] s']. unfold tr_of in *. cbn [fst snd] in *.
    rewrite forallb_app, Hit. cbn. exact IH'. }
  destruct sub as [st|].
  - specialize (Hrec r st (or_introl eq_refl) (tl hs)).
    destruct (rec st (tl hs)) as [[[io id] itr] [hst iown]]. unfold tr_of in Hrec. cbn [fst snd] in Hrec.
    assert (Hit : forallb ok_one [TInner io itr] = true) by (cbn; now rewrite Hrec).
    destruct (nested_verdict io (hd false hs || iown)) as [o|]; [unfold tr_of; cbn [fst snd]; exact Hit | now apply G].
  - now apply G.
Qed.

Theorem run_tree_ok : forall t hs, forallb ok_one (tr_of (run_tree t hs)) = true.
Proof.
  intros t. induction t as [c items IH] using ns_ind'. intros hs. cbn [run_tree]. apply run_items_ok. exact IH.
Qed.

(* ---- compiled programs are well formed ---- *)
Lemma ids_pseq ps s : In s (ids (pseq ps)) <-> exists p, In p ps /\ In s (ids p).
Proof.
  induction ps as [|p t IH]; cbn [pseq ids].
  - split; [intros [] | intros (p & [] & _)].
  - rewrite in_app_iff, IH. split.
    + intros [H|(q & Hq & Hs)]; [exists p; split; [now left | exact H] | exists q; split; [now right | exact Hs]].
    + intros (q & [<-|Hq] & Hs); [now left | right; exists q; now split].
Qed.
Lemma wf_pseq ps : Forall wf ps -> wf (pseq ps).
Proof. induction 1 as [|p t Hp _ IH]; cbn [pseq wf]; [exact I | now split]. Qed.
Lemma quiet_pseq ps : Forall quiet ps -> quiet (pseq ps).
Proof. induction 1 as [|p t Hp _ IH]; cbn [pseq quiet]; [exact I | now split]. Qed.

Lemma sequence_Forall (f : tr -> option prog) (Q : prog -> Prop) (R : tr -> Prop) :
  forall l ps, Forall R l -> (forall x p, R x -> In x l -> f x = Some p -> Q p) -> sequence f l = Some ps -> Forall Q ps.
Proof.
  induction l as [|x t IH]; intros ps HR Hf H; cbn in H.
  - injection H as <-. constructor.
  - inversion HR as [|? ? Hx Ht]; subst.
    destruct (f x) as [p|] eqn:Ef; [|discriminate]. destruct (sequence f t) as [ps'|] eqn:Es; [|discriminate].
    injection H as <-. constructor.
    + apply (Hf x p Hx); [now left | exact Ef].
    + apply (IH ps' Ht); [|reflexivity]. intros y q Hy Hin. apply Hf; [exact Hy | now right].
Qed.

Lemma is_eval_not_step e : is_eval_evt e = true -> is_start e = false /\ is_fin e = false.
Proof. destruct e; cbn; intros H; try discriminate; split; reflexivity. Qed.

(* every step id inside the program of a trace element of level lvl belongs to a deeper plan *)
Theorem tprog_wf : forall x lvl sid p, ok_one x = true -> tprog lvl sid x = Some p ->
  wf p /\ (forall s, In s (ids p) -> 100 * S lvl <= s).
Proof.
  induction x as [e | o sub IH] using tr_ind'; intros lvl sid p Hok H.
  - cbn in Hok. destruct (is_eval_not_step e Hok) as [Hs Hf].
    destruct e; cbn in H; injection H as <-; cbn [wf ids]; (split; [auto | intros s []]).
  - cbn [tprog] in H. destruct o as [ex|]; [|discriminate].
    destruct (sequence (tprog (S lvl) (nested_sid lvl)) sub) as [ps|] eqn:Es; [|discriminate]. injection H as <-.
    cbn [ok_one] in Hok. rewrite forallb_forall in Hok.
    assert (Hall : Forall (fun q => wf q /\ (forall s, In s (ids q) -> 100 * S (S lvl) <= s)) ps).
    { apply (sequence_Forall (tprog (S lvl) (nested_sid lvl)) _ (fun y => ok_one y = true /\
               forall lvl' sid' p', ok_one y = true -> tprog lvl' sid' y = Some p' ->
                 wf p' /\ (forall s, In s (ids p') -> 100 * S lvl' <= s)) sub ps); [| |exact Es].
      - rewrite Forall_forall in IH |- *. intros y Hy. split; [now apply Hok | apply IH; exact Hy].
      - intros y q [Hy1 Hy2] _ Hq. exact (Hy2 _ _ _ Hy1 Hq). }
    assert (Hge : forall s, In s (ids (pseq ps)) -> 100 * S (S lvl) <= s).
    { intros s Hs. apply ids_pseq in Hs as (q & Hq & Hs). rewrite Forall_forall in Hall. exact (proj2 (Hall q Hq) s Hs). }
    split.
    + cbn [wf]. split.
      * intros Hin. specialize (Hge _ Hin). unfold nested_sid in Hge. lia.
      * apply wf_pseq. apply (Forall_impl _ (fun q Hq => proj1 Hq) Hall).
    + cbn [ids]. intros s [<-|Hs]; [unfold nested_sid; lia | specialize (Hge s Hs); lia].
Qed.

Lemma tbody_wf lvl sid l b : forallb ok_one l = true -> tbody lvl sid l = Some b ->
  wf b /\ (forall s, In s (ids b) -> 100 * S lvl <= s).
Proof.
  intros Hok H. unfold tbody in H. destruct (sequence (tprog lvl sid) l) as [ps|] eqn:Es; [|discriminate]. injection H as <-.
  rewrite forallb_forall in Hok.
  assert (Hall : Forall (fun q => wf q /\ (forall s, In s (ids q) -> 100 * S lvl <= s)) ps).
  { apply (sequence_Forall (tprog lvl sid) _ (fun y => ok_one y = true) l ps); [| |exact Es].
    - rewrite Forall_forall. exact Hok.
    - intros y q Hy _ Hq. exact (tprog_wf y lvl sid q Hy Hq). }
  split.
  - apply wf_pseq. apply (Forall_impl _ (fun q Hq => proj1 Hq) Hall).
  - intros s Hs. apply ids_pseq in Hs as (q & Hq & Hs). rewrite Forall_forall in Hall. exact (proj2 (Hall q Hq) s Hs).
Qed.

Lemma forallb_ok_TE evs : forallb ok_one (map TE (filter is_eval_evt evs)) = true.
Proof. induction evs as [|e t IH]; [reflexivity|]. cbn. destruct (is_eval_evt e) eqn:E; [cbn; now rewrite E|exact IH]. Qed.

(* every run_step call the model compiles -- evaluator step, optimizer step, nested to any depth, any fault script -- is a
   well-formed program (hypothesis of the C15 theorems), provided top-level step ids are below 100 *)
Theorem compile_step_wf sid s hs p hs' : sid < 100 -> compile_step sid s hs = Some (p, hs') -> wf p.
Proof.
  intros Hsid H. unfold compile_step in H. destruct s as [c script|t].
  - destruct script as [|r rest]; [discriminate|].
    destruct (run_evaluator_step c r) as [[o d] evs]. destruct o as [ex|]; [|discriminate].
    destruct (tbody 0 sid (map TE (filter is_eval_evt evs))) as [b|] eqn:Eb; [|discriminate]. injection H as <- _.
    destruct (tbody_wf 0 sid _ b (forallb_ok_TE evs) Eb) as [Hw Hge]. cbn [wf]. split; [|exact Hw].
    intros Hin. specialize (Hge _ Hin). lia.
  - pose proof (run_tree_ok t hs) as Hok. destruct (run_tree t hs) as [[[o d] l] [hs1 own]]. unfold tr_of in Hok. cbn [fst snd] in Hok.
    destruct o as [ex|]; [|discriminate].
    destruct (tbody 0 sid l) as [b|] eqn:Eb; [|discriminate]. injection H as <- _.
    destruct (tbody_wf 0 sid l b Hok Eb) as [Hw Hge]. cbn [wf]. split; [|exact Hw].
    intros Hin. specialize (Hge _ Hin). lia.
Qed.

Theorem compile_steps_wf : forall l hs ps, Forall (fun s => fst s < 100) l -> compile_steps l hs = Some ps -> Forall wf ps.
Proof.
  induction l as [|[sid s] t IH]; intros hs ps Hl H; cbn in H.
  - injection H as <-. constructor.
  - inversion Hl as [|? ? Hsid Ht]; subst. cbn in Hsid.
    destruct (compile_step sid s hs) as [[p hs']|] eqn:Ec; [|discriminate].
    destruct (compile_steps t hs') as [ps'|] eqn:Et; [|discriminate]. injection H as <-.
    constructor; [exact (compile_step_wf sid s hs p hs' Hsid Ec) | exact (IH hs' ps' Ht Et)].
Qed.

(* ---- ... and quiet when the fault scripts contain no evaluator-raised abort ---- *)
Definition is_fabort (f : fault) : bool := match f with FAbort => true | _ => false end.
Fixpoint no_abort_tree (t : nscript) : bool :=
  match t with
  | NS _ items =>
      forallb (fun it => negb (is_fabort (flt (fst it))) &&
                         match snd it with Some st => no_abort_tree st | None => true end) items
  end.
Definition calm (x : tres) : Prop := is_ua (out_of x) = false /\ forallb calm_one (tr_of x) = true.

Lemma is_fabort_false r : is_fabort (flt r) = false -> flt r <> FAbort.
Proof. destruct (flt r); cbn; congruence. Qed.

Lemma run_items_calm rec c :
  forall items, (forall r st, In (r, Some st) items -> forall hs, calm (rec st hs)) ->
  Forall (fun it => flt (fst it) <> FAbort) items ->
  forall n ca hs own, calm (run_items rec c items n ca hs own).
Proof.
  induction items as [|[r sub] rest IH]; intros Hrec Hna n ca hs own; cbn [run_items]; [split; reflexivity|].
  inversion Hna as [|? ? Hr Hrest]; subst. cbn [fst] in Hr.
  assert (IH' := IH (fun r' st' Hin => Hrec r' st' (or_intror Hin)) Hrest). clear IH.
  destruct (over_budget c n); [split; reflexivity|].
  assert (Hnv : eval_req c r ca <> VAbort) by (intros E; apply (eval_req_abort c r ca) in E; contradiction).
  assert (G : forall id it hs1 (Hit : forallb calm_one it = true),
    calm
      match eval_req c r ca with
      | VRaise => (Raise, id, it ++ [TE StartEval], (hs1, own))
      | VAbort => (Exit UserAbort, id, it ++ [TE StartEval], (hs1, own))
      | VInside _ rs => (Exit TooFew, id ++ rs, it ++ [TE StartEval; TE FinEval], (hs1, own || has_result rs))
      | VResults rs m ca' =>
          if few_opt c rs then (Exit TooFew, id ++ rs, it ++ [TE StartEval; TE FinEval], (hs1, own || has_result rs))
          else let '(o, d, e, st') := run_items rec c rest (n + m) ca' hs1 (own || has_result rs) in
               (o, id ++ rs ++ d, it ++ TE StartEval :: TE FinEval :: e, st')
      end).
  { intros id it hs1 Hit. destruct (eval_req c r ca) as [| |dc rs|rs m ca1]; [| congruence | |];
      unfold calm, out_of, tr_of; cbn [fst snd];
      try (split; [reflexivity | rewrite forallb_app, Hit; reflexivity]).
    destruct (few_opt c rs); [unfold calm, out_of, tr_of; cbn [fst snd]; split; [reflexivity | rewrite forallb_app, Hit; reflexivity]|].
    destruct (IH' (n + m) ca1 hs1 (own || has_result rs)) as [I1 I2].
    destruct (run_items rec c rest (n + m) ca1 hs1 (own || has_result rs)) as [[[o d] e] s']. unfold out_of, tr_of in *. cbn [fst snd] in *.
    split; [exact I1 | rewrite forallb_app, Hit; cbn; exact I2]. }
  destruct sub as [st|].
  - destruct (Hrec r st (or_introl eq_refl) (tl hs)) as [H1 H2].
    destruct (rec st (tl hs)) as [[[io id] itr] [hst iown]]. unfold out_of, tr_of in H1, H2. cbn [fst snd] in H1, H2.
    assert (Hit : forallb calm_one [TInner io itr] = true) by (cbn; now rewrite H1, H2).
    destruct (nested_verdict io (hd false hs || iown)) as [o|] eqn:Ev; [|now apply G].
    unfold calm, out_of, tr_of; cbn [fst snd]. split; [|exact Hit].
    destruct io as [x|]; [|injection Ev as <-; reflexivity].
    destruct x; cbn in H1, Ev; try discriminate; destruct (hd false hs || iown); try discriminate; injection Ev as <-; reflexivity.
  - now apply G.
Qed.

Theorem run_tree_calm : forall t, no_abort_tree t = true -> forall hs, calm (run_tree t hs).
Proof.
  intros t. induction t as [c items IH] using ns_ind'. intros Hna hs. cbn [run_tree no_abort_tree] in *.
  rewrite forallb_forall in Hna. apply run_items_calm.
  - intros r st Hin hs'. apply (IH r st Hin). specialize (Hna _ Hin). cbn in Hna. now apply andb_prop in Hna.
  - rewrite Forall_forall. intros [r o] Hin. specialize (Hna _ Hin). cbn in Hna. apply andb_prop in Hna as [Hf _].
    apply is_fabort_false. now apply negb_true_iff in Hf.
Qed.

Theorem tprog_quiet : forall x lvl sid p, calm_one x = true -> tprog lvl sid x = Some p -> quiet p.
Proof.
  induction x as [e | o sub IH] using tr_ind'; intros lvl sid p Hc H.
  - destruct e; cbn in H; injection H as <-; cbn; auto.
  - cbn [tprog] in H. destruct o as [ex|]; [|discriminate].
    destruct (sequence (tprog (S lvl) (nested_sid lvl)) sub) as [ps|] eqn:Es; [|discriminate]. injection H as <-.
    cbn [calm_one] in Hc. apply andb_prop in Hc as [Hex Hsub]. rewrite forallb_forall in Hsub.
    cbn [quiet]. split.
    + intros ->. discriminate.
    + apply quiet_pseq.
      apply (sequence_Forall (tprog (S lvl) (nested_sid lvl)) quiet (fun y => calm_one y = true /\
               forall lvl' sid' p', calm_one y = true -> tprog lvl' sid' y = Some p' -> quiet p') sub ps); [| |exact Es].
      * rewrite Forall_forall in IH |- *. intros y Hy. split; [now apply Hsub | apply IH; exact Hy].
      * intros y q [Hy1 Hy2] _ Hq. exact (Hy2 _ _ _ Hy1 Hq).
Qed.

Lemma tbody_quiet lvl sid l b : forallb calm_one l = true -> tbody lvl sid l = Some b -> quiet b.
Proof.
  intros Hc H. unfold tbody in H. destruct (sequence (tprog lvl sid) l) as [ps|] eqn:Es; [|discriminate]. injection H as <-.
  rewrite forallb_forall in Hc. apply quiet_pseq.
  apply (sequence_Forall (tprog lvl sid) quiet (fun y => calm_one y = true) l ps); [| |exact Es].
  - rewrite Forall_forall. exact Hc.
  - intros y q Hy _ Hq. exact (tprog_quiet y lvl sid q Hy Hq).
Qed.

Lemma forallb_calm_TE evs : forallb calm_one (map TE evs) = true.
Proof. induction evs as [|e t IH]; [reflexivity | exact IH]. Qed.

Definition no_abort_spec (s : stepspec) : bool :=
  match s with
  | SEval _ script => forallb (fun r => negb (is_fabort (flt r))) script
  | SOpt t => no_abort_tree t
  end.

(* ... and quiet (no step ends with USER_ABORT of its own accord) when no evaluator call of the fault script raises the abort:
   then the abort index is the only source of aborts, as the C15 theorems assume *)
Theorem compile_step_quiet sid s hs p hs' : no_abort_spec s = true -> compile_step sid s hs = Some (p, hs') -> quiet p.
Proof.
  intros Hna H. unfold compile_step in H. destruct s as [c script|t].
  - destruct script as [|r rest]; [discriminate|]. cbn in Hna. apply andb_prop in Hna as [Hr _].
    apply negb_true_iff in Hr. apply is_fabort_false in Hr.
    pose proof (evaluator_step_classification c r) as Hcl.
    destruct (run_evaluator_step c r) as [[o d] evs]. destruct o as [ex|]; [|discriminate].
    destruct (tbody 0 sid (map TE (filter is_eval_evt evs))) as [b|] eqn:Eb; [|discriminate]. injection H as <- _.
    cbn [quiet]. split; [|exact (tbody_quiet 0 sid _ b (forallb_calm_TE _) Eb)].
    intros ->. destruct (flt r) as [| |fms pm]; [destruct Hcl as [Hc _]; discriminate | congruence |].
    destruct Hcl as [_ Hcl]. destruct (eval_vectors c fms); [destruct Hcl as [Hc _]; discriminate|].
    destruct Hcl as (_ & _ & _ & [Hc|Hc]); discriminate.
  - destruct (run_tree_calm t Hna hs) as [H1 H2].
    destruct (run_tree t hs) as [[[o d] l] [hs1 own]]. unfold out_of, tr_of in H1, H2. cbn [fst snd] in H1, H2.
    destruct o as [ex|]; [|discriminate].
    destruct (tbody 0 sid l) as [b|] eqn:Eb; [|discriminate]. injection H as <- _.
    cbn [quiet]. split; [intros ->; discriminate | exact (tbody_quiet 0 sid l b H2 Eb)].
Qed.

Theorem compile_steps_quiet : forall l hs ps, forallb (fun s => no_abort_spec (snd s)) l = true ->
  compile_steps l hs = Some ps -> Forall quiet ps.
Proof.
  induction l as [|[sid s] t IH]; intros hs ps Hl H; cbn in H.
  - injection H as <-. constructor.
  - cbn in Hl. apply andb_prop in Hl as [Hs Ht].
    destruct (compile_step sid s hs) as [[p hs']|] eqn:Ec; [|discriminate].
    destruct (compile_steps t hs') as [ps'|] eqn:Et; [|discriminate]. injection H as <-.
    constructor; [exact (compile_step_quiet sid s hs p hs' Hs Ec) | exact (IH hs' ps' Ht Et)].
Qed.
