(* Proofs/EventsBracket.v -- bracketing facts for C15 that do not need the simulation invariant:
   (a) every run_step call, aborted anywhere or not, delivers its START event first and its FINISHED
       event last;
   (b) the evaluation events of an optimizer step alternate START_EVALUATION / FINISHED_EVALUATION and a
       START_EVALUATION stays unmatched only when the evaluator raised or aborted inside that very
       evaluation. *)
From Coq Require Import List Bool Arith Lia.
From Ropt Require Import Model.Step Model.Events Proofs.Events.
Import ListNotations.
Open Scope nat_scope.
Local Arguments firstn : simpl never.

(* ---- (a) START first, FINISHED last ------------------------------------------------------------ *)
Lemma deliver_shape k rc sid e : forall log,
  exists m, fst (deliver k rc sid e log) = log ++ block (firstn m rc) sid e /\ (rc <> [] -> 1 <= m <= length rc).
Proof.
  assert (G : forall log, exists m, fst (deliver k rc sid e log) = log ++ block (firstn m rc) sid e /\
                                    m <= length rc /\ (rc <> [] -> 1 <= m)).
  { induction rc as [|r t IH]; intros log.
    - exists 0. cbn. rewrite app_nil_r. split; [reflexivity|]. split; [lia|]. intros H; now destruct H.
    - cbn [deliver]. destruct (hit k (length log)).
      + exists 1. cbn. split; [reflexivity|]. split; lia.
      + destruct (IH (log ++ [Deliv r sid e])) as (m & Hm & Hle & _). exists (S m). rewrite Hm.
        rewrite <- app_assoc. rewrite firstn_S_cons. cbn. split; [reflexivity|]. split; lia. }
  intros log. destruct (G log) as (m & Hm & Hle & Hge). exists m. split; [exact Hm|]. intros Hne.
  specialize (Hge Hne). lia.
Qed.

Lemma exec_extends w p : forall k log, exists ext, fst (fst (exec w p k log)) = log ++ ext.
Proof.
  induction p as [| sid e | | p IHp q IHq | sid sk ex body IH]; intros k log; cbn [exec].
  - exists []. now rewrite app_nil_r.
  - destruct (deliver_shape k (recipients w (level_of sid)) sid e log) as (m & Hm & _).
    destruct (deliver k (recipients w (level_of sid)) sid e log) as [l r]. cbn in *. eexists. exact Hm.
  - eexists. reflexivity.
  - destruct (IHp k log) as (e1 & H1). destruct (exec w p k log) as [[l1 r1] x1]. cbn in H1. subst l1.
    destruct r1; [eexists; reflexivity|].
    destruct (IHq k (log ++ e1)) as (e2 & H2). destruct (exec w q k (log ++ e1)) as [[l2 r2] x2]. cbn in *.
    subst l2. exists (e1 ++ e2). now rewrite app_assoc.
  - destruct (deliver_shape k (recipients w (level_of sid)) sid (start_of sk) log) as (m0 & H0 & _).
    destruct (deliver k (recipients w (level_of sid)) sid (start_of sk) log) as [l0 r0]. cbn in H0. subst l0.
    set (l0 := log ++ block (firstn m0 (recipients w (level_of sid))) sid (start_of sk)).
    assert (Hb : exists e1, fst (fst (if r0 then (l0, true, []) else exec w body k l0)) = l0 ++ e1).
    { destruct r0; [exists []; cbn; now rewrite app_nil_r | apply IH]. }
    destruct Hb as (e1 & H1).
    destruct (if r0 then (l0, true, []) else exec w body k l0) as [[l1 r1] x1]. cbn in H1. subst l1.
    destruct (deliver_shape k (recipients w (level_of sid)) sid (fin_of sk) (l0 ++ e1)) as (m2 & H2 & _).
    destruct (deliver k (recipients w (level_of sid)) sid (fin_of sk) (l0 ++ e1)) as [l2 r2]. cbn in *. subst l2.
    unfold l0. rewrite <- !app_assoc. eexists. reflexivity.
Qed.

(* whatever the abort index, the log of a run_step call starts with a delivery of the step's START event (to the
   first recipient) and ends with a delivery of its FINISHED event *)
Theorem step_bracketed w sid sk ex body k :
  recipients w (level_of sid) <> [] ->
  let l := fst (fst (exec w (PStep sid sk ex body) k [])) in
  (exists post, l = Deliv (hd 0 (recipients w (level_of sid))) sid (start_of sk) :: post) /\
  (exists pre r, l = pre ++ [Deliv r sid (fin_of sk)] /\ In r (recipients w (level_of sid))).
Proof.
  intros Hne. cbn [exec].
  set (rc := recipients w (level_of sid)) in *.
  destruct (deliver_shape k rc sid (start_of sk) []) as (m0 & H0 & B0).
  destruct (deliver k rc sid (start_of sk) []) as [l0 r0]. cbn in H0. subst l0.
  set (l0 := block (firstn m0 rc) sid (start_of sk)).
  assert (Hb : exists e1, fst (fst (if r0 then (l0, true, []) else exec w body k l0)) = l0 ++ e1).
  { destruct r0; [exists []; cbn; now rewrite app_nil_r | apply exec_extends]. }
  destruct Hb as (e1 & H1).
  destruct (if r0 then (l0, true, []) else exec w body k l0) as [[l1 r1] x1]. cbn in H1. subst l1.
  destruct (deliver_shape k rc sid (fin_of sk) (l0 ++ e1)) as (m2 & H2 & B2).
  destruct (deliver k rc sid (fin_of sk) (l0 ++ e1)) as [l2 r2]. cbn in *. subst l2.
  specialize (B0 Hne). specialize (B2 Hne). split.
  - unfold l0. destruct rc as [|a rc']; [now destruct Hne|]. destruct m0 as [|m0]; [lia|].
    cbn. eexists. reflexivity.
  - destruct (firstn m2 rc) as [|a t] eqn:E.
    + apply (f_equal (@length nat)) in E. rewrite firstn_length in E. cbn in E. lia.
    + assert (Hin : forall x, In x (a :: t) -> In x rc).
      { intros x Hx. rewrite <- E in Hx. rewrite <- (firstn_skipn m2 rc). apply in_or_app. now left. }
      destruct (exists_last (l := a :: t) ltac:(discriminate)) as (pre & r & Ep). rewrite Ep in *.
      unfold block. rewrite map_app. cbn. exists ((l0 ++ e1) ++ map (fun r0 => Deliv r0 sid (fin_of sk)) pre), r.
      split; [now rewrite <- !app_assoc|]. apply Hin. apply in_or_app. right. now left.
Qed.

(* ---- (b) evaluation events alternate ----------------------------------------------------------- *)
Fixpoint pairs (m : nat) : list evt :=
  match m with O => [] | S m => StartEval :: FinEval :: pairs m end.

(* the evaluation events of an optimizer step: m complete START/FINISHED pairs, then at most one unmatched
   START_EVALUATION, which occurs only when the evaluator raised an exception or the abort inside that evaluation *)
Theorem run_events_paired c : forall script n ca o d e k,
  run c script n ca = (o, d, e, k) ->
  exists m, (e = pairs m) \/ (e = pairs m ++ [StartEval] /\ (o = Raise \/ o = Exit UserAbort)).
Proof.
  induction script as [|r t IH]; intros n ca o d e k H; cbn [run] in H.
  - injection H as <- <- <- <-. exists 0. now left.
  - destruct (over_budget c n); [injection H as <- <- <- <-; exists 0; now left|].
    destruct (eval_req c r ca) as [| | dd rs | rs cnt ca'].
    + injection H as <- <- <- <-. exists 0. right. split; [reflexivity | now left].
    + injection H as <- <- <- <-. exists 0. right. split; [reflexivity | now right].
    + injection H as <- <- <- <-. exists 1. now left.
    + destruct (few_opt c rs); [injection H as <- <- <- <-; exists 1; now left|].
      destruct (run c t (n + cnt) ca') as [[[o' d'] e'] k'] eqn:E. injection H as <- <- <- <-.
      destruct (IH _ _ _ _ _ _ E) as (m & [Hm | (Hm & Ho)]); exists (S m); [left | right]; subst e'; cbn; auto.
Qed.

(* the evaluator step: START_EVALUATOR_STEP first; one START_EVALUATION, matched by its FINISHED_EVALUATION unless
   the evaluator raised or aborted inside it; FINISHED_EVALUATOR_STEP last whenever the step returns *)
Theorem evaluator_step_events c r o d e :
  run_evaluator_step c r = (o, d, e) ->
  (e = [StartEvalStep; StartEval; FinEval; FinEvalStep] /\ exists x, o = Exit x /\ x <> UserAbort) \/
  (e = [StartEvalStep; StartEval; FinEvalStep] /\ o = Exit UserAbort) \/
  (e = [StartEvalStep; StartEval] /\ o = Raise).
Proof.
  unfold run_evaluator_step. destruct (flt r) as [| | fms pm].
  - intros H; injection H as <- <- <-. right; right. now split.
  - intros H; injection H as <- <- <-. right; left. now split.
  - destruct (eval_F c (pt r) fms) as [| | dd rs | rs cnt ca'] eqn:E; intros H; injection H as <- <- <-.
    + right; right. now split.
    + right; left. now split.
    + left. split; [reflexivity|]. eexists; split; [reflexivity | discriminate].
    + left. split; [reflexivity|]. eexists; split; [reflexivity|]. destruct (few_eval rs); discriminate.
Qed.
