(* Proofs/EventsBracket.v -- bracketing facts for C15 that do not need the simulation invariant:
   (a) every run_step call, aborted anywhere or not, delivers its START event first and its FINISHED
       event last;
   (b) the evaluation events of an optimizer step alternate START_EVALUATION / FINISHED_EVALUATION and a
       START_EVALUATION stays unmatched only when the evaluator raised or aborted inside that very
       evaluation. *)
From Coq Require Import List Bool Arith Lia.
From Ropt Require Import Model.Step Model.Events Proofs.Events.
Import ListNotations.
Open Scope nat_scope.
Local Arguments firstn : simpl never.

(* ---- (a) START first, FINISHED last ------------------------------------------------------------ *)
Lemma deliver_shape k rc sid e : forall log,
  exists m, fst (deliver k rc sid e log) = log ++ block (firstn m rc) sid e /\ (rc <> [] -> 1 <= m <= length rc).
Proof.
  assert (G : forall log, exists m, fst (deliver k rc sid e log) = log ++ block (firstn m rc) sid e /\
                                    m <= length rc /\ (rc <> [] -> 1 <= m)).
  { induction rc as [|r t IH]; intros log.
    - exists 0. cbn. rewrite app_nil_r. split; [reflexivity|]. split; [lia|]. intros H; now destruct H.
    - cbn [deliver]. destruct (hit k (length log)).
      + exists 1. cbn. split; [reflexivity|]. split; lia.
      + destruct (IH (log ++ [Deliv r sid e])) as (m & Hm & Hle & _). exists (S m). rewrite Hm.
        rewrite <- app_assoc. rewrite firstn_S_cons. cbn. split; [reflexivity|]. split; lia. }
  intros log. destruct (G log) as (m & Hm & Hle & Hge). exists m. split; [exact Hm|]. intros Hne.
  specialize (Hge Hne). lia.
Qed.

Lemma exec_extends w p : forall k log, exists ext, fst (fst (exec w p k log)) = log ++ ext.
Proof.
  induction p as [| sid e | | p IHp q IHq | sid sk ex body IH]; intros k log; cbn [exec].
  - exists []. now rewrite app_nil_r.
  - destruct (deliver_shape k (recipients w (level_of sid) e) sid e log) as (m & Hm & _).
    destruct (deliver k (recipients w (level_of sid) e) sid e log) as [l r]. cbn in *. eexists. exact Hm.
  - eexists. reflexivity.
  - destruct (IHp k log) as (e1 & H1). destruct (exec w p k log) as [[l1 r1] x1]. cbn in H1. subst l1.
    destruct r1; [eexists; reflexivity|].
    destruct (IHq k (log ++ e1)) as (e2 & H2). destruct (exec w q k (log ++ e1)) as [[l2 r2] x2]. cbn in *.
    subst l2. exists (e1 ++ e2). now rewrite app_assoc.
  - destruct (deliver_shape k (recipients w (level_of sid) (start_of sk)) sid (start_of sk) log) as (m0 & H0 & _).
    destruct (deliver k (recipients w (level_of sid) (start_of sk)) sid (start_of sk) log) as [l0 r0]. cbn in H0. subst l0.
    set (l0 := log ++ block (firstn m0 (recipients w (level_of sid) (start_of sk))) sid (start_of sk)).
    assert (Hb : exists e1, fst (fst (if r0 then (l0, true, []) else exec w body k l0)) = l0 ++ e1).
    { destruct r0; [exists []; cbn; now rewrite app_nil_r | apply IH]. }
    destruct Hb as (e1 & H1).
    destruct (if r0 then (l0, true, []) else exec w body k l0) as [[l1 r1] x1]. cbn in H1. subst l1.
    destruct (deliver_shape k (recipients w (level_of sid) (fin_of sk)) sid (fin_of sk) (l0 ++ e1)) as (m2 & H2 & _).
    destruct (deliver k (recipients w (level_of sid) (fin_of sk)) sid (fin_of sk) (l0 ++ e1)) as [l2 r2].
    cbn [fst snd] in *. subst l2.
    unfold l0. rewrite <- !app_assoc. eexists. reflexivity.
Qed.

(* whatever the abort index, the log of a run_step call starts with a delivery of the step's START event (to the
   first recipient) and ends with a delivery of its FINISHED event *)
Theorem step_bracketed w sid sk ex body k :
  recipients w (level_of sid) (start_of sk) <> [] -> recipients w (level_of sid) (fin_of sk) <> [] ->
  let l := fst (fst (exec w (PStep sid sk ex body) k [])) in
  (exists post, l = Deliv (hd 0 (recipients w (level_of sid) (start_of sk))) sid (start_of sk) :: post) /\
  (exists pre r, l = pre ++ [Deliv r sid (fin_of sk)] /\ In r (recipients w (level_of sid) (fin_of sk))).
Proof.
  intros Hnes Hnef. cbn [exec].
  set (rcs := recipients w (level_of sid) (start_of sk)) in *.
  set (rcf := recipients w (level_of sid) (fin_of sk)) in *.
  destruct (deliver_shape k rcs sid (start_of sk) []) as (m0 & H0 & B0).
  destruct (deliver k rcs sid (start_of sk) []) as [l0 r0]. cbn in H0. subst l0.
  set (l0 := block (firstn m0 rcs) sid (start_of sk)).
  assert (Hb : exists e1, fst (fst (if r0 then (l0, true, []) else exec w body k l0)) = l0 ++ e1).
  { destruct r0; [exists []; cbn; now rewrite app_nil_r | apply exec_extends]. }
  destruct Hb as (e1 & H1).
  destruct (if r0 then (l0, true, []) else exec w body k l0) as [[l1 r1] x1]. cbn in H1. subst l1.
  destruct (deliver_shape k rcf sid (fin_of sk) (l0 ++ e1)) as (m2 & H2 & B2).
  destruct (deliver k rcf sid (fin_of sk) (l0 ++ e1)) as [l2 r2]. cbn in *. subst l2.
  specialize (B0 Hnes). specialize (B2 Hnef). split.
  - unfold l0. destruct rcs as [|a rc']; [now destruct Hnes|]. destruct m0 as [|m0]; [lia|].
    cbn. eexists. reflexivity.
  - destruct (firstn m2 rcf) as [|a t] eqn:E.
    + apply (f_equal (@length nat)) in E. rewrite firstn_length in E. cbn in E. lia.
    + assert (Hin : forall x, In x (a :: t) -> In x rcf).
      { intros x Hx. rewrite <- E in Hx. rewrite <- (firstn_skipn m2 rcf). apply in_or_app. now left. }
      destruct (exists_last (l := a :: t) ltac:(discriminate)) as (pre & r & Ep). rewrite Ep in *.
      unfold block. rewrite map_app. cbn. exists ((l0 ++ e1) ++ map (fun r0 => Deliv r0 sid (fin_of sk)) pre), r.
      split; [now rewrite <- !app_assoc|]. apply Hin. apply in_or_app. right. now left.
Qed.

(* ---- (b) evaluation events alternate ----------------------------------------------------------- *)
Fixpoint pairs (m : nat) : list evt :=
  match m with O => [] | S m => StartEval :: FinEval :: pairs m end.

(* the evaluation events of an optimizer step: m complete START/FINISHED pairs, then at most one unmatched
   START_EVALUATION, which occurs only when the evaluator raised an exception or the abort inside that evaluation *)
Theorem run_events_paired c : forall script n ca o d e k,
  run c script n ca = (o, d, e, k) ->
  exists m, (e = pairs m) \/ (e = pairs m ++ [StartEval] /\ (o = Raise \/ o = Exit UserAbort)).
Proof.
  induction script as [|r t IH]; intros n ca o d e k H; cbn [run] in H.
  - injection H as <- <- <- <-. exists 0. now left.
  - destruct (over_budget c n); [injection H as <- <- <- <-; exists 0; now left|].
    destruct (eval_req c r ca) as [| | dd rs | rs cnt ca'].
    + injection H as <- <- <- <-. exists 0. right. split; [reflexivity | now left].
    + injection H as <- <- <- <-. exists 0. right. split; [reflexivity | now right].
    + injection H as <- <- <- <-. exists 1. now left.
    + destruct (few_opt c rs); [injection H as <- <- <- <-; exists 1; now left|].
      destruct (run c t (n + cnt) ca') as [[[o' d'] e'] k'] eqn:E. injection H as <- <- <- <-.
      destruct (IH _ _ _ _ _ _ E) as (m & [Hm | (Hm & Ho)]); exists (S m); [left | right]; subst e'; cbn; auto.
Qed.

(* the evaluator step: START_EVALUATOR_STEP first; one START_EVALUATION, matched by its FINISHED_EVALUATION unless
   the evaluator raised or aborted inside it; FINISHED_EVALUATOR_STEP last whenever the step returns *)
Theorem evaluator_step_events c r o d e :
  run_evaluator_step c r = (o, d, e) ->
  (e = [StartEvalStep; StartEval; FinEval; FinEvalStep] /\ exists x, o = Exit x /\ x <> UserAbort) \/
  (e = [StartEvalStep; StartEval; FinEvalStep] /\ o = Exit UserAbort) \/
  (e = [StartEvalStep; StartEval] /\ o = Raise).
Proof.
  unfold run_evaluator_step. destruct (flt r) as [| | fms pm].
  - intros H; injection H as <- <- <-. right; right. now split.
  - intros H; injection H as <- <- <-. right; left. now split.
  - destruct (eval_F c (pt r) fms) as [| | dd rs | rs cnt ca'] eqn:E; intros H; injection H as <- <- <-.
    + right; right. now split.
    + right; left. now split.
    + left. split; [reflexivity|]. eexists; split; [reflexivity | discriminate].
    + left. split; [reflexivity|]. eexists; split; [reflexivity|]. destruct (few_eval rs); discriminate.
Qed.

(* ---- (c) every started step is finished, innermost first, whatever the abort index ---------------- *)
Section Closed.
Variable w : world.
Hypothesis rc_nonempty : forall lvl e, recipients w lvl e <> [].

(* a stack of open steps as [scan] builds them: distinct step ids, each with a FINISHED event *)
Definition good (S : list (nat * evt)) : Prop :=
  NoDup (map fst S) /\ Forall (fun sf => is_fin (snd sf) = true) S.

(* emitting the FINISHED events of the open steps, innermost first, closes them all *)
Lemma scan_closure : forall S st, good S -> (forall s, In s (map fst S) -> ~ In s (map fst st)) ->
  scan (closure w S) (S ++ st) = st.
Proof.
  induction S as [|[sid f] S IH]; intros st [Hnd Hf] Hdis; [reflexivity|].
  cbn [map fst] in Hnd. inversion Hnd as [|? ? Hnin Hnd']; subst. inversion Hf as [|? ? Hfin Hf']; subst. cbn in Hfin.
  unfold closure. cbn [flat_map fst snd]. fold (closure w S). rewrite scan_app. cbn [app].
  change (map (fun r => Deliv r sid f) (recipients w (level_of sid) f)) with (block (recipients w (level_of sid) f) sid f).
  rewrite scan_block_fin; [| apply rc_nonempty | exact Hfin |].
  - apply IH; [split; assumption|]. intros s Hs. apply Hdis. cbn. now right.
  - rewrite map_app. intros Hin. apply in_app_or in Hin as [Hin|Hin]; [contradiction|].
    apply (Hdis sid); [cbn; now left | exact Hin].
Qed.

Lemma good_nil : good []. Proof. split; constructor. Qed.
Lemma good_single sid sk : good [(sid, fin_of sk)].
Proof. split; [cbn; constructor; [intros [] | constructor] | constructor; [apply fin_of_is_fin | constructor]]. Qed.

(* the steps open after any prefix of the trace of a well-formed program: a good stack of steps of that program *)
Lemma prefix_stack p : wf p -> forall j,
  good (scan (firstn j (trace w p)) []) /\
  (forall s, In s (map fst (scan (firstn j (trace w p)) [])) -> In s (ids p)).
Proof.
  induction p as [| sid e | | p IHp q IHq | sid sk ex body IH]; cbn [trace ids wf]; unfold eblock; intros Hwf j.
  - rewrite firstn_nil. split; [apply good_nil | intros s []].
  - destruct Hwf as [Hs Hf]. rewrite firstn_block, scan_block_other by assumption. split; [apply good_nil | intros s []].
  - destruct j; [rewrite firstn_O | rewrite firstn_S_cons, firstn_nil]; cbn; (split; [apply good_nil | intros s []]).
  - destruct Hwf as [Hp Hq]. destruct (le_lt_dec j (length (trace w p))) as [Hle|Hgt].
    + rewrite firstn_app_le by exact Hle. destruct (IHp Hp j) as [G I]. split; [exact G|].
      intros s Hs. apply in_or_app. left. now apply I.
    + rewrite firstn_app_ge by lia. rewrite scan_app.
      rewrite (trace_balanced w rc_nonempty p Hp []) by (intros s _ []).
      destruct (IHq Hq (j - length (trace w p))) as [G I]. split; [exact G|].
      intros s Hs. apply in_or_app. right. now apply I.
  - destruct Hwf as [Hn Hb].
    set (rcs := recipients w (level_of sid) (start_of sk)). set (rcf := recipients w (level_of sid) (fin_of sk)).
    assert (Hrcs : rcs <> []) by apply rc_nonempty. assert (Hrcf : rcf <> []) by apply rc_nonempty.
    set (bs := block rcs sid (start_of sk)). set (bf := block rcf sid (fin_of sk)).
    assert (Lbs : length bs = length rcs) by apply block_length.
    assert (Hsbs : scan bs [] = [(sid, fin_of sk)]).
    { unfold bs. rewrite scan_block_start; [now rewrite fin_for_start | exact Hrcs | apply start_of_is_start | intros []]. }
    destruct (le_lt_dec j (length bs)) as [H1|H1].
    + (* inside the START block *)
      rewrite firstn_app_le by exact H1. unfold bs. rewrite firstn_block.
      destruct (firstn j rcs) as [|a t] eqn:E.
      * cbn. split; [apply good_nil | intros s []].
      * rewrite scan_block_start; [| discriminate | apply start_of_is_start | intros []].
        rewrite fin_for_start. split; [apply good_single|]. intros s [<-|[]]. now left.
    + rewrite firstn_app_ge by lia. rewrite scan_app, Hsbs.
      destruct (le_lt_dec (j - length bs) (length (trace w body))) as [H2|H2].
      * (* inside the body *)
        rewrite firstn_app_le by exact H2.
        destruct (IH Hb (j - length bs)) as [[Gn Gf] I].
        rewrite (scan_base0 (firstn (j - length bs) (trace w body)) [(sid, fin_of sk)]).
        2:{ intros s Hs [E|[]]. cbn in E. subst s. apply Hn.
            apply (trace_sids w body Hb). exact (step_sids_firstn_incl _ _ _ Hs). }
        split; [split|].
        -- rewrite map_app. cbn. apply nodup_app_intro; [exact Gn | constructor; [intros [] | constructor] |].
           intros s Hs [E|[]]. subst s. apply Hn. now apply I.
        -- apply Forall_app. split; [exact Gf | constructor; [apply fin_of_is_fin | constructor]].
        -- intros s Hs. rewrite map_app in Hs. apply in_app_or in Hs as [Hs|[E|[]]]; [right; now apply I | now left].
      * (* inside the FINISHED block *)
        rewrite firstn_app_ge by lia. rewrite scan_app.
        rewrite (trace_balanced w rc_nonempty body Hb [(sid, fin_of sk)]).
        2:{ intros s Hs [E|[]]. cbn in E. subst s. contradiction. }
        unfold bf. rewrite firstn_block.
        destruct (firstn (j - length bs - length (trace w body)) rcf) as [|a t] eqn:E.
        -- exfalso. apply (f_equal (@length nat)) in E. rewrite firstn_length in E. cbn in E.
           destruct rcf; [congruence | cbn in E; lia].
        -- rewrite scan_block_fin; [| discriminate | apply fin_of_is_fin | intros []].
           split; [apply good_nil | intros s []].
Qed.

Lemma prefix_stack_list ps : Forall wf ps -> forall j, good (scan (firstn j (flat_map (trace w) ps)) []).
Proof.
  induction ps as [|p t IH]; intros Hw j; [cbn; rewrite firstn_nil; apply good_nil|].
  inversion Hw as [|? ? Hp Ht]; subst. cbn [flat_map].
  destruct (le_lt_dec j (length (trace w p))) as [Hle|Hgt].
  - rewrite firstn_app_le by exact Hle. apply (prefix_stack p Hp j).
  - rewrite firstn_app_ge by lia. rewrite scan_app.
    rewrite (trace_balanced w rc_nonempty p Hp []) by (intros s _ []). apply IH. exact Ht.
Qed.

Lemma full_log_balanced ps : Forall wf ps -> scan (flat_map (trace w) ps) [] = [].
Proof.
  induction ps as [|p t IH]; intros Hw; [reflexivity|]. inversion Hw as [|? ? Hp Ht]; subst. cbn [flat_map].
  rewrite scan_app. rewrite (trace_balanced w rc_nonempty p Hp []) by (intros s _ []). now apply IH.
Qed.

(* the log predicted for ANY abort index leaves no step open: every step whose START event was delivered (to at least
   one recipient) gets its FINISHED event, and FINISHED events come innermost first *)
Theorem predict_closed ps k : Forall wf ps -> scan (predict w (flat_map (trace w) ps) k) [] = [].
Proof.
  intros Hw. destruct k as [k|]; cbn [predict]; [|now apply full_log_balanced].
  destruct (k <? length (flat_map (trace w) ps)); [|now apply full_log_balanced].
  rewrite scan_app.
  set (S := scan (firstn (Datatypes.S k) (flat_map (trace w) ps)) []).
  pose proof (prefix_stack_list ps Hw (Datatypes.S k)) as G. fold S in G.
  rewrite <- (app_nil_r S) at 2. apply scan_closure; [exact G | intros s _ []].
Qed.

Theorem run_steps_closed ps k : Forall wf ps -> Forall quiet ps ->
  scan (fst (fst (run_steps w ps k [] false))) [] = [].
Proof.
  intros Hw Hq. destruct k as [k|].
  - destruct (prefix_closure w rc_nonempty ps k Hw Hq) as [_ H]. rewrite H. now apply predict_closed.
  - destruct (prefix_closure w rc_nonempty ps 0 Hw Hq) as [H _]. rewrite H. now apply full_log_balanced.
Qed.

End Closed.
