(* Proofs/Mask.v -- lemmas about Model/Mask.v (property C09). *)
From Coq Require Import QArith Qabs ZArith List Bool Arith Lia Lqa.
From Ropt Require Import Base.Num Base.ListX Gen.Generated Model.Bounds Model.Mask Proofs.Bounds.
Import ListNotations.
Open Scope Q_scope.

(* ---- complete / gather -------------------------------------------------------------------------- *)
Lemma complete_fixed {A} (mask : list bool) (fixed free : list A) i :
  length fixed = length mask -> length free = count_true mask ->
  nth_error mask i = Some false -> nth_error (complete mask fixed free) i = nth_error fixed i.
Proof.
  unfold complete, count_true. revert fixed free i.
  induction mask as [|b m IH]; intros fixed free i Hl Hc Hm; [destruct i; discriminate|].
  destruct fixed as [|y fx]; [discriminate|]. cbn in Hl. injection Hl as Hl. destruct b; cbn in *.
  - destruct free as [|v fr]; [discriminate|]. cbn in Hc. injection Hc as Hc.
    destruct i as [|i]; cbn in *; [discriminate|]. apply IH; assumption.
  - destruct i as [|i]; cbn in *; [reflexivity|]. apply IH; assumption.
Qed.

Lemma complete_length {A} (mask : list bool) (fixed free : list A) :
  length fixed = length mask -> length free = count_true mask ->
  length (complete mask fixed free) = length mask.
Proof.
  unfold complete, count_true. revert fixed free.
  induction mask as [|b m IH]; intros fixed free Hl Hc; [reflexivity|].
  destruct fixed as [|y fx]; [discriminate|]. cbn in Hl. injection Hl as Hl. destruct b; cbn in *.
  - destruct free as [|v fr]; [discriminate|]. cbn in Hc. injection Hc as Hc. cbn. f_equal. apply IH; assumption.
  - f_equal. apply IH; assumption.
Qed.

Lemma gather_complete {A} (mask : list bool) (fixed free : list A) :
  length fixed = length mask -> length free = count_true mask ->
  gather mask (complete mask fixed free) = free.
Proof.
  unfold complete, count_true. revert fixed free.
  induction mask as [|b m IH]; intros fixed free Hl Hc.
  - destruct free; [reflexivity | discriminate].
  - destruct fixed as [|y fx]; [discriminate|]. cbn in Hl. injection Hl as Hl. destruct b; cbn in *.
    + destruct free as [|v fr]; [discriminate|]. cbn in Hc. injection Hc as Hc. cbn. f_equal. apply IH; assumption.
    + apply IH; assumption.
Qed.

Lemma gather_length {A} (mask : list bool) (v : list A) :
  length v = length mask -> length (gather mask v) = count_true mask.
Proof.
  unfold count_true. revert v. induction mask as [|b m IH]; intros v Hl; [destruct v; reflexivity|].
  destruct v as [|x v]; [discriminate|]. cbn in Hl. injection Hl as Hl. destruct b; cbn; [f_equal|]; apply IH; exact Hl.
Qed.

(* a free position i holds the free value number (count of free positions before i) *)
Lemma complete_free {A} (mask : list bool) (fixed free : list A) i :
  length fixed = length mask -> length free = count_true mask ->
  nth_error mask i = Some true ->
  nth_error (complete mask fixed free) i = nth_error free (count_true (firstn i mask)).
Proof.
  unfold complete, count_true. revert fixed free i.
  induction mask as [|b m IH]; intros fixed free i Hl Hc Hm; [destruct i; discriminate|].
  destruct fixed as [|y fx]; [discriminate|]. cbn in Hl. injection Hl as Hl. destruct b; cbn in *.
  - destruct free as [|v fr]; [discriminate|]. cbn in Hc. injection Hc as Hc.
    destruct i as [|i]; cbn in *; [reflexivity|]. apply IH; assumption.
  - destruct i as [|i]; cbn in *; [discriminate|]. apply IH; assumption.
Qed.

(* ---- _expand_gradients -------------------------------------------------------------------------- *)
Lemma expand_zeros_fixed mask g i :
  length g = count_true mask -> nth_error mask i = Some false -> nth_error (expand_zeros mask g) i = Some 0.
Proof.
  intros Hg Hm. unfold expand_zeros. rewrite complete_fixed; [| apply repeat_length | exact Hg | exact Hm].
  apply nth_error_repeat. apply nth_error_Some. congruence.
Qed.
Lemma expand_zeros_length mask g : length g = count_true mask -> length (expand_zeros mask g) = length mask.
Proof. intros Hg. unfold expand_zeros. apply complete_length; [apply repeat_length | exact Hg]. Qed.
Lemma gather_expand_zeros mask g : length g = count_true mask -> gather mask (expand_zeros mask g) = g.
Proof. intros Hg. unfold expand_zeros. apply gather_complete; [apply repeat_length | exact Hg]. Qed.

(* ---- sampler masks ------------------------------------------------------------------------------ *)
Definition mask_false (mask : option (list bool)) (i : nat) : Prop :=
  match mask with Some m => nth_error m i = Some false | None => False end.

(* a sampler's variable set lies inside the mask *)
Lemma sampler_mask_sub idx gs m i :
  match gs with Some g => length g = length m | None => True end ->
  nth_error m i = Some false ->
  exists sm, sampler_mask idx gs (Some m) = Some sm /\ nth_error sm i = Some false.
Proof.
  intros Hl Hm. destruct gs as [g|]; cbn.
  - eexists. split; [reflexivity|]. rewrite map2_nth, Hm, nth_error_map.
    destruct (nth_error g i) as [z|] eqn:E; [reflexivity|].
    apply nth_error_None in E. assert (i < length m)%nat by (apply nth_error_Some; congruence). lia.
  - exists m. split; [reflexivity | exact Hm].
Qed.

(* the variable sets of two different samplers are disjoint *)
Lemma sampler_mask_disjoint a b g mask sa sb i :
  a <> b -> sampler_mask a (Some g) mask = Some sa -> sampler_mask b (Some g) mask = Some sb ->
  nth_error sa i = Some true -> nth_error sb i = Some false.
Proof.
  intros Hab Ha Hb Hi. destruct mask as [m|]; cbn in Ha, Hb; injection Ha as <-; injection Hb as <-.
  - rewrite map2_nth in *. rewrite nth_error_map in *.
    destruct (nth_error m i) as [mb|]; [|discriminate]. destruct (nth_error g i) as [z|]; [|discriminate].
    cbn in *. injection Hi as Hi. apply andb_prop in Hi as [-> Hz]. apply Z.eqb_eq in Hz. subst z.
    cbn. f_equal. apply Z.eqb_neq. congruence.
  - rewrite nth_error_map in *. destruct (nth_error g i) as [z|]; [|discriminate]. cbn in *.
    injection Hi as Hz. apply Z.eqb_eq in Hz. subst z. f_equal. apply Z.eqb_neq. congruence.
Qed.

(* a variable whose sampler index is negative (or that is masked out) belongs to no sampler that runs *)
Lemma first_appearance_nonneg seen g k : In k (first_appearance seen g) -> (0 <= k)%Z /\ In k g.
Proof.
  revert seen. induction g as [|z t IH]; intros seen H; [contradiction|]. cbn in H.
  destruct ((z <? 0)%Z || zmem z seen) eqn:E.
  - destruct (IH _ H) as [H1 H2]. split; [exact H1 | right; exact H2].
  - apply orb_false_iff in E as [E _]. apply Z.ltb_ge in E. destruct H as [<-|H].
    + split; [exact E | left; reflexivity].
    + destruct (IH _ H) as [H1 H2]. split; [exact H1 | right; exact H2].
Qed.

(* ---- how samplers fill their own variables only ------------------------------------------------- *)
Lemma sampler_fill_fixed m dense i :
  length dense = count_true m -> nth_error m i = Some false -> nth_error (sampler_fill (Some m) dense) i = Some 0.
Proof. apply expand_zeros_fixed. Qed.
Lemma mask_zero_fixed m full i :
  length full = length m -> nth_error m i = Some false -> nth_error (mask_zero (Some m) full) i = Some 0.
Proof.
  intros Hl Hm. cbn. rewrite map2_nth, Hm.
  destruct (nth_error full i) as [s|] eqn:E; [reflexivity|].
  apply nth_error_None in E. assert (i < length m)%nat by (apply nth_error_Some; congruence). lia.
Qed.
Lemma fill3_fixed m dense r p i mat row :
  nth_error dense r = Some mat -> nth_error mat p = Some row -> length row = count_true m ->
  nth_error m i = Some false -> nth3 (fill3 (Some m) dense) r p i = Some 0.
Proof.
  intros Hr Hp Hl Hm. unfold nth3, fill3. rewrite nth_error_map, Hr. cbn. rewrite nth_error_map, Hp. cbn.
  apply sampler_fill_fixed; assumption.
Qed.
Lemma zero3_fixed m full r p i mat row :
  nth_error full r = Some mat -> nth_error mat p = Some row -> length row = length m ->
  nth_error m i = Some false -> nth3 (zero3 (Some m) full) r p i = Some 0.
Proof.
  intros Hr Hp Hl Hm. unfold nth3, zero3. rewrite nth_error_map, Hr. cbn. rewrite nth_error_map, Hp. cbn.
  apply mask_zero_fixed; assumption.
Qed.

(* ---- perturbation leaves unsampled variables alone ---------------------------------------------- *)
Lemma qsum_repeat0 n : qsum (repeat 0 n) == 0.
Proof. induction n as [|n IH]; cbn [repeat]; [rewrite qsum_nil; reflexivity | rewrite qsum_cons, IH; ring]. Qed.

Lemma inside_eq l u a b : a == b -> inside l u a -> inside l u b.
Proof.
  intros E [H1 H2]. split; [destruct l as [|lq|] | destruct u as [|uq|]]; cbn in *; auto; rewrite <- E; assumption.
Qed.

Theorem perturb_unsampled ts lbs ubs x mags ss r p i t l u xv m :
  ss <> [] -> Forall (fun s => nth3 s r p i = Some 0) ss ->
  nth_error ts i = Some t -> nth_error lbs i = Some l -> nth_error ubs i = Some u ->
  nth_error x i = Some xv -> nth_error mags i = Some m ->
  inside l u xv ->
  exists q, nth3 (perturb ts lbs ubs x mags (sum_samples ss)) r p i = Some q /\ q == xv.
Proof.
  intros Hne Hz Ht Hl Hu Hx Hm Hin.
  assert (HF : Forall2 (fun a q => nth3 a r p i = Some q) ss (repeat 0 (length ss))).
  { clear Hne. induction Hz as [|s rest Hs _ IH]; cbn; constructor; assumption. }
  destruct (sum_samples_nth ss r p i _ Hne HF) as [sv [Hsv Hq]]. rewrite qsum_repeat0 in Hq.
  exists (apply_bounds_1 t l u (xv + m * sv)). split; [apply perturb_formula; assumption|].
  assert (Hy : xv + m * sv == xv) by (rewrite Hq; ring).
  unfold apply_bounds_1. rewrite inside_unaltered; [exact Hy|].
  apply (inside_eq l u xv); [symmetry; exact Hy | exact Hin].
Qed.

(* ---- the callback state machine ----------------------------------------------------------------- *)
Definition mask_len (mask : option (list bool)) (n : nat) : Prop :=
  match mask with Some m => length m = n | None => True end.
Definition wf_request (mask : option (list bool)) (n : nat) (rq : request) : Prop :=
  Forall (fun row => length row = free_count mask n) (fst rq) /\
  match snd rq with Some (NDeliver r) => length r = n | _ => True end.

Lemma complete_opt_fixed {A} mask n (fixed free : list A) i :
  mask_len mask n -> length fixed = n -> length free = free_count mask n -> mask_false mask i ->
  nth_error (complete_opt mask fixed free) i = nth_error fixed i.
Proof.
  destruct mask as [m|]; cbn; [|contradiction]. intros Hm Hf Hfr Hi.
  apply complete_fixed; [congruence | exact Hfr | exact Hi].
Qed.
Lemma complete_opt_length {A} mask n (fixed free : list A) :
  mask_len mask n -> length fixed = n -> length free = free_count mask n ->
  length (complete_opt mask fixed free) = n.
Proof.
  destruct mask as [m|]; cbn; [|intros _ _ H; exact H]. intros Hm Hf Hfr.
  rewrite complete_length; [exact Hm | congruence | exact Hfr].
Qed.
Lemma gather_complete_opt {A} mask n (fixed free : list A) :
  mask_len mask n -> length fixed = n -> length free = free_count mask n ->
  gather_opt mask (complete_opt mask fixed free) = free.
Proof.
  destruct mask as [m|]; cbn; [|reflexivity]. intros Hm Hf Hfr. apply gather_complete; [congruence | exact Hfr].
Qed.

(* agreement on the fixed positions *)
Definition agree (mask : option (list bool)) (a b : list Q) : Prop :=
  forall i, mask_false mask i -> nth_error a i = nth_error b i.

Lemma last_delivered_cons cur rq rest :
  last_delivered cur (rq :: rest) =
  last_delivered (match snd rq with Some (NDeliver r) => r | _ => cur end) rest.
Proof. destruct rq as [free [[r| |]|]]; reflexivity. Qed.

Theorem run_from_invariant mask n : mask_len mask n ->
  forall reqs st k ni out,
  length (fixed st) = n -> Forall (wf_request mask n) reqs ->
  nth_error (run_from mask st reqs) k = Some (ni, out) ->
  (* the vector handed to the nested optimization carries the values delivered before *)
  (forall v, ni = Some v -> length v = n /\ agree mask v (last_delivered (fixed st) (firstn k reqs))) /\
  (* every vector passed on for evaluation carries the starting values or the last delivery *)
  (forall rows, out = CbEvaluate rows -> forall row, In row rows ->
     length row = n /\ agree mask row (last_delivered (fixed st) (firstn (S k) reqs))).
Proof.
  intros Hmask. induction reqs as [|[free nst] t IH]; intros st k ni out Hst Hwf Hk; [destruct k; discriminate|].
  apply Forall_cons_iff in Hwf as [[Hfree Hdel] Hwt]. cbn [fst snd] in Hfree, Hdel.
  cbn [run_from] in Hk.
  destruct (callback mask st free nst) as [[ni0 out0] st'] eqn:Ecb.
  assert (Hrows : forall f, In f free -> length (complete_opt mask (fixed st) f) = n /\
                                        agree mask (complete_opt mask (fixed st) f) (fixed st)).
  { intros f Hf. rewrite Forall_forall in Hfree. split.
    - apply complete_opt_length; auto.
    - intros i Hi. apply (complete_opt_fixed mask n); auto. }
  destruct k as [|k].
  - (* the first request *)
    cbn in Hk. injection Hk as <- <-. unfold callback in Ecb. cbn [firstn last_delivered].
    destruct nst as [nres|].
    + destruct (map (complete_opt mask (fixed st)) free) as [|v [|v2 vs]] eqn:Emap;
        try (injection Ecb as <- <- <-; split; [intros ? [=] | intros ? [=]]).
      assert (Hv : length v = n /\ agree mask v (fixed st)).
      { destruct free as [|f fr]; [discriminate|]. cbn in Emap. injection Emap as <- _. apply Hrows. left. reflexivity. }
      destruct nres as [r| |]; injection Ecb as <- <- <-.
      * split; [intros v0 [= <-]; exact Hv|]. intros rows [= <-] row [<-|[]].
        split; [exact Hdel | intros i _; reflexivity].
      * split; [intros v0 [= <-]; exact Hv | intros ? [=]].
      * split; [intros v0 [= <-]; exact Hv | intros ? [=]].
    + injection Ecb as <- <- <-. split; [intros ? [=]|]. intros rows [= <-] row Hin.
      apply in_map_iff in Hin as [f [<- Hf]]. apply Hrows, Hf.
  - (* a later request: the run continued, so this one was evaluated *)
    cbn [nth_error] in Hk. destruct out0 as [rows0| | |]; try (destruct k; discriminate).
    assert (Hst' : length (fixed st') = n /\
                   fixed st' = match nst with Some (NDeliver r) => r | _ => fixed st end).
    { unfold callback in Ecb. destruct nst as [nres|].
      - destruct (map (complete_opt mask (fixed st)) free) as [|v [|v2 vs]]; try discriminate.
        destruct nres as [r| |]; try discriminate. injection Ecb as _ _ <-. cbn. split; [exact Hdel | reflexivity].
      - injection Ecb as _ _ <-. split; [exact Hst | reflexivity]. }
    destruct Hst' as [Hlen' Hfix'].
    destruct (IH st' k ni out Hlen' Hwt Hk) as [H1 H2].
    cbn [firstn]. rewrite !last_delivered_cons. cbn [snd]. rewrite <- Hfix'. split; assumption.
Qed.

(* what an accepted non-nested request evaluates: the free values, in order, on the free positions *)
Theorem callback_free_values mask n st free :
  mask_len mask n -> length (fixed st) = n -> Forall (fun row => length row = free_count mask n) free ->
  exists rows, callback mask st free None = (None, CbEvaluate rows, st) /\
               map (gather_opt mask) rows = free /\ Forall (fun row => length row = n) rows.
Proof.
  intros Hm Hst Hfree. eexists. split; [reflexivity|]. split.
  - rewrite map_map. induction Hfree as [|f fr Hf _ IH]; cbn; [reflexivity|]. rewrite IH. f_equal.
    apply (gather_complete_opt mask n); assumption.
  - induction Hfree as [|f fr Hf _ IH]; cbn; constructor; [|exact IH]. apply complete_opt_length; assumption.
Qed.

(* ==== what the samplers build together; the evaluator's function-value cache ====================== *)
(* ---- positions no sampler owns ------------------------------------------------------------------ *)
Lemma map2_length {A B C} (f : A -> B -> C) a b : length a = length b -> length (map2 f a b) = length a.
Proof.
  revert b. induction a as [|x a IH]; intros b H; [reflexivity|]. destruct b as [|y b]; [discriminate|].
  cbn in *. f_equal. apply IH. lia.
Qed.
Lemma mask_zero_at m full i :
  (i < length full)%nat -> nth_error m i = Some false -> nth_error (mask_zero (Some m) full) i = Some 0.
Proof.
  intros Hl Hm. cbn. rewrite map2_nth, Hm.
  destruct (nth_error full i) as [s|] eqn:E; [reflexivity|]. apply nth_error_None in E. lia.
Qed.
Lemma zero3_at m full r p i mat row :
  nth_error full r = Some mat -> nth_error mat p = Some row -> (i < length row)%nat ->
  nth_error m i = Some false -> nth3 (zero3 (Some m) full) r p i = Some 0.
Proof.
  intros Hr Hp Hl Hm. unfold nth3, zero3. rewrite nth_error_map, Hr. cbn. rewrite nth_error_map, Hp. cbn.
  apply mask_zero_at; assumption.
Qed.

(* a position that [owned] marks false belongs to the variable set of no sampler that runs *)
Lemma unowned_sampler_mask gs m i k :
  match gs with Some g => length g = length m | None => True end ->
  nth_error (owned gs (Some m) (length m)) i = Some false ->
  In k (sampler_order gs) ->
  exists sm, sampler_mask k gs (Some m) = Some sm /\ nth_error sm i = Some false.
Proof.
  intros Hl Ho Hk. destruct gs as [g|]; cbn in *.
  - eexists. split; [reflexivity|]. rewrite map2_nth in Ho. rewrite map2_nth, nth_error_map.
    destruct (nth_error m i) as [b|]; [|cbn in Ho; discriminate].
    destruct (nth_error g i) as [z|]; [|cbn in Ho; discriminate].
    cbn in *. injection Ho as Ho. f_equal. destruct b; [|reflexivity]. cbn in *.
    apply negb_false_iff, Z.ltb_lt in Ho. apply first_appearance_nonneg in Hk as [Hk _].
    apply Z.eqb_neq. lia.
  - exists m. split; [reflexivity | exact Ho].
Qed.
(* masked-out positions are never owned *)
Lemma masked_unowned gs m i :
  match gs with Some g => length g = length m | None => True end ->
  nth_error m i = Some false -> nth_error (owned gs (Some m) (length m)) i = Some false.
Proof.
  intros Hl Hm. destruct gs as [g|]; cbn; [|exact Hm]. rewrite map2_nth, Hm.
  destruct (nth_error g i) as [z|] eqn:E; [reflexivity|].
  apply nth_error_None in E. assert (i < length m)%nat by (apply nth_error_Some; congruence). lia.
Qed.

(* what _perturb_variables builds from the samplers, at a position no sampler owns: the current value, for
   every boundary type, provided that value is inside its bounds *)
Theorem run_samplers_unowned gs m scripts ts lbs ubs x mags r p i t l u xv mg :
  sampler_order gs <> [] ->
  match gs with Some g => length g = length m | None => True end ->
  (forall k, In k (sampler_order gs) -> exists s mat row,
      nth_error scripts (Z.to_nat k) = Some s /\ nth_error s r = Some mat /\ nth_error mat p = Some row /\
      length row = length m) ->
  nth_error (owned gs (Some m) (length m)) i = Some false ->
  nth_error ts i = Some t -> nth_error lbs i = Some l -> nth_error ubs i = Some u ->
  nth_error x i = Some xv -> nth_error mags i = Some mg -> inside l u xv ->
  exists q, nth3 (perturb ts lbs ubs x mags (run_samplers gs (Some m) scripts)) r p i = Some q /\ q == xv.
Proof.
  intros Hne Hl Hs Ho Ht Hlb Hub Hx Hm Hin. unfold run_samplers.
  apply (perturb_unsampled ts lbs ubs x mags _ r p i t l u xv mg); try assumption.
  - destruct (sampler_order gs); [congruence | discriminate].
  - apply Forall_forall. intros a Ha. apply in_map_iff in Ha as [k [<- Hk]].
    destruct (unowned_sampler_mask gs m i k Hl Ho Hk) as [sm [-> Hsm]].
    destruct (Hs k Hk) as [s [mat [row [H1 [H2 [H3 H4]]]]]].
    rewrite (nth_error_nth _ _ _ H1).
    apply (zero3_at sm s r p i mat row H2 H3); [|exact Hsm].
    rewrite H4. destruct gs as [g|]; cbn in Ho.
    + rewrite <- (map2_length (fun (b : bool) z => b && negb (z <? 0)%Z) m g) by lia.
      apply nth_error_Some. congruence.
    + apply nth_error_Some. congruence.
Qed.

(* ---- the evaluator's function-value cache ------------------------------------------------------- *)
Lemma same_point_nth a b i x y :
  same_point a b = true -> nth_error a i = Some x -> nth_error b i = Some y -> Qabs (x - y) <= cache_atol.
Proof.
  unfold same_point. revert b i. induction a as [|x0 a IH]; intros b i H Ha Hb; [destruct i; discriminate|].
  destruct b as [|y0 b]; [discriminate|]. cbn in H. apply andb_prop in H as [H1 H2].
  destruct i as [|i]; cbn in *.
  - injection Ha as <-. injection Hb as <-. apply Qleb_le, H1.
  - apply (IH b i); assumption.
Qed.
(* a gradient is computed from cached function values only for a gradient-only request of one vector that coincides
   with the cached vector on EVERY position -- the fixed ones included -- and the cache is kept; in all other cases the
   function values are evaluated afresh at the requested vector *)
Theorem evaluate_cached_sound cache f g vs v c' :
  evaluate cache f g vs = (EvGradCached v, c') ->
  f = false /\ g = true /\ vs = [v] /\ c' = cache /\
  exists c, cache = Some c /\ length c = length v /\
            forall i x y, nth_error c i = Some x -> nth_error v i = Some y -> Qabs (x - y) <= cache_atol.
Proof.
  unfold evaluate. intros H. destruct (f && negb g) eqn:Efg; [discriminate|].
  destruct g; [|discriminate]. cbn [negb] in H.
  destruct vs as [|v0 [|v1 vs]]; try discriminate. destruct cache as [c|]; [|discriminate].
  destruct (negb f && same_point c v0) eqn:E; [|discriminate]. injection H as <- <-.
  apply andb_prop in E as [Ef Es]. apply negb_true_iff in Ef. subst f. repeat split; try reflexivity.
  exists c. split; [reflexivity|]. split; [apply (forallb2_length _ _ _ Es)|].
  intros i x y. apply same_point_nth, Es.
Qed.
Theorem evaluate_fresh cache f g v :
  g = true -> (f = true \/ match cache with Some c => same_point c v = false | None => True end) ->
  evaluate cache f g [v] = (EvBoth v, None).
Proof.
  intros -> H. unfold evaluate. rewrite andb_false_r. cbn [negb]. destruct cache as [c|]; [|reflexivity].
  destruct H as [->|H]; [reflexivity|]. rewrite H, andb_false_r. reflexivity.
Qed.
