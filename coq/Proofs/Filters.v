(* Proofs/Filters.v -- facts about Model/Filters.v for C04 (CVaR weights) and C05 (sort window). *)
From Coq Require Import String QArith Qabs Qround Qminmax Bool Arith ZArith List Lia Lqa Permutation Sorted.
From Ropt Require Import Base.Num Base.ListX Gen.Generated Model.Filters Proofs.SortX.
Import ListNotations.

Local Arguments firstn : simpl never.
Local Arguments skipn : simpl never.

(* ---- set_nth / assign ------------------------------------------------------------------------ *)
Lemma set_nth_length {A} i (v : A) l : length (set_nth i v l) = length l.
Proof. revert i; induction l as [|x t IH]; intros [|i]; cbn; try reflexivity. rewrite IH; reflexivity. Qed.

Lemma nth_set_nth_eq {A} i (v d : A) l : (i < length l)%nat -> nth i (set_nth i v l) d = v.
Proof. revert i; induction l as [|x t IH]; intros [|i] H; cbn in *; try lia; [reflexivity | apply IH; lia]. Qed.

Lemma nth_set_nth_neq {A} i j (v d : A) l : i <> j -> nth j (set_nth i v l) d = nth j l d.
Proof.
  revert i j; induction l as [|x t IH]; intros [|i] [|j] H; cbn; try reflexivity; try lia.
  apply IH. lia.
Qed.

Lemma assign_length {A} idx (vals w : list A) : length (assign idx vals w) = length w.
Proof.
  revert vals w; induction idx as [|i it IH]; intros [|v vt] w; cbn; try reflexivity.
  rewrite IH, set_nth_length. reflexivity.
Qed.

Lemma nth_assign_notin {A} idx (vals w : list A) j d : ~ In j idx -> nth j (assign idx vals w) d = nth j w d.
Proof.
  revert vals w; induction idx as [|i it IH]; intros [|v vt] w H; cbn; try reflexivity.
  rewrite IH by (intro; apply H; right; assumption).
  apply nth_set_nth_neq. intros ->. apply H. left; reflexivity.
Qed.

Lemma nth_assign_in {A} idx (vals w : list A) k d :
  NoDup idx -> length vals = length idx -> (forall i, In i idx -> (i < length w)%nat) -> (k < length idx)%nat ->
  nth (nth k idx 0%nat) (assign idx vals w) d = nth k vals d.
Proof.
  revert vals w k; induction idx as [|i it IH]; intros [|v vt] w k ND HL HR Hk; cbn in *; try lia.
  inversion ND as [|? ? Hi ND']; subst. destruct k as [|k].
  - rewrite nth_assign_notin by exact Hi. apply nth_set_nth_eq. apply HR. left; reflexivity.
  - apply IH; [exact ND' | lia | | lia]. intros j Hj. rewrite set_nth_length. apply HR. right; exact Hj.
Qed.

Lemma nth_zeros r n : nth r (zeros n) 0%Q = 0%Q.
Proof.
  unfold zeros. destruct (Nat.lt_ge_cases r n) as [H|H].
  - apply nth_repeat.
  - apply nth_overflow. rewrite repeat_length. exact H.
Qed.

(* ---- firstn / skipn by position --------------------------------------------------------------- *)
Lemma nth_firstn_lt {A} (l : list A) n k d : (k < n)%nat -> nth k (firstn n l) d = nth k l d.
Proof.
  revert n k; induction l as [|x t IH]; intros n k H.
  - rewrite firstn_nil. reflexivity.
  - destruct n as [|n]; [lia|]. rewrite firstn_cons. destruct k as [|k]; cbn [nth]; [reflexivity | apply IH; lia].
Qed.

Lemma nth_skipn_add {A} (l : list A) n k d : nth k (skipn n l) d = nth (n + k) l d.
Proof.
  revert l; induction n as [|n IH]; intros l; [reflexivity|].
  destruct l as [|x t]; [rewrite skipn_nil; destruct k; reflexivity|].
  rewrite skipn_cons. cbn [Nat.add nth]. apply IH.
Qed.

Lemma window_length {A} first last (l : list A) :
  length (window first last l) = (Nat.min (last + 1) (length l) - first)%nat.
Proof. unfold window. rewrite firstn_length, skipn_length. lia. Qed.

Lemma window_nth {A} first last (l : list A) k d : (k < length (window first last l))%nat ->
  nth k (window first last l) d = nth (first + k) l d.
Proof.
  intros H. rewrite window_length in H. unfold window.
  rewrite nth_firstn_lt by lia. apply nth_skipn_add.
Qed.

Lemma window_In {A} first last (l : list A) d x :
  In x (window first last l) <-> exists k, (first <= k <= last)%nat /\ (k < length l)%nat /\ nth k l d = x.
Proof.
  split.
  - intros H. apply (In_nth _ _ d) in H as [j [Hj E]]. rewrite window_nth in E by exact Hj.
    rewrite window_length in Hj. exists (first + j)%nat. repeat split; try lia. exact E.
  - intros [k [Hk [Hl E]]]. subst x.
    replace k with (first + (k - first))%nat by lia.
    assert (Hj : (k - first < length (window first last l))%nat) by (rewrite window_length; lia).
    rewrite <- (window_nth first last l (k - first) d Hj). apply nth_In. exact Hj.
Qed.

Lemma NoDup_app_l {A} (l1 l2 : list A) : NoDup (l1 ++ l2) -> NoDup l1.
Proof.
  induction l1 as [|x t IH]; cbn; intros H; [constructor|].
  inversion H as [|? ? Hx Ht]; subst. constructor; [|apply IH; exact Ht].
  intro Hin. apply Hx. apply in_or_app. left; exact Hin.
Qed.

Lemma NoDup_app_r {A} (l1 l2 : list A) : NoDup (l1 ++ l2) -> NoDup l2.
Proof.
  induction l1 as [|x t IH]; cbn; intros H; [exact H|].
  inversion H as [|? ? _ Ht]; subst. apply IH; exact Ht.
Qed.

Lemma NoDup_firstn {A} n (l : list A) : NoDup l -> NoDup (firstn n l).
Proof. intros H. rewrite <- (firstn_skipn n l) in H. apply NoDup_app_l in H. exact H. Qed.

Lemma NoDup_skipn {A} n (l : list A) : NoDup l -> NoDup (skipn n l).
Proof. intros H. rewrite <- (firstn_skipn n l) in H. apply NoDup_app_r in H. exact H. Qed.

Lemma NoDup_window {A} first last (l : list A) : NoDup l -> NoDup (window first last l).
Proof. intros H. apply NoDup_firstn, NoDup_skipn, H. Qed.

Lemma window_incl {A} first last (l : list A) x : In x (window first last l) -> In x l.
Proof.
  intros H. apply (window_In first last l x) in H as [k [_ [Hl <-]]]. apply nth_In. exact Hl.
Qed.

(* ---- C05: _sort_and_select --------------------------------------------------------------------- *)
Lemma succeeded_lt failed r : succeeded failed r = true -> (r < length failed)%nat /\ nth r failed true = false.
Proof.
  unfold succeeded. intros H. apply negb_true_iff in H. split; [|exact H].
  destruct (Nat.lt_ge_cases r (length failed)) as [Hr|Hr]; [exact Hr|].
  rewrite nth_overflow in H by exact Hr. discriminate.
Qed.

Lemma selected_window values failed first last r : length failed = length values ->
  (In r (window first last (ranked failed values)) <-> selected values failed first last r = true).
Proof.
  intros HL. unfold selected. rewrite !andb_true_iff, !Nat.leb_le. split.
  - intros H. apply (window_In first last _ 0%nat) in H as [k [Hk [Hn E]]].
    assert (Hin : In r (ranked failed values)) by (rewrite <- E; apply nth_In; exact Hn).
    apply (ranked_In failed values r HL) in Hin as [_ Hf].
    rewrite <- E, rank_nth by assumption. unfold succeeded. rewrite E, Hf. cbn. lia.
  - intros [[Hs H1] H2]. apply succeeded_lt in Hs.
    apply (ranked_In failed values r HL) in Hs.
    destruct (nth_rank failed values r HL Hs) as [Hn E].
    apply (window_In first last _ 0%nat). exists (rank values failed r). repeat split; assumption.
Qed.

Theorem sort_and_select_spec values cfgw failed first last r :
  length failed = length values -> length cfgw = length failed ->
  nth r (sort_and_select values cfgw failed first last) 0%Q =
    if selected values failed first last r then nth r cfgw 0%Q else 0%Q.
Proof.
  intros HL HC. unfold sort_and_select.
  set (sel := window first last (ranked failed values)).
  destruct (selected values failed first last r) eqn:Hs.
  - apply (selected_window values failed first last r HL) in Hs. fold sel in Hs.
    apply (In_nth _ _ 0%nat) in Hs as [k [Hk E]]. rewrite <- E at 1.
    rewrite nth_assign_in.
    + rewrite (nth_indep _ 0%Q (nth 0%nat cfgw 0%Q)) by (rewrite map_length; exact Hk).
      pose proof (map_nth (fun i => nth i cfgw 0%Q) sel 0%nat k) as Hm. cbn beta in Hm.
      rewrite Hm, E. reflexivity.
    + apply NoDup_window, ranked_NoDup, HL.
    + apply map_length.
    + intros i Hi. unfold zeros. rewrite repeat_length, HC.
      apply window_incl in Hi. apply (ranked_In failed values i HL) in Hi. tauto.
    + exact Hk.
  - rewrite nth_assign_notin; [apply nth_zeros|].
    intro Hin. apply (selected_window values failed first last r HL) in Hin. congruence.
Qed.

Lemma sort_and_select_length values cfgw failed first last :
  length (sort_and_select values cfgw failed first last) = length cfgw.
Proof. unfold sort_and_select. rewrite assign_length. unfold zeros. apply repeat_length. Qed.

(* ---- C04: the staircase ----------------------------------------------------------------------- *)
Open Scope Q_scope.

Lemma nq_pos n : (0 < n)%nat -> 0 < nq n.
Proof. intros H. unfold nq. change 0 with (inject_Z 0). rewrite <- Zlt_Qlt. lia. Qed.

Lemma nq_S n : nq (S n) == nq n + 1.
Proof. unfold nq. rewrite Nat2Z.inj_succ, <- Z.add_1_r, inject_Z_plus. reflexivity. Qed.

Lemma nq_le a b : (a <= b)%nat -> nq a <= nq b.
Proof. intros H. unfold nq. rewrite <- Zle_Qle. lia. Qed.

Lemma floor_bounds p n : (0 < n)%nat -> 0 < p -> p <= 1 ->
  nq (stair_m p n) <= p * nq n /\ p * nq n < nq (stair_m p n) + 1 /\ (stair_m p n <= n)%nat.
Proof.
  intros Hn Hp Hp1. pose proof (nq_pos n Hn) as Hnq. unfold stair_m, qfloor.
  assert (H0 : 0 <= p * nq n) by nra.
  assert (Hf0 : (0 <= Qfloor (p * nq n))%Z).
  { change 0%Z with (Qfloor 0). apply Qfloor_resp_le. exact H0. }
  assert (Hm : nq (Z.to_nat (Qfloor (p * nq n))) == inject_Z (Qfloor (p * nq n))).
  { unfold nq. rewrite Z2Nat.id by exact Hf0. reflexivity. }
  split; [|split].
  - rewrite Hm. apply Qfloor_le.
  - rewrite Hm. pose proof (Qlt_floor (p * nq n)) as H. rewrite inject_Z_plus in H. exact H.
  - assert (Hle : (Qfloor (p * nq n) <= Z.of_nat n)%Z).
    { rewrite <- (Qfloor_Z (Z.of_nat n)). apply Qfloor_resp_le. fold (nq n). nra. }
    lia.
Qed.

(* the fractional step lies in [0, 1/n) *)
Lemma frac_bounds p n : (0 < n)%nat -> 0 < p -> p <= 1 ->
  0 <= p - nq (stair_m p n) / nq n /\ p - nq (stair_m p n) / nq n < 1 / nq n.
Proof.
  intros Hn Hp Hp1. destruct (floor_bounds p n Hn Hp Hp1) as [Hlo [Hhi _]].
  pose proof (nq_pos n Hn) as Hnq.
  assert (E : p - nq (stair_m p n) / nq n == (p * nq n - nq (stair_m p n)) / nq n) by (field; lra).
  rewrite E. split.
  - apply Qle_shift_div_l; [exact Hnq | lra].
  - apply Qlt_shift_div_r; [exact Hnq|].
    assert (E1 : 1 / nq n * nq n == 1) by (field; lra). rewrite E1. lra.
Qed.

(* the literal expressions of the code *)
Definition stair_raw (p : Q) (n k : nat) : Q :=
  let m := stair_m p n in
  if Nat.ltb k m then 1 / nq n else if Nat.eqb k m then Qmax (p - nq m * (1 / nq n)) 0 else 0.

Lemma stair_raw_eq p n k : (0 < n)%nat -> 0 < p -> p <= 1 -> stair_raw p n k == stair p n k.
Proof.
  intros Hn Hp Hp1. unfold stair_raw, stair. destruct (Nat.ltb k (stair_m p n)); [reflexivity|].
  destruct (Nat.eqb k (stair_m p n)); [|reflexivity].
  destruct (frac_bounds p n Hn Hp Hp1) as [H0 _]. pose proof (nq_pos n Hn) as Hnq.
  assert (E : p - nq (stair_m p n) * (1 / nq n) == p - nq (stair_m p n) / nq n) by (field; lra).
  rewrite E. apply Q.max_l. exact H0.
Qed.

Lemma stair_nonneg p n k : (0 < n)%nat -> 0 < p -> p <= 1 -> 0 <= stair p n k.
Proof.
  intros Hn Hp Hp1. unfold stair. pose proof (nq_pos n Hn) as Hnq.
  destruct (Nat.ltb k (stair_m p n)); [apply Qle_shift_div_l; lra|].
  destruct (Nat.eqb k (stair_m p n)); [apply (frac_bounds p n Hn Hp Hp1) | lra].
Qed.

Lemma stair_le p n k : (0 < n)%nat -> 0 < p -> p <= 1 -> stair p n k <= 1 / nq n.
Proof.
  intros Hn Hp Hp1. unfold stair. pose proof (nq_pos n Hn) as Hnq.
  assert (H1n : 0 <= 1 / nq n) by (apply Qle_shift_div_l; lra).
  destruct (Nat.ltb k (stair_m p n)); [lra|].
  destruct (Nat.eqb k (stair_m p n)); [|exact H1n].
  destruct (frac_bounds p n Hn Hp Hp1) as [_ H]. lra.
Qed.

(* ---- C04: _get_cvar_weights_from_percentile ---------------------------------------------------- *)
Lemma cvar_weights_length p values failed : length (cvar_weights p values failed) = length values.
Proof.
  unfold cvar_weights. destruct (Nat.eqb (length (ranked failed values)) 0); [apply repeat_length|].
  destruct (Nat.ltb _ _); cbn [assign]; rewrite ?set_nth_length, assign_length; apply repeat_length.
Qed.

Lemma nth_repeat_any {A} (a d : A) m k : (k < m)%nat -> nth k (repeat a m) d = a.
Proof. intros H. rewrite (nth_indep _ d a) by (rewrite repeat_length; exact H). apply nth_repeat. Qed.

(* exact (Leibniz) description of every entry *)
Theorem cvar_weights_raw p values failed r :
  length failed = length values -> 0 < p -> p <= 1 ->
  nth r (cvar_weights p values failed) 0 =
    if succeeded failed r then stair_raw p (count_ok failed) (rank values failed r) else 0.
Proof.
  intros HL Hp Hp1. unfold cvar_weights.
  pose proof (ranked_length failed values HL) as Hlen.
  pose proof (ranked_NoDup failed values HL) as ND.
  set (idx := ranked failed values) in *. set (n := length idx) in *.
  destruct (Nat.eqb_spec n 0) as [Hn0|Hn0].
  - rewrite nth_zeros. destruct (succeeded failed r) eqn:Hs; [|reflexivity].
    apply succeeded_lt in Hs. apply (ranked_In failed values r HL) in Hs. fold idx in Hs.
    destruct idx; [contradiction | cbn in n; lia].
  - assert (Hn : (0 < n)%nat) by lia.
    destruct (floor_bounds p n Hn Hp Hp1) as [_ [_ Hmn]].
    rewrite <- Hlen. unfold stair_raw. fold (stair_m p n). set (m := stair_m p n) in *.
    set (p_max := 1 / nq n). set (p_var := Qmax (p - nq m * p_max) 0).
    set (w1 := assign (firstn m idx) (repeat p_max m) (zeros (length values))).
    assert (Hw1len : length w1 = length values) by (unfold w1; rewrite assign_length; apply repeat_length).
    assert (Hfl : length (firstn m idx) = m) by (rewrite firstn_length; fold n; lia).
    (* value of w1 *)
    assert (Hw1in : forall k, (k < m)%nat -> nth (nth k idx 0%nat) w1 0 = p_max).
    { intros k Hk. rewrite <- (nth_firstn_lt idx m k 0%nat Hk). unfold w1. rewrite nth_assign_in.
      - apply nth_repeat_any; exact Hk.
      - apply NoDup_firstn; exact ND.
      - rewrite repeat_length, Hfl. reflexivity.
      - intros i Hi. unfold zeros. rewrite repeat_length, <- HL.
        assert (Hin : In i idx) by (rewrite <- (firstn_skipn m idx); apply in_or_app; left; exact Hi).
        apply (ranked_In failed values i HL) in Hin. tauto.
      - rewrite Hfl; exact Hk. }
    assert (Hw1out : forall x, (forall k, (k < m)%nat -> nth k idx 0%nat <> x) -> nth x w1 0 = 0).
    { intros x Hx. unfold w1. rewrite nth_assign_notin; [apply nth_zeros|].
      intro Hin. apply (In_nth _ _ 0%nat) in Hin as [k [Hk E]]. rewrite Hfl in Hk.
      rewrite nth_firstn_lt in E by exact Hk. exact (Hx k Hk E). }
    assert (Hinj : forall i j, (i < n)%nat -> (j < n)%nat -> nth i idx 0%nat = nth j idx 0%nat -> i = j).
    { apply NoDup_nth; exact ND. }
    destruct (succeeded failed r) eqn:Hs.
    + apply succeeded_lt in Hs. apply (ranked_In failed values r HL) in Hs. fold idx in Hs.
      destruct (nth_rank failed values r HL Hs) as [Hk E]. fold idx in Hk, E. fold n in Hk.
      set (k := rank values failed r) in *.
      destruct (Nat.ltb_spec k m) as [Hkm|Hkm].
      * (* full step *)
        destruct (Nat.ltb_spec m n) as [Hmn'|Hmn']; cbn [assign].
        -- rewrite nth_set_nth_neq; [rewrite <- E; apply Hw1in; exact Hkm|].
           intro E2. rewrite <- E in E2. apply Hinj in E2; lia.
        -- rewrite <- E. apply Hw1in; exact Hkm.
      * destruct (Nat.eqb_spec k m) as [Hkm2|Hkm2].
        -- (* fractional step *)
           subst m. rewrite <- Hkm2 in *. assert (Hlt : Nat.ltb k n = true) by (apply Nat.ltb_lt; exact Hk).
           rewrite Hlt. cbn [assign]. rewrite E. apply nth_set_nth_eq. rewrite Hw1len, <- HL.
           apply (ranked_In failed values r HL) in Hs. tauto.
        -- (* beyond the staircase *)
           assert (Hz : nth r w1 0 = 0).
           { apply Hw1out. intros j Hj E2. rewrite <- E in E2. apply Hinj in E2; lia. }
           destruct (Nat.ltb_spec m n) as [Hmn'|Hmn']; cbn [assign]; [|exact Hz].
           rewrite nth_set_nth_neq; [exact Hz|]. intro E2. rewrite <- E in E2. apply Hinj in E2; lia.
    + assert (Hnot : ~ In r idx).
      { intro Hin. apply (ranked_In failed values r HL) in Hin as [_ Hf]. unfold succeeded in Hs. rewrite Hf in Hs. discriminate. }
      assert (Hz : nth r w1 0 = 0).
      { apply Hw1out. intros j Hj E2. apply Hnot. rewrite <- E2. apply nth_In. fold n. lia. }
      destruct (Nat.ltb_spec m n) as [Hmn'|Hmn']; cbn [assign]; [|exact Hz].
      rewrite nth_set_nth_neq; [exact Hz|]. intro E2. apply Hnot. rewrite <- E2. apply nth_In. exact Hmn'.
Qed.

Theorem cvar_weights_spec p values failed r :
  length failed = length values -> 0 < p -> p <= 1 ->
  nth r (cvar_weights p values failed) 0 ==
    if succeeded failed r then stair p (count_ok failed) (rank values failed r) else 0.
Proof.
  intros HL Hp Hp1. rewrite cvar_weights_raw by assumption.
  destruct (succeeded failed r) eqn:Hs; [|reflexivity].
  apply stair_raw_eq; try assumption.
  apply succeeded_lt in Hs. apply (ranked_In failed values r HL) in Hs.
  rewrite <- (ranked_length failed values HL). destruct (ranked failed values); [contradiction | cbn; lia].
Qed.

(* exact zeros: failed realizations and everything ranked after the fractional step *)
Theorem cvar_weights_zero p values failed r :
  length failed = length values -> 0 < p -> p <= 1 ->
  succeeded failed r = false \/ (stair_m p (count_ok failed) < rank values failed r)%nat ->
  nth r (cvar_weights p values failed) 0 = 0.
Proof.
  intros HL Hp Hp1 H. rewrite cvar_weights_raw by assumption.
  destruct (succeeded failed r); [|reflexivity]. destruct H as [H|H]; [discriminate|].
  unfold stair_raw. destruct (Nat.ltb_spec (rank values failed r) (stair_m p (count_ok failed))); [lia|].
  destruct (Nat.eqb_spec (rank values failed r) (stair_m p (count_ok failed))); [lia | reflexivity].
Qed.

(* ---- sums -------------------------------------------------------------------------------------- *)
Lemma qsum_perm l l' : Permutation l l' -> qsum l == qsum l'.
Proof.
  induction 1 as [|x l l' _ IH|x y l|l l' l'' _ IH1 _ IH2].
  - reflexivity.
  - rewrite !qsum_cons, IH. reflexivity.
  - rewrite !qsum_cons. ring.
  - rewrite IH1. exact IH2.
Qed.

Lemma qsum_map_ext {A} (f g : A -> Q) l : (forall x, In x l -> f x == g x) -> qsum (map f l) == qsum (map g l).
Proof.
  induction l as [|x t IH]; intros H; cbn [map]; [reflexivity|].
  rewrite !qsum_cons, (H x (or_introl eq_refl)), IH; [reflexivity|].
  intros y Hy. apply H. right; exact Hy.
Qed.

Lemma qsum_map_const {A} (f : A -> Q) c l : (forall x, In x l -> f x == c) -> qsum (map f l) == nq (length l) * c.
Proof.
  induction l as [|x t IH]; intros H; cbn [map length].
  - rewrite qsum_nil. unfold nq. cbn. ring.
  - rewrite qsum_cons, nq_S, (H x (or_introl eq_refl)), IH; [ring|].
    intros y Hy. apply H. right; exact Hy.
Qed.

Lemma qsum_map_filter {A} (f : A -> Q) (P : A -> bool) l :
  (forall x, In x l -> P x = false -> f x == 0) -> qsum (map f l) == qsum (map f (filter P l)).
Proof.
  induction l as [|x t IH]; intros H; cbn [map filter]; [reflexivity|].
  assert (IH' : qsum (map f t) == qsum (map f (filter P t))) by (apply IH; intros y Hy; apply H; right; exact Hy).
  destruct (P x) eqn:Px; cbn [map]; rewrite !qsum_cons, ?IH'; [reflexivity|].
  rewrite (H x (or_introl eq_refl) Px). ring.
Qed.

Lemma list_map_nth {A} (l : list A) d : l = map (fun r => nth r l d) (seq 0 (length l)).
Proof.
  apply (nth_ext _ _ d d).
  - rewrite map_length, seq_length. reflexivity.
  - intros n Hn.
    rewrite (nth_indep (map _ _) d ((fun r => nth r l d) 0%nat)) by (rewrite map_length, seq_length; exact Hn).
    pose proof (map_nth (fun r => nth r l d) (seq 0 (length l)) 0%nat n) as Hm. cbn beta in Hm.
    rewrite Hm, seq_nth by exact Hn. reflexivity.
Qed.

(* a sum over all realizations of a function vanishing on the failed ones = the sum along the ranking *)
Lemma sum_over_ranked (g : nat -> Q) failed values : length failed = length values ->
  (forall r, succeeded failed r = false -> g r == 0) ->
  qsum (map g (seq 0 (length failed))) ==
  qsum (map (fun k => g (nth k (ranked failed values) 0%nat)) (seq 0 (length (ranked failed values)))).
Proof.
  intros HL Hg.
  rewrite (qsum_map_filter g (succeeded failed)) by (intros r _ Hr; apply Hg; exact Hr).
  fold (successes failed).
  rewrite <- (qsum_perm _ _ (Permutation_map g (ranked_perm failed values HL))).
  rewrite (list_map_nth (ranked failed values) 0%nat) at 1. rewrite map_map. reflexivity.
Qed.

Lemma stair_sum p n : (0 < n)%nat -> 0 < p -> p <= 1 -> qsum (map (stair p n) (seq 0 n)) == p.
Proof.
  intros Hn Hp Hp1. destruct (floor_bounds p n Hn Hp Hp1) as [Hlo [Hhi Hmn]].
  pose proof (nq_pos n Hn) as Hnq. set (m := stair_m p n) in *.
  replace n with (m + (n - m))%nat at 2 by lia. rewrite seq_app, map_app, qsum_app. cbn [Nat.add].
  rewrite (qsum_map_const (stair p n) (1 / nq n)).
  2:{ intros k Hk. apply in_seq in Hk. unfold stair. fold m.
      destruct (Nat.ltb_spec k m); [reflexivity | lia]. }
  rewrite seq_length.
  destruct (n - m)%nat as [|j] eqn:Ej.
  - cbn [seq map]. rewrite qsum_nil. assert (m = n) by lia.
    assert (Hpn : p * nq n == nq n). { apply Qle_antisym; [nra | rewrite <- H at 1; exact Hlo]. }
    assert (Hp1' : p == 1). { apply (Qmult_inj_r _ _ (nq n)); [lra | rewrite Hpn; ring]. }
    rewrite H, Hp1'. field. lra.
  - cbn [seq map]. rewrite qsum_cons.
    rewrite (qsum_map_const (stair p n) 0).
    2:{ intros k Hk. apply in_seq in Hk. unfold stair. fold m.
        destruct (Nat.ltb_spec k m); [lia|]. destruct (Nat.eqb_spec k m); [lia | reflexivity]. }
    unfold stair at 1. fold m. rewrite Nat.ltb_irrefl, Nat.eqb_refl. field. lra.
Qed.

(* ---- C04: non-negativity, total mass ------------------------------------------------------------- *)
Lemma count_ok_pos_of_success failed r : succeeded failed r = true -> (0 < count_ok failed)%nat.
Proof.
  intros Hs. apply succeeded_lt in Hs. rewrite <- successes_length.
  assert (Hin : In r (successes failed)) by (apply successes_In; exact Hs).
  destruct (successes failed); [contradiction | cbn; lia].
Qed.

Theorem cvar_weights_nonneg p values failed :
  length failed = length values -> 0 < p -> p <= 1 ->
  Forall (fun x => 0 <= x) (cvar_weights p values failed).
Proof.
  intros HL Hp Hp1. apply Forall_forall. intros x Hx.
  apply (In_nth _ _ 0) in Hx as [r [_ <-]].
  rewrite cvar_weights_spec by assumption.
  destruct (succeeded failed r) eqn:Hs; [|lra].
  apply stair_nonneg; try assumption. exact (count_ok_pos_of_success failed r Hs).
Qed.

Lemma qsum_as_nth l : qsum l == qsum (map (fun r => nth r l 0) (seq 0 (length l))).
Proof. rewrite <- (list_map_nth l 0). reflexivity. Qed.

Theorem cvar_weights_sum p values failed :
  length failed = length values -> 0 < p -> p <= 1 -> (0 < count_ok failed)%nat ->
  qsum (cvar_weights p values failed) == p.
Proof.
  intros HL Hp Hp1 Hn.
  rewrite qsum_as_nth, cvar_weights_length, <- HL.
  rewrite (sum_over_ranked _ failed values HL).
  2:{ intros r Hr. rewrite cvar_weights_spec by assumption. rewrite Hr. reflexivity. }
  rewrite ranked_length by exact HL.
  rewrite <- (stair_sum p (count_ok failed) Hn Hp Hp1).
  apply qsum_map_ext. intros k Hk. apply in_seq in Hk.
  rewrite cvar_weights_spec by assumption.
  assert (Hk' : (k < length (ranked failed values))%nat) by (rewrite ranked_length by exact HL; lia).
  assert (Hin : In (nth k (ranked failed values) 0%nat) (ranked failed values)) by (apply nth_In; exact Hk').
  apply (ranked_In failed values _ HL) in Hin as [_ Hf]. unfold succeeded. rewrite Hf. cbn [negb].
  rewrite rank_nth by assumption. reflexivity.
Qed.

(* ---- C04: the value of the ranked function is the CVaR tail mean ---------------------------------- *)
Lemma qsum_map_scale {A} (c : Q) (h : A -> Q) l : c * qsum (map h l) == qsum (map (fun x => c * h x) l).
Proof.
  induction l as [|x t IH]; cbn [map]; [rewrite !qsum_nil; ring|].
  rewrite !qsum_cons, <- IH. ring.
Qed.

Lemma dot_as_nth a b : length a = length b ->
  dot a b == qsum (map (fun r => nth r a 0 * nth r b 0) (seq 0 (length a))).
Proof.
  intros HL. unfold dot. rewrite (list_map_nth (combine a b) (0, 0)) at 1.
  rewrite map_map, combine_length, <- HL, Nat.min_id.
  apply qsum_map_ext. intros r _. rewrite combine_nth by exact HL. reflexivity.
Qed.

Lemma nth_map_div w s r : nth r (map (fun x => x / s) w) 0 == nth r w 0 / s.
Proof.
  destruct (Nat.lt_ge_cases r (length w)) as [H|H].
  - rewrite (nth_indep _ 0 ((fun x => x / s) 0)) by (rewrite map_length; exact H).
    pose proof (map_nth (fun x => x / s) w 0 r) as Hm. cbn beta in Hm. rewrite Hm. reflexivity.
  - rewrite !nth_overflow by (rewrite ?map_length; exact H). unfold Qdiv. ring.
Qed.

(* where(failed, 0, w) leaves the CVaR weights unchanged: failed realizations already carry exactly 0 *)
Lemma cvar_weights_masked p values failed : length failed = length values -> 0 < p -> p <= 1 ->
  map (fun fw : bool * Q => if fst fw then 0 else snd fw) (combine failed (cvar_weights p values failed))
  = cvar_weights p values failed.
Proof.
  intros HL Hp Hp1. apply (nth_ext _ _ 0 0).
  - rewrite map_length, combine_length, cvar_weights_length. lia.
  - intros r _.
    pose proof (map_nth (fun fw : bool * Q => if fst fw then 0 else snd fw)
                        (combine failed (cvar_weights p values failed)) (true, 0) r) as Hm.
    change ((fun fw : bool * Q => if fst fw then 0 else snd fw) (true, 0)) with 0 in Hm.
    rewrite Hm, combine_nth by (rewrite cvar_weights_length; exact HL). cbn [fst snd].
    destruct (nth r failed true) eqn:Hf; [|reflexivity].
    symmetry. apply cvar_weights_zero; try assumption. left. unfold succeeded. rewrite Hf. reflexivity.
Qed.

Theorem cvar_tail_mean p values failed f :
  length failed = length values -> length f = length failed -> 0 < p -> p <= 1 -> (0 < count_ok failed)%nat ->
  exists v, mean_value (cvar_weights p values failed) failed f = Some v /\
            v == tail_mean p (ranked failed values) f.
Proof.
  intros HL HF Hp Hp1 Hn. unfold mean_value.
  rewrite cvar_weights_masked by assumption.
  pose proof (cvar_weights_sum p values failed HL Hp Hp1 Hn) as Hs.
  set (w := cvar_weights p values failed) in *. set (s := qsum w) in *.
  assert (Hs0 : Qeqb s 0 = false) by (apply Qeqb_neq; lra).
  rewrite Hs0. eexists. split; [reflexivity|].
  rewrite dot_as_nth by (rewrite map_length; unfold w; rewrite cvar_weights_length; lia).
  rewrite HF. rewrite (sum_over_ranked _ failed values HL).
  2:{ intros r Hr. rewrite nth_map_div. unfold w. rewrite cvar_weights_spec by assumption. rewrite Hr.
      unfold Qdiv. ring. }
  unfold tail_mean. rewrite qsum_map_scale. apply qsum_map_ext. intros k Hk. apply in_seq in Hk.
  rewrite nth_map_div. unfold w at 1. rewrite cvar_weights_spec by assumption.
  assert (Hk' : (k < length (ranked failed values))%nat) by lia.
  assert (Hin : In (nth k (ranked failed values) 0%nat) (ranked failed values)) by (apply nth_In; exact Hk').
  apply (ranked_In failed values _ HL) in Hin as [_ Hf]. unfold succeeded. rewrite Hf. cbn [negb].
  rewrite rank_nth by assumption. rewrite (ranked_length failed values HL). rewrite Hs. field. lra.
Qed.

(* ---- C04: what "worst" means ------------------------------------------------------------------------ *)
Lemma badness_upper u c1 c2 : badness NInf (Fin u) c1 <= badness NInf (Fin u) c2 <-> c1 <= c2.
Proof. unfold badness. split; intro H; lra. Qed.

Lemma badness_lower l c1 c2 : badness (Fin l) PInf c1 <= badness (Fin l) PInf c2 <-> c2 <= c1.
Proof. unfold badness. split; intro H; lra. Qed.

Lemma badness_equality t c : badness (Fin t) (Fin t) c == Qabs (c - t).
Proof.
  unfold badness. destruct (Qlt_le_dec c t) as [H|H].
  - rewrite Q.max_l by lra. rewrite Qabs_neg by lra. ring.
  - rewrite Q.max_r by lra. rewrite Qabs_pos by lra. ring.
Qed.

Lemma badness_two_sided l u c : badness (Fin l) (Fin u) c <= 0 <-> l <= c <= u.
Proof.
  unfold badness. split.
  - intros H. pose proof (Q.le_max_l (l - c) (c - u)). pose proof (Q.le_max_r (l - c) (c - u)). lra.
  - intros [H1 H2]. apply Q.max_lub; lra.
Qed.

(* ---- get_realization_weights: the abort ---------------------------------------------------------------- *)
Lemma any_positive_zeros n : any_positive (zeros n) = false.
Proof.
  unfold any_positive, zeros. induction n as [|n IH]; cbn [repeat existsb]; [reflexivity|]. rewrite IH.
  rewrite orb_false_r. apply Qltb_nlt. lra.
Qed.

Lemma any_positive_spec w : any_positive w = true <-> exists r, 0 < nth r w 0.
Proof.
  unfold any_positive. rewrite existsb_exists. split.
  - intros [x [Hx Hp]]. apply (In_nth _ _ 0) in Hx as [r [_ E]]. exists r. rewrite E. apply Qltb_lt. exact Hp.
  - intros [r Hr]. exists (nth r w 0). split; [|apply Qltb_lt; exact Hr].
    destruct (Nat.lt_ge_cases r (length w)) as [H|H]; [apply nth_In; exact H|].
    rewrite nth_overflow in Hr by exact H. lra.
Qed.

Lemma count_ok_all_failed failed : forallb (fun b => b) failed = true -> count_ok failed = 0%nat.
Proof.
  unfold count_ok. induction failed as [|b t IH]; cbn; [reflexivity|].
  destruct b; cbn; [exact IH | discriminate].
Qed.

Lemma ranked_nil_of_count failed values : count_ok failed = 0%nat -> ranked failed values = [].
Proof. intros H. unfold ranked. rewrite H. apply firstn_O. Qed.

Lemma cvar_weights_all_failed p values failed : count_ok failed = 0%nat ->
  cvar_weights p values failed = zeros (length values).
Proof. intros H. unfold cvar_weights. rewrite (ranked_nil_of_count failed values H). reflexivity. Qed.

Lemma positive_of_sum l : Forall (fun x => 0 <= x) l -> 0 < qsum l -> exists r, 0 < nth r l 0.
Proof.
  induction 1 as [|x t Hx _ IH]; intros Hs.
  - rewrite qsum_nil in Hs. lra.
  - rewrite qsum_cons in Hs. destruct (Qlt_le_dec 0 x) as [Hpos|Hle].
    + exists 0%nat. exact Hpos.
    + destruct IH as [r Hr]; [lra|]. exists (S r). exact Hr.
Qed.

Lemma get_weights_unfold cfg m objs cns :
  get_weights cfg m objs cns =
    match method_weights cfg m objs cns with
    | None => Raise "ConfigError"
    | Some w => if any_positive w then Ok w else Abort too_few
    end.
Proof. reflexivity. Qed.

(* CVaR: TOO_FEW_REALIZATIONS exactly when no realization succeeded (never a division by zero) *)
Theorem cvar_get_weights p values failed :
  length failed = length values -> 0 < p -> p <= 1 ->
  any_positive (cvar_weights p values failed) = negb (Nat.eqb (count_ok failed) 0).
Proof.
  intros HL Hp Hp1. destruct (Nat.eqb_spec (count_ok failed) 0) as [H0|H0]; cbn [negb].
  - rewrite cvar_weights_all_failed by exact H0. apply any_positive_zeros.
  - apply any_positive_spec. apply positive_of_sum.
    + apply cvar_weights_nonneg; assumption.
    + rewrite cvar_weights_sum by (try assumption; lia). exact Hp.
Qed.

Lemma col0_failed_length (m : list (list oQ)) : length (col0_failed m) = length m.
Proof. apply map_length. Qed.

Theorem cvar_objective_outcome cfg sort p objs cns : 0 < p -> p <= 1 ->
  get_weights cfg (CvarObjective sort p) objs cns =
    if Nat.eqb (count_ok (col0_failed objs)) 0 then Abort too_few
    else Ok (cvar_objectives cfg sort p objs).
Proof.
  intros Hp Hp1. rewrite get_weights_unfold. cbn [method_weights]. unfold cvar_objectives.
  rewrite cvar_get_weights; try assumption.
  - destruct (Nat.eqb _ 0); reflexivity.
  - unfold cvar_objective_keys. rewrite col0_failed_length, map_length. reflexivity.
Qed.

Theorem cvar_constraint_outcome cfg sort p objs c : 0 < p -> p <= 1 ->
  get_weights cfg (CvarConstraint sort p) objs (Some c) =
    if Nat.eqb (count_ok (col0_failed c)) 0 then Abort too_few
    else Ok (cvar_constraint cfg sort p c).
Proof.
  intros Hp Hp1. rewrite get_weights_unfold. cbn [method_weights option_map]. unfold cvar_constraint.
  rewrite cvar_get_weights; try assumption.
  - destruct (Nat.eqb _ 0); reflexivity.
  - unfold cvar_constraint_keys, constraint_col. rewrite col0_failed_length, !map_length. reflexivity.
Qed.

(* sort: TOO_FEW_REALIZATIONS exactly when the window selects no positive configured weight *)
Theorem sort_any_positive values cfgw failed first last :
  length failed = length values -> length cfgw = length failed ->
  (any_positive (sort_and_select values cfgw failed first last) = true <->
   exists r, selected values failed first last r = true /\ 0 < nth r cfgw 0).
Proof.
  intros HL HC. rewrite any_positive_spec. split; intros [r Hr]; exists r.
  - rewrite sort_and_select_spec in Hr by assumption.
    destruct (selected values failed first last r); [split; [reflexivity | exact Hr] | lra].
  - destruct Hr as [Hs Hr]. rewrite sort_and_select_spec by assumption. rewrite Hs. exact Hr.
Qed.

Theorem check_range_spec R first last :
  check_range R first last = true <-> (first <= last /\ last < R)%nat.
Proof. unfold check_range. rewrite !andb_true_iff, !Nat.ltb_lt, Nat.leb_le. lia. Qed.

(* ---- C05: rows of the weight matrices belong to the mapped filter ------------------------------------ *)
Close Scope Q_scope.

Lemma set_rows_length mask w (M : matrix) : length mask = length M -> length (set_rows mask w M) = length M.
Proof. intros H. unfold set_rows. rewrite map_length, combine_length. lia. Qed.

Lemma nth_set_rows mask w (M : matrix) j : length mask = length M ->
  nth j (set_rows mask w M) [] = if nth j mask false then w else nth j M [].
Proof.
  intros H. unfold set_rows.
  pose proof (map_nth (fun br : bool * list Q => if fst br then w else snd br) (combine mask M) (false, []) j) as Hm.
  change ((fun br : bool * list Q => if fst br then w else snd br) (false, [])) with (@nil Q) in Hm.
  rewrite Hm, combine_nth by exact H. reflexivity.
Qed.

Lemma znth_nil {A} k : @znth A k [] = None.
Proof. unfold znth. destruct (Z.ltb k 0); [reflexivity|]. destruct (Z.to_nat k); reflexivity. Qed.

Lemma znth_snoc {A} k (pre : list A) m :
  znth k (pre ++ [m]) = if Z.eqb k (Z.of_nat (length pre)) then Some m else znth k pre.
Proof.
  unfold znth. destruct (Z.ltb_spec k 0) as [Hneg|Hnn].
  - destruct (Z.eqb_spec k (Z.of_nat (length pre))); [lia | reflexivity].
  - destruct (Z.eqb_spec k (Z.of_nat (length pre))) as [E|E].
    + rewrite E, Nat2Z.id, nth_error_app2, Nat.sub_diag by lia. reflexivity.
    + destruct (Nat.lt_ge_cases (Z.to_nat k) (length pre)) as [Hlt|Hge].
      * apply nth_error_app1. exact Hlt.
      * assert (Hgt : (length pre < Z.to_nat k)%nat) by lia.
        rewrite (proj2 (nth_error_None pre (Z.to_nat k))) by lia.
        apply nth_error_None. rewrite app_length. cbn. lia.
Qed.

Definition rows_inv (cfg : config) objs cns (fm : list Z) (rows : nat) (pre : list method) (M : matrix) : Prop :=
  length M = rows /\
  forall j, (j < rows)%nat ->
    match znth (nth j fm (-1)%Z) pre with
    | Some m => get_weights cfg m objs cns = Ok (nth j M [])
    | None => nth j M [] = c_rw cfg
    end.

Lemma rows_inv_init cfg objs cns fm rows : rows_inv cfg objs cns fm rows [] (repeat (c_rw cfg) rows).
Proof.
  split; [apply repeat_length|]. intros j Hj. rewrite znth_nil. apply nth_repeat_any. exact Hj.
Qed.

Lemma rows_inv_step cfg objs cns fm rows pre m M X :
  length fm = rows -> rows_inv cfg objs cns fm rows pre M ->
  (X = M /\ (forall j, (j < rows)%nat -> Z.eqb (Z.of_nat (length pre)) (nth j fm (-1)%Z) = false)) \/
  (exists w, get_weights cfg m objs cns = Ok w /\ X = set_rows (map (Z.eqb (Z.of_nat (length pre))) fm) w M) ->
  rows_inv cfg objs cns fm rows (pre ++ [m]) X.
Proof.
  intros HF [HL HI] [[-> Hno]|[w [Hw ->]]].
  - split; [exact HL|]. intros j Hj. rewrite znth_snoc.
    rewrite Z.eqb_sym, (Hno j Hj). apply HI; exact Hj.
  - assert (Hml : length (map (Z.eqb (Z.of_nat (length pre))) fm) = length M) by (rewrite map_length; lia).
    split; [rewrite set_rows_length by exact Hml; exact HL|].
    intros j Hj. rewrite znth_snoc, nth_set_rows by exact Hml.
    pose proof (map_nth (Z.eqb (Z.of_nat (length pre))) fm (-1)%Z j) as Hm.
    assert (Hd : Z.eqb (Z.of_nat (length pre)) (-1)%Z = false) by (apply Z.eqb_neq; lia).
    rewrite (nth_indep _ false (Z.of_nat (length pre) =? -1)%Z) by (rewrite map_length; lia).
    rewrite Hm, (Z.eqb_sym (nth j fm (-1)%Z)).
    destruct (Z.eqb (Z.of_nat (length pre)) (nth j fm (-1)%Z)); [exact Hw | apply HI; exact Hj].
Qed.

Lemma none_applies_some idx fm :
  none_applies (applies (Some fm) idx) = true -> forall j, (j < length fm)%nat -> Z.eqb idx (nth j fm (-1)%Z) = false.
Proof.
  cbn [applies option_map none_applies]. intros H j Hj. apply negb_true_iff in H.
  destruct (Z.eqb idx (nth j fm (-1)%Z)) eqn:E; [|reflexivity].
  assert (Hex : existsb (fun b : bool => b) (map (Z.eqb idx) fm) = true).
  { apply existsb_exists. exists true. split; [|reflexivity].
    apply in_map_iff. exists (nth j fm (-1)%Z). split; [exact E | apply nth_In; exact Hj]. }
  congruence.
Qed.

Lemma idx_succ {A} (pre : list A) m : (Z.of_nat (length pre) + 1)%Z = Z.of_nat (length (pre ++ [m])).
Proof. rewrite app_length. cbn [length]. lia. Qed.

Lemma filter_loop_rows_obj cfg objs cns fm cfm :
  length fm = length (c_ow cfg) ->
  forall filters pre ow cw ow' cw',
  rows_inv cfg objs cns fm (length (c_ow cfg)) pre (default_matrix ow (length (c_ow cfg)) (c_rw cfg)) ->
  filter_loop cfg filters (Z.of_nat (length pre)) (Some fm) cfm objs cns ow cw = Ok (ow', cw') ->
  rows_inv cfg objs cns fm (length (c_ow cfg)) (pre ++ filters) (default_matrix ow' (length (c_ow cfg)) (c_rw cfg)).
Proof.
  intros HF. induction filters as [|m rest IH]; intros pre ow cw ow' cw' Hinv Hrun.
  - cbn [filter_loop] in Hrun. injection Hrun as <- <-. rewrite app_nil_r. exact Hinv.
  - cbn [filter_loop] in Hrun.
    replace (pre ++ m :: rest) with ((pre ++ [m]) ++ rest) by (rewrite <- app_assoc; reflexivity).
    rewrite (idx_succ pre m) in Hrun.
    destruct (none_applies (applies (Some fm) (Z.of_nat (length pre))) &&
              none_applies (applies cfm (Z.of_nat (length pre)))) eqn:Hskip.
    + apply andb_true_iff in Hskip as [Hs _].
      apply (IH (pre ++ [m]) ow cw ow' cw'); [|exact Hrun].
      apply (rows_inv_step cfg objs cns fm _ pre m _ _ HF Hinv). left. split; [reflexivity|].
      intros j Hj. apply (none_applies_some _ _ Hs). lia.
    + destruct (get_weights cfg m objs cns) as [w| |] eqn:Hw; try discriminate.
      cbn [applies option_map] in Hrun.
      eapply (IH (pre ++ [m])); [|exact Hrun].
      cbn [default_matrix].
      apply (rows_inv_step cfg objs cns fm _ pre m _ _ HF Hinv). right. exists w. split; [exact Hw | reflexivity].
Qed.

Theorem filtered_rows_objectives cfg filters fm cfm objs cns ow cw :
  length fm = length (c_ow cfg) ->
  filtered_weights cfg filters (Some fm) cfm objs cns = Ok (ow, cw) ->
  forall j, (j < length fm)%nat ->
    match znth (nth j fm (-1)%Z) filters with
    | Some m => get_weights cfg m objs cns = Ok (nth j (default_matrix ow (length (c_ow cfg)) (c_rw cfg)) [])
    | None => nth j (default_matrix ow (length (c_ow cfg)) (c_rw cfg)) [] = c_rw cfg
    end.
Proof.
  intros HF Hrun j Hj. unfold filtered_weights in Hrun.
  pose proof (filter_loop_rows_obj cfg objs cns fm cfm HF filters [] None None ow cw
                (rows_inv_init cfg objs cns fm _) Hrun) as [_ H].
  apply H. lia.
Qed.

Lemma filter_loop_rows_con cfg objs cns ofm fm :
  length fm = length (c_lower cfg) ->
  forall filters pre ow cw ow' cw',
  rows_inv cfg objs cns fm (length (c_lower cfg)) pre (default_matrix cw (length (c_lower cfg)) (c_rw cfg)) ->
  filter_loop cfg filters (Z.of_nat (length pre)) ofm (Some fm) objs cns ow cw = Ok (ow', cw') ->
  rows_inv cfg objs cns fm (length (c_lower cfg)) (pre ++ filters) (default_matrix cw' (length (c_lower cfg)) (c_rw cfg)).
Proof.
  intros HF. induction filters as [|m rest IH]; intros pre ow cw ow' cw' Hinv Hrun.
  - cbn [filter_loop] in Hrun. injection Hrun as <- <-. rewrite app_nil_r. exact Hinv.
  - cbn [filter_loop] in Hrun.
    replace (pre ++ m :: rest) with ((pre ++ [m]) ++ rest) by (rewrite <- app_assoc; reflexivity).
    rewrite (idx_succ pre m) in Hrun.
    destruct (none_applies (applies ofm (Z.of_nat (length pre))) &&
              none_applies (applies (Some fm) (Z.of_nat (length pre)))) eqn:Hskip.
    + apply andb_true_iff in Hskip as [_ Hs].
      apply (IH (pre ++ [m]) ow cw ow' cw'); [|exact Hrun].
      apply (rows_inv_step cfg objs cns fm _ pre m _ _ HF Hinv). left. split; [reflexivity|].
      intros j Hj. apply (none_applies_some _ _ Hs). lia.
    + destruct (get_weights cfg m objs cns) as [w| |] eqn:Hw; try discriminate.
      cbn [applies option_map] in Hrun.
      eapply (IH (pre ++ [m])); [|exact Hrun].
      cbn [default_matrix].
      apply (rows_inv_step cfg objs cns fm _ pre m _ _ HF Hinv). right. exists w. split; [exact Hw | reflexivity].
Qed.

Theorem filtered_rows_constraints cfg filters ofm fm objs cns ow cw :
  length fm = length (c_lower cfg) ->
  filtered_weights cfg filters ofm (Some fm) objs cns = Ok (ow, cw) ->
  forall j, (j < length fm)%nat ->
    match znth (nth j fm (-1)%Z) filters with
    | Some m => get_weights cfg m objs cns = Ok (nth j (default_matrix cw (length (c_lower cfg)) (c_rw cfg)) [])
    | None => nth j (default_matrix cw (length (c_lower cfg)) (c_rw cfg)) [] = c_rw cfg
    end.
Proof.
  intros HF Hrun j Hj. unfold filtered_weights in Hrun.
  pose proof (filter_loop_rows_con cfg objs cns ofm fm HF filters [] None None ow cw
                (rows_inv_init cfg objs cns fm _) Hrun) as [_ H].
  apply H. lia.
Qed.

(* without a filter map nothing is filtered *)
Lemma filter_loop_no_map_obj cfg cfm objs cns : forall filters idx ow cw ow' cw',
  filter_loop cfg filters idx None cfm objs cns ow cw = Ok (ow', cw') -> ow' = ow.
Proof.
  induction filters as [|m rest IH]; intros idx ow cw ow' cw' H; cbn [filter_loop] in H.
  - injection H as <- _. reflexivity.
  - destruct (_ && _); [exact (IH _ _ _ _ _ H)|].
    destruct (get_weights cfg m objs cns); try discriminate. cbn [applies option_map] in H. exact (IH _ _ _ _ _ H).
Qed.

Lemma filter_loop_no_map_con cfg ofm objs cns : forall filters idx ow cw ow' cw',
  filter_loop cfg filters idx ofm None objs cns ow cw = Ok (ow', cw') -> cw' = cw.
Proof.
  induction filters as [|m rest IH]; intros idx ow cw ow' cw' H; cbn [filter_loop] in H.
  - injection H as _ <-. reflexivity.
  - destruct (_ && _); [exact (IH _ _ _ _ _ H)|].
    destruct (get_weights cfg m objs cns); try discriminate. cbn [applies option_map] in H. exact (IH _ _ _ _ _ H).
Qed.

(* ---- rejection at construction ------------------------------------------------------------------------ *)
Lemma create_sort_objective cfg sort first last :
  create cfg (SortObjective sort first last) =
    if check_range (length (c_rw cfg)) first last then Ok tt else Raise "ConfigError".
Proof. reflexivity. Qed.

Lemma create_sort_constraint cfg sort first last :
  create cfg (SortConstraint sort first last) =
    if check_range (length (c_rw cfg)) first last then Ok tt else Raise "ConfigError".
Proof. reflexivity. Qed.

Lemma create_never_aborts cfg m c : create cfg m <> Abort c.
Proof. destruct m; cbn; destruct (_ : bool); discriminate. Qed.

Lemma create_all_rejects cfg filters m s : In m filters -> create cfg m = Raise s ->
  exists s', create_all cfg filters = Raise s'.
Proof.
  induction filters as [|x t IH]; intros Hin Hm; [contradiction|]. cbn [create_all].
  destruct Hin as [->|Hin].
  - rewrite Hm. eexists; reflexivity.
  - destruct (create cfg x) as [[]|c|s0] eqn:E.
    + apply IH; assumption.
    + exfalso. exact (create_never_aborts cfg x c E).
    + eexists; reflexivity.
Qed.

(* a filter that is rejected at construction prevents every evaluation *)
Theorem evaluate_rejects cfg filters ofm cfm rmin objs cns m s :
  In m filters -> create cfg m = Raise s ->
  exists s', evaluate cfg filters ofm cfm rmin objs cns = Raise s'.
Proof.
  intros Hin Hm. destruct (create_all_rejects cfg filters m s Hin Hm) as [s' E].
  exists s'. unfold evaluate. rewrite E. reflexivity.
Qed.

(* ---- sort filter outcome -------------------------------------------------------------------------------- *)
Theorem sort_outcome cfg values failed first last (m : method) objs cns :
  method_weights cfg m objs cns = Some (sort_and_select values (c_rw cfg) failed first last) ->
  length failed = length values -> length (c_rw cfg) = length failed ->
  ((exists r, selected values failed first last r = true /\ (0 < nth r (c_rw cfg) 0)%Q) /\
   get_weights cfg m objs cns = Ok (sort_and_select values (c_rw cfg) failed first last)) \/
  (~ (exists r, selected values failed first last r = true /\ (0 < nth r (c_rw cfg) 0)%Q) /\
   get_weights cfg m objs cns = Abort too_few).
Proof.
  intros Hm HL HC. rewrite get_weights_unfold, Hm.
  destruct (any_positive (sort_and_select values (c_rw cfg) failed first last)) eqn:E.
  - left. split; [|reflexivity]. apply (sort_any_positive values (c_rw cfg) failed first last HL HC). exact E.
  - right. split; [|reflexivity]. intro H. apply (sort_any_positive values (c_rw cfg) failed first last HL HC) in H. congruence.
Qed.

(* ---- C04: ranking direction of the objective flavour ------------------------------------------------------ *)
Lemma cvar_objective_key_nth cfg sort objs r : (r < length objs)%nat ->
  nth r (cvar_objective_keys cfg sort objs) 0%Q = (- objective_key (c_ow cfg) sort (nth r objs []))%Q.
Proof.
  intros H. unfold cvar_objective_keys.
  rewrite (nth_indep _ 0%Q ((fun row => (- objective_key (c_ow cfg) sort row)%Q) [])) by (rewrite map_length; exact H).
  pose proof (map_nth (fun row => (- objective_key (c_ow cfg) sort row)%Q) objs [] r) as Hm. cbn beta in Hm.
  exact Hm.
Qed.

Lemma cvar_constraint_key_nth cfg sort c r : (r < length c)%nat ->
  nth r (cvar_constraint_keys cfg sort c) 0%Q =
    (- badness (nth sort (c_lower cfg) NInf) (nth sort (c_upper cfg) PInf) (nan0 (nth sort (nth r c []) None)))%Q.
Proof.
  intros H. unfold cvar_constraint_keys, constraint_col. rewrite map_map.
  set (g := fun row : list oQ => (- badness (nth sort (c_lower cfg) NInf) (nth sort (c_upper cfg) PInf) (nan0 (nth sort row None)))%Q).
  rewrite (nth_indep _ 0%Q (g [])) by (rewrite map_length; exact H).
  exact (map_nth g c [] r).
Qed.

(* ---- positions under ANY valid tie order ------------------------------------------------------------------- *)
Lemma countb_perm {A} (P : A -> bool) l l' : Permutation l l' -> countb P l = countb P l'.
Proof. intros H. unfold countb. apply Permutation_length, Permutation_filter, H. Qed.

Lemma countb_app {A} (P : A -> bool) a b : countb P (a ++ b) = (countb P a + countb P b)%nat.
Proof. unfold countb. rewrite filter_app, app_length. reflexivity. Qed.

Lemma countb_le_length {A} (P : A -> bool) l : (countb P l <= length l)%nat.
Proof. unfold countb. induction l as [|x t IH]; cbn; [lia|]. destruct (P x); cbn; lia. Qed.

Lemma countb_all {A} (P : A -> bool) l : (forall x, In x l -> P x = true) -> countb P l = length l.
Proof. intros H. unfold countb. rewrite filter_all by exact H. reflexivity. Qed.

Lemma countb_none {A} (P : A -> bool) l : (forall x, In x l -> P x = false) -> countb P l = 0%nat.
Proof. intros H. unfold countb. rewrite filter_none by exact H. reflexivity. Qed.

Lemma countb_mono {A} (P Q : A -> bool) l : (forall x, In x l -> P x = true -> Q x = true) -> (countb P l <= countb Q l)%nat.
Proof.
  unfold countb. induction l as [|x t IH]; intros H; cbn; [lia|].
  assert (IH' : (length (filter P t) <= length (filter Q t))%nat) by (apply IH; intros y Hy; apply H; right; exact Hy).
  destruct (P x) eqn:Px.
  - rewrite (H x (or_introl eq_refl) Px). cbn. lia.
  - destruct (Q x); cbn; lia.
Qed.

Lemma countb_union {A} (P Q1 Q2 : A -> bool) l :
  (forall x, In x l -> P x = true -> Q1 x = true \/ Q2 x = true) -> (countb P l <= countb Q1 l + countb Q2 l)%nat.
Proof.
  unfold countb. induction l as [|x t IH]; intros H; cbn; [lia|].
  assert (IH' : (length (filter P t) <= length (filter Q1 t) + length (filter Q2 t))%nat)
    by (apply IH; intros y Hy; apply H; right; exact Hy).
  destruct (P x) eqn:Px.
  - destruct (H x (or_introl eq_refl) Px) as [E|E]; rewrite E; destruct (Q1 x), (Q2 x); cbn; lia.
  - destruct (Q1 x), (Q2 x); cbn; lia.
Qed.

Lemma countb_ext {A} (P Q : A -> bool) l : (forall x, In x l -> P x = Q x) -> countb P l = countb Q l.
Proof. intros H. unfold countb. rewrite (filter_ext_in P Q l H). reflexivity. Qed.

Lemma split_nth {A} (l : list A) k d : (k < length l)%nat -> l = firstn k l ++ nth k l d :: skipn (S k) l.
Proof.
  revert k; induction l as [|x t IH]; intros k H; cbn in H; [lia|].
  destruct k as [|k].
  - rewrite firstn_O, skipn_cons, skipn_O. reflexivity.
  - rewrite firstn_cons, skipn_cons. cbn [nth app]. f_equal. apply IH. lia.
Qed.

Lemma In_firstn_nth {A} (l : list A) k d y : In y (firstn k l) -> exists i, (i < k)%nat /\ (i < length l)%nat /\ nth i l d = y.
Proof.
  intros H. apply (In_nth _ _ d) in H as [i [Hi E]]. rewrite firstn_length in Hi.
  exists i. repeat split; try lia. rewrite nth_firstn_lt in E by lia. exact E.
Qed.

Lemma In_skipn_nth {A} (l : list A) k d y : In y (skipn k l) -> exists j, (k <= j)%nat /\ (j < length l)%nat /\ nth j l d = y.
Proof.
  intros H. apply (In_nth _ _ d) in H as [i [Hi E]]. rewrite skipn_length in Hi.
  exists (k + i)%nat. repeat split; try lia. rewrite nth_skipn_add in E. exact E.
Qed.

Lemma valid_order_length values failed idx : valid_order values failed idx -> length idx = length (successes failed).
Proof. intros [H _]. apply Permutation_length, H. Qed.

(* in every valid order the position of a realization lies between the number of strictly smaller successful values
   and the number of smaller-or-equal ones *)
Lemma position_bounds values failed idx k : valid_order values failed idx -> (k < length idx)%nat ->
  (grp_lo values failed (nth k idx 0%nat) <= k < grp_ge values failed (nth k idx 0%nat))%nat.
Proof.
  intros [HP HS] Hk. unfold grp_lo, grp_ge.
  rewrite <- !(countb_perm _ _ _ HP). set (r := nth k idx 0%nat).
  rewrite (split_nth idx k 0%nat Hk) at 1 2. fold r. rewrite !countb_app.
  change (r :: skipn (S k) idx) with ([r] ++ skipn (S k) idx). rewrite !countb_app.
  assert (Hfl : length (firstn k idx) = k) by (rewrite firstn_length; lia).
  split.
  - (* strictly smaller values only occur before position k *)
    rewrite (countb_none _ (skipn (S k) idx)).
    2:{ intros y Hy. apply (In_skipn_nth idx (S k) 0%nat) in Hy as [j [Hj [Hjl <-]]].
        apply Qltb_nlt. pose proof (HS k j ltac:(lia)) as Hle. fold r in Hle. lra. }
    assert (Hr : countb (fun s => Qltb (nth s values 0%Q) (nth r values 0%Q)) [r] = 0%nat).
    { apply countb_none. intros y [<-|[]]. apply Qltb_nlt. lra. }
    rewrite Hr. pose proof (countb_le_length (fun s => Qltb (nth s values 0%Q) (nth r values 0%Q)) (firstn k idx)). lia.
  - (* everything up to position k is smaller or equal *)
    rewrite (countb_all _ (firstn k idx)).
    2:{ intros y Hy. apply (In_firstn_nth idx k 0%nat) in Hy as [i [Hi [Hil <-]]].
        apply Qleb_le. pose proof (HS i k ltac:(lia)) as Hle. fold r in Hle. exact Hle. }
    assert (Hr : countb (fun s => Qleb (nth s values 0%Q) (nth r values 0%Q)) [r] = 1%nat).
    { apply (countb_all _ [r]). intros y [<-|[]]. apply Qleb_le. lra. }
    rewrite Hr, Hfl. lia.
Qed.

Lemma ranked_valid_order failed values : length failed = length values ->
  valid_order values failed (ranked failed values).
Proof.
  intros HL. split; [apply ranked_perm; exact HL|]. intros i j Hij. apply ranked_values_le; assumption.
Qed.

Lemma grp_lo_ext values failed r s : (nth s values 0 == nth r values 0)%Q -> grp_lo values failed s = grp_lo values failed r.
Proof.
  intros E. unfold grp_lo. apply countb_ext. intros x _.
  destruct (Qltb (nth x values 0%Q) (nth r values 0%Q)) eqn:H.
  - apply Qltb_lt in H. apply Qltb_lt. lra.
  - apply Qltb_nlt in H. apply Qltb_nlt. lra.
Qed.

Lemma grp_ge_ext values failed r s : (nth s values 0 == nth r values 0)%Q -> grp_ge values failed s = grp_ge values failed r.
Proof.
  intros E. unfold grp_ge. apply countb_ext. intros x _.
  destruct (Qleb (nth x values 0%Q) (nth r values 0%Q)) eqn:H.
  - apply Qleb_le in H. apply Qleb_le. lra.
  - apply Qleb_nle in H. apply Qleb_nle. lra.
Qed.

Lemma grp_ge_le_lo values failed a b : (nth a values 0 < nth b values 0)%Q -> (grp_ge values failed a <= grp_lo values failed b)%nat.
Proof.
  intros H. unfold grp_ge, grp_lo. apply countb_mono. intros x _ Hx. apply Qleb_le in Hx. apply Qltb_lt. lra.
Qed.

(* two valid orders carry the same value at every position *)
Lemma valid_orders_same_values values failed idx idx' k :
  valid_order values failed idx -> valid_order values failed idx' -> (k < length idx)%nat ->
  (nth (nth k idx 0%nat) values 0 == nth (nth k idx' 0%nat) values 0)%Q.
Proof.
  intros H H' Hk.
  assert (Hk' : (k < length idx')%nat) by (rewrite (valid_order_length _ _ _ H'), <- (valid_order_length _ _ _ H); exact Hk).
  pose proof (position_bounds values failed idx k H Hk) as B.
  pose proof (position_bounds values failed idx' k H' Hk') as B'.
  set (a := nth k idx 0%nat) in *. set (b := nth k idx' 0%nat) in *.
  destruct (Q_dec (nth a values 0%Q) (nth b values 0%Q)) as [[Hlt|Hgt]|E]; [| |exact E].
  - pose proof (grp_ge_le_lo values failed a b Hlt). lia.
  - pose proof (grp_ge_le_lo values failed b a Hgt). lia.
Qed.

(* ---- C04: uniqueness of the staircase ----------------------------------------------------------------------- *)
Theorem cvar_unique p values failed idx' w' :
  length failed = length values -> (0 < p)%Q -> (p <= 1)%Q ->
  valid_order values failed idx' ->
  (forall k, (k < length idx')%nat -> (nth (nth k idx' 0%nat) w' 0 == stair p (length idx') k)%Q) ->
  forall k, (k < length idx')%nat ->
    (nth (nth k idx' 0%nat) values 0 == nth (nth k (ranked failed values) 0%nat) values 0)%Q /\
    (nth (nth k idx' 0%nat) w' 0 == nth (nth k (ranked failed values) 0%nat) (cvar_weights p values failed) 0)%Q.
Proof.
  intros HL Hp Hp1 Hv Hst k Hk.
  pose proof (ranked_valid_order failed values HL) as Hr.
  assert (Hlen : length idx' = length (ranked failed values))
    by (rewrite (valid_order_length _ _ _ Hv), (valid_order_length _ _ _ Hr); reflexivity).
  split; [apply (valid_orders_same_values values failed idx' (ranked failed values) k Hv Hr Hk)|].
  rewrite Hst by exact Hk. rewrite cvar_weights_spec by assumption.
  assert (Hk' : (k < length (ranked failed values))%nat) by lia.
  assert (Hin : In (nth k (ranked failed values) 0%nat) (ranked failed values)) by (apply nth_In; exact Hk').
  apply (ranked_In failed values _ HL) in Hin as [_ Hf]. unfold succeeded. rewrite Hf. cbn [negb].
  rewrite rank_nth by assumption. rewrite Hlen, (ranked_length failed values HL). reflexivity.
Qed.

Definition distinct_values (values : list Q) (failed : list bool) : Prop :=
  forall r s, In r (successes failed) -> In s (successes failed) -> (nth r values 0 == nth s values 0)%Q -> r = s.

(* with pairwise distinct ranking values the staircase pins the whole vector down *)
Theorem cvar_unique_distinct p values failed idx' w' :
  length failed = length values -> (0 < p)%Q -> (p <= 1)%Q ->
  distinct_values values failed ->
  valid_order values failed idx' ->
  (forall k, (k < length idx')%nat -> (nth (nth k idx' 0%nat) w' 0 == stair p (length idx') k)%Q) ->
  (forall r, ~ In r idx' -> (nth r w' 0 == 0)%Q) ->
  forall r, (nth r w' 0 == nth r (cvar_weights p values failed) 0)%Q.
Proof.
  intros HL Hp Hp1 Hd Hv Hst Hz r.
  pose proof (ranked_valid_order failed values HL) as Hr.
  assert (Hlen : length idx' = length (ranked failed values))
    by (rewrite (valid_order_length _ _ _ Hv), (valid_order_length _ _ _ Hr); reflexivity).
  destruct (in_dec Nat.eq_dec r idx') as [Hin|Hnot].
  - apply (In_nth _ _ 0%nat) in Hin as [k [Hk E]].
    destruct (cvar_unique p values failed idx' w' HL Hp Hp1 Hv Hst k Hk) as [Hval Hw].
    assert (Esame : nth k idx' 0%nat = nth k (ranked failed values) 0%nat).
    { apply Hd; [| |exact Hval].
      - apply (Permutation_in _ (proj1 Hv)). apply nth_In. exact Hk.
      - apply (Permutation_in _ (proj1 Hr)). apply nth_In. lia. }
    rewrite <- E. rewrite Hw, <- Esame. reflexivity.
  - rewrite (Hz r Hnot). symmetry.
    rewrite cvar_weights_raw by assumption.
    destruct (succeeded failed r) eqn:Hs; [|reflexivity].
    exfalso. apply Hnot. apply (Permutation_in _ (Permutation_sym (proj1 Hv))).
    apply successes_In. apply succeeded_lt. exact Hs.
Qed.
