(* Proofs/FiltersStair.v -- C04: the tolerance-based staircase predicate [stair_ok] of Model/Filters.v (the predicate
   Check/Chk_C04.v evaluates on the implementation's weight vector; the only judge on tied keys and when p*n is within
   rounding of an integer).
   Soundness: an accepted vector is a staircase along SOME ranking consistent with the values (ties in any order):
   exact clauses (length, 0 on failed realizations, nothing negative, exact zeros after the fractional step) and
   tolerance clauses (full steps within tol of 1/n, total within tol of p), and the fractional step sits at the rank the
   percentile dictates (up to the tolerances; exactly floor(p*n) when p*n is not within rounding of an integer).
   Completeness: the vector _get_cvar_weights_from_percentile builds along EVERY ranking np.argsort may return (in
   particular the model's [cvar_weights]) is accepted: the predicate itself never raises a false alarm. *)
From Coq Require Import String QArith Qabs Qround Qminmax Bool Arith ZArith List Lia Lqa Permutation Sorted.
From Ropt Require Import Base.Num Base.ListX Gen.Generated Model.Filters Proofs.SortX Proofs.Filters Proofs.FiltersTies Proofs.FiltersOrder.
Import ListNotations.
Local Arguments firstn : simpl never.
Local Arguments skipn : simpl never.
Open Scope Q_scope.

(* ---- the tolerance of Num.close with scale 1, for a non-negative reference value m ------------------------------- *)
Definition tolq (m : Q) : Q := tol_abs + tol_rel * m.

Lemma tol_abs_pos : 0 < tol_abs. Proof. reflexivity. Qed.
Lemma tol_rel_pos : 0 < tol_rel. Proof. reflexivity. Qed.

Lemma tolq_nonneg m : 0 <= m -> 0 <= tolq m.
Proof. intros H. unfold tolq. pose proof tol_abs_pos. pose proof tol_rel_pos. nra. Qed.

Lemma close_spec x m : close 1 x m = true <-> Qabs (x - m) <= tolq (Qabs m).
Proof. unfold close, tolq. rewrite Qleb_le. split; intro H; lra. Qed.

Lemma tolq_abs m : 0 <= m -> tolq (Qabs m) == tolq m.
Proof. intros H. unfold tolq. rewrite (Qabs_pos m H). reflexivity. Qed.

Lemma close_exact x m : x == m -> close 1 x m = true.
Proof.
  intros E. apply close_spec. assert (E0 : x - m == 0) by lra. rewrite E0.
  change (Qabs 0) with 0. apply tolq_nonneg, Qabs_nonneg.
Qed.

(* ---- the order stair_ok sorts by: value ascending, ties by decreasing weight ------------------------------------ *)
Lemma fav_leb_total a b : fav_leb a b = true \/ fav_leb b a = true.
Proof.
  unfold fav_leb. destruct (Q_dec (fst a) (fst b)) as [[Hlt|Hgt]|Heq].
  - left. apply orb_true_iff. left. apply Qltb_lt. exact Hlt.
  - right. apply orb_true_iff. left. apply Qltb_lt. exact Hgt.
  - destruct (Qlt_le_dec (snd a) (snd b)) as [H|H].
    + right. apply orb_true_iff. right. apply andb_true_iff. split; [apply Qeqb_eq; lra | apply Qleb_le; lra].
    + left. apply orb_true_iff. right. apply andb_true_iff. split; [apply Qeqb_eq; lra | apply Qleb_le; lra].
Qed.

Lemma fav_leb_trans a b c : fav_leb a b = true -> fav_leb b c = true -> fav_leb a c = true.
Proof.
  unfold fav_leb. intros H1 H2. apply orb_true_iff in H1, H2. apply orb_true_iff.
  destruct H1 as [H1|H1], H2 as [H2|H2].
  - left. apply Qltb_lt in H1, H2. apply Qltb_lt. lra.
  - left. apply andb_true_iff in H2 as [H2 _]. apply Qltb_lt in H1. apply Qeqb_eq in H2. apply Qltb_lt. lra.
  - left. apply andb_true_iff in H1 as [H1 _]. apply Qltb_lt in H2. apply Qeqb_eq in H1. apply Qltb_lt. lra.
  - right. apply andb_true_iff in H1 as [H1 H1'], H2 as [H2 H2']. apply Qeqb_eq in H1, H2. apply Qleb_le in H1', H2'.
    apply andb_true_iff. split; [apply Qeqb_eq; lra | apply Qleb_le; lra].
Qed.

Lemma fav_leb_equiv a b : fav_leb a b = true -> fav_leb b a = true -> fst a == fst b /\ snd a == snd b.
Proof.
  unfold fav_leb. intros H1 H2. apply orb_true_iff in H1, H2.
  destruct H1 as [H1|H1].
  - apply Qltb_lt in H1. destruct H2 as [H2|H2].
    + apply Qltb_lt in H2. lra.
    + apply andb_true_iff in H2 as [H2 _]. apply Qeqb_eq in H2. lra.
  - apply andb_true_iff in H1 as [H1 H1']. apply Qeqb_eq in H1. apply Qleb_le in H1'. destruct H2 as [H2|H2].
    + apply Qltb_lt in H2. lra.
    + apply andb_true_iff in H2 as [_ H2']. apply Qleb_le in H2'. split; lra.
Qed.

(* the same order on realization indices, and the ranking stair_ok judges the vector along *)
Definition favn (values w : list Q) (r s : nat) : bool :=
  fav_leb (nth r values 0, nth r w 0) (nth s values 0, nth s w 0).

Definition fav_order (values : list Q) (failed : list bool) (w : list Q) : list nat :=
  isort (favn values w) (successes failed).

Lemma favn_total values w r s : favn values w r s = true \/ favn values w s r = true.
Proof. apply fav_leb_total. Qed.

Lemma favn_trans values w a b c : favn values w a b = true -> favn values w b c = true -> favn values w a c = true.
Proof. apply fav_leb_trans. Qed.

Lemma stair_vector values failed w :
  map snd (isort fav_leb (map (fun r => (nth r values 0, nth r w 0)) (successes failed))) =
  map (fun r => nth r w 0) (fav_order values failed w).
Proof. rewrite isort_map, map_map. reflexivity. Qed.

Lemma fav_order_sorted values failed w :
  StronglySorted (fun a b => favn values w a b = true) (fav_order values failed w).
Proof. apply isort_sorted; [apply favn_total | apply favn_trans]. Qed.

Lemma fav_order_perm values failed w : Permutation (fav_order values failed w) (successes failed).
Proof. apply isort_perm. Qed.

Lemma fav_order_valid values failed w : valid_order values failed (fav_order values failed w).
Proof.
  split; [apply fav_order_perm|]. intros i j Hij.
  pose proof (StronglySorted_nth _ _ 0%nat i j (fav_order_sorted values failed w) Hij) as H.
  unfold favn, fav_leb in H. cbn [fst snd] in H. apply orb_true_iff in H as [H|H].
  - apply Qltb_lt in H. lra.
  - apply andb_true_iff in H as [H _]. apply Qeqb_eq in H. lra.
Qed.

(* ---- the shape predicate ---------------------------------------------------------------------------------------- *)
Lemma all_zero_spec v : all_zero v = true <-> forall i, nth i v 0 == 0.
Proof.
  unfold all_zero. rewrite forallb_forall. split.
  - intros H i. destruct (Nat.lt_ge_cases i (length v)) as [Hi|Hi].
    + apply Qeqb_eq. apply H. apply nth_In. exact Hi.
    + rewrite nth_overflow by exact Hi. reflexivity.
  - intros H x Hx. apply (In_nth _ _ 0) in Hx as [i [_ <-]]. apply Qeqb_eq. apply H.
Qed.

Lemma all_zero_qsum v : all_zero v = true -> qsum v == 0.
Proof.
  induction v as [|x t IH]; intros H; [rewrite qsum_nil; reflexivity|].
  cbn [all_zero forallb] in H. apply andb_true_iff in H as [Hx Ht]. apply Qeqb_eq in Hx.
  rewrite qsum_cons, Hx, (IH Ht). ring.
Qed.

Lemma nq_0 : nq 0 == 0. Proof. reflexivity. Qed.

(* what the shape says, by position: full steps, one entry in [0, u + tol], exact zeros; and the bracket of the sum *)
Lemma stair_shape_sound u v : 0 <= u -> stair_shape u v = true -> v <> [] ->
  exists j, (j < length v)%nat /\
    (forall i, (i < j)%nat -> Qabs (nth i v 0 - u) <= tolq u) /\
    0 <= nth j v 0 /\ nth j v 0 <= u + tolq u /\
    (forall i, (j < i)%nat -> nth i v 0 == 0) /\
    nq j * (u - tolq u) + nth j v 0 <= qsum v /\ qsum v <= nq j * (u + tolq u) + nth j v 0.
Proof.
  intros Hu. pose proof (tolq_nonneg u Hu) as Ht.
  induction v as [|x t IH]; intros H Hne; [congruence|]. cbn [stair_shape] in H.
  destruct (all_zero t) eqn:Ez.
  - apply andb_true_iff in H as [H0 H1]. apply Qleb_le in H0, H1. fold (tolq u) in H1.
    exists 0%nat. split; [cbn; lia|]. split; [intros i Hi; lia|]. cbn [nth].
    split; [exact H0|]. split; [exact H1|]. split.
    + intros i Hi. destruct i as [|i]; [lia|]. cbn [nth]. apply all_zero_spec. exact Ez.
    + rewrite qsum_cons, (all_zero_qsum t Ez), nq_0. split; lra.
  - apply andb_true_iff in H as [Hc Hs]. apply close_spec in Hc. rewrite (tolq_abs u Hu) in Hc.
    assert (Hne' : t <> []) by (intros ->; discriminate).
    destruct (IH Hs Hne') as [j [Hj [Hfull [Hj0 [Hj1 [Hz [Hlo Hhi]]]]]]].
    exists (S j). split; [cbn [length]; lia|]. split.
    { intros i Hi. destruct i as [|i]; cbn [nth]; [exact Hc | apply Hfull; lia]. }
    cbn [nth]. split; [exact Hj0|]. split; [exact Hj1|]. split.
    { intros i Hi. destruct i as [|i]; [lia|]. cbn [nth]. apply Hz. lia. }
    apply Qabs_Qle_condition in Hc. rewrite qsum_cons, !nq_S. split; nra.
Qed.

Lemma stair_shape_complete u v : 0 <= u -> forall j, (j < length v)%nat ->
  (forall i, (i < j)%nat -> Qabs (nth i v 0 - u) <= tolq u /\ 0 <= nth i v 0) ->
  0 <= nth j v 0 -> nth j v 0 <= u + tolq u -> (forall i, (j < i)%nat -> nth i v 0 == 0) ->
  stair_shape u v = true.
Proof.
  intros Hu. induction v as [|x t IH]; intros j Hj Hfull Hj0 Hj1 Hz; [reflexivity|]. cbn [stair_shape].
  destruct (all_zero t) eqn:Ez.
  - apply andb_true_iff. fold (tolq u). destruct j as [|j]; cbn [nth] in Hj0, Hj1.
    + split; apply Qleb_le; assumption.
    + destruct (Hfull 0%nat ltac:(lia)) as [Hc H0]. cbn [nth] in Hc, H0. apply Qabs_Qle_condition in Hc.
      split; apply Qleb_le; lra.
  - destruct j as [|j].
    + exfalso. assert (all_zero t = true); [|congruence].
      apply all_zero_spec. intros i. apply (Hz (S i)). lia.
    + apply andb_true_iff. split.
      * apply close_spec. rewrite (tolq_abs u Hu). apply (Hfull 0%nat). lia.
      * apply (IH j); [cbn [length] in Hj; lia | | exact Hj0 | exact Hj1 |].
        -- intros i Hi. apply (Hfull (S i)). lia.
        -- intros i Hi. apply (Hz (S i)). lia.
Qed.

(* ---- stair_ok unfolded ------------------------------------------------------------------------------------------- *)
Lemma stair_ok_unfold p values failed w : stair_ok p values failed w = true <->
  length w = length failed /\
  (forall r, (r < length failed)%nat -> if nth r failed true then nth r w 0 == 0 else 0 <= nth r w 0) /\
  (count_ok failed = 0%nat \/
   (stair_shape (1 / nq (count_ok failed)) (map (fun r => nth r w 0) (fav_order values failed w)) = true /\
    close 1 (qsum (map (fun r => nth r w 0) (fav_order values failed w))) p = true)).
Proof.
  unfold stair_ok. cbv zeta. rewrite stair_vector, successes_length.
  rewrite !andb_true_iff, orb_true_iff, andb_true_iff, !Nat.eqb_eq, forallb_forall.
  split.
  - intros [[H1 H2] H3]. split; [exact H1|]. split; [|exact H3].
    intros r Hr. assert (Hin : In r (seq 0 (length failed))) by (apply in_seq; lia).
    specialize (H2 r Hin). cbv beta in H2. destruct (nth r failed true); [apply Qeqb_eq | apply Qleb_le]; exact H2.
  - intros [H1 [H2 H3]]. split; [split; [exact H1|] | exact H3].
    intros r Hr. apply in_seq in Hr. specialize (H2 r ltac:(lia)).
    destruct (nth r failed true); [apply Qeqb_eq | apply Qleb_le]; exact H2.
Qed.

(* ---- soundness ---------------------------------------------------------------------------------------------------- *)
Lemma qsum_successes failed w : length w = length failed -> (forall r, nth r failed true = true -> nth r w 0 == 0) ->
  qsum w == qsum (map (fun r => nth r w 0) (successes failed)).
Proof.
  intros HL Hz. rewrite qsum_as_nth, HL.
  rewrite (qsum_map_filter (fun r => nth r w 0) (succeeded failed)); [reflexivity|].
  intros r _ Hr. apply Hz. unfold succeeded in Hr. apply negb_false_iff in Hr. exact Hr.
Qed.

Lemma qsum_fav_order values failed w : length w = length failed -> (forall r, nth r failed true = true -> nth r w 0 == 0) ->
  qsum (map (fun r => nth r w 0) (fav_order values failed w)) == qsum w.
Proof.
  intros HL Hz. rewrite (qsum_successes failed w HL Hz).
  apply qsum_perm, Permutation_map, fav_order_perm.
Qed.

(* What acceptance means.  Exact clauses: the ensemble's length, 0 on every failed realization, no negative entry.
   With n > 0 successes there is a ranking idx of the successes with non-decreasing values (ties in SOME order) and a
   rank j < n (the fractional step) such that along idx: every rank before j carries 1/n within the tolerance, rank j
   carries something in [0, 1/n + tol], every later rank carries exactly 0; the total is p within the tolerance; and j
   is where the percentile puts the fractional step: j full steps and the entry at rank j make p, up to the tolerances
   (so j/n <= p + tol and p - tol <= (j+1)/n + tol: see stair_ok_rank_exact, stair_ok_near_staircase). *)
Theorem stair_ok_sound p values failed w :
  stair_ok p values failed w = true ->
  length w = length failed /\
  (forall r, nth r failed true = true -> nth r w 0 == 0) /\
  (forall r, 0 <= nth r w 0) /\
  ((0 < count_ok failed)%nat ->
   exists idx j, valid_order values failed idx /\ (j < count_ok failed)%nat /\
     (forall k, (k < j)%nat -> Qabs (nth (nth k idx 0%nat) w 0 - 1 / nq (count_ok failed)) <= tolq (1 / nq (count_ok failed))) /\
     0 <= nth (nth j idx 0%nat) w 0 /\
     nth (nth j idx 0%nat) w 0 <= 1 / nq (count_ok failed) + tolq (1 / nq (count_ok failed)) /\
     (forall k, (j < k < count_ok failed)%nat -> nth (nth k idx 0%nat) w 0 == 0) /\
     Qabs (qsum w - p) <= tolq (Qabs p) /\
     Qabs (nq j * (1 / nq (count_ok failed)) + nth (nth j idx 0%nat) w 0 - p)
       <= tolq (Qabs p) + nq j * tolq (1 / nq (count_ok failed))).
Proof.
  intros H. apply stair_ok_unfold in H as [HL [Hex Hst]].
  assert (Hz : forall r, nth r failed true = true -> nth r w 0 == 0).
  { intros r Hf. destruct (Nat.lt_ge_cases r (length failed)) as [Hr|Hr].
    - specialize (Hex r Hr). rewrite Hf in Hex. exact Hex.
    - rewrite nth_overflow by lia. reflexivity. }
  assert (Hnn : forall r, 0 <= nth r w 0).
  { intros r. destruct (Nat.lt_ge_cases r (length failed)) as [Hr|Hr].
    - specialize (Hex r Hr). destruct (nth r failed true); [rewrite Hex; lra | exact Hex].
    - rewrite nth_overflow by lia. lra. }
  split; [exact HL|]. split; [exact Hz|]. split; [exact Hnn|]. intros Hn.
  destruct Hst as [H0|[Hsh Hcl]]; [lia|].
  set (n := count_ok failed) in *. set (u := 1 / nq n) in *. set (idx := fav_order values failed w) in *.
  pose proof (nq_pos n Hn) as Hnq.
  assert (Hu : 0 <= u) by (unfold u; apply Qle_shift_div_l; lra).
  assert (Hlen : length idx = n).
  { unfold idx, n. rewrite (Permutation_length (fav_order_perm values failed w)). apply successes_length. }
  set (v := map (fun r => nth r w 0) idx) in *.
  assert (Hvlen : length v = n) by (unfold v; rewrite map_length; exact Hlen).
  assert (Hne : v <> []) by (intros E; rewrite E in Hvlen; cbn in Hvlen; lia).
  assert (Hv : forall k, (k < n)%nat -> nth k v 0 = nth (nth k idx 0%nat) w 0).
  { intros k Hk. unfold v. apply (nth_map_lt (fun r => nth r w 0) idx k 0 0%nat). lia. }
  destruct (stair_shape_sound u v Hu Hsh Hne) as [j [Hj [Hfull [Hj0 [Hj1 [Hzero [Hlo Hhi]]]]]]].
  rewrite Hvlen in Hj. apply close_spec in Hcl.
  pose proof (qsum_fav_order values failed w HL Hz) as Hsum. fold idx in Hsum. fold v in Hsum.
  rewrite Hsum in Hcl, Hlo, Hhi. pose proof Hcl as Hcl'. apply Qabs_Qle_condition in Hcl'.
  exists idx, j. split; [apply fav_order_valid|]. split; [exact Hj|]. split.
  { intros k Hk. rewrite <- Hv by lia. apply Hfull. exact Hk. }
  rewrite <- Hv by exact Hj. split; [exact Hj0|]. split; [exact Hj1|]. split.
  { intros k Hk. rewrite <- Hv by lia. apply Hzero. lia. }
  split; [exact Hcl|]. apply Qabs_Qle_condition. split; lra.
Qed.

(* ---- completeness -------------------------------------------------------------------------------------------------- *)
Lemma cvar_along_length p idx size : length (cvar_along p idx size) = size.
Proof.
  unfold cvar_along. destruct (Nat.eqb (length idx) 0); [apply repeat_length|].
  destruct (Nat.ltb _ _); cbn [assign]; rewrite ?set_nth_length, assign_length; apply repeat_length.
Qed.

Lemma stair_antitone p n i j : (0 < n)%nat -> 0 < p -> p <= 1 -> (i <= j)%nat -> stair p n j <= stair p n i.
Proof.
  intros Hn Hp Hp1 Hij. pose proof (stair_le p n j Hn Hp Hp1) as Hle. pose proof (stair_nonneg p n i Hn Hp Hp1) as Hnn.
  unfold stair in *. destruct (Nat.ltb_spec i (stair_m p n)) as [Hi|Hi]; [exact Hle|].
  destruct (Nat.ltb_spec j (stair_m p n)) as [Hj|Hj]; [lia|].
  destruct (Nat.eqb_spec i (stair_m p n)) as [Ei|Ei].
  - destruct (Nat.eqb_spec j (stair_m p n)) as [Ej|Ej]; [lra | exact Hnn].
  - destruct (Nat.eqb_spec j (stair_m p n)) as [Ej|Ej]; [lia | lra].
Qed.

(* the vector the code builds along ANY ranking np.argsort may return is accepted *)
Theorem stair_ok_complete p values failed idx :
  length failed = length values -> 0 < p -> p <= 1 -> valid_order values failed idx ->
  stair_ok p values failed (cvar_along p idx (length values)) = true.
Proof.
  intros HL Hp Hp1 Hv.
  destruct (cvar_along_tie_robust p values failed idx HL Hp Hp1 Hv) as [Hlen [Hpos Hfail]].
  set (w := cvar_along p idx (length values)) in *. set (n := count_ok failed) in *.
  apply stair_ok_unfold.
  assert (HLw : length w = length failed) by (unfold w; rewrite cvar_along_length; lia).
  split; [exact HLw|]. split.
  { intros r Hr. destruct (nth r failed true) eqn:Hf.
    - rewrite Hfail; [reflexivity|]. unfold succeeded. rewrite Hf. reflexivity.
    - assert (Hin : In r idx) by (apply (valid_order_In _ _ _ r Hv); split; assumption).
      apply (In_nth _ _ 0%nat) in Hin as [k [Hk <-]]. rewrite (proj1 (Hpos k Hk)).
      apply stair_nonneg; try assumption. fold n. lia. }
  destruct (Nat.eq_dec n 0) as [Hn0|Hn0]; [left; exact Hn0 | right].
  assert (Hn : (0 < n)%nat) by lia. pose proof (nq_pos n Hn) as Hnq.
  set (fo := fav_order values failed w). set (v := map (fun r => nth r w 0) fo).
  (* idx is sorted for the checker's order too: values ascend, and the staircase descends along idx *)
  assert (Hsorted : StronglySorted (fun a b => favn values w a b = true) idx).
  { apply (StronglySorted_of_nth _ idx 0%nat). intros i j Hij.
    unfold favn, fav_leb. cbn [fst snd]. apply orb_true_iff.
    pose proof (proj2 Hv i j Hij) as Hle.
    destruct (Qlt_le_dec (nth (nth i idx 0%nat) values 0) (nth (nth j idx 0%nat) values 0)) as [Hlt|Hge].
    - left. apply Qltb_lt. exact Hlt.
    - right. apply andb_true_iff. split; [apply Qeqb_eq; lra|]. apply Qleb_le.
      rewrite (proj1 (Hpos i ltac:(lia))), (proj1 (Hpos j ltac:(lia))).
      apply stair_antitone; try assumption. lia. }
  assert (Hperm : Permutation fo idx).
  { eapply Permutation_trans; [apply fav_order_perm | apply Permutation_sym, (proj1 Hv)]. }
  assert (Hfolen : length fo = n) by (rewrite (Permutation_length Hperm); exact Hlen).
  assert (Hvk : forall k, (k < n)%nat -> nth k v 0 == stair p n k).
  { intros k Hk. unfold v. rewrite (nth_map_lt (fun r => nth r w 0) fo k 0 0%nat) by lia.
    destruct (sorted_perm_equiv (favn values w) (favn_total values w) (favn_trans values w) fo idx k 0%nat
                (fav_order_sorted values failed w) Hsorted Hperm ltac:(lia)) as [E1 E2].
    destruct (fav_leb_equiv _ _ E1 E2) as [_ Ew]. cbn [snd] in Ew. rewrite Ew.
    apply (Hpos k). lia. }
  assert (Hvlen : length v = n) by (unfold v; rewrite map_length; exact Hfolen).
  assert (Hu : 0 <= 1 / nq n) by (apply Qle_shift_div_l; lra).
  destruct (floor_bounds p n Hn Hp Hp1) as [_ [_ Hmn]].
  split.
  - (* shape: the fractional step is rank floor(p*n), or the last rank when p = 1 *)
    apply (stair_shape_complete (1 / nq n) v Hu (Nat.min (stair_m p n) (n - 1))); [lia | | | |].
    + intros i Hi. rewrite (Hvk i) by lia. split; [|apply stair_nonneg; assumption].
      unfold stair. destruct (Nat.ltb_spec i (stair_m p n)); [|lia].
      assert (E0 : 1 / nq n - 1 / nq n == 0) by ring. rewrite E0. change (Qabs 0) with 0. apply tolq_nonneg, Hu.
    + rewrite Hvk by lia. apply stair_nonneg; assumption.
    + rewrite Hvk by lia. pose proof (stair_le p n (Nat.min (stair_m p n) (n - 1)) Hn Hp Hp1).
      pose proof (tolq_nonneg _ Hu). lra.
    + intros i Hi. destruct (Nat.lt_ge_cases i n) as [Hin|Hin].
      * rewrite Hvk by exact Hin. unfold stair.
        destruct (Nat.ltb_spec i (stair_m p n)); [lia|]. destruct (Nat.eqb_spec i (stair_m p n)); [lia | reflexivity].
      * rewrite nth_overflow by lia. reflexivity.
  - (* total *)
    apply close_exact. rewrite (list_map_nth v 0), Hvlen.
    rewrite <- (stair_sum p n Hn Hp Hp1). apply qsum_map_ext. intros k Hk. apply in_seq in Hk. apply Hvk. lia.
Qed.

(* in particular the model's own vector, whatever the ties *)
Corollary stair_ok_model p values failed :
  length failed = length values -> 0 < p -> p <= 1 ->
  stair_ok p values failed (cvar_weights p values failed) = true.
Proof.
  intros HL Hp Hp1. rewrite cvar_weights_along. apply stair_ok_complete; try assumption.
  apply ranked_valid_order. exact HL.
Qed.

(* ---- the fractional step sits where the percentile puts it ------------------------------------------------------- *)
Lemma nq_lt_inv a b : nq a < nq b -> (a < b)%nat.
Proof. unfold nq. rewrite <- Zlt_Qlt. lia. Qed.

Lemma nq_plus a b : nq (a + b) == nq a + nq b.
Proof. unfold nq. rewrite Nat2Z.inj_add, inject_Z_plus. reflexivity. Qed.

(* the facts about n, p, floor(p*n) and an accepted rank j the two corollaries start from *)
Lemma stair_arith_setup p n j : (0 < n)%nat -> 0 < p -> p <= 1 -> (j < n)%nat ->
  0 < nq n /\ 0 < 1 / nq n /\ 1 / nq n * nq n == 1 /\ 0 <= tolq (1 / nq n) /\ 0 <= tolq p /\
  nq (stair_m p n) * (1 / nq n) <= p /\ p < nq (stair_m p n) * (1 / nq n) + 1 / nq n /\
  0 <= nq j /\ nq j + 1 <= nq n /\ nq j * tolq (1 / nq n) + tolq (1 / nq n) <= nq n * tolq (1 / nq n).
Proof.
  intros Hn Hp Hp1 Hj. pose proof (nq_pos n Hn) as HN.
  assert (HU : 0 < 1 / nq n) by (apply Qlt_shift_div_l; lra).
  assert (HUN : 1 / nq n * nq n == 1) by (field; lra).
  assert (HT : 0 <= tolq (1 / nq n)) by (apply tolq_nonneg; lra).
  assert (HE : 0 <= tolq p) by (apply tolq_nonneg; lra).
  destruct (floor_bounds p n Hn Hp Hp1) as [Hlo [Hhi _]].
  assert (HJ0 : 0 <= nq j) by (change 0 with (nq 0); apply nq_le; lia).
  assert (HJN : nq j + 1 <= nq n) by (rewrite <- nq_S; apply nq_le; lia).
  repeat split; try assumption.
  - assert (E : nq (stair_m p n) * (1 / nq n) == nq (stair_m p n) / nq n) by (field; lra).
    rewrite E. apply Qle_shift_div_r; [exact HN | exact Hlo].
  - assert (E : nq (stair_m p n) * (1 / nq n) + 1 / nq n == (nq (stair_m p n) + 1) / nq n) by (field; lra).
    rewrite E. apply Qlt_shift_div_l; [exact HN | exact Hhi].
  - nra.
Qed.

(* when p*n is farther than delta = n*(tol(p) + n*tol(1/n)) from the integers, the rank of the fractional step of an
   accepted vector is exactly floor(p*n) *)
Lemma rank_pinned p n j x : (0 < n)%nat -> 0 < p -> p <= 1 -> (j < n)%nat ->
  0 <= x -> x <= 1 / nq n + tolq (1 / nq n) ->
  Qabs (nq j * (1 / nq n) + x - p) <= tolq p + nq j * tolq (1 / nq n) ->
  nq (stair_m p n) + nq n * (tolq p + nq n * tolq (1 / nq n)) < p * nq n ->
  p * nq n + nq n * (tolq p + nq n * tolq (1 / nq n)) < nq (stair_m p n) + 1 ->
  j = stair_m p n.
Proof.
  intros Hn Hp Hp1 Hj Hx0 Hx1 HD Hlo Hhi.
  destruct (stair_arith_setup p n j Hn Hp Hp1 Hj) as [HN [HU [HUN [HT [HE [Hm0 [Hm1 [HJ0 [HJN HJT]]]]]]]]].
  apply Qabs_Qle_condition in HD. destruct HD as [HD1 HD2].
  set (U := 1 / nq n) in *. set (T := tolq U) in *. set (E := tolq p) in *.
  set (N := nq n) in *. set (J := nq j) in *. set (M := nq (stair_m p n)) in *.
  (* J <= p*N + delta and p*N - delta <= J + 1 *)
  assert (A1 : J * U * N <= (p + E + J * T) * N) by (apply Qmult_le_compat_r; lra).
  assert (A2 : p * N <= (J * U + U + T + E + J * T) * N) by (apply Qmult_le_compat_r; lra).
  assert (A3 : J * T * N <= N * T * N) by (apply Qmult_le_compat_r; nra).
  assert (A4 : (T + J * T) * N <= N * T * N) by (apply Qmult_le_compat_r; lra).
  assert (E1 : J * U * N == J) by (rewrite <- Qmult_assoc, HUN; ring).
  assert (E2 : (J * U + U + T + E + J * T) * N == J + 1 + E * N + (T + J * T) * N).
  { transitivity (J * (U * N) + U * N + E * N + (T + J * T) * N); [ring|]. rewrite HUN. ring. }
  assert (B1 : J < M + 1) by nra.
  assert (B2 : M < J + 1) by nra.
  unfold J, M in B1, B2. rewrite <- nq_S in B1, B2. apply nq_lt_inv in B1, B2. lia.
Qed.

(* an entry of an accepted vector at rank k differs from the exact staircase by at most tol(p) + n*tol(1/n), whatever
   the rank j the checker's shape test found for the fractional step *)
Lemma stair_close_arith p n j k x wk : (0 < n)%nat -> 0 < p -> p <= 1 -> (j < n)%nat -> (k < n)%nat ->
  0 <= x -> x <= 1 / nq n + tolq (1 / nq n) ->
  Qabs (nq j * (1 / nq n) + x - p) <= tolq p + nq j * tolq (1 / nq n) ->
  ((k < j)%nat -> Qabs (wk - 1 / nq n) <= tolq (1 / nq n)) -> (k = j -> wk == x) -> ((j < k)%nat -> wk == 0) ->
  Qabs (wk - stair p n k) <= tolq p + nq n * tolq (1 / nq n).
Proof.
  intros Hn Hp Hp1 Hj Hk Hx0 Hx1 HD Hfull Hfrac Hzero.
  destruct (stair_arith_setup p n j Hn Hp Hp1 Hj) as [HN [HU [HUN [HT [HE [Hm0 [Hm1 [HJ0 [HJN HJT]]]]]]]]].
  apply Qabs_Qle_condition in HD. destruct HD as [HD1 HD2].
  assert (Es : nq (stair_m p n) / nq n == nq (stair_m p n) * (1 / nq n)) by (field; lra).
  set (m := stair_m p n) in *. set (U := 1 / nq n) in *. set (T := tolq U) in *. set (E := tolq p) in *.
  set (N := nq n) in *. set (J := nq j) in *. set (M := nq m) in *.
  assert (Hs : ((k < m)%nat /\ stair p n k == U) \/ (k = m /\ stair p n k == p - M * U) \/
               ((m < k)%nat /\ stair p n k == 0)).
  { unfold stair. fold m. destruct (Nat.ltb_spec k m) as [Hkm|Hkm]; [left; split; [exact Hkm | reflexivity]|].
    destruct (Nat.eqb_spec k m) as [Ekm|Ekm]; [right; left; split; [exact Ekm|] | right; right; split; [lia | reflexivity]].
    fold N M. rewrite Es. reflexivity. }
  set (s := stair p n k) in *. clearbody s.
  assert (HJT0 : 0 <= J * T) by nra.
  apply Qabs_Qle_condition.
  destruct (lt_eq_lt_dec k j) as [[Hkj|Hkj]|Hkj].
  - (* a full step of the accepted vector *)
    specialize (Hfull Hkj). apply Qabs_Qle_condition in Hfull. destruct Hfull as [Hf1 Hf2].
    destruct Hs as [[Hkm Hs]|[[Hkm Hs]|[Hkm Hs]]]; rewrite Hs.
    + split; lra.
    + assert (R : M + 1 <= J) by (unfold M, J; rewrite <- nq_S; apply nq_le; lia).
      assert (R' : (M + 1) * U <= J * U) by (apply Qmult_le_compat_r; lra).
      split; lra.
    + assert (R : M + 1 + 1 <= J) by (unfold M, J; rewrite <- !nq_S; apply nq_le; lia).
      assert (R' : (M + 1 + 1) * U <= J * U) by (apply Qmult_le_compat_r; lra).
      split; lra.
  - (* the entry the shape test took for the fractional step *)
    specialize (Hfrac Hkj). rewrite Hfrac. subst k.
    destruct Hs as [[Hkm Hs]|[[Hkm Hs]|[Hkm Hs]]]; rewrite Hs.
    + assert (R : J + 1 <= M) by (unfold M, J; rewrite <- nq_S; apply nq_le; lia).
      assert (R' : (J + 1) * U <= M * U) by (apply Qmult_le_compat_r; lra).
      split; lra.
    + assert (R : J = M) by (unfold J, M; rewrite Hkm; reflexivity). rewrite <- R. split; lra.
    + assert (R : M + 1 <= J) by (unfold M, J; rewrite <- nq_S; apply nq_le; lia).
      assert (R' : (M + 1) * U <= J * U) by (apply Qmult_le_compat_r; lra).
      split; lra.
  - (* an exact zero of the accepted vector *)
    specialize (Hzero Hkj). rewrite Hzero.
    destruct Hs as [[Hkm Hs]|[[Hkm Hs]|[Hkm Hs]]]; rewrite Hs.
    + assert (R : J + 1 + 1 <= M) by (unfold M, J; rewrite <- !nq_S; apply nq_le; lia).
      assert (R' : (J + 1 + 1) * U <= M * U) by (apply Qmult_le_compat_r; lra).
      split; lra.
    + assert (R : J + 1 <= M) by (unfold M, J; rewrite <- nq_S; apply nq_le; lia).
      assert (R' : (J + 1) * U <= M * U) by (apply Qmult_le_compat_r; lra).
      split; lra.
    + split; lra.
Qed.

(* An accepted vector is, along some ranking consistent with the values, within tol(p) + n*tol(1/n) of the exact staircase
   at EVERY rank (by C04_tie_robust the exact staircase at rank k is the model's weight at rank k of its own ranking) *)
Theorem stair_ok_near_staircase p values failed w :
  stair_ok p values failed w = true -> (0 < count_ok failed)%nat -> 0 < p -> p <= 1 ->
  exists idx, valid_order values failed idx /\
    forall k, (k < count_ok failed)%nat ->
      Qabs (nth (nth k idx 0%nat) w 0 - stair p (count_ok failed) k)
        <= tolq p + nq (count_ok failed) * tolq (1 / nq (count_ok failed)).
Proof.
  intros H Hn Hp Hp1. destruct (stair_ok_sound p values failed w H) as [_ [_ [_ Hex]]].
  destruct (Hex Hn) as [idx [j [Hv [Hj [Hfull [Hj0 [Hj1 [Hzero [_ HD]]]]]]]]].
  rewrite (tolq_abs p) in HD by lra.
  exists idx. split; [exact Hv|]. intros k Hk.
  apply (stair_close_arith p (count_ok failed) j k (nth (nth j idx 0%nat) w 0)); try assumption.
  - intros Hkj. apply Hfull. exact Hkj.
  - intros ->. reflexivity.
  - intros Hjk. apply Hzero. lia.
Qed.

(* ... and when p*n is farther than n*(tol(p) + n*tol(1/n)) from the integers the fractional step of an accepted vector
   sits exactly at rank floor(p*n): full steps before it, exact zeros after it *)
Theorem stair_ok_rank_exact p values failed w :
  stair_ok p values failed w = true -> (0 < count_ok failed)%nat -> 0 < p -> p <= 1 ->
  nq (stair_m p (count_ok failed)) + nq (count_ok failed) * (tolq p + nq (count_ok failed) * tolq (1 / nq (count_ok failed)))
    < p * nq (count_ok failed) ->
  p * nq (count_ok failed) + nq (count_ok failed) * (tolq p + nq (count_ok failed) * tolq (1 / nq (count_ok failed)))
    < nq (stair_m p (count_ok failed)) + 1 ->
  (stair_m p (count_ok failed) < count_ok failed)%nat /\
  exists idx, valid_order values failed idx /\
    (forall k, (k < stair_m p (count_ok failed))%nat ->
       Qabs (nth (nth k idx 0%nat) w 0 - 1 / nq (count_ok failed)) <= tolq (1 / nq (count_ok failed))) /\
    Qabs (nth (nth (stair_m p (count_ok failed)) idx 0%nat) w 0 - (p - nq (stair_m p (count_ok failed)) / nq (count_ok failed)))
      <= tolq p + nq (stair_m p (count_ok failed)) * tolq (1 / nq (count_ok failed)) /\
    (forall k, (stair_m p (count_ok failed) < k < count_ok failed)%nat -> nth (nth k idx 0%nat) w 0 == 0).
Proof.
  intros H Hn Hp Hp1 Hlo Hhi. destruct (stair_ok_sound p values failed w H) as [_ [_ [_ Hex]]].
  destruct (Hex Hn) as [idx [j [Hv [Hj [Hfull [Hj0 [Hj1 [Hzero [_ HD]]]]]]]]].
  rewrite (tolq_abs p) in HD by lra.
  pose proof (rank_pinned p (count_ok failed) j _ Hn Hp Hp1 Hj Hj0 Hj1 HD Hlo Hhi) as Ej. subst j.
  split; [exact Hj|]. exists idx. split; [exact Hv|]. split; [exact Hfull|]. split; [|exact Hzero].
  pose proof (nq_pos _ Hn) as HN.
  assert (E : nth (nth (stair_m p (count_ok failed)) idx 0%nat) w 0 - (p - nq (stair_m p (count_ok failed)) / nq (count_ok failed)) ==
              nq (stair_m p (count_ok failed)) * (1 / nq (count_ok failed)) + nth (nth (stair_m p (count_ok failed)) idx 0%nat) w 0 - p)
    by (field; lra).
  rewrite E. exact HD.
Qed.

(* ---- acceptance does not depend on the ranking the checker happens to sort by ------------------------------------- *)
(* the tolerance staircase along a ranking idx with the fractional step at rank j (n successes) *)
Definition tol_staircase (n : nat) (w : list Q) (idx : list nat) (j : nat) : Prop :=
  (j < n)%nat /\
  (forall k, (k < j)%nat -> Qabs (nth (nth k idx 0%nat) w 0 - 1 / nq n) <= tolq (1 / nq n)) /\
  0 <= nth (nth j idx 0%nat) w 0 /\ nth (nth j idx 0%nat) w 0 <= 1 / nq n + tolq (1 / nq n) /\
  (forall k, (j < k < n)%nat -> nth (nth k idx 0%nat) w 0 == 0).

Lemma all_zero_false v : all_zero v = false -> exists i, (i < length v)%nat /\ ~ nth i v 0 == 0.
Proof.
  induction v as [|x t IH]; intros H; [discriminate|]. cbn [all_zero forallb] in H.
  destruct (Qeqb x 0) eqn:E.
  - cbn [andb] in H. destruct (IH H) as [i [Hi Hn]]. exists (S i). split; [cbn [length]; lia | exact Hn].
  - exists 0%nat. split; [cbn [length]; lia|]. cbn [nth]. apply Qeqb_neq. exact E.
Qed.

(* the shape, said without naming the rank of the fractional step: every entry before a non-zero entry is a full step *)
Lemma stair_shape_of_pairs u v : 0 <= u ->
  (forall i, (i < length v)%nat -> 0 <= nth i v 0 /\ nth i v 0 <= u + tolq u) ->
  (forall i i', (i < i' < length v)%nat -> ~ nth i' v 0 == 0 -> Qabs (nth i v 0 - u) <= tolq u) ->
  stair_shape u v = true.
Proof.
  intros Hu. induction v as [|x t IH]; intros Hb Hp; [reflexivity|]. cbn [stair_shape].
  destruct (all_zero t) eqn:Ez.
  - destruct (Hb 0%nat ltac:(cbn [length]; lia)) as [H0 H1]. cbn [nth] in H0, H1. fold (tolq u).
    apply andb_true_iff. split; apply Qleb_le; assumption.
  - destruct (all_zero_false t Ez) as [i [Hi Hn]]. apply andb_true_iff. split.
    + apply close_spec. rewrite (tolq_abs u Hu). apply (Hp 0%nat (S i)); [cbn [length]; lia | exact Hn].
    + apply IH.
      * intros k Hk. apply (Hb (S k)). cbn [length]. lia.
      * intros k k' Hk Hn'. apply (Hp (S k) (S k')); [cbn [length]; lia | exact Hn'].
Qed.

(* a vector that is a tolerance staircase along ANY ranking consistent with the values is accepted, although the checker
   sorts tied values by decreasing weight *)
Theorem stair_ok_along_any p values failed w idx j :
  length w = length failed -> (forall r, nth r failed true = true -> nth r w 0 == 0) -> (forall r, 0 <= nth r w 0) ->
  valid_order values failed idx -> tol_staircase (count_ok failed) w idx j ->
  Qabs (qsum w - p) <= tolq (Qabs p) ->
  stair_ok p values failed w = true.
Proof.
  intros HL Hz Hnn Hv [Hj [Hfull [Hj0 [Hj1 Hzero]]]] Hsum. set (n := count_ok failed) in *.
  assert (Hn : (0 < n)%nat) by lia. pose proof (nq_pos n Hn) as Hnq.
  assert (Hu : 0 <= 1 / nq n) by (apply Qle_shift_div_l; lra). pose proof (tolq_nonneg _ Hu) as Ht.
  set (u := 1 / nq n) in *.
  assert (Hlen : length idx = n) by (rewrite (valid_order_length _ _ _ Hv); apply successes_length).
  pose proof (valid_order_NoDup _ _ _ Hv) as ND.
  apply stair_ok_unfold. split; [exact HL|]. split.
  { intros r _. destruct (nth r failed true) eqn:Hf; [apply Hz; exact Hf | apply Hnn]. }
  right. fold n u. set (fo := fav_order values failed w).
  assert (Hperm : Permutation fo idx).
  { eapply Permutation_trans; [apply fav_order_perm | apply Permutation_sym, (proj1 Hv)]. }
  assert (Hfolen : length fo = n) by (rewrite (Permutation_length Hperm); exact Hlen).
  (* every member of the ranking, by its position in idx *)
  assert (Hpos : forall a, In a fo -> exists k, (k < n)%nat /\ nth k idx 0%nat = a).
  { intros a Ha. apply (Permutation_in _ Hperm) in Ha. apply (In_nth _ _ 0%nat) in Ha as [k [Hk E]]. exists k. split; [lia | exact E]. }
  assert (Hub : forall k, (k < n)%nat -> nth (nth k idx 0%nat) w 0 <= u + tolq u).
  { intros k Hk. destruct (lt_eq_lt_dec k j) as [[H|H]|H].
    - specialize (Hfull k H). apply Qabs_Qle_condition in Hfull. lra.
    - subst k. exact Hj1.
    - rewrite (Hzero k) by lia. lra. }
  assert (Hnz : forall k, (k < n)%nat -> ~ nth (nth k idx 0%nat) w 0 == 0 -> (k <= j)%nat).
  { intros k Hk Hne. destruct (Nat.le_gt_cases k j) as [H|H]; [exact H|]. exfalso. apply Hne. apply Hzero. lia. }
  split.
  - apply stair_shape_of_pairs; [exact Hu | |]; rewrite map_length, Hfolen.
    + intros i Hi. rewrite (nth_map_lt (fun r => nth r w 0) fo i 0 0%nat) by lia. split; [apply Hnn|].
      destruct (Hpos (nth i fo 0%nat)) as [k [Hk E]]; [apply nth_In; lia|]. rewrite <- E. apply Hub. exact Hk.
    + intros i i' Hii Hne.
      rewrite (nth_map_lt (fun r => nth r w 0) fo i 0 0%nat) by lia.
      rewrite (nth_map_lt (fun r => nth r w 0) fo i' 0 0%nat) in Hne by lia.
      pose proof (StronglySorted_nth _ _ 0%nat i i' (fav_order_sorted values failed w) ltac:(fold fo; lia)) as Hfav.
      fold fo in Hfav. set (a := nth i fo 0%nat) in *. set (b := nth i' fo 0%nat) in *.
      destruct (Hpos a) as [ka [Hka Ea]]; [apply nth_In; lia|].
      destruct (Hpos b) as [kb [Hkb Eb]]; [apply nth_In; lia|].
      assert (Hab : ka <> kb).
      { intros E. assert (a = b) by (rewrite <- Ea, <- Eb, E; reflexivity).
        assert (NDf : NoDup fo) by (apply (Permutation_NoDup (Permutation_sym Hperm)); exact ND).
        unfold a, b in H. apply (NoDup_nth fo 0%nat) in H; [lia | exact NDf | lia | lia]. }
      rewrite <- Eb in Hne. pose proof (Hnz kb Hkb Hne) as Hbj.
      destruct (lt_eq_lt_dec ka kb) as [[H|H]|H]; [|contradiction|].
      * rewrite <- Ea. apply Hfull. lia.
      * (* b comes before a in idx: the two are tied and a carries at least as much as b *)
        pose proof (proj2 Hv kb ka ltac:(lia)) as Hval. rewrite Ea, Eb in Hval.
        unfold favn, fav_leb in Hfav. cbn [fst snd] in Hfav. apply orb_true_iff in Hfav as [Hf|Hf].
        { apply Qltb_lt in Hf. lra. }
        apply andb_true_iff in Hf as [_ Hf]. apply Qleb_le in Hf.
        assert (Hane : ~ nth a w 0 == 0).
        { intros E0. apply Hne. rewrite Eb. pose proof (Hnn b). lra. }
        rewrite <- Ea in Hane. pose proof (Hnz ka Hka Hane) as Haj.
        pose proof (Hfull kb ltac:(lia)) as Hcb. rewrite Eb in Hcb. apply Qabs_Qle_condition in Hcb.
        pose proof (Hub ka Hka) as Hua. rewrite Ea in Hua.
        apply Qabs_Qle_condition. split; lra.
  - apply close_spec. unfold fo. rewrite (qsum_fav_order values failed w HL Hz). exact Hsum.
Qed.

(* stair_ok accepts EXACTLY the tolerance staircases along some ranking consistent with the values *)
Theorem stair_ok_iff p values failed w :
  stair_ok p values failed w = true <->
  length w = length failed /\ (forall r, nth r failed true = true -> nth r w 0 == 0) /\ (forall r, 0 <= nth r w 0) /\
  (count_ok failed = 0%nat \/
   (Qabs (qsum w - p) <= tolq (Qabs p) /\
    exists idx j, valid_order values failed idx /\ tol_staircase (count_ok failed) w idx j)).
Proof.
  split.
  - intros H. destruct (stair_ok_sound p values failed w H) as [HL [Hz [Hnn Hex]]].
    split; [exact HL|]. split; [exact Hz|]. split; [exact Hnn|].
    destruct (Nat.eq_dec (count_ok failed) 0) as [H0|H0]; [left; exact H0 | right].
    destruct (Hex ltac:(lia)) as [idx [j [Hv [Hj [Hfull [Hj0 [Hj1 [Hzero [Hsum _]]]]]]]]].
    split; [exact Hsum|]. exists idx, j. split; [exact Hv|]. repeat split; assumption.
  - intros [HL [Hz [Hnn [H0|[Hsum [idx [j [Hv Hst]]]]]]]].
    + apply stair_ok_unfold. split; [exact HL|]. split; [|left; exact H0].
      intros r _. destruct (nth r failed true) eqn:Hf; [apply Hz; exact Hf | apply Hnn].
    + apply (stair_ok_along_any p values failed w idx j); assumption.
Qed.
