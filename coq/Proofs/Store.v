(* Proofs/Store.v -- lemmas about Model/Store.v (C06 d): a small ownership typing of array references,
   its soundness for the event semantics, and well-typedness of every history program of the HEAD variant. *)
From Coq Require Import List Bool Arith Lia.
From Ropt Require Import Model.Store.
Import ListNotations.

(* ---- decidable equality of references ---------------------------------------------------------- *)
Lemma field_eqb_eq a b : field_eqb a b = true <-> a = b.
Proof. destruct a, b; cbn; split; congruence. Qed.

Lemma ref_eqb_eq x y : ref_eqb x y = true <-> x = y.
Proof.
  split.
  - destruct x, y; cbn; try discriminate; intros H;
      repeat (let H' := fresh "H" in apply andb_prop in H as [H H']);
      repeat match goal with
             | H : field_eqb _ _ = true |- _ => apply field_eqb_eq in H
             | H : Nat.eqb _ _ = true |- _ => apply Nat.eqb_eq in H
             end; subst; reflexivity.
  - intros <-. destruct x; cbn; rewrite ?Nat.eqb_refl; try reflexivity; destruct f; reflexivity.
Qed.

Lemma ref_eqb_refl x : ref_eqb x x = true.
Proof. now apply ref_eqb_eq. Qed.

(* ---- static classes of reference names ---------------------------------------------------------- *)
(* foreign memory / any view / work copy / delivered array / perturbed variables / request matrix *)
Inductive cls := CEval | CAny | CWork | CRes | CPert | CReq.
Definition cls_of (r : ref) : cls :=
  match r with
  | EvalArr _ | CallerVec => CEval
  | Trans _ _ | Piece _ _ _ | Shaped _ _ _ | TPiece _ _ _ => CAny
  | Work _ _ _ => CWork
  | Res _ _ _ | TRes _ _ _ => CRes
  | Pert _ => CPert
  | Req _ => CReq
  end.
Definition cls_eqb (a b : cls) : bool :=
  match a, b with
  | CEval, CEval | CAny, CAny | CWork, CWork | CRes, CRes | CPert, CPert | CReq, CReq => true
  | _, _ => false
  end.
Lemma cls_eqb_eq a b : cls_eqb a b = true <-> a = b.
Proof. destruct a, b; cbn; split; congruence. Qed.

Definition mem (r : ref) (D : list ref) : bool := existsb (ref_eqb r) D.
Definition is_evalobj (o : obj) : bool := match o with EvalObj => true | _ => false end.

(* the typing discipline: copies may be bound to any name that is not foreign; views only to "any" names,
   except that a request matrix may be a view of the perturbed variables; ropt writes only through work
   names and delivers only result names, both already defined by a copy; the evaluator is only ever given
   request matrices *)
Fixpoint wt (D : list ref) (ops : list op) : bool :=
  match ops with
  | [] => true
  | Copy _ dst :: t | Fresh _ dst :: t => negb (cls_eqb (cls_of dst) CEval) && wt (dst :: D) t
  | View src dst :: t =>
      (cls_eqb (cls_of dst) CAny || (cls_eqb (cls_of dst) CReq && cls_eqb (cls_of src) CPert && mem src D)) && wt D t
  | WriteRows a :: t => cls_eqb (cls_of a) CWork && mem a D && wt D t
  | NewObj _ :: t => wt D t
  | SetAttr o _ :: t => negb (is_evalobj o) && wt D t
  | Deliver a :: t => cls_eqb (cls_of a) CRes && mem a D && wt D t
  | GiveEval a :: t | EvalWriteRef a :: t => cls_eqb (cls_of a) CReq && wt D t
  | EvalWrite _ :: t | CallerWrite :: t => wt D t
  end.

(* ---- semantic invariant and soundness ----------------------------------------------------------- *)
Definition inv (e : env) : Prop :=
  forall r b o, e r = Some (b, o) ->
    (cls_of r = CWork -> o = Ropt /\ cls_of b = CWork) /\
    (cls_of r = CRes -> o = Ropt /\ cls_of b = CRes) /\
    (cls_of r = CEval -> b = r /\ o <> Ropt) /\
    (cls_of r = CPert -> o = Ropt /\ cls_of b = CPert) /\
    (cls_of r = CReq -> o = Ropt /\ (cls_of b = CReq \/ cls_of b = CPert)).

Definition defined (D : list ref) (e : env) : Prop := forall r, mem r D = true -> e r <> None.

(* writes by the evaluator or the caller never hit a work copy or a delivered array *)
Definition soft (b : ref) : Prop := cls_of b = CEval \/ cls_of b = CReq \/ cls_of b = CPert.

Definition good (ev : event) : Prop :=
  match ev with
  | EWrite Ropt (b, o) => o = Ropt /\ cls_of b = CWork
  | EWrite _ (b, o) => soft b
  | EAttr o _ => o <> EvalObj
  | EDeliver (b, o) => o = Ropt /\ cls_of b = CRes
  end.

Lemma inv_init : inv init.
Proof.
  intros r b o H. destruct r; cbn in H; try discriminate; injection H as <- <-;
    repeat split; intros; try discriminate; reflexivity.
Qed.

Lemma upd_same e r b : upd e r b r = Some b.
Proof. unfold upd. now rewrite ref_eqb_refl. Qed.

Lemma upd_other e r b r' : r <> r' -> upd e r b r' = e r'.
Proof. unfold upd. intros H. destruct (ref_eqb r r') eqn:E; [apply ref_eqb_eq in E; contradiction | reflexivity]. Qed.

Lemma inv_upd_fresh e dst : inv e -> cls_of dst <> CEval -> inv (upd e dst (dst, Ropt)).
Proof.
  intros Hi Hc r b o H. unfold upd in H. destruct (ref_eqb dst r) eqn:E.
  - apply ref_eqb_eq in E. subst r. injection H as <- <-. repeat split; auto; intros; contradiction.
  - exact (Hi r b o H).
Qed.

Lemma inv_upd_view e dst bf : inv e -> cls_of dst = CAny -> inv (upd e dst bf).
Proof.
  intros Hi Hc r b o H. unfold upd in H. destruct (ref_eqb dst r) eqn:E.
  - apply ref_eqb_eq in E. subst r. rewrite Hc. repeat split; intros; discriminate.
  - exact (Hi r b o H).
Qed.

Lemma inv_upd_view_req e dst src b o :
  inv e -> cls_of dst = CReq -> cls_of src = CPert -> e src = Some (b, o) -> inv (upd e dst (b, o)).
Proof.
  intros Hi Hd Hs Hsrc r b' o' H. unfold upd in H. destruct (ref_eqb dst r) eqn:E.
  - apply ref_eqb_eq in E. subst r. injection H as <- <-. rewrite Hd.
    destruct (proj1 (proj2 (proj2 (proj2 (Hi src b o Hsrc)))) Hs) as [Ho Hb].
    repeat split; intros; try discriminate; auto.
  - exact (Hi r b' o' H).
Qed.

Lemma defined_upd D e dst b : defined D e -> defined (dst :: D) (upd e dst b).
Proof.
  intros Hd r Hm. unfold upd. destruct (ref_eqb dst r) eqn:E; [discriminate|].
  apply Hd. unfold mem in *. cbn in Hm. apply orb_true_iff in Hm as [Hm|Hm]; [|exact Hm].
  apply ref_eqb_eq in Hm. subst. rewrite ref_eqb_refl in E. discriminate.
Qed.

Lemma defined_upd_keep D e dst b : defined D e -> defined D (upd e dst b).
Proof.
  intros Hd r Hm. unfold upd. destruct (ref_eqb dst r); [discriminate | now apply Hd].
Qed.

Lemma look_req_soft e a : inv e -> cls_of a = CReq -> soft (fst (look e a)).
Proof.
  intros Hi Hc. unfold look. destruct (e a) as [[b o]|] eqn:E; cbn.
  - destruct (proj2 (proj2 (proj2 (proj2 (Hi a b o E)))) Hc) as [_ [H|H]]; unfold soft; auto.
  - unfold soft. auto.
Qed.

Lemma look_eval_soft e a : inv e -> cls_of a = CEval -> soft (fst (look e a)).
Proof.
  intros Hi Hc. unfold look. destruct (e a) as [[b o]|] eqn:E; cbn.
  - destruct (proj1 (proj2 (proj2 (Hi a b o E))) Hc) as [-> _]. unfold soft. auto.
  - unfold soft. auto.
Qed.

Theorem wt_sound ops : forall D e, inv e -> defined D e -> wt D ops = true -> Forall good (run e ops).
Proof.
  induction ops as [|o t IH]; intros D e Hi Hd Hw; [constructor|].
  destruct o as [src dst|src dst|src dst|a|ob|ob f|a|a|f|a|]; cbn in Hw |- *.
  - apply andb_prop in Hw as [Hc Hw]. apply negb_true_iff in Hc.
    apply (IH (dst :: D)); [apply inv_upd_fresh; [exact Hi|] | now apply defined_upd | exact Hw].
    intros E. apply cls_eqb_eq in E. congruence.
  - apply andb_prop in Hw as [Hc Hw]. apply negb_true_iff in Hc.
    apply (IH (dst :: D)); [apply inv_upd_fresh; [exact Hi|] | now apply defined_upd | exact Hw].
    intros E. apply cls_eqb_eq in E. congruence.
  - apply andb_prop in Hw as [Hc Hw]. apply orb_true_iff in Hc as [Hc|Hc].
    + apply cls_eqb_eq in Hc. apply (IH D); [now apply inv_upd_view | now apply defined_upd_keep | exact Hw].
    + apply andb_prop in Hc as [Hc Hm]. apply andb_prop in Hc as [Hc1 Hc2].
      apply cls_eqb_eq in Hc1. apply cls_eqb_eq in Hc2.
      apply (IH D); [|now apply defined_upd_keep | exact Hw].
      unfold look. destruct (e src) as [[b o]|] eqn:E; [|exfalso; exact (Hd src Hm E)].
      now apply (inv_upd_view_req e dst src b o).
  - apply andb_prop in Hw as [Hw1 Hw]. apply andb_prop in Hw1 as [Hc Hm]. apply cls_eqb_eq in Hc.
    constructor; [|exact (IH D e Hi Hd Hw)].
    unfold look. destruct (e a) as [[b o]|] eqn:E; [|exfalso; exact (Hd a Hm E)].
    cbn. exact (proj1 (Hi a b o E) Hc).
  - exact (IH D e Hi Hd Hw).
  - apply andb_prop in Hw as [Hc Hw]. constructor; [|exact (IH D e Hi Hd Hw)].
    cbn. intros ->. discriminate.
  - apply andb_prop in Hw as [Hw1 Hw]. apply andb_prop in Hw1 as [Hc Hm]. apply cls_eqb_eq in Hc.
    constructor; [|exact (IH D e Hi Hd Hw)].
    unfold look. destruct (e a) as [[b o]|] eqn:E; [|exfalso; exact (Hd a Hm E)].
    cbn. exact (proj1 (proj2 (Hi a b o E)) Hc).
  - apply andb_prop in Hw as [_ Hw]. exact (IH D e Hi Hd Hw).
  - constructor; [|exact (IH D e Hi Hd Hw)].
    pose proof (look_eval_soft e (EvalArr f) Hi eq_refl) as Hs. destruct (look e (EvalArr f)) as [b o]. exact Hs.
  - apply andb_prop in Hw as [Hc Hw]. apply cls_eqb_eq in Hc. constructor; [|exact (IH D e Hi Hd Hw)].
    pose proof (look_req_soft e a Hi Hc) as Hs. destruct (look e a) as [b o]. exact Hs.
  - constructor; [|exact (IH D e Hi Hd Hw)].
    pose proof (look_eval_soft e CallerVec Hi eq_refl) as Hs. destruct (look e CallerVec) as [b o]. exact Hs.
Qed.

(* good events are not foreign, and nothing is written into a delivered buffer *)
Lemma good_not_foreign evs : Forall good evs -> foreign_events evs = [].
Proof.
  induction 1 as [|ev evs Hg _ IH]; [reflexivity|]. unfold foreign_events in *. cbn. rewrite IH.
  destruct ev as [[| |] [b o]|o f|[b o]]; cbn in *.
  - reflexivity.
  - reflexivity.
  - destruct Hg as [-> _]. reflexivity.
  - destruct o; [contradiction | reflexivity].
  - destruct Hg as [-> _]. reflexivity.
Qed.

Lemma soft_not_res b : soft b -> cls_of b <> CRes.
Proof. intros [H|[H|H]]; congruence. Qed.

Lemma good_write_not_res evs b :
  Forall good evs -> cls_of (fst b) = CRes ->
  filter (fun ev => match ev with EWrite _ b' => buf_eqb b b' | _ => false end) evs = [].
Proof.
  intros H Hb. induction H as [|ev evs Hg _ IH]; [reflexivity|]. cbn. rewrite IH.
  destruct ev as [[| |] [b' o]|o f|b']; try reflexivity; cbn in Hg;
    (destruct (buf_eqb b (b', o)) eqn:E; [|reflexivity]; unfold buf_eqb in E; apply ref_eqb_eq in E; cbn in E;
     rewrite E in Hb; exfalso; first [exact (soft_not_res _ Hg Hb) | destruct Hg; congruence]).
Qed.

Lemma good_no_late_writes evs : Forall good evs -> late_writes evs = [].
Proof.
  induction 1 as [|ev evs Hg Hall IH]; [reflexivity|]. destruct ev as [a b|o f|[b o]]; cbn; try exact IH.
  rewrite IH, app_nil_r. apply (good_write_not_res evs (b, o) Hall). cbn in Hg |- *. tauto.
Qed.

(* ---- every HEAD program is well typed ----------------------------------------------------------- *)
Lemma wt_mono ops : forall D D', (forall r, mem r D = true -> mem r D' = true) -> wt D ops = true -> wt D' ops = true.
Proof.
  induction ops as [|o t IH]; intros D D' Hs Hw; [reflexivity|].
  assert (Hcons : forall d r, mem r (d :: D) = true -> mem r (d :: D') = true).
  { intros d r. unfold mem. cbn. rewrite !orb_true_iff. intros [H|H]; [now left | right; now apply Hs]. }
  destruct o as [src dst|src dst|src dst|a|ob|ob f|a|a|f|a|]; cbn in Hw |- *.
  - apply andb_prop in Hw as [Hc Hw]. rewrite Hc. cbn. exact (IH _ _ (Hcons dst) Hw).
  - apply andb_prop in Hw as [Hc Hw]. rewrite Hc. cbn. exact (IH _ _ (Hcons dst) Hw).
  - apply andb_prop in Hw as [Hc Hw]. rewrite (IH _ _ Hs Hw), andb_true_r.
    apply orb_true_iff in Hc as [Hc|Hc]; [now rewrite Hc|].
    apply andb_prop in Hc as [Hc Hm]. now rewrite Hc, (Hs _ Hm), orb_true_r.
  - apply andb_prop in Hw as [Hw1 Hw]. apply andb_prop in Hw1 as [Hc Hm]. rewrite Hc, (Hs _ Hm). cbn. exact (IH _ _ Hs Hw).
  - exact (IH _ _ Hs Hw).
  - apply andb_prop in Hw as [Hc Hw]. rewrite Hc. cbn. exact (IH _ _ Hs Hw).
  - apply andb_prop in Hw as [Hw1 Hw]. apply andb_prop in Hw1 as [Hc Hm]. rewrite Hc, (Hs _ Hm). cbn. exact (IH _ _ Hs Hw).
  - apply andb_prop in Hw as [Hc Hw]. rewrite Hc. cbn. exact (IH _ _ Hs Hw).
  - exact (IH _ _ Hs Hw).
  - apply andb_prop in Hw as [Hc Hw]. rewrite Hc. cbn. exact (IH _ _ Hs Hw).
  - exact (IH _ _ Hs Hw).
Qed.

Lemma wt_app p1 : forall p2 D, wt D p1 = true -> (forall D', wt D' p2 = true) -> wt D (p1 ++ p2) = true.
Proof.
  induction p1 as [|o t IH]; intros p2 D H1 H2; [apply H2|].
  destruct o as [src dst|src dst|src dst|a|ob|ob f|a|a|f|a|]; cbn in H1 |- *;
    try (apply andb_prop in H1 as [Hc H1]; rewrite Hc; cbn); now apply IH.
Qed.

Lemma wt_closed ops : wt [] ops = true -> forall D, wt D ops = true.
Proof. intros H D. apply (wt_mono ops [] D); [intros r Hr; discriminate | exact H]. Qed.

Lemma wt_request c p : wt [] (request_ops c p) = true.
Proof.
  destruct p as [s con to tc tv us]. unfold request_ops, mem. cbn.
  destruct s; [reflexivity | destruct tv; cbn; rewrite ?Nat.eqb_refl; reflexivity | reflexivity].
Qed.

Lemma wt_transform c p : wt [] (transform_ops head c p) = true.
Proof. destruct p as [s con to tc tv us]. destruct con, to, tc; reflexivity. Qed.

Lemma wt_user c p b fs : forall D,
  wt D (flat_map (fun f => [(if transformed p f then Fresh else View) (Res c f b) (TPiece c f b);
                            Copy (TPiece c f b) (TRes c f b); Deliver (TRes c f b)]) fs) = true.
Proof.
  induction fs as [|f fs IH]; intros D; [reflexivity|]. cbn [flat_map].
  apply wt_app; [|exact IH].
  destruct (transformed p f); cbn; unfold mem; cbn; destruct f; cbn; rewrite ?Nat.eqb_refl; reflexivity.
Qed.

Lemma wt_block c p b : forall D, wt D (block_ops head c p b) = true.
Proof.
  intros D. apply wt_closed. unfold block_ops. rewrite !app_assoc. apply wt_app.
  2:{ intros D'. destruct (p_user p); [apply wt_user | reflexivity]. }
  destruct p as [s con to tc tv us]. unfold propagate_ops, cond, mem. cbn [p_shape p_con head bug_var bug_info bug_nan].
  destruct (grad_block s b); destruct con; cbn; rewrite ?Nat.eqb_refl; reflexivity.
Qed.

Lemma wt_blocks c p bs : forall D, wt D (flat_map (block_ops head c p) bs) = true.
Proof.
  induction bs as [|b bs IH]; intros D; [reflexivity|]. cbn [flat_map].
  apply wt_app; [apply wt_block | exact IH].
Qed.

Lemma wt_call c p : forall D, wt D (call_ops head c p) = true.
Proof.
  intros D. unfold call_ops. apply wt_app; [apply wt_closed, wt_request|]. intros D'.
  apply wt_app; [apply wt_closed, wt_transform | apply wt_blocks].
Qed.

Lemma wt_reuse c : forall D, wt D (reuse_ops c) = true.
Proof.
  intros D. unfold reuse_ops. cbn [app wt]. generalize (seq 0 (S c)) as l.
  induction l as [|c' l IH]; [reflexivity|]. cbn. exact IH.
Qed.

Lemma wt_history ps : forall c D, wt D (history_ops head c ps) = true.
Proof.
  induction ps as [|p ps IH]; intros c D; [reflexivity|]. cbn [history_ops].
  apply wt_app; [apply wt_call|]. intros D'. apply wt_app; [apply wt_reuse | apply IH].
Qed.

Theorem history_good ps c : Forall good (run init (history_ops head c ps)).
Proof.
  apply (wt_sound _ [] init inv_init); [intros r Hr; discriminate | apply wt_history].
Qed.

Theorem history_no_foreign_write ps : monitor_codes head ps = [].
Proof.
  unfold monitor_codes. pose proof (history_good ps 0) as H.
  rewrite (good_not_foreign _ H), (good_no_late_writes _ H). reflexivity.
Qed.
