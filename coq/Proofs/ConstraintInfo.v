(* Proofs/ConstraintInfo.v -- lemmas about Model/ConstraintInfo.v (C13). *)
From Coq Require Import QArith Qminmax List Bool Lqa Lia.
From Ropt Require Import Base.Num Base.ListX Model.ConstraintInfo.
Import ListNotations.
Open Scope Q_scope.

(* ---- extended reals ------------------------------------------------------------- *)
Lemma eeq_refl a : eeq a a.
Proof. destruct a; cbn; auto; reflexivity. Qed.
Lemma eeq_sym a b : eeq a b -> eeq b a.
Proof. destruct a, b; cbn; auto; intros H; symmetry; exact H. Qed.
Lemma eeq_trans a b c : eeq a b -> eeq b c -> eeq a c.
Proof. destruct a, b, c; cbn; auto; try contradiction. intros H1 H2; rewrite H1; exact H2. Qed.

Lemma ele_eeq a a' b b' : eeq a a' -> eeq b b' -> ele a b = ele a' b'.
Proof.
  destruct a, a', b, b'; cbn; try contradiction; auto.
  intros H1 H2. unfold Qleb. destruct (Qle_bool q0 q2) eqn:E.
  - apply Qle_bool_iff. apply Qle_bool_iff in E. lra.
  - destruct (Qle_bool q q1) eqn:E2; auto. apply Qle_bool_iff in E2.
    assert (H : q0 <= q2) by lra. apply Qle_bool_iff in H. congruence.
Qed.
Lemma elt_eeq a a' b b' : eeq a a' -> eeq b b' -> elt a b = elt a' b'.
Proof. intros H1 H2. unfold elt. f_equal. apply ele_eeq; assumption. Qed.

Lemma ele_fin x y : ele (Fin x) (Fin y) = true <-> x <= y.
Proof. cbn. apply Qleb_le. Qed.
Lemma elt_fin x y : elt (Fin x) (Fin y) = true <-> x < y.
Proof. unfold elt; cbn. rewrite negb_true_iff. unfold Qleb. rewrite <- not_true_iff_false, Qle_bool_iff. split; intro; lra. Qed.
Lemma elt_false_ele a b : elt a b = false <-> ele b a = true.
Proof. unfold elt. apply negb_false_iff. Qed.

(* ---- differences ------------------------------------------------------------------ *)
Lemma ediff_fin v b : ediff v (Fin b) = Fin (v - b). Proof. reflexivity. Qed.
Lemma ediff_ninf v : ediff v NInf = PInf. Proof. reflexivity. Qed.
Lemma ediff_pinf v : ediff v PInf = NInf. Proof. reflexivity. Qed.

(* ---- the violation formula ---------------------------------------------------------- *)
(* max(lower - value, value - upper, 0) over the extended reals *)
Definition viol_spec (l u : ereal) (v : Q) : ereal := emax (emax (esub_r l v) (ediff v u)) (Fin 0).

Ltac efin := auto; try reflexivity; try lra; try (apply Qle_bool_iff; lra); try (exfalso; lra).
Ltac excase := unfold viol1, viol_spec, emax, elt, ele, eneg, ediff, esub_l, esub_r, Qleb; cbn.

Lemma violation_formula l u v : eeq (viol1 (ediff v l) (ediff v u)) (viol_spec l u v).
Proof.
  destruct l as [|a|], u as [|b|]; excase; repeat (qb; cbn); auto; try lra; try reflexivity.
Qed.

(* inside the bounds (in the extended sense): lower <= value <= upper *)
Definition inside (l u : ereal) (v : Q) : Prop := ele l (Fin v) = true /\ ele (Fin v) u = true.

Lemma violation_zero_iff l u v : eeq (viol1 (ediff v l) (ediff v u)) (Fin 0) <-> inside l u v.
Proof.
  unfold inside. destruct l as [|a|], u as [|b|]; excase; repeat (qb; cbn); split; intros; repeat split; auto;
    try lra; try discriminate; try tauto;
    try (match goal with H : _ /\ _ |- _ => destruct H end; try discriminate; lra).
Qed.

Lemma violation_nonneg l u v : ele (Fin 0) (viol1 (ediff v l) (ediff v u)) = true.
Proof. destruct l as [|a|], u as [|b|]; excase; repeat (qb; cbn); efin. Qed.

Lemma violation_positive_iff l u v : elt (Fin 0) (viol1 (ediff v l) (ediff v u)) = true <-> ~ inside l u v.
Proof.
  rewrite <- violation_zero_iff. pose proof (violation_nonneg l u v) as Hn.
  destruct (viol1 (ediff v l) (ediff v u)) as [|w|]; cbn in *; try discriminate.
  - rewrite elt_fin. apply Qleb_le in Hn. split; intros H; [lra|].
    destruct (Qlt_le_dec 0 w) as [|Hle]; auto. exfalso. apply H. lra.
  - split; auto.
Qed.

(* value below a finite lower bound: the violation is at least lower - value *)
Lemma violation_ge_lower a u v : ele (Fin (a - v)) (viol1 (ediff v (Fin a)) (ediff v u)) = true.
Proof. destruct u as [|b|]; excase; repeat (qb; cbn); efin. Qed.
Lemma violation_ge_upper l b v : ele (Fin (v - b)) (viol1 (ediff v l) (ediff v (Fin b))) = true.
Proof. destruct l as [|a|]; excase; repeat (qb; cbn); efin. Qed.

Lemma ele_trans a b c : ele a b = true -> ele b c = true -> ele a c = true.
Proof.
  destruct a, b, c; cbn; auto; try discriminate. unfold Qleb. rewrite !Qle_bool_iff. intros; lra.
Qed.
Lemma elt_ele_trans a b c : elt a b = true -> ele b c = true -> elt a c = true.
Proof.
  unfold elt. rewrite !negb_true_iff. intros H1 H2. destruct (ele c a) eqn:E; auto.
  rewrite (ele_trans _ _ _ H2 E) in H1. discriminate.
Qed.

(* ---- zipw ------------------------------------------------------------------------------ *)
Lemma zipw_nth {A B C} (f : A -> B -> C) a b i :
  nth_error (zipw f a b) i =
  match nth_error a i, nth_error b i with Some x, Some y => Some (f x y) | _, _ => None end.
Proof.
  revert b i; induction a as [|x a IH]; intros [|y b] [|i]; cbn; auto.
  destruct (nth_error a i); reflexivity.
Qed.
Lemma zipw_length {A B C} (f : A -> B -> C) a b : length (zipw f a b) = Nat.min (length a) (length b).
Proof. revert b; induction a as [|x a IH]; intros [|y b]; cbn; auto. Qed.

Lemma zipw_map_l {A A' B C} (f : A' -> B -> C) (g : A -> A') a b :
  zipw f (map g a) b = zipw (fun x y => f (g x) y) a b.
Proof. revert b; induction a as [|x a IH]; intros [|y b]; cbn; auto. f_equal. apply IH. Qed.

(* ---- one family ------------------------------------------------------------------------ *)
Lemma mk_family_nth vals lb ub i v l u :
  nth_error vals i = Some v -> nth_error lb i = Some l -> nth_error ub i = Some u ->
  nth_error (f_lower (mk_family vals lb ub)) i = Some (ediff v l) /\
  nth_error (f_upper (mk_family vals lb ub)) i = Some (ediff v u) /\
  nth_error (f_viol (mk_family vals lb ub)) i = Some (viol1 (ediff v l) (ediff v u)).
Proof.
  intros Hv Hl Hu. unfold mk_family, family_of_diffs; cbn.
  rewrite !zipw_nth, Hv, Hl, Hu. auto.
Qed.

Lemma mk_family_lengths vals lb ub : length lb = length vals -> length ub = length vals ->
  length (f_lower (mk_family vals lb ub)) = length vals /\
  length (f_upper (mk_family vals lb ub)) = length vals /\
  length (f_viol (mk_family vals lb ub)) = length vals.
Proof.
  intros H1 H2. unfold mk_family, family_of_diffs; cbn. rewrite !zipw_length, H1, H2. lia.
Qed.

Lemma existsb_nth {A} (p : A -> bool) l i x : nth_error l i = Some x -> p x = true -> existsb p l = true.
Proof. intros H Hp. apply existsb_exists. exists x. split; [eapply nth_error_In; exact H | exact Hp]. Qed.

(* a value farther than tol outside a finite bound makes the family exceed the tolerance *)
Lemma family_exceeds_lower t vals lb ub i v a u :
  nth_error vals i = Some v -> nth_error lb i = Some (Fin a) -> nth_error ub i = Some u ->
  t < a - v -> fam_exceeds t (Some (mk_family vals lb ub)) = true.
Proof.
  intros Hv Hl Hu Hlt. destruct (mk_family_nth _ _ _ _ _ _ _ Hv Hl Hu) as (_ & _ & Hn). cbn [fam_exceeds].
  eapply existsb_nth; [exact Hn|]. eapply elt_ele_trans; [|apply violation_ge_lower]. apply elt_fin. exact Hlt.
Qed.
Lemma family_exceeds_upper t vals lb ub i v l b :
  nth_error vals i = Some v -> nth_error lb i = Some l -> nth_error ub i = Some (Fin b) ->
  t < v - b -> fam_exceeds t (Some (mk_family vals lb ub)) = true.
Proof.
  intros Hv Hl Hu Hlt. destruct (mk_family_nth _ _ _ _ _ _ _ Hv Hl Hu) as (_ & _ & Hn). cbn [fam_exceeds].
  eapply existsb_nth; [exact Hn|]. eapply elt_ele_trans; [|apply violation_ge_upper]. apply elt_fin. exact Hlt.
Qed.

(* all values inside => every violation is (==) zero => within every non-negative tolerance *)
Lemma zipw3_inside t vals lb ub : 0 <= t ->
  (forall i v l u, nth_error vals i = Some v -> nth_error lb i = Some l -> nth_error ub i = Some u -> inside l u v) ->
  existsb (fun w => elt (Fin t) w) (f_viol (mk_family vals lb ub)) = false.
Proof.
  intros Ht H. apply not_true_iff_false. intros E. apply existsb_exists in E as (w & Hin & Hw).
  apply In_nth_error in Hin as (i & Hi). unfold mk_family, family_of_diffs in Hi; cbn in Hi.
  rewrite !zipw_nth in Hi.
  destruct (nth_error vals i) as [v|] eqn:Ev; [|discriminate].
  destruct (nth_error lb i) as [l|] eqn:El; [|discriminate].
  destruct (nth_error ub i) as [u|] eqn:Eu; [|discriminate].
  injection Hi as <-. specialize (H i v l u Ev El Eu). apply violation_zero_iff in H.
  rewrite (elt_eeq _ (Fin t) _ (Fin 0) (eeq_refl _) H) in Hw. apply elt_fin in Hw. lra.
Qed.

(* ---- create ---------------------------------------------------------------------------- *)
Definition bound_part (cfg : ccfg) (x : list Q) : option family :=
  if any_finite cfg then Some (mk_family x (v_lower cfg) (v_upper cfg)) else None.
Definition linear_part (cfg : ccfg) (x : list Q) : option family :=
  match c_linear cfg with
  | Some lc => Some (mk_family (matvec (l_coef lc) x) (l_lower lc) (l_upper lc)) | None => None end.
Definition nonlinear_part (cfg : ccfg) (cons : option (list Q)) : option family :=
  match cons, c_nonlinear cfg with Some c, Some (lo, up) => Some (mk_family c lo up) | _, _ => None end.

(* the constraint values are only passed when non-linear constraints are configured *)
Definition wf_cons (cfg : ccfg) (cons : option (list Q)) : Prop := cons = None \/ c_nonlinear cfg <> None.

Lemma create_spec cfg x cons : wf_cons cfg cons ->
  match create cfg x cons with
  | CErr => False
  | CNone => bound_part cfg x = None /\ linear_part cfg x = None /\ nonlinear_part cfg cons = None
  | CInfo ci => ci_bound ci = bound_part cfg x /\ ci_linear ci = linear_part cfg x /\
                ci_nonlinear ci = nonlinear_part cfg cons /\
                ~ (bound_part cfg x = None /\ linear_part cfg x = None /\ nonlinear_part cfg cons = None)
  end.
Proof.
  intros Hwf. unfold create, bound_part, linear_part, nonlinear_part.
  destruct cons as [c|], (c_nonlinear cfg) as [[lo up]|] eqn:En;
    try (destruct Hwf as [Hwf|Hwf]; [discriminate | congruence]);
    destruct (any_finite cfg), (c_linear cfg); cbn; repeat split; auto; intros (H1 & H2 & H3); discriminate.
Qed.

Lemma create_err_iff cfg x cons : create cfg x cons = CErr <-> ~ wf_cons cfg cons.
Proof.
  unfold create, wf_cons. destruct cons as [c|], (c_nonlinear cfg) as [[lo up]|]; split; intros H;
    try (destruct (any_finite cfg), (c_linear cfg); discriminate); try reflexivity.
  - exfalso. apply H. right. discriminate.
  - intros [E|E]; [discriminate | apply E; reflexivity].
  - exfalso. apply H. left. reflexivity.
  - exfalso. apply H. left. reflexivity.
Qed.

(* bound information exists whenever at least one bound is finite *)
Lemma create_bound_info cfg x cons : wf_cons cfg cons -> any_finite cfg = true ->
  exists ci, create cfg x cons = CInfo ci /\ ci_bound ci = Some (mk_family x (v_lower cfg) (v_upper cfg)).
Proof.
  intros Hwf Hf. pose proof (create_spec cfg x cons Hwf) as H. unfold bound_part in H. rewrite Hf in H.
  destruct (create cfg x cons) as [| |ci]; [contradiction | destruct H as (H & _); discriminate |].
  exists ci. split; [reflexivity | apply H].
Qed.

Lemma any_finite_nth_lower cfg i a : nth_error (v_lower cfg) i = Some (Fin a) -> any_finite cfg = true.
Proof. intros H. unfold any_finite. rewrite (existsb_nth efinite _ _ _ H); reflexivity. Qed.
Lemma any_finite_nth_upper cfg i b : nth_error (v_upper cfg) i = Some (Fin b) -> any_finite cfg = true.
Proof. intros H. unfold any_finite. rewrite (existsb_nth efinite _ _ _ H), orb_true_r; reflexivity. Qed.

(* ---- feasibility ------------------------------------------------------------------------ *)
Definition fam_within (t : Q) (f : option family) : Prop :=
  match f with Some f => Forall (fun w => ele w (Fin t) = true) (f_viol f) | None => True end.

Lemma fam_exceeds_false_iff t f : fam_exceeds t f = false <-> fam_within t f.
Proof.
  destruct f as [f|]; cbn; [|tauto]. rewrite Forall_forall. split.
  - intros H w Hin. apply elt_false_ele. apply not_true_iff_false. intros E.
    apply not_true_iff_false in H. apply H. apply existsb_exists. exists w. auto.
  - intros H. apply not_true_iff_false. intros E. apply existsb_exists in E as (w & Hin & Hw).
    specialize (H w Hin). apply elt_false_ele in H. congruence.
Qed.

Lemma feasible_iff t ci :
  feasible (Some t) (Some ci) = true <->
  fam_within t (ci_bound ci) /\ fam_within t (ci_linear ci) /\ fam_within t (ci_nonlinear ci).
Proof.
  unfold feasible, violates. rewrite negb_true_iff, !orb_false_iff, !fam_exceeds_false_iff. tauto.
Qed.

Lemma feasible_no_tolerance ci : feasible None ci = true.
Proof. reflexivity. Qed.
Lemma feasible_no_info t : feasible t None = true.
Proof. destruct t; reflexivity. Qed.

(* ---- detection: outside a finite bound by more than the tolerance => infeasible ----------- *)
Lemma outside_bound_detected cfg x cons t i v l u :
  wf_cons cfg cons ->
  nth_error x i = Some v -> nth_error (v_lower cfg) i = Some l -> nth_error (v_upper cfg) i = Some u ->
  (exists a, l = Fin a /\ t < a - v) \/ (exists b, u = Fin b /\ t < v - b) ->
  exists ci, create cfg x cons = CInfo ci /\ feasible (Some t) (Some ci) = false.
Proof.
  intros Hwf Hv Hl Hu Hout.
  assert (Hf : any_finite cfg = true).
  { destruct Hout as [(a & -> & _)|(b & -> & _)]; [eapply any_finite_nth_lower | eapply any_finite_nth_upper]; eauto. }
  destruct (create_bound_info cfg x cons Hwf Hf) as (ci & Hc & Hb). exists ci. split; [exact Hc|].
  unfold feasible, violates. rewrite Hb. apply negb_false_iff.
  destruct Hout as [(a & -> & Hlt)|(b & -> & Hlt)].
  - rewrite (family_exceeds_lower t _ _ _ _ _ _ _ Hv Hl Hu Hlt). reflexivity.
  - rewrite (family_exceeds_upper t _ _ _ _ _ _ _ Hv Hl Hu Hlt). reflexivity.
Qed.

Lemma matvec_nth A x i r : nth_error A i = Some r -> nth_error (matvec A x) i = Some (dot r x).
Proof. intros H. unfold matvec. rewrite nth_error_map, H. reflexivity. Qed.

Lemma outside_linear_detected cfg lc x cons t i r l u :
  wf_cons cfg cons -> c_linear cfg = Some lc ->
  nth_error (l_coef lc) i = Some r -> nth_error (l_lower lc) i = Some l -> nth_error (l_upper lc) i = Some u ->
  (exists a, l = Fin a /\ t < a - dot r x) \/ (exists b, u = Fin b /\ t < dot r x - b) ->
  exists ci, create cfg x cons = CInfo ci /\ feasible (Some t) (Some ci) = false.
Proof.
  intros Hwf Hlc Hr Hl Hu Hout. pose proof (create_spec cfg x cons Hwf) as H.
  unfold linear_part in H. rewrite Hlc in H.
  destruct (create cfg x cons) as [| |ci]; [contradiction | destruct H as (_ & H & _); discriminate |].
  destruct H as (_ & Hlin & _). exists ci. split; [reflexivity|].
  unfold feasible, violates. rewrite Hlin. apply negb_false_iff.
  pose proof (matvec_nth _ x _ _ Hr) as Hv.
  destruct Hout as [(a & -> & Hlt)|(b & -> & Hlt)].
  - rewrite (family_exceeds_lower t _ _ _ _ _ _ _ Hv Hl Hu Hlt). apply orb_true_iff. left. apply orb_true_r.
  - rewrite (family_exceeds_upper t _ _ _ _ _ _ _ Hv Hl Hu Hlt). apply orb_true_iff. left. apply orb_true_r.
Qed.

Lemma outside_nonlinear_detected cfg x c lo up t i v l u :
  c_nonlinear cfg = Some (lo, up) ->
  nth_error c i = Some v -> nth_error lo i = Some l -> nth_error up i = Some u ->
  (exists a, l = Fin a /\ t < a - v) \/ (exists b, u = Fin b /\ t < v - b) ->
  exists ci, create cfg x (Some c) = CInfo ci /\ feasible (Some t) (Some ci) = false.
Proof.
  intros Hn Hv Hl Hu Hout.
  assert (Hwf : wf_cons cfg (Some c)) by (right; congruence).
  pose proof (create_spec cfg x (Some c) Hwf) as H. unfold nonlinear_part in H. rewrite Hn in H.
  destruct (create cfg x (Some c)) as [| |ci]; [contradiction | destruct H as (_ & _ & H); discriminate |].
  destruct H as (_ & _ & Hnl & _). exists ci. split; [reflexivity|].
  unfold feasible, violates. rewrite Hnl. apply negb_false_iff.
  destruct Hout as [(a & -> & Hlt)|(b & -> & Hlt)].
  - rewrite (family_exceeds_lower t _ _ _ _ _ _ _ Hv Hl Hu Hlt). apply orb_true_r.
  - rewrite (family_exceeds_upper t _ _ _ _ _ _ _ Hv Hl Hu Hlt). apply orb_true_r.
Qed.

(* everything inside its bounds => feasible for every non-negative tolerance *)
Lemma inside_feasible cfg x cons t : 0 <= t ->
  (forall i v l u, nth_error x i = Some v -> nth_error (v_lower cfg) i = Some l ->
                   nth_error (v_upper cfg) i = Some u -> inside l u v) ->
  (forall lc i v l u, c_linear cfg = Some lc -> nth_error (matvec (l_coef lc) x) i = Some v ->
                   nth_error (l_lower lc) i = Some l -> nth_error (l_upper lc) i = Some u -> inside l u v) ->
  (forall c lo up i v l u, cons = Some c -> c_nonlinear cfg = Some (lo, up) -> nth_error c i = Some v ->
                   nth_error lo i = Some l -> nth_error up i = Some u -> inside l u v) ->
  feasible (Some t) (info_of (create cfg x cons)) = true.
Proof.
  intros Ht Hb Hl Hn. unfold feasible. apply negb_true_iff.
  destruct (create cfg x cons) as [| |ci] eqn:Ec; cbn [info_of violates]; auto.
  assert (Hwf : wf_cons cfg cons).
  { destruct (create_err_iff cfg x cons) as [_ H]. unfold wf_cons.
    destruct cons as [c|]; [|left; reflexivity]. destruct (c_nonlinear cfg) eqn:E; [right; discriminate|].
    exfalso. unfold create in Ec. rewrite E in Ec. discriminate. }
  pose proof (create_spec cfg x cons Hwf) as H. rewrite Ec in H. destruct H as (H1 & H2 & H3 & _).
  rewrite H1, H2, H3. unfold bound_part, linear_part, nonlinear_part.
  apply orb_false_iff; split; [apply orb_false_iff; split|].
  - destruct (any_finite cfg); cbn [fam_exceeds]; auto. apply zipw3_inside; auto.
  - destruct (c_linear cfg) as [lc|] eqn:E; cbn [fam_exceeds]; auto. apply zipw3_inside; auto.
    intros i v l u. apply Hl. reflexivity.
  - destruct cons as [c|]; cbn [fam_exceeds]; auto. destruct (c_nonlinear cfg) as [[lo up]|] eqn:E; cbn [fam_exceeds]; auto.
    apply zipw3_inside; auto. intros i v l u. eapply Hn; reflexivity.
Qed.

(* ---- feasibility for every tolerance / info combination ------------------------------------------- *)
Lemma feasible_total tol ci :
  feasible tol ci = true <->
  match tol, ci with
  | Some t, Some c => fam_within t (ci_bound c) /\ fam_within t (ci_linear c) /\ fam_within t (ci_nonlinear c)
  | _, _ => True
  end.
Proof.
  destruct tol as [t|], ci as [c|]; try (split; [trivial | intros _; try apply feasible_no_tolerance; apply feasible_no_info]).
  apply feasible_iff.
Qed.

(* ---- which result the trackers retain --------------------------------------------------------------- *)
Lemma last_ok_none tol items : forall i,
  last_ok tol items i = None <-> (forall k it, nth_error items k = Some it -> ti_ok tol it = false).
Proof.
  induction items as [|a r IH]; intros i; cbn [last_ok].
  - split; [intros _ k it H; destruct k; discriminate | reflexivity].
  - split.
    + intros H k it Hk. destruct (last_ok tol r (S i)) eqn:E; [discriminate|].
      destruct (ti_ok tol a) eqn:Ea; [discriminate|].
      destruct k as [|k]; cbn in Hk; [injection Hk as <-; exact Ea | exact (proj1 (IH (S i)) E k it Hk)].
    + intros H. rewrite (proj2 (IH (S i)) (fun k it Hk => H (S k) it Hk)). rewrite (H 0%nat a eq_refl). reflexivity.
Qed.

Lemma last_ok_some tol items : forall i j,
  last_ok tol items i = Some j ->
  exists k it, j = (i + k)%nat /\ nth_error items k = Some it /\ ti_ok tol it = true /\
    forall k' it', (k < k')%nat -> nth_error items k' = Some it' -> ti_ok tol it' = false.
Proof.
  induction items as [|a r IH]; intros i j; cbn [last_ok]; [discriminate|].
  destruct (last_ok tol r (S i)) as [j'|] eqn:E.
  - intros H; injection H as <-. destruct (IH (S i) j' E) as (k & it & -> & Hk & Hok & Hlater).
    exists (S k), it. repeat split; [lia | exact Hk | exact Hok |].
    intros k' it' Hlt Hk'. destruct k' as [|k']; [lia|]. apply (Hlater k' it'); [lia | exact Hk'].
  - destruct (ti_ok tol a) eqn:Ea; [|discriminate]. intros H; injection H as <-.
    exists 0%nat, a. repeat split; [lia | exact Ea |].
    intros k' it' Hlt Hk'. destruct k' as [|k']; [lia|]. exact (proj1 (last_ok_none tol r (S i)) E k' it' Hk').
Qed.

Lemma best_ok_app tol l x : forall i cur,
  best_ok tol (l ++ [x]) i cur = best_step tol (i + length l) x (best_ok tol l i cur).
Proof.
  induction l as [|a l IH]; intros i cur; cbn [app best_ok length].
  - rewrite Nat.add_0_r. reflexivity.
  - rewrite IH. rewrite Nat.add_succ_r. reflexivity.
Qed.

(* the specification of the "best" choice among the delivered items: an admissible item (function values present,
   every violation within the tolerance) with a numeric objective, of minimal objective, the first such *)
Definition best_spec (tol : option Q) (items : list titem) (res : option (nat * Q)) : Prop :=
  match res with
  | None => forall k it, nth_error items k = Some it -> ti_ok tol it = true -> ti_obj it = None
  | Some (j, o) =>
      (exists it, nth_error items j = Some it /\ ti_ok tol it = true /\ ti_obj it = Some o) /\
      (forall k it' o', nth_error items k = Some it' -> ti_ok tol it' = true -> ti_obj it' = Some o' ->
                        o <= o' /\ ((k < j)%nat -> o < o'))
  end.

Lemma nth_error_snoc {A} (l : list A) x k y : nth_error (l ++ [x]) k = Some y ->
  ((k < length l)%nat /\ nth_error l k = Some y) \/ (k = length l /\ y = x).
Proof.
  intros H. destruct (Nat.lt_ge_cases k (length l)) as [Hlt|Hge].
  - left. split; [exact Hlt|]. rewrite nth_error_app1 in H by exact Hlt. exact H.
  - right. rewrite nth_error_app2 in H by exact Hge.
    destruct (k - length l)%nat as [|d] eqn:Ed; cbn in H.
    + injection H as <-. split; [lia | reflexivity].
    + destruct d; discriminate.
Qed.

Lemma best_ok_spec tol items : best_spec tol items (best_ok tol items 0 None).
Proof.
  induction items as [|x l IH] using rev_ind.
  - cbn. intros k it H; destruct k; discriminate.
  - rewrite best_ok_app. cbn [Nat.add]. set (res := best_ok tol l 0 None) in *.
    unfold best_step. destruct (ti_ok tol x) eqn:Eok; [destruct (ti_obj x) as [ox|] eqn:Eobj|].
    + (* admissible, numeric objective *)
      destruct res as [[j o]|]; cbn [improves].
      * destruct IH as ((it & Hj & Hjok & Hjobj) & Hmin).
        assert (Hjl : (j < length l)%nat) by (apply nth_error_Some; rewrite Hj; discriminate).
        destruct (Qltb ox o) eqn:Elt.
        -- apply Qltb_lt in Elt. cbn. split.
           ++ exists x. rewrite nth_error_app2 by lia. rewrite Nat.sub_diag. cbn. auto.
           ++ intros k it' o' Hk Hok Hobj. destruct (nth_error_snoc _ _ _ _ Hk) as [(Hlt & Hk')|(-> & ->)].
              ** destruct (Hmin k it' o' Hk' Hok Hobj) as (Hle & _). split; [lra | intros _; lra].
              ** rewrite Eobj in Hobj; injection Hobj as <-. split; [lra | lia].
        -- apply Qltb_nlt in Elt. cbn. split.
           ++ exists it. rewrite nth_error_app1 by exact Hjl. auto.
           ++ intros k it' o' Hk Hok Hobj. destruct (nth_error_snoc _ _ _ _ Hk) as [(Hlt & Hk')|(-> & ->)].
              ** exact (Hmin k it' o' Hk' Hok Hobj).
              ** rewrite Eobj in Hobj; injection Hobj as <-. split; [lra | lia].
      * cbn. cbn in IH. split.
        -- exists x. rewrite nth_error_app2 by lia. rewrite Nat.sub_diag. cbn. auto.
        -- intros k it' o' Hk Hok Hobj. destruct (nth_error_snoc _ _ _ _ Hk) as [(Hlt & Hk')|(-> & ->)].
           ++ rewrite (IH k it' Hk' Hok) in Hobj. discriminate.
           ++ rewrite Eobj in Hobj; injection Hobj as <-. split; [lra | lia].
    + (* admissible, objective is NaN: never chosen *)
      destruct res as [[j o]|]; cbn in IH |- *.
      * destruct IH as ((it & Hj & Hjok & Hjobj) & Hmin).
        assert (Hjl : (j < length l)%nat) by (apply nth_error_Some; rewrite Hj; discriminate). split.
        -- exists it. rewrite nth_error_app1 by exact Hjl. auto.
        -- intros k it' o' Hk Hok Hobj. destruct (nth_error_snoc _ _ _ _ Hk) as [(Hlt & Hk')|(-> & ->)].
           ++ exact (Hmin k it' o' Hk' Hok Hobj).
           ++ rewrite Eobj in Hobj. discriminate.
      * intros k it Hk Hok. destruct (nth_error_snoc _ _ _ _ Hk) as [(Hlt & Hk')|(-> & ->)]; [exact (IH k it Hk' Hok) | exact Eobj].
    + (* not admissible: never chosen *)
      destruct res as [[j o]|]; cbn in IH |- *.
      * destruct IH as ((it & Hj & Hjok & Hjobj) & Hmin).
        assert (Hjl : (j < length l)%nat) by (apply nth_error_Some; rewrite Hj; discriminate). split.
        -- exists it. rewrite nth_error_app1 by exact Hjl. auto.
        -- intros k it' o' Hk Hok Hobj. destruct (nth_error_snoc _ _ _ _ Hk) as [(Hlt & Hk')|(-> & ->)].
           ++ exact (Hmin k it' o' Hk' Hok Hobj).
           ++ rewrite Eok in Hok. discriminate.
      * intros k it Hk Hok. destruct (nth_error_snoc _ _ _ _ Hk) as [(Hlt & Hk')|(-> & ->)]; [exact (IH k it Hk' Hok) |].
        rewrite Eok in Hok. discriminate.
Qed.

(* a retained result is admissible: function values present and every reported violation within the tolerance *)
Lemma ti_ok_within t it : ti_ok (Some t) it = true ->
  ti_fun it = true /\
  match ti_info it with
  | Some c => fam_within t (ci_bound c) /\ fam_within t (ci_linear c) /\ fam_within t (ci_nonlinear c)
  | None => True
  end.
Proof.
  unfold ti_ok. intros H. apply andb_true_iff in H as (Hf & Hfe). split; [exact Hf|].
  destruct (ti_info it) as [c|]; [apply feasible_iff; exact Hfe | exact I].
Qed.
