(* Proofs/EnsembleFilters.v -- C03: the realization filters commute with the removal of failed realizations.
   About Model/Filters.v (the filter models of C04/C05), using their rank characterisations (Proofs/Filters.v). *)
From Coq Require Import String QArith Qabs Bool Arith ZArith List Lia Lqa Sorted.
From Ropt Require Import Base.Num Base.ListX Model.Filters Proofs.SortX Proofs.Filters.
Import ListNotations.
Open Scope Q_scope.

(* ---- the survivors, by position ---------------------------------------------------------------------- *)
Lemma gather_successes_off {A} (d : A) failed : forall (l : list A) off, length failed = length l ->
  gather (map negb failed) l =
  map (fun s => nth (s - off) l d) (filter (fun r => negb (nth (r - off) failed true)) (seq off (length failed))).
Proof.
  induction failed as [|b failed IH]; intros [|v l] off HL; cbn in HL; try discriminate; [reflexivity|].
  injection HL as HL. cbn [length seq filter]. rewrite Nat.sub_diag. change (nth 0 (b :: failed) true) with b.
  assert (E : map (fun s => nth (s - off) (v :: l) d)
                  (filter (fun r => negb (nth (r - off) (b :: failed) true)) (seq (S off) (length failed)))
              = gather (map negb failed) l).
  { rewrite (IH l (S off) HL).
    assert (Hf : filter (fun r => negb (nth (r - off) (b :: failed) true)) (seq (S off) (length failed))
                 = filter (fun r => negb (nth (r - S off) failed true)) (seq (S off) (length failed))).
    { apply filter_ext_in. intros r Hr. apply in_seq in Hr. replace (r - off)%nat with (S (r - S off)) by lia. reflexivity. }
    rewrite Hf. apply map_ext_in. intros r Hr. apply filter_In in Hr as [Hr _]. apply in_seq in Hr.
    replace (r - off)%nat with (S (r - S off)) by lia. reflexivity. }
  destruct b; cbn [negb gather map]; rewrite E; [reflexivity|]. rewrite Nat.sub_diag. reflexivity.
Qed.

Lemma gather_successes {A} (d : A) failed (l : list A) : length failed = length l ->
  gather (map negb failed) l = map (fun s => nth s l d) (successes failed).
Proof.
  intros HL. rewrite (gather_successes_off d failed l 0 HL). unfold successes, succeeded.
  assert (Hf : filter (fun r => negb (nth (r - 0) failed true)) (seq 0 (length failed))
               = filter (fun r => negb (nth r failed true)) (seq 0 (length failed))).
  { apply filter_ext. intros r. rewrite Nat.sub_0_r. reflexivity. }
  rewrite Hf. apply map_ext. intros r. rewrite Nat.sub_0_r. reflexivity.
Qed.

Lemma successes_sorted failed : StronglySorted lt (successes failed).
Proof.
  unfold successes. apply StronglySorted_filter.
  generalize 0%nat. generalize (length failed). intros n; induction n as [|n IH]; intros s; cbn [seq]; constructor; [apply IH|].
  apply Forall_forall. intros x Hx. apply in_seq in Hx. lia.
Qed.

Lemma successes_ltb failed i j : (i < length (successes failed))%nat -> (j < length (successes failed))%nat ->
  Nat.ltb (nth i (successes failed) 0%nat) (nth j (successes failed) 0%nat) = Nat.ltb i j.
Proof.
  intros Hi Hj. pose proof (successes_sorted failed) as HS.
  destruct (Nat.ltb_spec i j) as [H|H].
  - apply Nat.ltb_lt. apply (StronglySorted_nth lt _ 0%nat i j HS). lia.
  - apply Nat.ltb_ge. destruct (Nat.eq_dec i j) as [->|Hne]; [lia|].
    assert (Hlt : (nth j (successes failed) 0 < nth i (successes failed) 0)%nat)
      by (apply (StronglySorted_nth lt _ 0%nat j i HS); lia).
    lia.
Qed.

Lemma successes_none n : successes (repeat false n) = seq 0 n.
Proof.
  unfold successes. rewrite repeat_length. apply filter_all. intros r Hr. apply in_seq in Hr.
  unfold succeeded. rewrite nth_repeat_any by lia. reflexivity.
Qed.
Lemma count_ok_none n : count_ok (repeat false n) = n.
Proof. rewrite <- successes_length, successes_none. apply seq_length. Qed.

Lemma nth_map_lt {A B} (f : A -> B) l d d' i : (i < length l)%nat -> nth i (map f l) d' = f (nth i l d).
Proof. intros H. rewrite (nth_indep _ d' (f d)) by (rewrite map_length; exact H). apply map_nth. Qed.

Lemma Forall2_Qeq_nth (a b : list Q) : length a = length b ->
  (forall i, (i < length a)%nat -> nth i a 0 == nth i b 0) -> Forall2 Qeq a b.
Proof.
  revert b; induction a as [|x a IH]; intros [|y b] HL H; cbn in HL; try discriminate; constructor.
  - apply (H 0%nat). cbn. lia.
  - apply IH; [lia|]. intros i Hi. apply (H (S i)). cbn. lia.
Qed.

(* ---- ranks are preserved ------------------------------------------------------------------------------- *)
Section Removal.
  Variables (values : list Q) (failed : list bool).
  Hypothesis HL : length failed = length values.
  Let S := successes failed.
  Let n' := count_ok failed.
  Let values' := gather (map negb failed) values.
  Let failed' := repeat false n'.

  Lemma S_length : length S = n'.
  Proof. apply successes_length. Qed.
  Lemma values'_eq : values' = map (fun s => nth s values 0) S.
  Proof. apply gather_successes. exact HL. Qed.
  Lemma values'_length : length failed' = length values'.
  Proof. unfold failed'. rewrite repeat_length, values'_eq, map_length. symmetry. apply S_length. Qed.
  Lemma values'_nth i : (i < n')%nat -> nth i values' 0 = nth (nth i S 0%nat) values 0.
  Proof. intros Hi. rewrite values'_eq. apply (nth_map_lt (fun s => nth s values 0) S 0%nat). rewrite S_length. exact Hi. Qed.

  Lemma precedes_removal i j : (i < n')%nat -> (j < n')%nat ->
    precedes values' i j = precedes values (nth i S 0%nat) (nth j S 0%nat).
  Proof.
    intros Hi Hj. unfold precedes. rewrite !values'_nth by assumption.
    unfold S. rewrite successes_ltb by (fold S; rewrite S_length; assumption). reflexivity.
  Qed.

  Lemma emb_succeeded i : (i < n')%nat -> succeeded failed (nth i S 0%nat) = true.
  Proof.
    intros Hi. assert (Hin : In (nth i S 0%nat) S) by (apply nth_In; rewrite S_length; exact Hi).
    apply successes_In in Hin as [_ Hf]. unfold succeeded. rewrite Hf. reflexivity.
  Qed.
  Lemma succeeded' i : (i < n')%nat -> succeeded failed' i = true.
  Proof. intros Hi. unfold succeeded, failed'. rewrite nth_repeat_any by exact Hi. reflexivity. Qed.

  Lemma rank_removal i : (i < n')%nat -> rank values' failed' i = rank values failed (nth i S 0%nat).
  Proof.
    intros Hi. unfold rank. unfold failed'. rewrite successes_none. fold S.
    replace (filter (fun s => precedes values s (nth i S 0%nat)) S)
      with (filter (fun s => precedes values s (nth i S 0%nat)) (map (fun r => nth r S 0%nat) (seq 0 (length S))))
      by (rewrite <- list_map_nth; reflexivity).
    rewrite filter_map_comm, map_length, S_length.
    f_equal. apply filter_ext_in. intros s Hs. apply in_seq in Hs. apply precedes_removal; [lia | exact Hi].
  Qed.

  Lemma count_ok' : count_ok failed' = n'.
  Proof. apply count_ok_none. Qed.

  (* CVaR: the weights of the survivors are the CVaR weights of the reduced ensemble *)
  Theorem cvar_removal p : 0 < p -> p <= 1 ->
    Forall2 Qeq (gather (map negb failed) (cvar_weights p values failed)) (cvar_weights p values' failed').
  Proof.
    intros Hp Hp1.
    rewrite (gather_successes 0 failed (cvar_weights p values failed)) by (rewrite cvar_weights_length; exact HL). fold S.
    assert (Hlen : length (map (fun s => nth s (cvar_weights p values failed) 0) S) = length (cvar_weights p values' failed')).
    { rewrite map_length, cvar_weights_length, S_length, <- values'_length. unfold failed'. rewrite repeat_length. reflexivity. }
    assert (Hn : forall i, (i < n')%nat ->
                   nth i (map (fun s => nth s (cvar_weights p values failed) 0) S) 0 == nth i (cvar_weights p values' failed') 0).
    { intros i Hi. rewrite (nth_map_lt (fun s => nth s (cvar_weights p values failed) 0) S 0%nat) by (rewrite S_length; exact Hi).
      rewrite (cvar_weights_spec p values failed _ HL Hp Hp1), (cvar_weights_spec p values' failed' _ values'_length Hp Hp1).
      rewrite emb_succeeded, succeeded', count_ok', rank_removal by exact Hi. reflexivity. }
    apply Forall2_Qeq_nth; [exact Hlen|]. intros i Hi. apply Hn. rewrite map_length, S_length in Hi. exact Hi.
  Qed.

  (* sort: the window of the survivors is the window of the reduced ensemble (same ranks, same configured weights) *)
  Theorem sort_removal cfgw first last : length cfgw = length failed ->
    gather (map negb failed) (sort_and_select values cfgw failed first last) =
    sort_and_select values' (gather (map negb failed) cfgw) failed' first last.
  Proof.
    intros HC.
    assert (HC' : length (gather (map negb failed) cfgw) = length failed').
    { rewrite (gather_successes 0 failed cfgw) by (symmetry; exact HC). fold S.
      rewrite map_length, S_length. unfold failed'. rewrite repeat_length. reflexivity. }
    rewrite (gather_successes 0 failed (sort_and_select values cfgw failed first last))
      by (rewrite sort_and_select_length; symmetry; exact HC). fold S.
    apply (nth_ext _ _ 0 0).
    - rewrite map_length, sort_and_select_length, S_length, HC'. unfold failed'. rewrite repeat_length. reflexivity.
    - intros i Hi. rewrite map_length, S_length in Hi.
      rewrite (nth_map_lt (fun s => nth s (sort_and_select values cfgw failed first last) 0) S 0%nat) by (rewrite S_length; exact Hi).
      rewrite (sort_and_select_spec values cfgw failed first last _ HL HC).
      rewrite (sort_and_select_spec values' _ failed' first last _ values'_length HC').
      unfold selected. rewrite emb_succeeded, succeeded', rank_removal by exact Hi.
      rewrite (gather_successes 0 failed cfgw) by (symmetry; exact HC). fold S.
      rewrite (nth_map_lt (fun s => nth s cfgw 0) S 0%nat) by (rewrite S_length; exact Hi). reflexivity.
  Qed.
End Removal.

(* the statements without section-local names *)
Theorem cvar_commutes_with_removal p values failed : length failed = length values -> 0 < p -> p <= 1 ->
  Forall2 Qeq (gather (map negb failed) (cvar_weights p values failed))
              (cvar_weights p (gather (map negb failed) values) (repeat false (count_ok failed))) /\
  (forall r, nth r failed true = true -> nth r (cvar_weights p values failed) 0 = 0).
Proof.
  intros HL Hp Hp1. split; [apply cvar_removal; assumption|].
  intros r Hr. apply cvar_weights_zero; try assumption. left. unfold succeeded. rewrite Hr. reflexivity.
Qed.

Theorem sort_commutes_with_removal values cfgw failed first last :
  length failed = length values -> length cfgw = length failed ->
  gather (map negb failed) (sort_and_select values cfgw failed first last) =
  sort_and_select (gather (map negb failed) values) (gather (map negb failed) cfgw) (repeat false (count_ok failed)) first last /\
  (forall r, nth r failed true = true -> nth r (sort_and_select values cfgw failed first last) 0 = 0).
Proof.
  intros HL HC. split; [apply sort_removal; assumption|].
  intros r Hr. rewrite (sort_and_select_spec values cfgw failed first last r HL HC).
  unfold selected, succeeded. rewrite Hr. reflexivity.
Qed.

(* both filters at once, in the form of Props/C03.v *)
Theorem filters_commute_with_removal values failed : length failed = length values ->
  (forall p, 0 < p -> p <= 1 ->
     Forall2 Qeq (gather (map negb failed) (cvar_weights p values failed))
                 (cvar_weights p (gather (map negb failed) values) (repeat false (count_ok failed))) /\
     (forall r, nth r failed true = true -> nth r (cvar_weights p values failed) 0 = 0)) /\
  (forall cfgw first last, length cfgw = length failed ->
     gather (map negb failed) (sort_and_select values cfgw failed first last) =
     sort_and_select (gather (map negb failed) values) (gather (map negb failed) cfgw) (repeat false (count_ok failed)) first last /\
     (forall r, nth r failed true = true -> nth r (sort_and_select values cfgw failed first last) 0 = 0)).
Proof.
  intros HL. split.
  - intros p Hp Hp1. exact (cvar_commutes_with_removal p values failed HL Hp Hp1).
  - intros cfgw first last HC. exact (sort_commutes_with_removal values cfgw failed first last HL HC).
Qed.
