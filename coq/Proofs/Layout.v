(* Proofs/Layout.v -- lemmas about Model/Layout.v (C06 a, b, c). *)
From Coq Require Import QArith ZArith List Bool Arith Lia Lqa FinFun Permutation.
From Ropt Require Import Base.Num Base.ListX Model.Layout.
Import ListNotations.
Open Scope Q_scope.

Local Arguments firstn : simpl never.
Local Arguments skipn : simpl never.

(* ---- generic list facts ------------------------------------------------------------------------ *)
Lemma combine_app {A B} (a1 a2 : list A) (b1 b2 : list B) : length a1 = length b1 ->
  combine (a1 ++ a2) (b1 ++ b2) = combine a1 b1 ++ combine a2 b2.
Proof.
  revert b1; induction a1 as [|x a1 IH]; intros [|y b1] H; cbn in *; try discriminate; [reflexivity|].
  f_equal. apply IH. lia.
Qed.

Lemma combine_repeat_l {A B} (r : A) (l : list B) : combine (repeat r (length l)) l = map (fun p => (r, p)) l.
Proof. induction l as [|y l IH]; cbn; [reflexivity | now rewrite IH]. Qed.

Lemma combine_repeat_r {A B} (l : list A) (r : B) : combine l (repeat r (length l)) = map (fun p => (p, r)) l.
Proof. induction l as [|y l IH]; cbn; [reflexivity | now rewrite IH]. Qed.

Lemma np_repeat_length {A} (l : list A) n : length (np_repeat l n) = (length l * n)%nat.
Proof.
  unfold np_repeat. induction l as [|x l IH]; cbn; [reflexivity|]. rewrite app_length, repeat_length, IH. lia.
Qed.

Lemma np_tile_length {A} (l : list A) n : length (np_tile l n) = (n * length l)%nat.
Proof.
  unfold np_tile. induction n as [|n IH]; cbn; [reflexivity|]. rewrite app_length, IH. lia.
Qed.

(* np.repeat / np.tile pair up to the cartesian product, in row-major order *)
Lemma repeat_tile_product {A B} (l : list A) (ps : list B) :
  combine (np_repeat l (length ps)) (np_tile ps (length l)) = list_prod l ps.
Proof.
  unfold np_repeat, np_tile. induction l as [|r l IH]; cbn; [reflexivity|].
  rewrite combine_app by (now rewrite repeat_length). rewrite combine_repeat_l, IH. reflexivity.
Qed.

Lemma zseq_length n : length (zseq n) = n.
Proof. unfold zseq. now rewrite map_length, seq_length. Qed.

Lemma zseq_NoDup n : NoDup (zseq n).
Proof. unfold zseq. apply Injective_map_NoDup; [intros a b H; now apply Nat2Z.inj | apply seq_NoDup]. Qed.

Lemma in_zseq n z : In z (zseq n) <-> (0 <= z < Z.of_nat n)%Z.
Proof.
  unfold zseq. rewrite in_map_iff. split.
  - intros (k & <- & Hk). apply in_seq in Hk. lia.
  - intros H. exists (Z.to_nat z). split; [lia | apply in_seq; lia].
Qed.

Lemma nodup_app {A} (l1 l2 : list A) : NoDup l1 -> NoDup l2 -> (forall x, In x l1 -> ~ In x l2) -> NoDup (l1 ++ l2).
Proof.
  induction 1 as [|x l1 Hx H1 IH]; intros H2 Hd; cbn; [exact H2|]. constructor.
  - intros Hin. apply in_app_or in Hin as [Hin|Hin]; [contradiction | exact (Hd x (or_introl eq_refl) Hin)].
  - apply IH; [exact H2 | intros y Hy; apply Hd; now right].
Qed.

Lemma nodup_prod {A B} (a : list A) (b : list B) : NoDup a -> NoDup b -> NoDup (list_prod a b).
Proof.
  intros Ha Hb. induction Ha as [|x a Hx Ha IH]; cbn; [constructor|]. apply nodup_app; [|exact IH|].
  - apply Injective_map_NoDup; [intros u v E; now injection E | exact Hb].
  - intros [u v] H2 H3. apply in_map_iff in H2 as (y & E & _). injection E as <- <-.
    apply in_prod_iff in H3 as [H3 _]. contradiction.
Qed.

(* ---- (a) the label lists are the full product, each label once ---------------------------------- *)
Lemma labels_functions_product B R : labels_functions B R = list_prod (seq 0 B) (seq 0 R).
Proof.
  unfold labels_functions. rewrite <- (repeat_tile_product (seq 0 B) (seq 0 R)). now rewrite !seq_length.
Qed.

Lemma labels_gradient_product R P : labels_gradient R P = list_prod (seq 0 R) (zseq P).
Proof.
  unfold labels_gradient. rewrite <- (repeat_tile_product (seq 0 R) (zseq P)). now rewrite seq_length, zseq_length.
Qed.

Lemma labels_both_split R P :
  labels_both R P = map (fun r => (r, (-1)%Z)) (seq 0 R) ++ labels_gradient R P.
Proof.
  unfold labels_both, labels_gradient. rewrite combine_app by (now rewrite seq_length, repeat_length).
  f_equal. rewrite <- (combine_repeat_r (seq 0 R) (-1)%Z). now rewrite seq_length.
Qed.

Lemma labels_functions_complete B R b r : In (b, r) (labels_functions B R) <-> (b < B /\ r < R)%nat.
Proof. rewrite labels_functions_product, in_prod_iff, !in_seq. lia. Qed.

Lemma labels_functions_nodup B R : NoDup (labels_functions B R).
Proof. rewrite labels_functions_product. apply nodup_prod; apply seq_NoDup. Qed.

Lemma labels_gradient_complete R P r p :
  In (r, p) (labels_gradient R P) <-> (r < R)%nat /\ (0 <= p < Z.of_nat P)%Z.
Proof. rewrite labels_gradient_product, in_prod_iff, in_seq, in_zseq. lia. Qed.

Lemma labels_gradient_nodup R P : NoDup (labels_gradient R P).
Proof. rewrite labels_gradient_product. apply nodup_prod; [apply seq_NoDup | apply zseq_NoDup]. Qed.

Lemma labels_both_complete R P r p :
  In (r, p) (labels_both R P) <-> (r < R)%nat /\ (-1 <= p < Z.of_nat P)%Z.
Proof.
  rewrite labels_both_split, in_app_iff, labels_gradient_complete, in_map_iff. split.
  - intros [(k & E & Hk) | H]; [injection E as <- <-; apply in_seq in Hk; lia | lia].
  - intros [Hr Hp]. destruct (Z.eq_dec p (-1)) as [->|Hn].
    + left. exists r. split; [reflexivity | apply in_seq; lia].
    + right. lia.
Qed.

Lemma labels_both_nodup R P : NoDup (labels_both R P).
Proof.
  rewrite labels_both_split. apply nodup_app.
  - apply Injective_map_NoDup; [intros a b E; now injection E | apply seq_NoDup].
  - apply labels_gradient_nodup.
  - intros [r p] H1 H2. apply in_map_iff in H1 as (k & E & _). injection E as <- <-.
    apply labels_gradient_complete in H2. lia.
Qed.

Lemma map_fst_combine' {A B} (a : list A) (b : list B) : length a = length b -> map fst (combine a b) = a.
Proof. revert b; induction a as [|x a IH]; intros [|y b] H; cbn in *; try discriminate; [reflexivity|]. f_equal. apply IH. lia. Qed.
Lemma map_snd_combine' {A B} (a : list A) (b : list B) : length a = length b -> map snd (combine a b) = b.
Proof. revert b; induction a as [|x a IH]; intros [|y b] H; cbn in *; try discriminate; [reflexivity|]. f_equal. apply IH. lia. Qed.

(* the context arrays are the two components of the label list *)
Lemma ctx_functions_labels B R : ctx_realizations (KFun B) R 0 = map snd (labels_functions B R).
Proof.
  unfold labels_functions. cbn. rewrite map_snd_combine'; [reflexivity|].
  rewrite np_repeat_length, np_tile_length, !seq_length. reflexivity.
Qed.

Lemma ctx_gradient_labels R P :
  ctx_realizations KGrad R P = map fst (labels_gradient R P) /\
  ctx_perturbations KGrad R P = Some (map snd (labels_gradient R P)).
Proof.
  unfold labels_gradient. cbn.
  assert (H : length (np_repeat (seq 0 R) P) = length (np_tile (zseq P) R))
    by (rewrite np_repeat_length, np_tile_length, seq_length, zseq_length; reflexivity).
  rewrite map_fst_combine', map_snd_combine' by exact H. split; reflexivity.
Qed.

Lemma ctx_both_labels R P :
  ctx_realizations KBoth R P = map fst (labels_both R P) /\
  ctx_perturbations KBoth R P = Some (map snd (labels_both R P)).
Proof.
  unfold labels_both. cbn.
  assert (H : length (seq 0 R ++ np_repeat (seq 0 R) P) = length (repeat (-1)%Z R ++ np_tile (zseq P) R))
    by (rewrite !app_length, np_repeat_length, np_tile_length, repeat_length, !seq_length, zseq_length; reflexivity).
  rewrite map_fst_combine', map_snd_combine' by exact H. split; reflexivity.
Qed.

(* ---- (a) row i carries the vector of label i ---------------------------------------------------- *)
Lemma nth_error_np_repeat {A} (l : list A) n i r : (r < n)%nat ->
  nth_error (np_repeat l n) (i * n + r) = nth_error l i.
Proof.
  unfold np_repeat. revert i. induction l as [|x l IH]; intros i Hr; cbn.
  - destruct (i * n + r)%nat, i; reflexivity.
  - destruct i as [|i]; cbn.
    + rewrite nth_error_app1 by (now rewrite repeat_length). apply nth_error_repeat. exact Hr.
    + rewrite nth_error_app2 by (rewrite repeat_length; lia). rewrite repeat_length.
      replace (n + i * n + r - n)%nat with (i * n + r)%nat by lia. now apply IH.
Qed.

Lemma nth_error_np_tile {A} (l : list A) n i r : (i < n)%nat -> (r < length l)%nat ->
  nth_error (np_tile l n) (i * length l + r) = nth_error l r.
Proof.
  unfold np_tile. revert i. induction n as [|n IH]; intros i Hi Hr; [lia|]. cbn.
  destruct i as [|i]; cbn.
  - now rewrite nth_error_app1.
  - rewrite nth_error_app2 by lia. replace (length l + i * length l + r - length l)%nat with (i * length l + r)%nat by lia.
    apply IH; lia.
Qed.

Lemma nth_error_concat {A} (ll : list (list A)) n i r : Forall (fun l => length l = n) ll -> (r < n)%nat ->
  nth_error (concat ll) (i * n + r) = match nth_error ll i with Some l => nth_error l r | None => None end.
Proof.
  revert i. induction ll as [|l ll IH]; intros i Hall Hr; cbn.
  - destruct (i * n + r)%nat, i; reflexivity.
  - inversion Hall as [|? ? Hl Hrest]; subst. destruct i as [|i]; cbn.
    + now rewrite nth_error_app1.
    + rewrite nth_error_app2 by lia. replace (length l + i * length l + r - length l)%nat with (i * length l + r)%nat by lia.
      now apply IH.
Qed.

(* function request: row b*R + r has label (b, r) and carries the variable vector b *)
Lemma functions_row_label B R b r : (b < B)%nat -> (r < R)%nat ->
  nth_error (labels_functions B R) (b * R + r) = Some (b, r).
Proof.
  intros Hb Hr. unfold labels_functions.
  assert (H1 : nth_error (np_repeat (seq 0 B) R) (b * R + r) = Some b).
  { rewrite nth_error_np_repeat by exact Hr. rewrite nth_error_nth' with (d := O) by (now rewrite seq_length).
    now rewrite seq_nth. }
  assert (H2 : nth_error (np_tile (seq 0 R) B) (b * R + r) = Some r).
  { pose proof (nth_error_np_tile (seq 0 R) B b r Hb) as H. rewrite seq_length in H. rewrite H by exact Hr.
    rewrite nth_error_nth' with (d := O) by (now rewrite seq_length). now rewrite seq_nth. }
  revert H1 H2. generalize (b * R + r)%nat as i. generalize (np_repeat (seq 0 B) R) as l1. generalize (np_tile (seq 0 R) B) as l2.
  intros l2 l1. revert l2. induction l1 as [|x l1 IH]; intros l2 i H1 H2; [destruct i; discriminate|].
  destruct l2 as [|y l2]; [destruct i; discriminate|]. destruct i as [|i]; cbn in *; [congruence | now apply IH].
Qed.

Lemma functions_row_vector (X : list vec) R b r : (r < R)%nat ->
  nth_error (rows_functions X R) (b * R + r) = nth_error X b.
Proof. intros Hr. unfold rows_functions. now apply nth_error_np_repeat. Qed.

Lemma nth_error_combine {A B} (l1 : list A) (l2 : list B) i a b :
  nth_error l1 i = Some a -> nth_error l2 i = Some b -> nth_error (combine l1 l2) i = Some (a, b).
Proof.
  revert l2 i. induction l1 as [|x l1 IH]; intros l2 i H1 H2; [destruct i; discriminate|].
  destruct l2 as [|y l2]; [destruct i; discriminate|]. destruct i as [|i]; cbn in *; [congruence | now apply IH].
Qed.

Lemma nth_error_seq n i : (i < n)%nat -> nth_error (seq 0 n) i = Some i.
Proof. intros H. rewrite nth_error_nth' with (d := O) by (now rewrite seq_length). now rewrite seq_nth. Qed.

Lemma nth_error_zseq n i : (i < n)%nat -> nth_error (zseq n) i = Some (Z.of_nat i).
Proof. intros H. unfold zseq. rewrite nth_error_map, nth_error_seq by exact H. reflexivity. Qed.

(* gradient request: row r*P + p has label (r, p) and carries perturbed vector [r][p] *)
Lemma gradient_row_label R P r p : (r < R)%nat -> (p < P)%nat ->
  nth_error (labels_gradient R P) (r * P + p) = Some (r, Z.of_nat p).
Proof.
  intros Hr Hp. unfold labels_gradient. apply nth_error_combine.
  - rewrite nth_error_np_repeat by exact Hp. now apply nth_error_seq.
  - pose proof (nth_error_np_tile (zseq P) R r p Hr) as H. rewrite zseq_length in H. rewrite H by exact Hp.
    now apply nth_error_zseq.
Qed.

Lemma gradient_row_vector (PV : list (list vec)) P r p : Forall (fun l => length l = P) PV -> (p < P)%nat ->
  nth_error (rows_gradient PV) (r * P + p) = match nth_error PV r with Some l => nth_error l p | None => None end.
Proof. intros Hall Hp. unfold rows_gradient. now apply nth_error_concat. Qed.

(* combined request: rows 0..R-1 are the unperturbed vector for realization r, label (r, -1);
   row R + r*P + p has label (r, p) and carries perturbed vector [r][p] *)
Lemma both_row_label_fun R P r : (r < R)%nat -> nth_error (labels_both R P) r = Some (r, (-1)%Z).
Proof.
  intros Hr. rewrite labels_both_split. rewrite nth_error_app1 by (now rewrite map_length, seq_length).
  rewrite nth_error_map, nth_error_seq by exact Hr. reflexivity.
Qed.

Lemma both_row_label_grad R P r p : (r < R)%nat -> (p < P)%nat ->
  nth_error (labels_both R P) (R + (r * P + p)) = Some (r, Z.of_nat p).
Proof.
  intros Hr Hp. rewrite labels_both_split. rewrite nth_error_app2 by (rewrite map_length, seq_length; lia).
  rewrite map_length, seq_length. replace (R + (r * P + p) - R)%nat with (r * P + p)%nat by lia.
  now apply gradient_row_label.
Qed.

Lemma both_row_vector_fun (x : vec) PV R r : (r < R)%nat -> nth_error (rows_both x PV R) r = Some x.
Proof.
  intros Hr. unfold rows_both. rewrite nth_error_app1 by (now rewrite repeat_length). now apply nth_error_repeat.
Qed.

Lemma both_row_vector_grad (x : vec) (PV : list (list vec)) R P r p : Forall (fun l => length l = P) PV -> (p < P)%nat ->
  nth_error (rows_both x PV R) (R + (r * P + p)) = match nth_error PV r with Some l => nth_error l p | None => None end.
Proof.
  intros Hall Hp. unfold rows_both. rewrite nth_error_app2 by (rewrite repeat_length; lia). rewrite repeat_length.
  replace (R + (r * P + p) - R)%nat with (r * P + p)%nat by lia. now apply nth_error_concat.
Qed.

(* the rows handed to the evaluator are the user-domain images of the model rows *)
Lemma request_rows_nth vt k X PV R i :
  nth_error (request_rows vt k X PV R) i =
  option_map (from_opt vt)
    (nth_error match k with KFun _ => rows_functions X R | KGrad => rows_gradient PV | KBoth => rows_both (hd [] X) PV R end i).
Proof. unfold request_rows. apply nth_error_map. Qed.

(* ---- (b) provenance ----------------------------------------------------------------------------- *)
Lemma nth_error_skipn {A} n (l : list A) i : nth_error (skipn n l) i = nth_error l (n + i).
Proof.
  revert l; induction n as [|n IH]; intros [|x l]; cbn; try reflexivity; [now destruct i | apply IH].
Qed.

Lemma nth_error_firstn {A} n (l : list A) i : (i < n)%nat -> nth_error (firstn n l) i = nth_error l i.
Proof.
  revert l i; induction n as [|n IH]; intros l i H; [lia|]. destruct l as [|x l]; [now destruct i|].
  destruct i; cbn; [reflexivity | apply IH; lia].
Qed.

(* index law of np.vsplit / reshape: entry c of block r is entry r*n + c of the flat list *)
Lemma chunk_index {A} n k (l : list A) r c row : (r < k)%nat -> (c < n)%nat ->
  nth_error (chunk n k l) r = Some row -> nth_error row c = nth_error l (r * n + c).
Proof.
  revert l r; induction k as [|k IH]; intros l r Hr Hc H; [lia|]. cbn in H. destruct r as [|r]; cbn in *.
  - injection H as <-. now apply nth_error_firstn.
  - rewrite (IH _ r ltac:(lia) Hc H). rewrite nth_error_skipn. f_equal. lia.
Qed.

Lemma chunk_nth_some {A} n k (l : list A) r : (r < k)%nat -> exists row, nth_error (chunk n k l) r = Some row.
Proof.
  intros H. destruct (nth_error (chunk n k l) r) eqn:E; [eauto|].
  apply nth_error_None in E. rewrite chunk_length in E. lia.
Qed.

(* what is reported for one evaluator row: transform every value, then blank the row if it has a NaN *)
Definition row_report (so sc : fscale) (o : orow) (c : option orow) : orow * option orow :=
  let o' := to_opt_row so o in
  let c' := option_map (to_opt_row sc) c in
  let bad := row_nan o' || match c' with Some c' => row_nan c' | None => false end in
  (if bad then nan_row o' else o', option_map (fun c' => if bad then nan_row c' else c') c').

Lemma nth_error_blank fails rows i f row :
  nth_error fails i = Some f -> nth_error rows i = Some row ->
  nth_error (blank fails rows) i = Some (if f then nan_row row else row).
Proof.
  intros Hf Hr. unfold blank. rewrite nth_error_map, (nth_error_combine _ _ _ _ _ Hf Hr). reflexivity.
Qed.

(* propagate acts row by row (no constraints) *)
Lemma propagate_row_nocon (o : list orow) i row :
  nth_error o i = Some row ->
  nth_error (fst (propagate o None)) i = Some (if row_nan row then nan_row row else row).
Proof.
  intros H. unfold propagate, row_failures. cbn. apply nth_error_blank; [|exact H].
  rewrite nth_error_map, H. reflexivity.
Qed.

(* propagate acts row by row (with constraints) *)
Lemma propagate_row_con (o c : list orow) i ro rc :
  nth_error o i = Some ro -> nth_error c i = Some rc ->
  nth_error (fst (propagate o (Some c))) i = Some (if row_nan ro || row_nan rc then nan_row ro else ro) /\
  (exists c', snd (propagate o (Some c)) = Some c' /\
              nth_error c' i = Some (if row_nan ro || row_nan rc then nan_row rc else rc)).
Proof.
  intros Ho Hc. unfold propagate, row_failures. cbn.
  assert (Hf : nth_error (map (fun oc : orow * orow => row_nan (fst oc) || row_nan (snd oc)) (combine o c)) i
               = Some (row_nan ro || row_nan rc)).
  { rewrite nth_error_map, (nth_error_combine _ _ _ _ _ Ho Hc). reflexivity. }
  split; [now apply nth_error_blank|]. eexists. split; [reflexivity|]. now apply nth_error_blank.
Qed.

Local Opaque propagate.

Lemma report_gradient_eq so sc R P o c ids :
  report_gradient so sc R P o c ids =
  (chunk P R (fst (propagate (map (to_opt_row so) o) (option_map (map (to_opt_row sc)) c))),
   option_map (chunk P R) (snd (propagate (map (to_opt_row so) o) (option_map (map (to_opt_row sc)) c))),
   chunk P R ids).
Proof.
  unfold report_gradient, transform_out, shape_gradient.
  destruct (propagate (map (to_opt_row so) o) (option_map (map (to_opt_row sc)) c)); reflexivity.
Qed.

Lemma report_functions_eq so sc B R o c ids :
  report_functions so sc B R o c ids =
  map (fun occ : list orow * option (list orow) * list nat =>
         (fst (propagate (fst (fst occ)) (snd (fst occ))), snd (propagate (fst (fst occ)) (snd (fst occ))), snd occ))
      (combine (combine (chunk R B (map (to_opt_row so) o)) (chunk_opt R B (option_map (map (to_opt_row sc)) c)))
               (chunk R B ids)).
Proof.
  unfold report_functions, transform_out. apply map_ext. intros [[ob cb] ib]. cbn [fst snd].
  destruct (propagate ob cb); reflexivity.
Qed.

(* gradient block without constraints: reported [r][p] is the report of the evaluator's row r*P+p,
   i.e. the row whose label is (r, p) *)
Theorem gradient_provenance_nocon so R P (o : list orow) ids r p blk row :
  (r < R)%nat -> (p < P)%nat ->
  nth_error (fst (fst (report_gradient so None R P o None ids))) r = Some blk ->
  nth_error o (r * P + p) = Some row ->
  nth_error blk p = Some (fst (row_report so None row None)) /\
  (forall iblk, nth_error (snd (report_gradient so None R P o None ids)) r = Some iblk ->
                nth_error iblk p = nth_error ids (r * P + p)).
Proof.
  intros Hr Hp Hblk Hrow. rewrite report_gradient_eq in *. cbn [fst snd option_map] in *. split.
  - rewrite (chunk_index P R _ r p blk Hr Hp Hblk).
    rewrite (propagate_row_nocon _ _ (to_opt_row so row)) by (now rewrite nth_error_map, Hrow).
    unfold row_report. cbn [option_map fst snd]. rewrite orb_false_r. reflexivity.
  - intros iblk Hi. exact (chunk_index P R ids r p iblk Hr Hp Hi).
Qed.

Lemma nth_error_combine_inv {A B} (l1 : list A) (l2 : list B) i a b :
  nth_error (combine l1 l2) i = Some (a, b) -> nth_error l1 i = Some a /\ nth_error l2 i = Some b.
Proof.
  revert l2 i. induction l1 as [|x l1 IH]; intros l2 i H; [destruct i; discriminate|].
  destruct l2 as [|y l2]; [destruct i; discriminate|]. destruct i as [|i]; cbn in *; [split; congruence | now apply IH].
Qed.

(* function blocks without constraints: reported [b][r] is the report of the evaluator's row b*R+r *)
Theorem functions_provenance_nocon so B R (o : list orow) ids b r po pc pi row :
  (b < B)%nat -> (r < R)%nat ->
  nth_error (report_functions so None B R o None ids) b = Some (po, pc, pi) ->
  nth_error o (b * R + r) = Some row ->
  nth_error po r = Some (fst (row_report so None row None)) /\ nth_error pi r = nth_error ids (b * R + r).
Proof.
  intros Hb Hr Hblk Hrow. rewrite report_functions_eq in Hblk. cbn [option_map chunk_opt] in Hblk.
  rewrite nth_error_map in Hblk.
  destruct (nth_error (combine (combine (chunk R B (map (to_opt_row so) o)) (repeat None B)) (chunk R B ids)) b)
    as [[[ob cb] ib]|] eqn:E; [|discriminate].
  apply nth_error_combine_inv in E as [E Ei]. apply nth_error_combine_inv in E as [Eo Ec].
  assert (cb = None) by (apply nth_error_In, repeat_spec in Ec; exact Ec). subst cb.
  cbn [option_map fst snd] in Hblk. injection Hblk as <- <- <-.
  split; [|exact (chunk_index R B ids b r ib Hb Hr Ei)].
  assert (Hob : nth_error ob r = Some (to_opt_row so row)).
  { rewrite (chunk_index R B _ b r ob Hb Hr Eo), nth_error_map, Hrow. reflexivity. }
  rewrite (propagate_row_nocon _ _ _ Hob). unfold row_report. cbn [option_map fst snd]. rewrite orb_false_r. reflexivity.
Qed.

(* with constraints: gradient block *)
Theorem gradient_provenance so sc R P (o c : list orow) ids r p blk cc cblk ro rc :
  (r < R)%nat -> (p < P)%nat ->
  nth_error (fst (fst (report_gradient so sc R P o (Some c) ids))) r = Some blk ->
  snd (fst (report_gradient so sc R P o (Some c) ids)) = Some cc -> nth_error cc r = Some cblk ->
  nth_error o (r * P + p) = Some ro -> nth_error c (r * P + p) = Some rc ->
  nth_error blk p = Some (fst (row_report so sc ro (Some rc))) /\
  Some (nth_error cblk p) = option_map Some (snd (row_report so sc ro (Some rc))).
Proof.
  intros Hr Hp Hblk Hcc Hcblk Hro Hrc. rewrite report_gradient_eq in *. cbn [fst snd option_map] in *.
  set (o' := map (to_opt_row so) o) in *. set (c' := map (to_opt_row sc) c) in *.
  assert (Ho' : nth_error o' (r * P + p) = Some (to_opt_row so ro)) by (unfold o'; now rewrite nth_error_map, Hro).
  assert (Hc' : nth_error c' (r * P + p) = Some (to_opt_row sc rc)) by (unfold c'; now rewrite nth_error_map, Hrc).
  destruct (propagate_row_con o' c' _ _ _ Ho' Hc') as [H1 (pc' & H2 & H3)].
  rewrite H2 in Hcc. cbn [option_map] in Hcc. injection Hcc as <-.
  rewrite (chunk_index P R _ r p blk Hr Hp Hblk), (chunk_index P R pc' r p cblk Hr Hp Hcblk), H1, H3.
  unfold row_report. cbn [option_map fst snd]. split; reflexivity.
Qed.

(* with constraints: function blocks *)
Theorem functions_provenance so sc B R (o c : list orow) ids b r po pc pi ro rc :
  (b < B)%nat -> (r < R)%nat ->
  nth_error (report_functions so sc B R o (Some c) ids) b = Some (po, Some pc, pi) ->
  nth_error o (b * R + r) = Some ro -> nth_error c (b * R + r) = Some rc ->
  nth_error po r = Some (fst (row_report so sc ro (Some rc))) /\
  Some (nth_error pc r) = option_map Some (snd (row_report so sc ro (Some rc))) /\
  nth_error pi r = nth_error ids (b * R + r).
Proof.
  intros Hb Hr Hblk Hro Hrc. rewrite report_functions_eq in Hblk. cbn [option_map chunk_opt] in Hblk.
  rewrite nth_error_map in Hblk.
  destruct (nth_error (combine (combine (chunk R B (map (to_opt_row so) o)) (map Some (chunk R B (map (to_opt_row sc) c))))
                               (chunk R B ids)) b) as [[[ob cb] ib]|] eqn:E; [|discriminate].
  apply nth_error_combine_inv in E as [E Ei]. apply nth_error_combine_inv in E as [Eo Ec].
  rewrite nth_error_map in Ec. destruct (nth_error (chunk R B (map (to_opt_row sc) c)) b) as [cb'|] eqn:Ecb; [|discriminate].
  cbn in Ec. injection Ec as <-. cbn [option_map fst snd] in Hblk.
  assert (Hob : nth_error ob r = Some (to_opt_row so ro)).
  { rewrite (chunk_index R B _ b r ob Hb Hr Eo), nth_error_map, Hro. reflexivity. }
  assert (Hcb : nth_error cb' r = Some (to_opt_row sc rc)).
  { rewrite (chunk_index R B _ b r cb' Hb Hr Ecb), nth_error_map, Hrc. reflexivity. }
  destruct (propagate_row_con ob cb' _ _ _ Hob Hcb) as [H1 (pc' & H2 & H3)].
  rewrite H2 in Hblk. injection Hblk as <- <- <-.
  rewrite H1, H3. unfold row_report. cbn [option_map fst snd].
  split; [reflexivity|]. split; [reflexivity|]. exact (chunk_index R B ids b r ib Hb Hr Ei).
Qed.

(* the combined request: the function block reads rows 0..R-1, the gradient block rows R.. *)
Lemma report_both_eq so sc R P o c ids :
  report_both so sc R P o c ids =
  (let o' := map (to_opt_row so) o in let c' := option_map (map (to_opt_row sc)) c in
   (fst (propagate (firstn R o') (option_map (firstn R) c')), snd (propagate (firstn R o') (option_map (firstn R) c')),
    firstn R ids),
   report_gradient None None R P (skipn R (map (to_opt_row so) o))
                   (option_map (skipn R) (option_map (map (to_opt_row sc)) c)) (skipn R ids)).
Proof.
  unfold report_both, report_gradient, transform_out. cbn zeta.
  destruct (propagate (firstn R (map (to_opt_row so) o)) (option_map (firstn R) (option_map (map (to_opt_row sc)) c))).
  cbn [fst snd to_opt_row option_map]. rewrite map_id.
  destruct (option_map (skipn R) (option_map (map (to_opt_row sc)) c)); cbn [option_map]; [rewrite map_id|]; reflexivity.
Qed.

Theorem both_provenance_functions_nocon so R P (o : list orow) ids r row :
  (r < R)%nat -> nth_error o r = Some row ->
  nth_error (fst (fst (fst (report_both so None R P o None ids)))) r = Some (fst (row_report so None row None)) /\
  nth_error (snd (fst (report_both so None R P o None ids))) r = nth_error ids r.
Proof.
  intros Hr Hrow. rewrite report_both_eq. cbn [fst snd option_map]. split; [|now apply nth_error_firstn].
  rewrite (propagate_row_nocon _ _ (to_opt_row so row)) by (now rewrite nth_error_firstn, nth_error_map, Hrow).
  unfold row_report. cbn [option_map fst snd]. rewrite orb_false_r. reflexivity.
Qed.

Theorem both_provenance_gradient_nocon so R P (o : list orow) ids r p blk row :
  (r < R)%nat -> (p < P)%nat ->
  nth_error (fst (fst (snd (report_both so None R P o None ids)))) r = Some blk ->
  nth_error o (R + (r * P + p)) = Some row ->
  nth_error blk p = Some (fst (row_report so None row None)).
Proof.
  intros Hr Hp Hblk Hrow. rewrite report_both_eq in Hblk. cbn [fst snd option_map] in Hblk.
  destruct (gradient_provenance_nocon None R P (skipn R (map (to_opt_row so) o)) (skipn R ids) r p blk (to_opt_row so row) Hr Hp Hblk)
    as [H _]; [now rewrite nth_error_skipn, nth_error_map, Hrow|].
  rewrite H. unfold row_report. cbn [option_map fst snd to_opt_row]. reflexivity.
Qed.

Lemma to_opt_row_none row : to_opt_row None row = row.
Proof. reflexivity. Qed.

Theorem both_provenance_functions so sc R P (o c : list orow) ids r ro rc pc :
  (r < R)%nat -> nth_error o r = Some ro -> nth_error c r = Some rc ->
  snd (fst (fst (report_both so sc R P o (Some c) ids))) = Some pc ->
  nth_error (fst (fst (fst (report_both so sc R P o (Some c) ids)))) r = Some (fst (row_report so sc ro (Some rc))) /\
  Some (nth_error pc r) = option_map Some (snd (row_report so sc ro (Some rc))) /\
  nth_error (snd (fst (report_both so sc R P o (Some c) ids))) r = nth_error ids r.
Proof.
  intros Hr Hro Hrc Hpc. rewrite report_both_eq in *. cbn [fst snd option_map] in *.
  assert (Ho' : nth_error (firstn R (map (to_opt_row so) o)) r = Some (to_opt_row so ro))
    by (now rewrite nth_error_firstn, nth_error_map, Hro).
  assert (Hc' : nth_error (firstn R (map (to_opt_row sc) c)) r = Some (to_opt_row sc rc))
    by (now rewrite nth_error_firstn, nth_error_map, Hrc).
  destruct (propagate_row_con _ _ _ _ _ Ho' Hc') as [H1 (pc' & H2 & H3)].
  rewrite H2 in Hpc. injection Hpc as <-. rewrite H1, H3. unfold row_report. cbn [option_map fst snd].
  split; [reflexivity|]. split; [reflexivity|]. now apply nth_error_firstn.
Qed.

Theorem both_provenance_gradient so sc R P (o c : list orow) ids r p blk cc cblk ro rc :
  (r < R)%nat -> (p < P)%nat ->
  nth_error (fst (fst (snd (report_both so sc R P o (Some c) ids)))) r = Some blk ->
  snd (fst (snd (report_both so sc R P o (Some c) ids))) = Some cc -> nth_error cc r = Some cblk ->
  nth_error o (R + (r * P + p)) = Some ro -> nth_error c (R + (r * P + p)) = Some rc ->
  nth_error blk p = Some (fst (row_report so sc ro (Some rc))) /\
  Some (nth_error cblk p) = option_map Some (snd (row_report so sc ro (Some rc))).
Proof.
  intros Hr Hp Hblk Hcc Hcblk Hro Hrc. rewrite report_both_eq in *. cbn [fst snd option_map] in *.
  destruct (gradient_provenance None None R P (skipn R (map (to_opt_row so) o)) (skipn R (map (to_opt_row sc) c))
              (skipn R ids) r p blk cc cblk (to_opt_row so ro) (to_opt_row sc rc) Hr Hp Hblk Hcc Hcblk) as [H1 H2].
  - now rewrite nth_error_skipn, nth_error_map, Hro.
  - now rewrite nth_error_skipn, nth_error_map, Hrc.
  - rewrite H1, H2. unfold row_report. cbn [option_map fst snd]. rewrite !to_opt_row_none. split; reflexivity.
Qed.

Local Transparent propagate.

(* ---- (c) activity ------------------------------------------------------------------------------- *)
Lemma nonzero_false w : nonzero w = false <-> w == 0.
Proof. unfold nonzero. rewrite negb_false_iff. apply Qeqb_eq. Qed.

Lemma all_true_nth m j r : all_true m = true -> nth r (nth j m []) true = true.
Proof.
  unfold all_true. intros H. destruct (nth_in_or_default j m []) as [Hin|Hd].
  - rewrite forallb_forall in H. specialize (H _ Hin). destruct (nth_in_or_default r (nth j m []) true) as [Hin2|Hd2].
    + rewrite forallb_forall in H. exact (H _ Hin2).
    + exact Hd2.
  - rewrite Hd. now destruct r.
Qed.

Lemma nth_map_nonzero (row : list Q) r : nth r (map nonzero row) true = false -> exists w, nth_error row r = Some w /\ w == 0.
Proof.
  revert r. induction row as [|w row IH]; intros r H; [destruct r; discriminate|].
  destruct r as [|r]; cbn in *; [exists w; split; [reflexivity | now apply nonzero_false] | now apply IH].
Qed.

Lemma nth_map_map_nonzero (m : wmatrix) j r :
  nth r (nth j (map (map nonzero) m) []) true = false ->
  exists row w, nth_error m j = Some row /\ nth_error row r = Some w /\ w == 0.
Proof.
  revert j. induction m as [|row m IH]; intros j H; [destruct j, r; discriminate|].
  destruct j as [|j]; cbn in *.
  - apply nth_map_nonzero in H as (w & Hw & H0). exists row, w. auto.
  - apply IH in H as (row' & w & H1 & H2 & H3). exists row', w. auto.
Qed.

Lemma nth_map_map_nonzero_true (m : wmatrix) j r row w :
  nth_error m j = Some row -> nth_error row r = Some w ->
  nth r (nth j (map (map nonzero) m) []) true = nonzero w.
Proof.
  revert j. induction m as [|row' m IH]; intros j Hj Hr; [destruct j; discriminate|].
  destruct j as [|j]; cbn in *; [|now apply IH]. injection Hj as ->. clear IH.
  revert r Hr. induction row as [|w' row IH2]; intros r Hr; [destruct r; discriminate|].
  destruct r as [|r]; cbn in *; [congruence | now apply IH2].
Qed.

(* an entry is flagged inactive only if its weight in force is zero (objectives) *)
Lemma active_objectives_sound cfgw nobj ncon ow cw j r :
  flag_at (fst (active_realizations cfgw nobj ncon ow cw)) j r = false ->
  exists row w, nth_error (in_force cfgw nobj ow) j = Some row /\ nth_error row r = Some w /\ w == 0.
Proof.
  unfold active_realizations.
  destruct (all_true (map (map nonzero) (in_force cfgw nobj ow)) && _); cbn; [discriminate|].
  apply nth_map_map_nonzero.
Qed.

Lemma active_constraints_sound cfgw nobj ncon ow cw j r :
  flag_at (snd (active_realizations cfgw nobj ncon ow cw)) j r = false ->
  exists row w, nth_error (in_force cfgw ncon cw) j = Some row /\ nth_error row r = Some w /\ w == 0.
Proof.
  unfold active_realizations.
  destruct (all_true (map (map nonzero) (in_force cfgw nobj ow)) && _); cbn [snd]; [cbn; discriminate|].
  destruct cw as [cwm|]; [unfold flag_at; apply nth_map_map_nonzero|].
  destruct ncon as [|n]; [cbn; discriminate | unfold flag_at; apply nth_map_map_nonzero].
Qed.

(* ... and every entry whose weight in force is zero is flagged inactive *)
Lemma active_objectives_complete cfgw nobj ncon ow cw j r row w :
  nth_error (in_force cfgw nobj ow) j = Some row -> nth_error row r = Some w -> w == 0 ->
  flag_at (fst (active_realizations cfgw nobj ncon ow cw)) j r = false.
Proof.
  intros Hj Hr H0. unfold active_realizations.
  assert (Hn : nth r (nth j (map (map nonzero) (in_force cfgw nobj ow)) []) true = false).
  { rewrite (nth_map_map_nonzero_true _ _ _ _ _ Hj Hr). now apply nonzero_false. }
  destruct (all_true (map (map nonzero) (in_force cfgw nobj ow))) eqn:E.
  - rewrite (all_true_nth _ j r E) in Hn. discriminate.
  - cbn. exact Hn.
Qed.

Lemma active_constraints_complete cfgw nobj ncon ow cw j r row w :
  nth_error (in_force cfgw ncon cw) j = Some row -> nth_error row r = Some w -> w == 0 ->
  flag_at (snd (active_realizations cfgw nobj ncon ow cw)) j r = false.
Proof.
  intros Hj Hr H0. unfold active_realizations.
  assert (Hn : nth r (nth j (map (map nonzero) (in_force cfgw ncon cw)) []) true = false).
  { rewrite (nth_map_map_nonzero_true _ _ _ _ _ Hj Hr). now apply nonzero_false. }
  assert (Hac : match cw, ncon with None, O => None | _, _ => Some (map (map nonzero) (in_force cfgw ncon cw)) end
                = Some (map (map nonzero) (in_force cfgw ncon cw))).
  { destruct cw; [reflexivity|]. destruct ncon; [|reflexivity]. cbn in Hj. destruct j; discriminate. }
  rewrite Hac.
  destruct (all_true (map (map nonzero) (in_force cfgw ncon cw))) eqn:E.
  - rewrite (all_true_nth _ j r E) in Hn. discriminate.
  - rewrite andb_false_r. cbn. exact Hn.
Qed.

Lemma in_force_none_nth cfgw n j row : nth_error (in_force cfgw n None) j = Some row -> row = cfgw.
Proof. cbn. intros H. apply nth_error_In, repeat_spec in H. exact H. Qed.

(* function / combined evaluations: inactive only if the configured weight of the realization is zero *)
Lemma function_eval_inactive_zero has_filters cfgw nobj ncon j r :
  flag_at (fst (active_function_eval has_filters cfgw nobj ncon)) j r = false \/
  flag_at (snd (active_function_eval has_filters cfgw nobj ncon)) j r = false ->
  exists w, nth_error cfgw r = Some w /\ w == 0.
Proof.
  unfold active_function_eval. destruct has_filters; [cbn; intros [H|H]; discriminate|].
  intros [H|H].
  - apply active_objectives_sound in H as (row & w & H1 & H2 & H3). apply in_force_none_nth in H1. subst. eauto.
  - apply active_constraints_sound in H as (row & w & H1 & H2 & H3). apply in_force_none_nth in H1. subst. eauto.
Qed.

(* ---- (c) inertness ------------------------------------------------------------------------------ *)
(* two outputs agree wherever the weight is non-zero *)
Inductive agree : list Q -> list oQ -> list oQ -> Prop :=
| agree_nil : agree [] [] []
| agree_cons w ws v v' vs vs' : (w == 0 \/ v = v') -> agree ws vs vs' -> agree (w :: ws) (v :: vs) (v' :: vs').

Lemma wsum_nil_cons g w ws v vs : wsum g (w :: ws) (v :: vs) = w * g (nan0 v) + wsum g ws vs.
Proof. unfold wsum. cbn [combine map fst snd]. now rewrite qsum_cons. Qed.

Lemma wsum_agree g ws vs vs' : agree ws vs vs' -> wsum g ws vs == wsum g ws vs'.
Proof.
  induction 1 as [|w ws v v' vs vs' Hw _ IH]; [reflexivity|]. rewrite !wsum_nil_cons, IH.
  destruct Hw as [Hw | ->]; [rewrite Hw; ring | reflexivity].
Qed.

(* removing failed realizations keeps agreement (the failure flags are the same in both runs) *)
Lemma agree_zero_failed ws failed vs vs' : agree ws vs vs' -> agree (zero_failed ws failed) (firstn (length (zero_failed ws failed)) vs) (firstn (length (zero_failed ws failed)) vs').
Proof.
  intros H. revert failed. induction H as [|w ws v v' vs vs' Hw _ IH]; intros failed.
  - unfold zero_failed. cbn. constructor.
  - destruct failed as [|f failed]; [unfold zero_failed; cbn; constructor|].
    unfold zero_failed in *. cbn [combine map length fst snd]. unfold firstn; fold (@firstn oQ).
    constructor; [|apply IH]. destruct f; [left; reflexivity | exact Hw].
Qed.

Lemma wsum_firstn g ws vs : wsum g ws (firstn (length ws) vs) = wsum g ws vs.
Proof.
  unfold wsum. f_equal. f_equal. revert vs. induction ws as [|w ws IH]; intros vs; [reflexivity|].
  destruct vs as [|v vs]; [reflexivity|]. cbn [length]. unfold firstn; fold (@firstn oQ). cbn [combine]. now rewrite IH.
Qed.

Lemma wsum_zero_failed_agree g ws failed vs vs' : agree ws vs vs' ->
  wsum g (zero_failed ws failed) vs == wsum g (zero_failed ws failed) vs'.
Proof.
  intros H. rewrite <- (wsum_firstn g _ vs), <- (wsum_firstn g _ vs').
  apply wsum_agree. now apply agree_zero_failed.
Qed.

Definition oQeq (a b : oQ) : Prop :=
  match a, b with Some x, Some y => x == y | None, None => True | _, _ => False end.

Theorem est_mean_inert ws failed vs vs' : agree ws vs vs' -> oQeq (est_mean ws failed vs) (est_mean ws failed vs').
Proof.
  intros H. unfold est_mean. destruct (Qeqb (qsum (zero_failed ws failed)) 0); cbn; [exact I|].
  rewrite (wsum_zero_failed_agree (fun x => x) ws failed vs vs' H). reflexivity.
Qed.

Lemma wsum_ext g g' ws vs : (forall x, g x == g' x) -> wsum g ws vs == wsum g' ws vs.
Proof.
  intros Hg. unfold wsum. generalize (combine ws vs) as l. induction l as [|[w v] l IH]; [reflexivity|].
  cbn [map fst snd]. rewrite !qsum_cons, IH, Hg. reflexivity.
Qed.

Theorem est_variance_inert ws failed vs vs' : agree ws vs vs' ->
  oQeq (est_variance ws failed vs) (est_variance ws failed vs').
Proof.
  intros H. unfold est_variance.
  destruct (Qeqb (qsum (zero_failed ws failed)) 0 || Nat.leb (count_pos (zero_failed ws failed)) 1); cbn; [exact I|].
  pose proof (wsum_zero_failed_agree (fun x => x) ws failed vs vs' H) as Hm.
  set (s := qsum (zero_failed ws failed)) in *.
  set (m := wsum (fun x => x) (zero_failed ws failed) vs / s) in *.
  set (m' := wsum (fun x => x) (zero_failed ws failed) vs' / s) in *.
  assert (Hmm : m == m') by (unfold m, m'; now rewrite Hm).
  rewrite (wsum_ext (fun x => (x - m) * (x - m)) (fun x => (x - m') * (x - m')) _ vs) by (intros x; rewrite Hmm; reflexivity).
  rewrite (wsum_zero_failed_agree (fun x => (x - m') * (x - m')) ws failed vs vs' H). reflexivity.
Qed.

(* gradients: realizations agree when they have the same weight and perturbation differences, and either
   no weight or the same function value and perturbed values *)
Definition agree_real (a b : realdata) : Prop :=
  rd_w a = rd_w b /\ rd_dx a = rd_dx b /\ (rd_w a == 0 \/ (rd_f a = rd_f b /\ rd_pf a = rd_pf b)).

Definition vec_eq (a b : vec) : Prop := Forall2 Qeq a b.

Lemma vec_eq_refl a : vec_eq a a.
Proof. induction a; constructor; [reflexivity | assumption]. Qed.

Lemma vplus_eq a a' b b' : vec_eq a a' -> vec_eq b b' -> vec_eq (vplus a b) (vplus a' b').
Proof.
  intros Ha. revert b b'. induction Ha as [|x x' a a' Hx _ IH]; intros b b' Hb; [constructor|].
  destruct Hb as [|y y' b b' Hy Hb]; [constructor|]. unfold vplus. cbn. constructor; [now rewrite Hx, Hy | now apply IH].
Qed.

Lemma vscale_zero c c' a b : c == 0 -> c' == 0 -> length a = length b -> vec_eq (vscale c a) (vscale c' b).
Proof.
  intros Hc Hc'. revert b. induction a as [|x a IH]; intros [|y b] Hl; try discriminate; [constructor|].
  unfold vscale. cbn. constructor; [rewrite Hc, Hc'; ring | apply IH; now injection Hl].
Qed.

Section GradientInert.
  Variable solve : list vec -> list Q -> vec.
  Variable V : nat.

  Lemma real_gradient_agree a b : agree_real a b ->
    (rd_w a == 0 /\ real_gradient solve V a = vzero V /\ real_gradient solve V b = vzero V) \/
    real_gradient solve V a = real_gradient solve V b.
  Proof.
    intros (Hw & Hdx & H). destruct H as [H0 | [Hf Hpf]].
    - left. split; [exact H0|]. unfold real_gradient. rewrite <- Hw.
      apply Qeqb_eq in H0. rewrite H0. split; reflexivity.
    - right. unfold real_gradient, successes. now rewrite <- Hw, <- Hdx, <- Hf, <- Hpf.
  Qed.

  Theorem mean_gradient_inert l l' : Forall2 agree_real l l' ->
    vec_eq (mean_gradient solve V l) (mean_gradient solve V l').
  Proof.
    induction 1 as [|a b l l' Hab _ IH]; [apply vec_eq_refl|]. cbn. apply vplus_eq; [|exact IH].
    destruct (real_gradient_agree a b Hab) as [(H0 & Ha & Hb) | E].
    - rewrite Ha, Hb. destruct Hab as (Hw & _). rewrite <- Hw. apply vec_eq_refl.
    - destruct Hab as (Hw & _). rewrite <- Hw, E. apply vec_eq_refl.
  Qed.

  Theorem fw_gradient_inert l l' : Forall2 agree_real l l' ->
    vec_eq (fw_gradient solve V l) (fw_gradient solve V l').
  Proof.
    induction 1 as [|a b l l' Hab _ IH]; [apply vec_eq_refl|]. cbn. apply vplus_eq; [|exact IH].
    destruct (real_gradient_agree a b Hab) as [(H0 & Ha & Hb) | E].
    - rewrite Ha, Hb. destruct Hab as (Hw & _). rewrite <- Hw.
      apply vscale_zero; [rewrite H0; ring | rewrite H0; ring | reflexivity].
    - destruct Hab as (Hw & _ & [H0 | [Hf _]]).
      + rewrite <- Hw, E. apply vscale_zero; [rewrite H0; ring | rewrite H0; ring | reflexivity].
      + rewrite <- Hw, <- Hf, E. apply vec_eq_refl.
  Qed.
End GradientInert.

(* ---- (c) the aggregate flag -------------------------------------------------------------------- *)
Lemma map_nth_seq {A} (l : list A) d : map (fun i => nth i l d) (seq 0 (length l)) = l.
Proof.
  induction l as [|a l IH]; [reflexivity|]. cbn [length seq map nth]. f_equal.
  rewrite <- seq_shift, map_map. exact IH.
Qed.

Lemma vor_map {A} (f g : A -> bool) l : vor (map f l) (map g l) = map (fun x => f x || g x) l.
Proof. unfold vor. induction l as [|a l IH]; [reflexivity|]. cbn. now rewrite IH. Qed.

Lemma repeat_map_seq {A} (a : A) n k : repeat a n = map (fun _ => a) (seq k n).
Proof. revert k. induction n as [|n IH]; intros k; [reflexivity|]. cbn. now rewrite <- IH. Qed.

Local Notation col r := (fun row : list bool => nth r row false).

Lemma or_reduce_spec R m : Forall (fun row : list bool => length row = R) m ->
  or_reduce R m = map (fun r => existsb (col r) m) (seq 0 R).
Proof.
  induction 1 as [|row m Hrow _ IH]; [cbn; apply repeat_map_seq|].
  cbn [or_reduce fold_right]. fold (or_reduce R m). rewrite IH.
  rewrite <- (map_nth_seq row false) at 1. rewrite Hrow, vor_map. reflexivity.
Qed.

Definition wf_bm (R n : nat) (m : list (list bool)) : Prop := length m = n /\ Forall (fun row => length row = R) m.

Lemma wf_flags_none R n : wf_bm R n (flags None n R).
Proof.
  split; [apply repeat_length|]. apply Forall_forall. intros row H. apply repeat_spec in H. subst. apply repeat_length.
Qed.

(* the model of EvaluatorContext.__post_init__ computes the specification whenever it is not handed
   exactly one None matrix next to a proper one of the other kind *)
Lemma aggregate_spec_some R nobj ncon o c :
  wf_bm R nobj o -> wf_bm R ncon c ->
  agg_flags (aggregate_active R (Some o) (Some c)) R = agg_spec R nobj ncon (Some o) (Some c).
Proof.
  intros [_ Ho] [_ Hc]. cbn. rewrite (or_reduce_spec R o Ho), (or_reduce_spec R c Hc), vor_map.
  unfold agg_spec. cbn [flags]. apply map_ext. intros r. now rewrite existsb_app.
Qed.

Lemma aggregate_spec_nocon R nobj o :
  wf_bm R nobj o -> agg_flags (aggregate_active R (Some o) None) R = agg_spec R nobj 0 (Some o) None.
Proof.
  intros [_ Ho]. cbn. rewrite (or_reduce_spec R o Ho). unfold agg_spec. cbn [flags repeat]. now rewrite app_nil_r.
Qed.

Lemma existsb_col_all_true R n r : (0 < n)%nat -> (r < R)%nat -> existsb (col r) (repeat (repeat true R) n) = true.
Proof.
  intros Hn Hr. destruct n as [|n]; [lia|]. cbn.
  rewrite (nth_indep _ false true) by (now rewrite repeat_length). now rewrite nth_repeat.
Qed.

Lemma aggregate_spec_none R nobj ncon : (0 < nobj)%nat ->
  agg_flags (aggregate_active R None None) R = agg_spec R nobj ncon None None.
Proof.
  intros Hn. cbn. unfold agg_spec. cbn [flags]. transitivity (map (fun _ : nat => true) (seq 0 R)); [apply repeat_map_seq|]. apply map_ext_in.
  intros r Hr. apply in_seq in Hr. rewrite existsb_app. rewrite (existsb_col_all_true R nobj r Hn) by lia. reflexivity.
Qed.

(* weights matrices handed around by the code have one row per function and one column per realization *)
Definition wf_wm (R n : nat) (m : option wmatrix) : Prop :=
  match m with None => True | Some m => length m = n /\ Forall (fun row => length row = R) m end.
Definition wf_cache (R nobj ncon : nat) (c : cache) : Prop :=
  match c with None => True | Some (_, ow, cw) => wf_wm R nobj ow /\ wf_wm R ncon cw end.

Lemma wf_nonzero cfgw n m : wf_wm (length cfgw) n m -> wf_bm (length cfgw) n (map (map nonzero) (in_force cfgw n m)).
Proof.
  intros H. destruct m as [m|]; cbn in *.
  - destruct H as [Hl Hr]. split; [now rewrite map_length|]. apply Forall_map. eapply Forall_impl; [|exact Hr].
    intros row Hrow. now rewrite map_length.
  - split; [now rewrite map_length, repeat_length|]. apply Forall_map, Forall_forall. intros row Hin.
    apply repeat_spec in Hin. subst. now rewrite map_length.
Qed.

Lemma all_true_flags R n m : wf_bm R n m -> all_true m = true -> m = flags None n R.
Proof.
  intros [Hl Hr] Ht. cbn. subst n. unfold all_true in Ht. induction Hr as [|row m Hrow _ IH]; [reflexivity|].
  cbn in Ht |- *. apply andb_prop in Ht as [Ht1 Ht2]. f_equal; [|now apply IH].
  subst R. clear -Ht1. induction row as [|b row IH]; [reflexivity|]. cbn in *. apply andb_prop in Ht1 as [-> Ht1].
  f_equal. now apply IH.
Qed.

(* for the matrices _get_active_realizations returns, the aggregate is the specification *)
Theorem aggregate_active_realizations cfgw nobj ncon ow cw :
  (0 < nobj)%nat -> wf_wm (length cfgw) nobj ow -> wf_wm (length cfgw) ncon cw ->
  let a := active_realizations cfgw nobj ncon ow cw in
  agg_flags (aggregate_active (length cfgw) (fst a) (snd a)) (length cfgw) = agg_spec (length cfgw) nobj ncon (fst a) (snd a).
Proof.
  intros Hn Ho Hc. unfold active_realizations. set (R := length cfgw).
  pose proof (wf_nonzero cfgw nobj ow Ho) as Wo. pose proof (wf_nonzero cfgw ncon cw Hc) as Wc. fold R in Wo, Wc.
  set (ao := map (map nonzero) (in_force cfgw nobj ow)) in *.
  set (acm := map (map nonzero) (in_force cfgw ncon cw)) in *.
  destruct cw as [cwm|].
  - destruct (all_true ao && all_true acm) eqn:E; cbn [fst snd].
    + now apply aggregate_spec_none.
    + now apply aggregate_spec_some.
  - destruct ncon as [|n].
    + destruct (all_true ao && true) eqn:E; cbn [fst snd]; [now apply aggregate_spec_none | now apply aggregate_spec_nocon].
    + destruct (all_true ao && all_true acm) eqn:E; cbn [fst snd]; [now apply aggregate_spec_none | now apply aggregate_spec_some].
Qed.

Lemma plan_active_cases has_filters cfgw nobj ncon c k :
  wf_cache (length cfgw) nobj ncon c ->
  plan_active has_filters cfgw nobj ncon c k = (None, None) \/
  exists ow cw, wf_wm (length cfgw) nobj ow /\ wf_wm (length cfgw) ncon cw /\
                plan_active has_filters cfgw nobj ncon c k = active_realizations cfgw nobj ncon ow cw.
Proof.
  intros Hc. unfold plan_active, active_function_eval, active_split_gradient.
  assert (Hf : (if has_filters then (None, None) else active_realizations cfgw nobj ncon None None) = (None, None) \/
               exists ow cw, wf_wm (length cfgw) nobj ow /\ wf_wm (length cfgw) ncon cw /\
                 (if has_filters then (None, None) else active_realizations cfgw nobj ncon None None)
                 = active_realizations cfgw nobj ncon ow cw).
  { destruct has_filters; [now left|]. right. exists None, None. cbn. auto. }
  destruct k as [B| |]; try exact Hf. destruct c as [[[xc ow] cw]|]; [|exact Hf].
  right. exists ow, cw. destruct Hc as [H1 H2]. auto.
Qed.

Theorem aggregate_plan has_filters cfgw nobj ncon c k :
  (0 < nobj)%nat -> wf_cache (length cfgw) nobj ncon c ->
  let a := plan_active has_filters cfgw nobj ncon c k in
  agg_flags (aggregate_active (length cfgw) (fst a) (snd a)) (length cfgw) = agg_spec (length cfgw) nobj ncon (fst a) (snd a).
Proof.
  intros Hn Hc. destruct (plan_active_cases has_filters cfgw nobj ncon c k Hc) as [E | (ow & cw & Ho & Hw & E)]; rewrite E.
  - cbn [fst snd]. now apply aggregate_spec_none.
  - now apply aggregate_active_realizations.
Qed.

(* ---- the aggregate says "skip realization r" exactly when every entry of r is flagged inactive ---- *)
Lemma existsb_col_flags R n m r : wf_bm R n (flags m n R) -> (r < R)%nat ->
  (existsb (col r) (flags m n R) = false <-> forall j, (j < n)%nat -> flag_at m j r = false).
Proof.
  intros [Hl Hrows] Hr. destruct m as [mm|]; cbn [flags flag_at] in *.
  - rewrite Forall_forall in Hrows. split.
    + intros He j Hj. rewrite <- Hl in Hj.
      assert (Hin : In (nth j mm []) mm) by now apply nth_In.
      rewrite (nth_indep _ true false) by (rewrite (Hrows _ Hin); exact Hr).
      destruct (nth r (nth j mm []) false) eqn:E; [|reflexivity].
      assert (existsb (col r) mm = true) by (apply existsb_exists; eauto). congruence.
    + intros Hall. destruct (existsb (col r) mm) eqn:E; [|reflexivity].
      apply existsb_exists in E as (row & Hin & Hrow). destruct (In_nth _ _ [] Hin) as (j & Hj & Hnth).
      rewrite Hl in Hj. specialize (Hall j Hj). rewrite Hnth in Hall.
      rewrite (nth_indep _ true false) in Hall by (rewrite (Hrows _ Hin); exact Hr). congruence.
  - destruct n as [|n].
    + split; [intros _ j Hj; lia | reflexivity].
    + rewrite (existsb_col_all_true R (S n) r) by lia. split; [discriminate|]. intros H. specialize (H 0%nat ltac:(lia)). discriminate.
Qed.

Lemma active_realizations_wf cfgw nobj ncon ow cw :
  wf_wm (length cfgw) nobj ow -> wf_wm (length cfgw) ncon cw ->
  let a := active_realizations cfgw nobj ncon ow cw in
  wf_bm (length cfgw) nobj (flags (fst a) nobj (length cfgw)) /\ wf_bm (length cfgw) ncon (flags (snd a) ncon (length cfgw)).
Proof.
  intros Ho Hc. unfold active_realizations.
  pose proof (wf_nonzero cfgw nobj ow Ho) as Wo. pose proof (wf_nonzero cfgw ncon cw Hc) as Wc.
  set (ao := map (map nonzero) (in_force cfgw nobj ow)) in *.
  set (acm := map (map nonzero) (in_force cfgw ncon cw)) in *.
  destruct cw as [cwm|]; [|destruct ncon as [|n]];
    match goal with |- context [if ?b then _ else _] => destruct b end; cbn [fst snd flags];
    try (split; [apply wf_flags_none | apply wf_flags_none]); try (split; assumption).
Qed.

Lemma plan_active_wf has_filters cfgw nobj ncon c k :
  wf_cache (length cfgw) nobj ncon c ->
  let a := plan_active has_filters cfgw nobj ncon c k in
  wf_bm (length cfgw) nobj (flags (fst a) nobj (length cfgw)) /\ wf_bm (length cfgw) ncon (flags (snd a) ncon (length cfgw)).
Proof.
  intros Hc. destruct (plan_active_cases has_filters cfgw nobj ncon c k Hc) as [E | (ow & cw & Ho & Hw & E)]; rewrite E.
  - cbn [fst snd]. split; apply wf_flags_none.
  - now apply active_realizations_wf.
Qed.

Lemma agg_at_flags a R r : (r < R)%nat -> agg_at a r = nth r (agg_flags a R) true.
Proof. intros Hr. destruct a as [l|]; cbn; [reflexivity | now rewrite nth_repeat]. Qed.

Lemma agg_spec_nth R nobj ncon ao ac r : (r < R)%nat ->
  nth r (agg_spec R nobj ncon ao ac) true = existsb (col r) (flags ao nobj R ++ flags ac ncon R).
Proof.
  intros Hr. unfold agg_spec.
  rewrite (nth_indep _ true (existsb (col 0%nat) (flags ao nobj R ++ flags ac ncon R))) by (now rewrite map_length, seq_length).
  rewrite (map_nth (fun r => existsb (col r) (flags ao nobj R ++ flags ac ncon R)) (seq 0 R) 0%nat r).
  now rewrite seq_nth.
Qed.

Theorem aggregate_inactive_iff has_filters cfgw nobj ncon c k r :
  (0 < nobj)%nat -> wf_cache (length cfgw) nobj ncon c -> (r < length cfgw)%nat ->
  let a := plan_active has_filters cfgw nobj ncon c k in
  agg_at (aggregate_active (length cfgw) (fst a) (snd a)) r = false <->
  (forall j, (j < nobj)%nat -> flag_at (fst a) j r = false) /\ (forall j, (j < ncon)%nat -> flag_at (snd a) j r = false).
Proof.
  intros Hn Hc Hr a. rewrite (agg_at_flags _ (length cfgw) r Hr).
  unfold a. rewrite (aggregate_plan has_filters cfgw nobj ncon c k Hn Hc). fold a.
  rewrite (agg_spec_nth _ _ _ _ _ r Hr), existsb_app, orb_false_iff.
  destruct (plan_active_wf has_filters cfgw nobj ncon c k Hc) as [Wo Wc]. fold a in Wo, Wc.
  rewrite (existsb_col_flags _ _ _ r Wo Hr), (existsb_col_flags _ _ _ r Wc Hr). reflexivity.
Qed.

(* ---- from flags to weights: outputs that differ only at entries flagged inactive agree on every
        entry that carries weight (the hypothesis of the inertness theorems) ------------------------ *)
Inductive same_where : list bool -> list oQ -> list oQ -> Prop :=
| sw_nil : same_where [] [] []
| sw_cons b bs v v' vs vs' : (b = false \/ v = v') -> same_where bs vs vs' -> same_where (b :: bs) (v :: vs) (v' :: vs').

Lemma same_where_nonzero ws : forall vs vs', same_where (map nonzero ws) vs vs' -> agree ws vs vs'.
Proof.
  induction ws as [|w ws IH]; intros vs vs' H; inversion H; subst; constructor; [|now apply IH].
  match goal with Hd : _ \/ _ |- _ => destruct Hd as [Hz|He] end; [left; now apply nonzero_false | now right].
Qed.

Lemma same_where_true ws : forall vs vs', same_where (repeat true (length ws)) vs vs' -> agree ws vs vs'.
Proof.
  induction ws as [|w ws IH]; intros vs vs' H; cbn in H; inversion H; subst; constructor; [|now apply IH].
  match goal with Hd : _ \/ _ |- _ => destruct Hd as [Hz|He] end; [discriminate | now right].
Qed.

Lemma in_force_length cfgw n m : wf_wm (length cfgw) n m -> length (in_force cfgw n m) = n.
Proof. destruct m as [m|]; cbn; [now intros [H _] | now rewrite repeat_length]. Qed.

Lemma in_force_row cfgw n m j ws : wf_wm (length cfgw) n m -> nth_error (in_force cfgw n m) j = Some ws -> length ws = length cfgw.
Proof.
  destruct m as [m|]; cbn.
  - intros [_ H] Hj. rewrite Forall_forall in H. apply H. eapply nth_error_In; eauto.
  - intros _ Hj. apply nth_error_In, repeat_spec in Hj. now subst.
Qed.

Lemma nth_flags_none R n j : (j < n)%nat -> nth j (flags None n R) [] = repeat true R.
Proof. intros Hj. cbn. rewrite (nth_indep _ [] (repeat true R)) by (now rewrite repeat_length). apply nth_repeat. Qed.

Lemma nth_map_nonzero_row (m : wmatrix) j ws : nth_error m j = Some ws -> nth j (map (map nonzero) m) [] = map nonzero ws.
Proof. intros H. apply nth_error_nth. now apply map_nth_error. Qed.

Theorem flagged_agree_objectives cfgw nobj ncon ow cw j ws vs vs' :
  wf_wm (length cfgw) nobj ow -> nth_error (in_force cfgw nobj ow) j = Some ws ->
  same_where (nth j (flags (fst (active_realizations cfgw nobj ncon ow cw)) nobj (length cfgw)) []) vs vs' ->
  agree ws vs vs'.
Proof.
  intros Ho Hj. assert (Hjn : (j < nobj)%nat).
  { rewrite <- (in_force_length cfgw nobj ow Ho). apply nth_error_Some. congruence. }
  pose proof (in_force_row cfgw nobj ow j ws Ho Hj) as Hlen.
  unfold active_realizations. match goal with |- context [if ?b then _ else _] => destruct b end; cbn [fst].
  - rewrite (nth_flags_none _ _ _ Hjn), <- Hlen. apply same_where_true.
  - cbn [flags]. rewrite (nth_map_nonzero_row _ _ _ Hj). apply same_where_nonzero.
Qed.

Theorem flagged_agree_constraints cfgw nobj ncon ow cw j ws vs vs' :
  wf_wm (length cfgw) ncon cw -> nth_error (in_force cfgw ncon cw) j = Some ws ->
  same_where (nth j (flags (snd (active_realizations cfgw nobj ncon ow cw)) ncon (length cfgw)) []) vs vs' ->
  agree ws vs vs'.
Proof.
  intros Hc Hj. assert (Hjn : (j < ncon)%nat).
  { rewrite <- (in_force_length cfgw ncon cw Hc). apply nth_error_Some. congruence. }
  pose proof (in_force_row cfgw ncon cw j ws Hc Hj) as Hlen.
  unfold active_realizations.
  assert (Hac : match cw, ncon with None, O => None | _, _ => Some (map (map nonzero) (in_force cfgw ncon cw)) end
                = Some (map (map nonzero) (in_force cfgw ncon cw))).
  { destruct cw; [reflexivity|]. destruct ncon; [lia | reflexivity]. }
  rewrite Hac. match goal with |- context [if ?b then _ else _] => destruct b end; cbn [snd].
  - rewrite (nth_flags_none _ _ _ Hjn), <- Hlen. apply same_where_true.
  - cbn [flags]. rewrite (nth_map_nonzero_row _ _ _ Hj). apply same_where_nonzero.
Qed.

(* the weights that multiply the values of function j requested by a call of kind k: those of the cached
   function result for a gradient-only (split) request, the configured ones otherwise; with realization
   filters the weights of a function/combined request are only known afterwards -- and nothing is flagged *)
Definition weights_known (has_filters : bool) (cfgw : list Q) (n : nat) (m : option wmatrix) (split : bool) (j : nat)
           (ws : list Q) : Prop :=
  if split then nth_error (in_force cfgw n m) j = Some ws
  else length ws = length cfgw /\ (has_filters = false -> ws = cfgw).

Definition is_split (c : cache) (k : kind) : bool :=
  match k, c with KGrad, Some _ => true | _, _ => false end.
Definition cache_ow (c : cache) : option wmatrix := match c with Some (_, ow, _) => ow | None => None end.
Definition cache_cw (c : cache) : option wmatrix := match c with Some (_, _, cw) => cw | None => None end.

Theorem plan_flagged_agree has_filters cfgw nobj ncon c k j ws vs vs' :
  wf_cache (length cfgw) nobj ncon c ->
  ((j < nobj)%nat -> weights_known has_filters cfgw nobj (cache_ow c) (is_split c k) j ws ->
   same_where (nth j (flags (fst (plan_active has_filters cfgw nobj ncon c k)) nobj (length cfgw)) []) vs vs' ->
   agree ws vs vs') /\
  ((j < ncon)%nat -> weights_known has_filters cfgw ncon (cache_cw c) (is_split c k) j ws ->
   same_where (nth j (flags (snd (plan_active has_filters cfgw nobj ncon c k)) ncon (length cfgw)) []) vs vs' ->
   agree ws vs vs').
Proof.
  intros Hc.
  assert (Hfun : forall n, (j < n)%nat -> length ws = length cfgw /\ (has_filters = false -> ws = cfgw) ->
     (same_where (nth j (flags (fst (active_function_eval has_filters cfgw nobj ncon)) n (length cfgw)) []) vs vs' -> n = nobj -> agree ws vs vs') /\
     (same_where (nth j (flags (snd (active_function_eval has_filters cfgw nobj ncon)) n (length cfgw)) []) vs vs' -> n = ncon -> agree ws vs vs')).
  { intros n Hj [Hlen Hws]. unfold active_function_eval. destruct has_filters.
    - cbn [fst snd]. rewrite (nth_flags_none _ _ _ Hj), <- Hlen. split; intros H _; now apply same_where_true.
    - specialize (Hws eq_refl). subst ws. split; intros H ->.
      + apply (flagged_agree_objectives cfgw nobj ncon None None j); [exact I | | exact H].
        cbn. now apply nth_error_repeat.
      + apply (flagged_agree_constraints cfgw nobj ncon None None j); [exact I | | exact H].
        cbn. now apply nth_error_repeat. }
  unfold plan_active, is_split. destruct k as [B| |]; try (split; intros Hj Hw H; [exact (proj1 (Hfun nobj Hj Hw) H eq_refl) | exact (proj2 (Hfun ncon Hj Hw) H eq_refl)]).
  destruct c as [[[xc ow] cw]|]; [|split; intros Hj Hw H; [exact (proj1 (Hfun nobj Hj Hw) H eq_refl) | exact (proj2 (Hfun ncon Hj Hw) H eq_refl)]].
  destruct Hc as [Ho Hw]. cbn [cache_ow cache_cw]. unfold weights_known, active_split_gradient. split; intros Hj Hk H.
  - exact (flagged_agree_objectives cfgw nobj ncon ow cw j ws vs vs' Ho Hk H).
  - exact (flagged_agree_constraints cfgw nobj ncon ow cw j ws vs vs' Hw Hk H).
Qed.
