(* Proofs/Lstsq.v -- vector algebra over Q for Model/Gradient.v and the core least-squares facts:
   a vector that passes the (weighted) normal-equation test is THE solution whenever the data is
   consistent (b = A a) and A has full column rank.  Everything is by list induction; equalities
   are up to Qeq ([veq] = Forall2 Qeq). *)
From Coq Require Import QArith Qabs List Bool Arith Lia Lqa Setoid Morphisms.
From Ropt Require Import Base.Num Base.ListX Model.Gradient.
Import ListNotations.
Open Scope Q_scope.

(* ---- scalars ---------------------------------------------------------------------------------- *)
Lemma radd_correct x y : radd x y == x + y.
Proof.
  unfold radd. rewrite Qred_correct. unfold Qeq, Qplus. cbn [Qnum Qden]. ring.
Qed.
Lemma rsub_correct x y : rsub x y == x - y.
Proof. unfold rsub. rewrite radd_correct. ring. Qed.

Global Instance radd_Proper : Proper (Qeq ==> Qeq ==> Qeq) radd.
Proof. intros a b H c d H'. rewrite !radd_correct, H, H'. reflexivity. Qed.
Global Instance rsub_Proper : Proper (Qeq ==> Qeq ==> Qeq) rsub.
Proof. intros a b H c d H'. rewrite !rsub_correct, H, H'. reflexivity. Qed.

(* ---- vectors up to Qeq ------------------------------------------------------------------------- *)
Definition veq (a b : vec) : Prop := Forall2 Qeq a b.
Definition vz (a : vec) : Prop := Forall (fun z => z == 0) a.
Definition wfm (n : nat) (A : mat) : Prop := Forall (fun r => length r = n) A.

Lemma veq_refl a : veq a a.
Proof. induction a; constructor; [reflexivity | assumption]. Qed.
Lemma veq_sym a b : veq a b -> veq b a.
Proof. induction 1; constructor; [symmetry|]; assumption. Qed.
Lemma veq_trans a b c : veq a b -> veq b c -> veq a c.
Proof.
  intros H; revert c; induction H as [|x y a b Hxy _ IH]; intros c Hc; inversion Hc; subst; constructor.
  - etransitivity; eassumption.
  - apply IH; assumption.
Qed.
Global Instance veq_Equivalence : Equivalence veq.
Proof. split; [exact veq_refl | exact veq_sym | exact veq_trans]. Qed.
Lemma veq_length a b : veq a b -> length a = length b.
Proof. induction 1; cbn; congruence. Qed.
Lemma veq_vz a b : veq a b -> vz a -> vz b.
Proof.
  induction 1 as [|x y a b Hxy _ IH]; intros Hz; [constructor|].
  inversion Hz; subst. constructor; [rewrite <- Hxy; assumption | apply IH; assumption].
Qed.

Lemma length_vzero n : length (vzero n) = n.
Proof. apply repeat_length. Qed.
Lemma vz_vzero n : vz (vzero n).
Proof. induction n; cbn; constructor; [reflexivity | assumption]. Qed.
Lemma length_vadd a b : length a = length b -> length (vadd a b) = length a.
Proof. revert b; induction a as [|x a IH]; intros [|y b] H; cbn in *; try congruence. f_equal; apply IH; congruence. Qed.
Lemma length_vsub a b : length a = length b -> length (vsub a b) = length a.
Proof. revert b; induction a as [|x a IH]; intros [|y b] H; cbn in *; try congruence. f_equal; apply IH; congruence. Qed.
Lemma length_qscale c a : length (qscale c a) = length a.
Proof. apply map_length. Qed.
Lemma length_mv A x : length (mv A x) = length A.
Proof. apply map_length. Qed.

Lemma vadd_veq a a' b b' : veq a a' -> veq b b' -> veq (vadd a b) (vadd a' b').
Proof.
  intros H; revert b b'; induction H as [|x x' a a' Hx _ IH]; intros b b' Hb; cbn [vadd]; [constructor|].
  inversion Hb as [|y y' t t' Hy Ht]; subst; [constructor|].
  constructor; [rewrite Hx, Hy; reflexivity | apply IH; assumption].
Qed.
Lemma vsub_veq a a' b b' : veq a a' -> veq b b' -> veq (vsub a b) (vsub a' b').
Proof.
  intros H; revert b b'; induction H as [|x x' a a' Hx _ IH]; intros b b' Hb; cbn [vsub]; [constructor|].
  inversion Hb as [|y y' t t' Hy Ht]; subst; [constructor|].
  constructor; [rewrite Hx, Hy; reflexivity | apply IH; assumption].
Qed.
Lemma qscale_veq c c' a a' : c == c' -> veq a a' -> veq (qscale c a) (qscale c' a').
Proof. intros Hc; induction 1 as [|x x' a a' Hx _ IH]; cbn; constructor; [rewrite Hc, Hx; reflexivity | exact IH]. Qed.
Lemma qscale_cons c x a : qscale c (x :: a) = c * x :: qscale c a.
Proof. reflexivity. Qed.

(* ---- dot products -------------------------------------------------------------------------------- *)
Lemma rdot_cons x a y b : rdot (x :: a) (y :: b) == x * y + rdot a b.
Proof. cbn [rdot]. apply radd_correct. Qed.
Lemma rdot_nil_r a : rdot a [] = 0.
Proof. destruct a; reflexivity. Qed.
Lemma rdot_veq a a' b b' : veq a a' -> veq b b' -> rdot a b == rdot a' b'.
Proof.
  intros H; revert b b'; induction H as [|x x' a a' Hx _ IH]; intros b b' Hb; [reflexivity|].
  inversion Hb; subst; [reflexivity|]. rewrite !rdot_cons, Hx, H, (IH _ _ H0). reflexivity.
Qed.
Global Instance rdot_Proper : Proper (veq ==> veq ==> Qeq) rdot.
Proof. intros a a' H b b' H'. apply rdot_veq; assumption. Qed.
Lemma rdot_comm a b : rdot a b == rdot b a.
Proof.
  revert b; induction a as [|x a IH]; intros [|y b]; try reflexivity.
  rewrite !rdot_cons, IH. ring.
Qed.
Lemma rdot_vz_r d z : vz z -> rdot d z == 0.
Proof.
  intros H; revert d; induction H as [|x z Hx _ IH]; intros [|y d]; try reflexivity.
  rewrite rdot_cons, Hx, IH. ring.
Qed.
Lemma rdot_vzero_r d n : rdot d (vzero n) == 0.
Proof. apply rdot_vz_r, vz_vzero. Qed.
Lemma rdot_vadd_r x u v : length u = length v -> rdot x (vadd u v) == rdot x u + rdot x v.
Proof.
  revert u v; induction x as [|a x IH]; intros [|b u] [|c v] H; cbn in H; try discriminate;
    try (cbn; ring).
  cbn [vadd]. rewrite !rdot_cons, radd_correct, IH by congruence. ring.
Qed.
Lemma rdot_vsub_r x u v : length u = length v -> rdot x (vsub u v) == rdot x u - rdot x v.
Proof.
  revert u v; induction x as [|a x IH]; intros [|b u] [|c v] H; cbn in H; try discriminate;
    try (cbn; ring).
  cbn [vsub]. rewrite !rdot_cons, rsub_correct, IH by congruence. ring.
Qed.
Lemma rdot_qscale_r x c u : rdot x (qscale c u) == c * rdot x u.
Proof.
  revert u; induction x as [|a x IH]; intros [|b u]; try (cbn; ring).
  rewrite qscale_cons, !rdot_cons, IH. ring.
Qed.
Lemma rdot_qscale_l x c u : rdot (qscale c x) u == c * rdot x u.
Proof. rewrite rdot_comm, rdot_qscale_r, rdot_comm. reflexivity. Qed.
Lemma rdot_vsub_l u v x : length u = length v -> rdot (vsub u v) x == rdot u x - rdot v x.
Proof. intros H. rewrite rdot_comm, rdot_vsub_r, (rdot_comm x u), (rdot_comm x v) by assumption. reflexivity. Qed.

Lemma rdot_self_nonneg v : 0 <= rdot v v.
Proof. induction v as [|x v IH]; [cbn; lra | rewrite rdot_cons; nra]. Qed.
Lemma rdot_self_zero v : rdot v v == 0 -> vz v.
Proof.
  induction v as [|x v IH]; intros H; [constructor|]. rewrite rdot_cons in H.
  pose proof (rdot_self_nonneg v) as Hn.
  assert (Hx : x * x == 0) by nra. assert (Hv : rdot v v == 0) by nra.
  constructor; [nra | apply IH; exact Hv].
Qed.

Lemma vsub_vz_veq g a : length g = length a -> vz (vsub g a) -> veq g a.
Proof.
  revert a; induction g as [|x g IH]; intros [|y a] H Hz; cbn [vsub length] in *; try discriminate; [constructor|].
  inversion Hz as [|? ? Hxy Hrest]; subst. rewrite rsub_correct in Hxy.
  constructor; [lra | apply IH; [congruence | exact Hrest]].
Qed.
Lemma veq_vsub_vz g a : veq g a -> vz (vsub g a).
Proof. induction 1 as [|x y g a Hxy _ IH]; cbn [vsub]; constructor; [rewrite rsub_correct; lra | exact IH]. Qed.

(* ---- A x and A^T y ----------------------------------------------------------------------------------- *)
Lemma mv_veq A x x' : veq x x' -> veq (mv A x) (mv A x').
Proof. intros H. induction A as [|r A IH]; cbn [mv map]; constructor; [apply rdot_veq; [reflexivity | exact H] | exact IH]. Qed.
Lemma mv_vsub A g a : length g = length a -> veq (mv A (vsub g a)) (vsub (mv A g) (mv A a)).
Proof.
  intros H. induction A as [|r A IH]; cbn [mv map vsub]; constructor; [|exact IH].
  rewrite rsub_correct. apply rdot_vsub_r; exact H.
Qed.
Lemma mv_qscale A c a : veq (mv A (qscale c a)) (qscale c (mv A a)).
Proof. induction A as [|r A IH]; cbn [mv map]; [constructor|]. rewrite qscale_cons. constructor; [apply rdot_qscale_r | exact IH]. Qed.

Lemma length_tmv n A y : wfm n A -> length (tmv n A y) = n.
Proof.
  intros H; revert y; induction H as [|r A Hr _ IH]; intros y; [apply length_vzero|].
  destruct y as [|yi y]; [apply length_vzero|]. cbn [tmv].
  rewrite length_vadd; rewrite length_qscale; [exact Hr | rewrite IH; exact Hr].
Qed.
Lemma tmv_veq n A y y' : veq y y' -> veq (tmv n A y) (tmv n A y').
Proof.
  intros H; revert A; induction H as [|a a' y y' Ha _ IH]; intros [|r A]; cbn; try reflexivity.
  apply vadd_veq; [apply qscale_veq; [exact Ha | reflexivity] | apply IH].
Qed.
(* <A x, y> = <x, A^T y> *)
Lemma adjoint n A x y : wfm n A -> rdot (mv A x) y == rdot x (tmv n A y).
Proof.
  intros H; revert y; induction H as [|r A Hr HA IH]; intros y.
  - cbn. rewrite rdot_vzero_r. reflexivity.
  - destruct y as [|yi y]; [cbn [tmv]; rewrite rdot_nil_r, rdot_vzero_r; reflexivity|].
    cbn [mv map tmv]. rewrite rdot_cons.
    rewrite rdot_vadd_r by (rewrite length_qscale, (length_tmv n A y HA); exact Hr).
    rewrite rdot_qscale_r. fold (mv A x). rewrite IH, (rdot_comm r x). ring.
Qed.

Definition full_rank (n : nat) (A : mat) : Prop := forall d, length d = n -> vz (mv A d) -> vz d.

(* ---- weighted families of systems --------------------------------------------------------------------- *)
Definition wfs (n : nat) (s : wsystem) : Prop := wfm n (fst (snd s)) /\ length (snd (snd s)) = length (fst (snd s)).

Lemma wf_system_spec n s : wf_system n s = true -> wfs n s.
Proof.
  destruct s as [w [A b]]. unfold wf_system, wfs. cbn [fst snd]. intros H.
  apply andb_prop in H as [H1 H2]. split.
  - unfold wfm. rewrite forallb_forall in H1. apply Forall_forall. intros r Hr.
    apply Nat.eqb_eq, H1, Hr.
  - apply Nat.eqb_eq, H2.
Qed.
Lemma accept_spec n sys g : accept n sys g = true -> length g = n /\ Forall (wfs n) sys /\ vz (wresidual n sys g).
Proof.
  unfold accept. intros H. apply andb_prop in H as [H H3]. apply andb_prop in H as [H1 H2].
  split; [apply Nat.eqb_eq, H1|]. split.
  - apply Forall_forall. intros s Hs. rewrite forallb_forall in H2. apply wf_system_spec, H2, Hs.
  - apply Forall_forall. intros z Hz. rewrite forallb_forall in H3. apply Qeqb_eq, H3, Hz.
Qed.

Lemma length_residual n A b g : wfm n A -> length (residual n A b g) = n.
Proof. intros H. unfold residual. apply length_tmv, H. Qed.
Lemma length_wresidual n sys g : Forall (wfs n) sys -> length (wresidual n sys g) = n.
Proof.
  induction 1 as [|[w [A b]] sys [Hs _] _ IH]; cbn [wresidual]; [apply length_vzero|].
  cbn [fst snd] in Hs. rewrite length_vadd; rewrite length_qscale, length_residual by exact Hs; [reflexivity | symmetry; exact IH].
Qed.

(* sum_s w_s F(A_s, b_s) *)
Fixpoint wsumF (F : mat -> vec -> Q) (sys : list wsystem) : Q :=
  match sys with [] => 0 | (w, (A, b)) :: t => w * F A b + wsumF F t end.

(* testing the weighted residual with a vector d *)
Lemma wresidual_test n sys g d : Forall (wfs n) sys ->
  rdot d (wresidual n sys g) == wsumF (fun A b => rdot (mv A d) (vsub (mv A g) b)) sys.
Proof.
  induction 1 as [|[w [A b]] sys Hs Hsys IH]; cbn [wresidual wsumF]; [apply rdot_vzero_r|].
  destruct Hs as [HA Hb]. cbn [fst snd] in HA, Hb.
  rewrite rdot_vadd_r by (rewrite length_qscale, length_residual, length_wresidual by assumption; reflexivity).
  rewrite rdot_qscale_r, IH. unfold residual. rewrite <- (adjoint n A d _ HA). reflexivity.
Qed.

Lemma wsumF_ext F G sys : (forall s, In s sys -> F (fst (snd s)) (snd (snd s)) == G (fst (snd s)) (snd (snd s))) ->
  wsumF F sys == wsumF G sys.
Proof.
  induction sys as [|[w [A b]] sys IH]; intros H; cbn [wsumF]; [reflexivity|].
  rewrite IH by (intros s Hs; apply H; right; exact Hs).
  rewrite (H (w, (A, b)) (or_introl eq_refl)). reflexivity.
Qed.

(* a non-negatively weighted sum of non-negative terms that vanishes has vanishing terms *)
Lemma wsumF_nonneg F sys : (forall s, In s sys -> 0 <= fst s /\ 0 <= F (fst (snd s)) (snd (snd s))) -> 0 <= wsumF F sys.
Proof.
  induction sys as [|[w [A b]] sys IH]; intros H; cbn [wsumF]; [lra|].
  destruct (H (w, (A, b)) (or_introl eq_refl)) as [Hw HF]. cbn [fst snd] in Hw, HF.
  assert (0 <= wsumF F sys) by (apply IH; intros s Hs; apply H; right; exact Hs). nra.
Qed.
Lemma wsumF_zero_terms F sys : (forall s, In s sys -> 0 <= fst s /\ 0 <= F (fst (snd s)) (snd (snd s))) ->
  wsumF F sys == 0 -> forall s, In s sys -> fst s * F (fst (snd s)) (snd (snd s)) == 0.
Proof.
  induction sys as [|[w [A b]] sys IH]; intros H H0 s Hs; [destruct Hs|]. cbn [wsumF] in H0.
  destruct (H (w, (A, b)) (or_introl eq_refl)) as [Hw HF]. cbn [fst snd] in Hw, HF.
  assert (Hrest : 0 <= wsumF F sys) by (apply wsumF_nonneg; intros s' Hs'; apply H; right; exact Hs').
  assert (Hprod : 0 <= w * F A b) by nra.
  destruct Hs as [<-|Hs]; cbn [fst snd]; [lra|].
  apply IH; [intros s' Hs'; apply H; right; exact Hs' | lra | exact Hs].
Qed.

(* ---- exactness: every right-hand side is A_s a ("identical realizations"; one system = plain lstsq) ---- *)
Lemma wnormal_identical n sys a g :
  length g = n -> length a = n -> Forall (wfs n) sys ->
  (forall s, In s sys -> 0 <= fst s /\ veq (snd (snd s)) (mv (fst (snd s)) a)) ->
  (exists s, In s sys /\ 0 < fst s /\ full_rank n (fst (snd s))) ->
  vz (wresidual n sys g) -> veq g a.
Proof.
  intros Hg Ha Hwf Hdata [s0 [Hin0 [Hpos Hrank]]] Hres.
  set (d := vsub g a).
  assert (Hd : length d = n) by (unfold d; rewrite length_vsub; congruence).
  assert (Hsum : wsumF (fun A _ => rdot (mv A d) (mv A d)) sys == 0).
  { rewrite <- (rdot_vz_r d _ Hres), (wresidual_test n sys g d Hwf).
    apply wsumF_ext. intros s Hs. destruct (Hdata s Hs) as [_ Hb].
    apply rdot_veq; [reflexivity|]. unfold d.
    rewrite (mv_vsub (fst (snd s)) g a) by congruence. apply vsub_veq; [reflexivity | symmetry; exact Hb]. }
  assert (Hterm := wsumF_zero_terms (fun A _ => rdot (mv A d) (mv A d)) sys
            (fun s Hs => conj (proj1 (Hdata s Hs)) (rdot_self_nonneg _)) Hsum s0 Hin0).
  cbn beta in Hterm.
  assert (Hz : rdot (mv (fst (snd s0)) d) (mv (fst (snd s0)) d) == 0) by nra.
  apply vsub_vz_veq; [congruence|]. apply Hrank; [exact Hd|]. apply rdot_self_zero, Hz.
Qed.

(* sum_i w_i q_i as a list fold, for the shared case *)
Fixpoint wsum (ws qs : vec) : Q :=
  match ws, qs with w :: ws', q :: qs' => w * q + wsum ws' qs' | _, _ => 0 end.

Lemma length_wvsum n ws gs : Forall (fun g => length g = n) gs -> length (wvsum n ws gs) = n.
Proof.
  intros H; revert ws; induction H as [|g gs Hg _ IH]; intros [|w ws]; cbn [wvsum]; try apply length_vzero.
  rewrite length_vadd; rewrite length_qscale; [exact Hg | rewrite IH; exact Hg].
Qed.
Lemma rdot_wvsum n c ws gs : Forall (fun g => length g = n) gs ->
  rdot c (wvsum n ws gs) == wsum ws (map (fun g => rdot c g) gs).
Proof.
  intros H; revert ws; induction H as [|g gs Hg Hgs IH]; intros [|w ws]; cbn [wvsum wsum map];
    try apply rdot_vzero_r.
  rewrite rdot_vadd_r by (rewrite length_qscale, (length_wvsum n ws gs Hgs); exact Hg).
  rewrite rdot_qscale_r, IH. reflexivity.
Qed.

(* ---- exactness: all systems share the matrix A, right-hand sides A a_i, weights summing to one ------- *)
Definition shared_with (n : nat) (A : mat) (s : wsystem) (a : vec) : Prop :=
  fst (snd s) = A /\ length (snd (snd s)) = length A /\ length a = n /\ veq (snd (snd s)) (mv A a).

Lemma shared_sum n A d c g sys slopes :
  (forall v, rdot (mv A d) (mv A v) == rdot c v) ->
  Forall2 (shared_with n A) sys slopes ->
  wsumF (fun A' b => rdot (mv A' d) (vsub (mv A' g) b)) sys
  == qsum (map fst sys) * rdot c g - wsum (map fst sys) (map (fun a => rdot c a) slopes).
Proof.
  intros Hgen Hsys. induction Hsys as [|[w [A' b]] a sys sl [HA' [Hb [Ha Hba]]] _ IH].
  - cbn [wsumF map wsum]. rewrite qsum_nil. ring.
  - cbn [wsumF map wsum fst]. rewrite qsum_cons, IH. cbn [fst snd] in *. subst A'.
    rewrite rdot_vsub_r by (rewrite length_mv; symmetry; exact Hb).
    rewrite Hgen. rewrite (rdot_veq _ _ _ _ (veq_refl (mv A d)) Hba), Hgen. ring.
Qed.

Lemma wnormal_shared n A sys slopes g :
  length g = n -> wfm n A -> full_rank n A ->
  Forall2 (shared_with n A) sys slopes ->
  qsum (map fst sys) == 1 ->
  vz (wresidual n sys g) -> veq g (wvsum n (map fst sys) slopes).
Proof.
  intros Hg HA Hrank Hsys Hone Hres.
  assert (Hsl : Forall (fun a => length a = n) slopes).
  { clear -Hsys. induction Hsys as [|s a sys sl [_ [_ [Ha _]]] _ IH]; constructor; assumption. }
  assert (Hwf : Forall (wfs n) sys).
  { clear -Hsys HA. induction Hsys as [|[w [A' b]] a sys sl [HA' [Hb _]] _ IH]; constructor; [|exact IH].
    cbn [fst snd] in *. subst A'. split; cbn [fst snd]; assumption. }
  remember (map fst sys) as ws eqn:Ews.
  remember (wvsum n ws slopes) as astar eqn:Eastar.
  assert (Hastar : length astar = n) by (subst astar; apply length_wvsum, Hsl).
  remember (vsub g astar) as d eqn:Ed.
  assert (Hd : length d = n) by (subst d; rewrite length_vsub; congruence).
  remember (tmv n A (mv A d)) as c eqn:Ec.
  assert (Hgen : forall v, rdot (mv A d) (mv A v) == rdot c v).
  { intros v. subst c. rewrite (rdot_comm (mv A d)), (adjoint n A v _ HA), rdot_comm. reflexivity. }
  assert (Hzero : rdot c d == 0).
  { rewrite Ed at 1. rewrite rdot_vsub_r by congruence. rewrite Eastar at 1.
    rewrite (rdot_wvsum n c ws slopes Hsl).
    pose proof (shared_sum n A d c g sys slopes Hgen Hsys) as Hsum. rewrite <- Ews in Hsum.
    rewrite <- (wresidual_test n sys g d Hwf), (rdot_vz_r d _ Hres), Hone in Hsum. lra. }
  assert (Hsq : rdot (mv A d) (mv A d) == 0).
  { rewrite Hgen. exact Hzero. }
  apply vsub_vz_veq; [congruence|]. rewrite <- Ed. apply Hrank; [exact Hd|]. apply rdot_self_zero, Hsq.
Qed.

(* ---- the certified solver ----------------------------------------------------------------------------------- *)
Lemma wlstsq_sound n sys g : wlstsq n sys = Some g ->
  exists N D, ~ D == 0 /\ accept n (scale_rhs D sys) N = true /\ g = map (fun k => Qred (k / D)) N.
Proof.
  unfold wlstsq. destruct (propose n sys) as [N D]. unfold accept_hom.
  destruct (Qeqb D 0) eqn:ED; cbn [negb andb]; [discriminate|].
  destruct (accept n (scale_rhs D sys) N) eqn:EA; [|discriminate].
  intros H; inversion H; subst. exists N, D. split; [apply Qeqb_neq, ED|]. split; [exact EA | reflexivity].
Qed.

Lemma unscale_veq D N a : ~ D == 0 -> veq N (qscale D a) -> veq (map (fun k => Qred (k / D)) N) a.
Proof.
  intros HD H. remember (qscale D a) as Da eqn:E. revert a E.
  induction H as [|x y N Da Hxy _ IH]; intros [|z a] E; cbn in E; try discriminate; cbn [map]; constructor.
  - inversion E; subst. rewrite Qred_correct, Hxy. field. exact HD.
  - apply IH. inversion E; reflexivity.
Qed.
Lemma length_unscale D (N : vec) : length (map (fun k => Qred (k / D)) N) = length N.
Proof. apply map_length. Qed.

Lemma scale_rhs_wfs n D sys : Forall (wfs n) (scale_rhs D sys) -> Forall (wfs n) sys.
Proof.
  induction sys as [|[w [A b]] sys IH]; cbn [scale_rhs map]; intros H; [constructor|].
  inversion H as [|? ? [H1 H2] H3]; subst. cbn [fst snd] in *. constructor.
  - split; cbn [fst snd]; [exact H1 | rewrite length_qscale in H2; exact H2].
  - apply IH, H3.
Qed.

(* plain least squares: consistent data + full column rank => the accepted vector is the generator *)
Theorem lstsq_exact n A b a g :
  length a = n -> veq b (mv A a) -> full_rank n A -> lstsq n A b = Some g -> veq g a.
Proof.
  intros Ha Hb Hrank H. unfold lstsq in H. apply wlstsq_sound in H as [N [D [HD [Hacc ->]]]].
  apply accept_spec in Hacc as [HN [Hwf Hres]].
  apply unscale_veq; [exact HD|]. cbn [scale_rhs map fst snd] in Hwf, Hres.
  apply (wnormal_identical n [(1, (A, qscale D b))] (qscale D a) N HN).
  - rewrite length_qscale; exact Ha.
  - exact Hwf.
  - intros s [<-|[]]. cbn [fst snd]. split; [lra|].
    rewrite mv_qscale. apply qscale_veq; [reflexivity | exact Hb].
  - exists (1, (A, qscale D b)). split; [left; reflexivity|]. cbn [fst snd]. split; [lra | exact Hrank].
  - exact Hres.
Qed.
Lemma lstsq_length n A b g : lstsq n A b = Some g -> length g = n.
Proof.
  intros H. unfold lstsq in H. apply wlstsq_sound in H as [N [D [_ [Hacc ->]]]].
  apply accept_spec in Hacc as [HN _]. rewrite length_unscale. exact HN.
Qed.

(* ---- identical right-hand sides, JOINT rank: no single system needs full column rank, only the stack of
   all systems that carry positive weight (the situation merge_realizations exists for: few
   perturbations per realization) ------------------------------------------------------------------------ *)
Definition joint_rank (n : nat) (sys : list wsystem) : Prop :=
  forall d, length d = n -> (forall s, In s sys -> 0 < fst s -> vz (mv (fst (snd s)) d)) -> vz d.

Lemma wnormal_identical_joint n sys a g :
  length g = n -> length a = n -> Forall (wfs n) sys ->
  (forall s, In s sys -> 0 <= fst s /\ veq (snd (snd s)) (mv (fst (snd s)) a)) ->
  joint_rank n sys ->
  vz (wresidual n sys g) -> veq g a.
Proof.
  intros Hg Ha Hwf Hdata Hrank Hres.
  set (d := vsub g a).
  assert (Hd : length d = n) by (unfold d; rewrite length_vsub; congruence).
  assert (Hsum : wsumF (fun A _ => rdot (mv A d) (mv A d)) sys == 0).
  { rewrite <- (rdot_vz_r d _ Hres), (wresidual_test n sys g d Hwf).
    apply wsumF_ext. intros s Hs. destruct (Hdata s Hs) as [_ Hb].
    apply rdot_veq; [reflexivity|]. unfold d.
    rewrite (mv_vsub (fst (snd s)) g a) by congruence. apply vsub_veq; [reflexivity | symmetry; exact Hb]. }
  apply vsub_vz_veq; [congruence|]. apply Hrank; [exact Hd|].
  intros s Hs Hpos.
  assert (Hterm := wsumF_zero_terms (fun A _ => rdot (mv A d) (mv A d)) sys
            (fun s Hs => conj (proj1 (Hdata s Hs)) (rdot_self_nonneg _)) Hsum s Hs).
  cbn beta in Hterm.
  apply rdot_self_zero.
  apply Qmult_integral in Hterm as [Hterm|Hterm]; [lra | exact Hterm].
Qed.

(* ---- the accepted vector IS the least-squares solution (also for inconsistent data) -------------------- *)
(* orthogonality of the residual to the column space: <A k, A g - b> = 0 for every k *)
Definition orth (A : mat) (b g : vec) : Prop :=
  forall k, length k = length g -> rdot (mv A k) (vsub (mv A g) b) == 0.

Lemma vsub_split (p q b : vec) : length p = length b -> length q = length b ->
  veq (vsub p b) (vadd (vsub q b) (vsub p q)).
Proof.
  revert q b; induction p as [|x p IH]; intros [|y q] [|z b] H1 H2; cbn in H1, H2; try discriminate;
    cbn [vsub vadd]; constructor.
  - rewrite radd_correct, !rsub_correct. ring.
  - apply IH; congruence.
Qed.

Lemma rss_pythagoras A b g h : length b = length A -> length h = length g -> orth A b g ->
  rss A b h == rss A b g + rdot (mv A (vsub h g)) (mv A (vsub h g)).
Proof.
  intros Hb Hh Ho. unfold rss. cbv zeta.
  set (e := vsub (mv A g) b). set (u := mv A (vsub h g)).
  assert (He : length e = length A) by (unfold e; rewrite length_vsub; rewrite length_mv; congruence).
  assert (Hu : length u = length A) by (unfold u; apply length_mv).
  assert (E : veq (vsub (mv A h) b) (vadd e u)).
  { eapply veq_trans; [apply (vsub_split (mv A h) (mv A g) b); rewrite length_mv; congruence|].
    apply vadd_veq; [apply veq_refl | apply veq_sym, mv_vsub, Hh]. }
  rewrite (rdot_veq _ _ _ _ E E).
  assert (Hcross : rdot u e == 0).
  { unfold u, e. apply Ho. rewrite length_vsub by exact Hh. exact Hh. }
  rewrite rdot_vadd_r by congruence.
  rewrite (rdot_comm (vadd e u) e), (rdot_comm (vadd e u) u), !rdot_vadd_r by congruence.
  rewrite (rdot_comm e u), Hcross. ring.
Qed.

Lemma orth_minimal A b g h : length b = length A -> length h = length g -> orth A b g ->
  rss A b g <= rss A b h.
Proof.
  intros Hb Hh Ho. rewrite (rss_pythagoras A b g h Hb Hh Ho).
  pose proof (rdot_self_nonneg (mv A (vsub h g))). lra.
Qed.

Lemma orth_unique n A b g g' : full_rank n A -> length g = n -> length g' = n -> length b = length A ->
  orth A b g -> (forall h, length h = n -> rss A b g' <= rss A b h) -> veq g' g.
Proof.
  intros Hrank Hg Hg' Hb Ho Hmin.
  pose proof (rss_pythagoras A b g g' Hb ltac:(congruence) Ho) as Hp.
  pose proof (Hmin g Hg) as Hle.
  pose proof (rdot_self_nonneg (mv A (vsub g' g))) as Hn.
  apply vsub_vz_veq; [congruence|]. apply Hrank; [rewrite length_vsub; congruence|].
  apply rdot_self_zero. lra.
Qed.

(* g = N / D with A^T (A N - D b) = 0 gives the orthogonality of A g - b *)
Lemma rdot_unscale D (r N : vec) : ~ D == 0 -> rdot r (map (fun k => Qred (k / D)) N) == rdot r N / D.
Proof.
  intros HD. revert N; induction r as [|x r IH]; intros [|y N]; cbn [map].
  - cbn. field. exact HD.
  - cbn. field. exact HD.
  - rewrite rdot_nil_r. field. exact HD.
  - rewrite !rdot_cons, IH, Qred_correct. field. exact HD.
Qed.
Lemma scaled_residual D (p q b : vec) : ~ D == 0 -> Forall2 (fun qi pi => qi == pi / D) q p ->
  veq (vsub p (qscale D b)) (qscale D (vsub q b)).
Proof.
  intros HD H. revert b. induction H as [|qi pi q p Hqp _ IH]; intros [|z b]; cbn [qscale map vsub]; try constructor.
  - rewrite !rsub_correct, Hqp. field. exact HD.
  - apply IH.
Qed.

Lemma lstsq_orth n A b g : lstsq n A b = Some g ->
  wfm n A /\ length b = length A /\ length g = n /\ orth A b g.
Proof.
  intros H. unfold lstsq in H. apply wlstsq_sound in H as [N [D [HD [Hacc ->]]]].
  apply accept_spec in Hacc as [HN [Hwf Hres]]. cbn [scale_rhs map fst snd] in Hwf, Hres.
  pose proof (Forall_inv Hwf) as [HA Hb]. cbn [fst snd] in HA, Hb. rewrite length_qscale in Hb.
  split; [exact HA|]. split; [exact Hb|]. split; [rewrite length_unscale; exact HN|].
  intros k Hk. rewrite length_unscale in Hk.
  pose proof (wresidual_test n _ N k Hwf) as Ht. rewrite (rdot_vz_r k _ Hres) in Ht.
  cbn [wsumF] in Ht.
  assert (E : veq (vsub (mv A N) (qscale D b)) (qscale D (vsub (mv A (map (fun k => Qred (k / D)) N)) b))).
  { apply scaled_residual; [exact HD|]. clear -HD. induction A as [|r A IH]; cbn [mv map]; constructor; [|exact IH].
    apply rdot_unscale, HD. }
  rewrite (rdot_veq _ _ _ _ (veq_refl (mv A k)) E), rdot_qscale_r in Ht.
  assert (Hz : D * rdot (mv A k) (vsub (mv A (map (fun k0 => Qred (k0 / D)) N)) b) == 0) by lra.
  apply Qmult_integral in Hz as [Hz|Hz]; [contradiction | exact Hz].
Qed.

Theorem lstsq_minimal n A b g h : lstsq n A b = Some g -> length h = n -> rss A b g <= rss A b h.
Proof.
  intros H Hh. destruct (lstsq_orth n A b g H) as [_ [Hb [Hg Ho]]].
  apply orth_minimal; [exact Hb | congruence | exact Ho].
Qed.
Theorem lstsq_unique_minimiser n A b g g' : full_rank n A -> lstsq n A b = Some g -> length g' = n ->
  (forall h, length h = n -> rss A b g' <= rss A b h) -> veq g' g.
Proof.
  intros Hrank H Hg' Hmin. destruct (lstsq_orth n A b g H) as [_ [Hb [Hg Ho]]].
  exact (orth_unique n A b g g' Hrank Hg Hg' Hb Ho Hmin).
Qed.
