(* Proofs/LstsqComplete.v -- COMPLETENESS of the certified least-squares step of Model/Gradient.v and its link
   to the singular values.

   Proofs/Lstsq.v shows that a vector which passes the acceptance test is the least-squares solution
   (soundness).  Here: whenever the (weighted, stacked) design matrix has full column rank the Cramer proposer
   of the model is accepted, for EVERY number of columns n, so [wlstsq]/[lstsq] return [Some g] and never
   "singular" ([wlstsq_complete], [lstsq_complete]); conversely [Some g] is returned only for full-rank data
   ([wlstsq_some_joint_rank]).  Ingredients, all over Q up to ==:
     1. determinants of matrices given as functions nat -> nat -> Q, defined by cofactor expansion along
        the first row ([fdet]); moving a column costs a sign per step ([fdet_ins]); expansion with the
        entries of another row vanishes ([alien]); Cramer's rule  M . (det M[j <- r])_j == det M . r  for every
        square M and r, singular or not ([cramer]);
     2. a matrix whose quadratic form vanishes only at 0 has a non-zero determinant ([definite_det]), by
        induction on the leading principal minor using 1.;
     3. the model's [det] (fuel, zero skipping, reduced fractions) on lists is [fdet] ([det_fdet]); the
        weighted Gram matrix [wgram] represents  sum_s w_s <A_s d, A_s g>  ([wgram_form]) and is definite
        under joint rank with non-negative weights ([wgram_definite]).
   Singular values ([rayleigh_full_rank], [well_conditioned_lstsq]): the singular values themselves stay an
   oracle; what is used is their characterisation  smin * |x|^2 <= |A x|^2  for all x (the smallest eigenvalue
   of A^T A bounds the Rayleigh quotient from below), stated homogeneously so that no unit vectors / square
   roots are needed.  With smin > 0 this is full column rank; inside the property's 1 % clause
   ([well_conditioned]) smin = last s2 > 0, hence the model's solver returns the least-squares solution. *)
From Coq Require Import QArith Qabs List Bool Arith Lia Lqa Setoid Morphisms.
From Ropt Require Import Base.Num Base.ListX Gen.Generated Model.Gradient Proofs.Lstsq Proofs.SvdBound Proofs.Gradient.
Import ListNotations.
Open Scope Q_scope.

(* ======================================================================================== *)
(* ---- finite sums over 0 .. n-1 ---- *)
Fixpoint bsum (n : nat) (f : nat -> Q) : Q := match n with O => 0 | S m => bsum m f + f m end.

Lemma bsum_ext n f g : (forall i, (i < n)%nat -> f i == g i) -> bsum n f == bsum n g.
Proof.
  induction n as [|n IH]; intros H; cbn [bsum]; [reflexivity|].
  rewrite IH by (intros i Hi; apply H; lia). rewrite (H n) by lia. reflexivity.
Qed.
Lemma bsum_zero n f : (forall i, (i < n)%nat -> f i == 0) -> bsum n f == 0.
Proof.
  induction n as [|n IH]; intros H; cbn [bsum]; [reflexivity|].
  rewrite IH by (intros i Hi; apply H; lia). rewrite (H n) by lia. ring.
Qed.
Lemma bsum_plus n f g : bsum n (fun i => f i + g i) == bsum n f + bsum n g.
Proof. induction n as [|n IH]; cbn [bsum]; [ring | rewrite IH; ring]. Qed.
Lemma bsum_scal n c f : bsum n (fun i => c * f i) == c * bsum n f.
Proof. induction n as [|n IH]; cbn [bsum]; [ring | rewrite IH; ring]. Qed.

Definition skip (j k : nat) : nat := if (k <? j)%nat then k else S k.
Lemma skip_lt j k : (k < j)%nat -> skip j k = k.
Proof. intros H. unfold skip. destruct (Nat.ltb_spec k j); [reflexivity | lia]. Qed.
Lemma skip_ge j k : (j <= k)%nat -> skip j k = S k.
Proof. intros H. unfold skip. destruct (Nat.ltb_spec k j); [lia | reflexivity]. Qed.

Ltac skip_cases :=
  repeat match goal with
  | |- context [skip ?j ?k] =>
      lazymatch j with context [skip] => fail | _ => idtac end;
      lazymatch k with context [skip] => fail | _ => idtac end;
      let H := fresh "Hs" in
      destruct (le_lt_dec j k) as [H|H];
      [rewrite !(skip_ge j k H) in * | rewrite !(skip_lt j k H) in *]
  end.
Ltac brk :=
  repeat match goal with
  | |- context [(?a <? ?b)%nat] => destruct (Nat.ltb_spec a b)
  | |- context [(?a =? ?b)%nat] => destruct (Nat.eqb_spec a b)
  end.
(* goals  X i a == X i b  with a = b by arithmetic *)
Ltac idx :=
  try (exfalso; lia); try reflexivity;
  match goal with
  | |- ?X ?i ?a == ?X ?i ?b => replace a with b by lia; reflexivity
  | |- ?X ?a == ?X ?b => replace a with b by lia; reflexivity
  end.

Lemma bsum_split n j f : (j < S n)%nat -> bsum (S n) f == f j + bsum n (fun k => f (skip j k)).
Proof.
  induction n as [|n IH]; intros Hj.
  - assert (j = O) by lia. subst j. cbn [bsum]. ring.
  - destruct (Nat.eq_dec j (S n)) as [->|Hne].
    + change (bsum (S (S n)) f) with (bsum (S n) f + f (S n)).
      rewrite (bsum_ext (S n) (fun k => f (skip (S n) k)) f) by (intros i Hi; rewrite skip_lt by lia; reflexivity).
      ring.
    + change (bsum (S (S n)) f) with (bsum (S n) f + f (S n)).
      rewrite IH by lia. change (bsum (S n) (fun k => f (skip j k))) with (bsum n (fun k => f (skip j k)) + f (skip j n)).
      rewrite (skip_ge j n) by lia. ring.
Qed.

(* the pairs (j, k), j <= n, k < n, split into k >= j and its mirror image (k+1, j) *)
Lemma bsum2_tri m (g : nat -> nat -> Q) :
  bsum (S m) (fun j => bsum m (fun k => g j k)) == bsum m (fun k => bsum (S k) (fun j => g j k + g (S k) j)).
Proof.
  induction m as [|m IH]; [cbn [bsum]; ring|].
  change (bsum (S (S m)) (fun j => bsum (S m) (fun k => g j k)))
    with (bsum (S m) (fun j => bsum m (fun k => g j k) + g j m) + bsum (S m) (g (S m))).
  change (bsum (S m) (fun k => bsum (S k) (fun j => g j k + g (S k) j)))
    with (bsum m (fun k => bsum (S k) (fun j => g j k + g (S k) j)) + bsum (S m) (fun j => g j m + g (S m) j)).
  rewrite <- IH, !bsum_plus. ring.
Qed.
Lemma bsum2_zero m (g : nat -> nat -> Q) :
  (forall j k, (j <= k)%nat -> (k < m)%nat -> g j k + g (S k) j == 0) ->
  bsum (S m) (fun j => bsum m (fun k => g j k)) == 0.
Proof.
  intros H. rewrite bsum2_tri. apply bsum_zero. intros k Hk. apply bsum_zero. intros j Hj. apply H; lia.
Qed.
Lemma bsum2_swap m (g g' : nat -> nat -> Q) :
  (forall j k, (j <= k)%nat -> (k < m)%nat -> g j k == g' (S k) j /\ g (S k) j == g' j k) ->
  bsum (S m) (fun j => bsum m (fun k => g j k)) == bsum (S m) (fun j => bsum m (fun k => g' j k)).
Proof.
  intros H. rewrite !bsum2_tri. apply bsum_ext. intros k Hk. apply bsum_ext. intros j Hj.
  destruct (H j k ltac:(lia) Hk) as [H1 H2]. rewrite H1, H2. ring.
Qed.

(* ---- determinants of matrices given as functions ---- *)
Definition fmat := nat -> nat -> Q.
Fixpoint sgn (j : nat) : Q := match j with O => 1 | S j' => - sgn j' end.
Definition minor (j : nat) (M : fmat) : fmat := fun i k => M (S i) (skip j k).
Fixpoint fdet (n : nat) (M : fmat) : Q :=
  match n with O => 1 | S m => bsum (S m) (fun j => sgn j * M O j * fdet m (minor j M)) end.
Lemma fdet_S m M : fdet (S m) M = bsum (S m) (fun j => sgn j * M O j * fdet m (minor j M)).
Proof. reflexivity. Qed.
Definition meq (n : nat) (M M' : fmat) : Prop := forall i k, (i < n)%nat -> (k < n)%nat -> M i k == M' i k.

Lemma skip_bound j k m : (k < m)%nat -> (skip j k < S m)%nat.
Proof. intros H. unfold skip. destruct (k <? j)%nat; lia. Qed.

Lemma fdet_ext n : forall M M', meq n M M' -> fdet n M == fdet n M'.
Proof.
  induction n as [|n IH]; intros M M' H; [reflexivity|]. rewrite !fdet_S.
  apply bsum_ext. intros j Hj. rewrite (H O j) by lia.
  rewrite (IH (minor j M) (minor j M')); [reflexivity|].
  intros i k Hi Hk. unfold minor. apply H; [lia | apply skip_bound, Hk].
Qed.

Definition tlr (X : fmat) : fmat := fun i k => X (S i) k.
Definition tlv (r : nat -> Q) : nat -> Q := fun i => r (S i).
Definition del (j : nat) (X : fmat) : fmat := fun i k => X i (skip j k).
Definition ins (p : nat) (r : nat -> Q) (E : fmat) : fmat :=
  fun i k => if (k <? p)%nat then E i k else if (k =? p)%nat then r i else E i (pred k).
Definition repl (j : nat) (r : nat -> Q) (M : fmat) : fmat := fun i k => if (k =? j)%nat then r i else M i k.

Lemma sgn_sq j : sgn j * sgn j == 1.
Proof. induction j as [|j IH]; cbn [sgn]; [ring|]. rewrite <- IH. ring. Qed.

(* a column inserted at position p can be moved to the front at the price of p sign changes *)
Lemma fdet_ins_expand m p r E :
  (forall p' r' E', (p' < m)%nat -> fdet m (ins p' r' E') == sgn p' * fdet m (ins 0 r' E')) ->
  (p < S m)%nat ->
  fdet (S m) (ins p r E) ==
  sgn p * (r O * fdet m (tlr E) + bsum m (fun k => sgn (S k) * E O k * fdet m (ins 0 (tlv r) (del k (tlr E))))).
Proof.
  intros IH Hp. rewrite fdet_S, (bsum_split m p) by exact Hp.
  rewrite Qmult_plus_distr_r, <- bsum_scal. apply Qplus_comp.
  - assert (E1 : ins p r E O p == r O).
    { unfold ins. brk; idx. }
    rewrite E1. rewrite (fdet_ext m (minor p (ins p r E)) (tlr E)); [ring|].
    intros i k Hi Hk. unfold minor, ins, tlr. skip_cases; brk; idx.
  - apply bsum_ext. intros k Hk.
    assert (E1 : ins p r E O (skip p k) == E O k).
    { unfold ins. skip_cases; brk; idx. }
    rewrite E1.
    rewrite (fdet_ext m (minor (skip p k) (ins p r E))
               (ins (if (k <? p)%nat then pred p else p) (tlv r) (del k (tlr E)))).
    2:{ intros i c Hi Hc. unfold minor, ins, tlr, tlv, del. 
        destruct (Nat.ltb_spec k p); skip_cases; brk; idx. }
    rewrite IH by (destruct (Nat.ltb_spec k p); lia).
    destruct (Nat.ltb_spec k p) as [Hkp|Hkp].
    + rewrite skip_lt by exact Hkp. destruct p as [|p']; [lia|]. cbn [pred sgn]. ring.
    + rewrite skip_ge by exact Hkp. cbn [sgn]. ring.
Qed.
Lemma fdet_ins m : forall p r E, (p < m)%nat -> fdet m (ins p r E) == sgn p * fdet m (ins 0 r E).
Proof.
  induction m as [|m IH]; intros p r E Hp; [lia|].
  rewrite (fdet_ins_expand m p r E IH Hp), (fdet_ins_expand m O r E IH ltac:(lia)). cbn [sgn]. ring.
Qed.

(* ======================================================================================== *)
(* simplicial identity for double minors *)
Lemma minor_minor j k M m : (j <= k)%nat ->
  meq m (minor k (minor j M)) (minor j (minor (S k) M)).
Proof. intros Hjk a b Ha Hb. unfold minor. skip_cases; idx. Qed.

(* expansion along the first row with the entries of another row vanishes *)
Lemma alien m : forall M i, (i < m)%nat ->
  bsum (S m) (fun j => sgn j * M (S i) j * fdet m (minor j M)) == 0.
Proof.
  induction m as [|m IH]; intros M i Hi; [lia|].
  set (g := fun j k => sgn j * M (S i) j * (sgn k * M 1%nat (skip j k) * fdet m (minor k (minor j M)))).
  rewrite (bsum_ext _ _ (fun j => bsum (S m) (fun k => g j k))).
  2:{ intros j Hj. rewrite fdet_S, <- bsum_scal. apply bsum_ext. intros k Hk. unfold g, minor at 1. reflexivity. }
  destruct i as [|i'].
  - apply bsum2_zero. intros j k Hjk Hk. unfold g.
    rewrite (skip_ge j k Hjk), (skip_lt (S k) j) by lia.
    rewrite (fdet_ext m _ _ (minor_minor j k M m Hjk)). cbn [sgn]. ring.
  - set (g' := fun l k => - sgn l * M 1%nat l * (sgn k * minor l M (S i') k * fdet m (minor k (minor l M)))).
    rewrite (bsum2_swap (S m) g g').
    + apply bsum_zero. intros l Hl. unfold g'.
      rewrite bsum_scal. rewrite (IH (minor l M) i') by lia. ring.
    + intros j k Hjk Hk. unfold g, g'.
      change (minor (S k) M (S i') j) with (M (S (S i')) (skip (S k) j)).
      change (minor j M (S i') k) with (M (S (S i')) (skip j k)).
      rewrite (skip_ge j k Hjk), (skip_lt (S k) j) by lia.
      rewrite (fdet_ext m _ _ (minor_minor j k M m Hjk)). cbn [sgn]. split; ring.
Qed.

Lemma minor_repl_self j r M m : meq m (minor j (repl j r M)) (minor j M).
Proof. intros a b Ha Hb. unfold minor, repl. skip_cases; brk; idx. Qed.
Lemma minor_repl l c r M m : meq m (minor l (repl (skip l c) r M)) (repl c (tlv r) (minor l M)).
Proof. intros a b Ha Hb. unfold minor, repl, tlv. skip_cases; brk; idx. Qed.
Lemma repl_ins j r X m : meq m (repl j r X) (ins j r (del j X)).
Proof. intros a b Ha Hb. unfold repl, ins, del. skip_cases; brk; idx. Qed.
Lemma del_del j k X : (j <= k)%nat -> forall a b, del j (del (S k) X) a b == del k (del j X) a b.
Proof. intros Hjk a b. unfold del. skip_cases; idx. Qed.

Lemma fdet_repl_expand m j r M : (j < S m)%nat ->
  fdet (S m) (repl j r M) ==
  sgn j * r O * fdet m (minor j M)
  + bsum m (fun k => sgn (skip j k) * M O (skip j k) * fdet m (minor (skip j k) (repl j r M))).
Proof.
  intros Hj. rewrite fdet_S, (bsum_split m j) by exact Hj. apply Qplus_comp.
  - rewrite (fdet_ext m _ _ (minor_repl_self j r M m)). unfold repl. rewrite Nat.eqb_refl. reflexivity.
  - apply bsum_ext. intros k Hk.
    assert (E : repl j r M O (skip j k) == M O (skip j k)).
    { unfold repl. skip_cases; brk; idx. }
    rewrite E. reflexivity.
Qed.

(* Cramer's rule for the cofactor determinant:  M . (det M_j<-r)_j  ==  det M . r *)
Theorem cramer n : forall M r i, (i < n)%nat ->
  bsum n (fun j => M i j * fdet n (repl j r M)) == fdet n M * r i.
Proof.
  induction n as [|m IH]; intros M r i Hi; [lia|].
  set (g := fun j k => M i j * (sgn (skip j k) * M O (skip j k) * fdet m (minor (skip j k) (repl j r M)))).
  rewrite (bsum_ext _ _ (fun j => r O * (sgn j * M i j * fdet m (minor j M)) + bsum m (fun k => g j k))).
  2:{ intros j Hj. rewrite (fdet_repl_expand m j r M Hj), Qmult_plus_distr_r, <- bsum_scal. unfold g.
      apply Qplus_comp; [ring | reflexivity]. }
  rewrite bsum_plus, bsum_scal.
  (* the two auxiliary determinants of the pair j <= k *)
  assert (Hm1 : forall j k, (j <= k)%nat -> (k < m)%nat ->
            fdet m (minor (S k) (repl j r M)) == fdet m (repl j (tlv r) (minor (S k) M))).
  { intros j k Hjk Hk. apply fdet_ext. pose proof (minor_repl (S k) j r M m) as H.
    rewrite (skip_lt (S k) j) in H by lia. exact H. }
  assert (Hm2 : forall j k, (j <= k)%nat -> (k < m)%nat ->
            fdet m (minor j (repl (S k) r M)) == fdet m (repl k (tlv r) (minor j M))).
  { intros j k Hjk Hk. apply fdet_ext. pose proof (minor_repl j k r M m) as H.
    rewrite (skip_ge j k Hjk) in H. exact H. }
  destruct i as [|i'].
  - rewrite <- fdet_S.
    rewrite (bsum2_zero m g); [ring|].
    intros j k Hjk Hk. unfold g. rewrite (skip_ge j k Hjk), (skip_lt (S k) j) by lia.
    rewrite (Hm1 j k Hjk Hk), (Hm2 j k Hjk Hk).
    rewrite (fdet_ext m _ _ (repl_ins j (tlv r) (minor (S k) M) m)).
    rewrite (fdet_ext m _ _ (repl_ins k (tlv r) (minor j M) m)).
    rewrite (fdet_ins m j) by lia. rewrite (fdet_ins m k) by lia.
    rewrite (fdet_ext m (ins 0 (tlv r) (del k (minor j M))) (ins 0 (tlv r) (del j (minor (S k) M)))).
    2:{ intros a b Ha Hb. unfold ins. brk; try reflexivity; symmetry; apply (del_del j k (tlr M) Hjk). }
    cbn [sgn]. ring.
  - rewrite (alien m M i') by lia.
    set (g' := fun l k => sgn l * M O l * (minor l M i' k * fdet m (repl k (tlv r) (minor l M)))).
    rewrite (bsum2_swap m g g').
    + rewrite (bsum_ext _ _ (fun l => r (S i') * (sgn l * M O l * fdet m (minor l M)))).
      2:{ intros l Hl. unfold g'. rewrite bsum_scal, (IH (minor l M) (tlv r) i') by lia. unfold tlv. ring. }
      rewrite bsum_scal, <- fdet_S. ring.
    + intros j k Hjk Hk. unfold g, g'.
      change (minor (S k) M i' j) with (M (S i') (skip (S k) j)).
      change (minor j M i' k) with (M (S i') (skip j k)).
      rewrite (skip_ge j k Hjk), (skip_lt (S k) j) by lia.
      rewrite (Hm1 j k Hjk Hk), (Hm2 j k Hjk Hk). split; ring.
Qed.

(* ======================================================================================== *)
Lemma bsum_shift n f : bsum (S n) f == f O + bsum n (fun k => f (S k)).
Proof. rewrite (bsum_split n O f) by lia. reflexivity. Qed.
Lemma bsum_exchange n m (f : nat -> nat -> Q) :
  bsum n (fun i => bsum m (fun j => f i j)) == bsum m (fun j => bsum n (fun i => f i j)).
Proof.
  induction n as [|n IH]; cbn [bsum].
  - symmetry. apply bsum_zero. intros; reflexivity.
  - rewrite IH, <- bsum_plus. reflexivity.
Qed.

(* ---- a matrix whose quadratic form vanishes only at 0 has a non-zero determinant ---- *)
Definition mvf (n : nat) (M : fmat) (x : nat -> Q) (i : nat) : Q := bsum n (fun k => M i k * x k).
Definition qf (n : nat) (M : fmat) (x : nat -> Q) : Q := bsum n (fun i => x i * mvf n M x i).
Definition definite (n : nat) (M : fmat) : Prop :=
  forall x, qf n M x == 0 -> forall i, (i < n)%nat -> x i == 0.

Lemma definite_minor m M : definite (S m) M -> definite m (minor 0 M).
Proof.
  intros HM x' Hx' i Hi.
  set (x := fun i => match i with O => 0 | S i' => x' i' end).
  assert (E : qf (S m) M x == qf m (minor 0 M) x').
  { unfold qf. rewrite bsum_shift. change (x O) with 0.
    rewrite Qmult_0_l, Qplus_0_l. apply bsum_ext. intros a Ha. change (x (S a)) with (x' a).
    unfold mvf. rewrite bsum_shift. change (x O) with 0.
    rewrite Qmult_0_r, Qplus_0_l. apply Qmult_comp; [reflexivity|]. apply bsum_ext. intros b Hb.
    reflexivity. }
  rewrite <- E in Hx'. exact (HM x Hx' (S i) ltac:(lia)).
Qed.

Theorem definite_det n : forall M, definite n M -> ~ fdet n M == 0.
Proof.
  induction n as [|m IH]; intros M HM HD; [cbn in HD; discriminate HD|].
  (* every Cramer numerator vanishes *)
  assert (HN : forall r j, (j < S m)%nat -> fdet (S m) (repl j r M) == 0).
  { intros r. apply HM. unfold qf. apply bsum_zero. intros i Hi. unfold mvf.
    rewrite (cramer (S m) M r i Hi), HD. ring. }
  set (e0 := fun i : nat => match i with O => 1 | S _ => 0 end).
  set (z := fun _ : nat => 0).
  pose proof (HN e0 O ltac:(lia)) as H1. pose proof (HN z O ltac:(lia)) as H2.
  rewrite (fdet_repl_expand m O e0 M) in H1 by lia. rewrite (fdet_repl_expand m O z M) in H2 by lia.
  assert (E : bsum m (fun k => sgn (skip 0 k) * M O (skip 0 k) * fdet m (minor (skip 0 k) (repl 0 e0 M)))
           == bsum m (fun k => sgn (skip 0 k) * M O (skip 0 k) * fdet m (minor (skip 0 k) (repl 0 z M)))).
  { apply bsum_ext. intros k Hk. apply Qmult_comp; [reflexivity|]. apply fdet_ext.
    intros a b Ha Hb. unfold minor, repl. destruct (skip (skip 0 k) b =? 0)%nat; reflexivity. }
  rewrite E in H1. change (e0 O) with 1 in H1. change (z O) with 0 in H2.
  apply (IH (minor 0 M) (definite_minor m M HM)).
  cbn [sgn] in H1, H2. lra.
Qed.

(* ======================================================================================== *)
(* ---- from lists to functions ---- *)
Definition fn (M : mat) : fmat := fun i k => nth k (nth i M []) 0.
Definition fv (v : vec) : nat -> Q := fun i => nth i v 0.

Lemma nth_map_lt {A B} (f : A -> B) l j d d' : (j < length l)%nat -> nth j (map f l) d = f (nth j l d').
Proof. intros H. rewrite (nth_indep _ d (f d')) by (rewrite map_length; exact H). apply map_nth. Qed.
Lemma nth_map_seq {B} (F : nat -> B) n j d : (j < n)%nat -> nth j (map F (seq 0 n)) d = F j.
Proof. intros H. rewrite (nth_map_lt F _ j d O) by (rewrite seq_length; exact H). rewrite seq_nth by exact H. reflexivity. Qed.
Lemma wfm_nth n M i : wfm n M -> (i < length M)%nat -> length (nth i M []) = n.
Proof. intros H Hi. unfold wfm in H. rewrite Forall_forall in H. apply H, nth_In, Hi. Qed.
Lemma vz_nth v i : vz v -> nth i v 0 == 0.
Proof. intros H; revert i; induction H as [|x v Hx _ IH]; intros [|i]; cbn [nth]; try reflexivity; [exact Hx | apply IH]. Qed.
Lemma vz_of_nth v : (forall i, (i < length v)%nat -> nth i v 0 == 0) -> vz v.
Proof.
  induction v as [|x v IH]; intros H; constructor.
  - apply (H O). cbn; lia.
  - apply IH. intros i Hi. apply (H (S i)). cbn; lia.
Qed.
Lemma nth_vsub a : forall b i, length a = length b -> nth i (vsub a b) 0 == nth i a 0 - nth i b 0.
Proof.
  induction a as [|x a IH]; intros [|y b] i H; cbn in H; try discriminate.
  - destruct i; cbn; ring.
  - destruct i as [|i]; cbn [vsub nth]; [apply rsub_correct | apply IH; congruence].
Qed.

Lemma rdot_bsum : forall a b, rdot a b == bsum (length a) (fun i => fv a i * fv b i).
Proof.
  induction a as [|x a IH]; intros b; [reflexivity|]. destruct b as [|y b].
  - rewrite rdot_nil_r. symmetry. apply bsum_zero. intros i _. unfold fv. destruct i; cbn [nth]; ring.
  - rewrite rdot_cons. cbn [length]. rewrite bsum_shift, IH. reflexivity.
Qed.
Lemma rdot_bsum_n n a b : length a = n -> rdot a b == bsum n (fun i => fv a i * fv b i).
Proof. intros <-. apply rdot_bsum. Qed.
Lemma fv_mv A x i : (i < length A)%nat -> fv (mv A x) i = rdot (nth i A []) x.
Proof. intros H. unfold fv, mv. apply (nth_map_lt (fun r => rdot r x) A i 0 []), H. Qed.
Lemma fv_col A j i : fv (col j A) i = fn A i j.
Proof.
  unfold fv, col, fn. destruct (Nat.lt_ge_cases i (length A)) as [H|H].
  - apply (nth_map_lt (fun r => nth j r 0) A i 0 []), H.
  - rewrite nth_overflow by (rewrite map_length; exact H). rewrite (nth_overflow A) by exact H. destruct j; reflexivity.
Qed.
Lemma bsum_mul_r n f c : bsum n f * c == bsum n (fun i => f i * c).
Proof. rewrite Qmult_comm, <- bsum_scal. apply bsum_ext. intros; ring. Qed.

(* row i of A times x, as a sum *)
Lemma row_bsum n A x i : wfm n A -> (i < length A)%nat -> fv (mv A x) i == bsum n (fun k => fn A i k * fv x k).
Proof. intros HA Hi. rewrite fv_mv by exact Hi. apply rdot_bsum_n, wfm_nth; assumption. Qed.

(* ---- the Gram matrix and A^T b as bilinear forms ---- *)
Lemma gram_form n A d g : wfm n A -> length d = n -> length g = n ->
  rdot d (mv (gram n A) g) == rdot (mv A d) (mv A g).
Proof.
  intros HA Hd Hg. set (p := length A).
  set (t := fun i j k => fn A i j * fv d j * (fn A i k * fv g k)).
  assert (L : rdot d (mv (gram n A) g) == bsum n (fun j => bsum n (fun k => bsum p (fun i => t i j k)))).
  { rewrite (rdot_bsum_n n) by exact Hd. apply bsum_ext. intros j Hj.
    rewrite fv_mv by (unfold gram; rewrite map_length, seq_length; exact Hj).
    unfold gram at 1. rewrite nth_map_seq by exact Hj.
    rewrite (rdot_bsum_n n) by (rewrite map_length, seq_length; reflexivity).
    rewrite <- bsum_scal. apply bsum_ext. intros k Hk.
    unfold fv at 2. rewrite nth_map_seq by exact Hk.
    rewrite (rdot_bsum_n p) by (unfold col; apply map_length).
    rewrite bsum_mul_r, <- bsum_scal. apply bsum_ext. intros i Hi. rewrite !fv_col. unfold t. ring. }
  assert (R : rdot (mv A d) (mv A g) == bsum p (fun i => bsum n (fun j => bsum n (fun k => t i j k)))).
  { rewrite (rdot_bsum_n p) by apply length_mv. apply bsum_ext. intros i Hi.
    rewrite !(row_bsum n) by assumption. rewrite bsum_mul_r. apply bsum_ext. intros j Hj.
    rewrite <- bsum_scal. apply bsum_ext. intros k Hk. unfold t. ring. }
  rewrite L, R. rewrite (bsum_exchange p n). apply bsum_ext. intros j Hj.
  rewrite (bsum_exchange p n). reflexivity.
Qed.
Lemma atb_form n A b d : wfm n A -> length d = n -> rdot d (atb n A b) == rdot (mv A d) b.
Proof.
  intros HA Hd. set (p := length A).
  rewrite (rdot_bsum_n n) by exact Hd. rewrite (rdot_bsum_n p) by apply length_mv.
  rewrite (bsum_ext n _ (fun j => bsum p (fun i => fn A i j * fv d j * fv b i))).
  2:{ intros j Hj. unfold atb, fv at 2. rewrite nth_map_seq by exact Hj.
      rewrite (rdot_bsum_n p) by (unfold col; apply map_length). rewrite <- bsum_scal.
      apply bsum_ext. intros i Hi. rewrite fv_col. ring. }
  rewrite bsum_exchange. apply bsum_ext. intros i Hi.
  rewrite (row_bsum n) by assumption. rewrite bsum_mul_r. reflexivity.
Qed.

(* shapes *)
Definition shape (n : nat) (P : mat) : Prop := length P = n /\ wfm n P.
Lemma shape_gram n A : shape n (gram n A).
Proof.
  split; [unfold gram; rewrite map_length, seq_length; reflexivity|].
  apply Forall_forall. intros r Hr. unfold gram in Hr. apply in_map_iff in Hr as [j [<- _]].
  rewrite map_length, seq_length. reflexivity.
Qed.
Lemma shape_scale n w P : shape n P -> shape n (map (qscale w) P).
Proof.
  intros [HL HW]. split; [rewrite map_length; exact HL|].
  apply Forall_forall. intros r Hr. apply in_map_iff in Hr as [r' [<- Hr']].
  rewrite length_qscale. unfold wfm in HW. rewrite Forall_forall in HW. apply HW, Hr'.
Qed.
Lemma shape_madd n : forall m P Q, length P = m -> length Q = m -> wfm n P -> wfm n Q ->
  length (madd P Q) = m /\ wfm n (madd P Q).
Proof.
  induction m as [|m IH]; intros [|p P] [|q Q] HP HQ WP WQ; cbn in HP, HQ; try discriminate.
  - split; [reflexivity | constructor].
  - inversion WP as [|? ? Hp WP']; inversion WQ as [|? ? Hq WQ']; subst.
    destruct (IH P Q ltac:(congruence) ltac:(congruence) WP' WQ') as [H1 H2].
    cbn [madd]. split; [cbn; congruence|]. constructor; [|exact H2].
    rewrite length_vadd; congruence.
Qed.
Lemma shape_wgram n sys : shape n (wgram n sys).
Proof.
  induction sys as [|[w [A b]] sys IH]; cbn [wgram].
  - split; [apply repeat_length|]. apply Forall_forall. intros r Hr. apply repeat_spec in Hr. subst r. apply length_vzero.
  - destruct IH as [HL HW]. destruct (shape_scale n w _ (shape_gram n A)) as [HL' HW'].
    exact (shape_madd n n _ _ HL' HL HW' HW).
Qed.
Lemma length_atb n A b : length (atb n A b) = n.
Proof. unfold atb. rewrite map_length, seq_length. reflexivity. Qed.
Lemma length_watb n sys : length (watb n sys) = n.
Proof.
  induction sys as [|[w [A b]] sys IH]; cbn [watb]; [apply length_vzero|].
  rewrite length_vadd; rewrite length_qscale, length_atb; [reflexivity | symmetry; exact IH].
Qed.

Lemma rdot_vadd_l p q g : length p = length q -> rdot (vadd p q) g == rdot p g + rdot q g.
Proof. intros H. rewrite rdot_comm, rdot_vadd_r, (rdot_comm g p), (rdot_comm g q) by exact H. reflexivity. Qed.
Lemma mv_madd n g : forall P Q, wfm n P -> wfm n Q -> length P = length Q ->
  veq (mv (madd P Q) g) (vadd (mv P g) (mv Q g)).
Proof.
  induction P as [|p P IH]; intros [|q Q] WP WQ HL; cbn in HL; try discriminate; cbn [madd mv map vadd]; [constructor|].
  inversion WP as [|? ? Hp WP']; inversion WQ as [|? ? Hq WQ']; subst.
  constructor; [rewrite rdot_vadd_l, radd_correct by congruence; reflexivity|].
  apply IH; [assumption | assumption | congruence].
Qed.
Lemma mv_scale w g P : veq (mv (map (qscale w) P) g) (qscale w (mv P g)).
Proof.
  induction P as [|p P IH]; cbn [mv map]; [constructor|]. rewrite qscale_cons.
  constructor; [apply rdot_qscale_l | exact IH].
Qed.
Lemma vz_mv_zero n m g : vz (mv (repeat (vzero n) m) g).
Proof.
  induction m as [|m IH]; cbn [repeat mv map]; constructor; [|exact IH].
  rewrite rdot_comm. apply rdot_vzero_r.
Qed.

Lemma wgram_form n sys d g : Forall (wfs n) sys -> length d = n -> length g = n ->
  rdot d (mv (wgram n sys) g) == wsumF (fun A _ => rdot (mv A d) (mv A g)) sys.
Proof.
  intros Hwf Hd Hg. induction Hwf as [|[w [A b]] sys [HA _] _ IH]; cbn [wgram wsumF].
  - apply rdot_vz_r, vz_mv_zero.
  - cbn [fst snd] in HA.
    destruct (shape_scale n w _ (shape_gram n A)) as [HL1 HW1]. destruct (shape_wgram n sys) as [HL2 HW2].
    rewrite (rdot_veq _ _ _ _ (veq_refl d) (mv_madd n g _ _ HW1 HW2 ltac:(congruence))).
    rewrite rdot_vadd_r by (rewrite !length_mv; congruence).
    rewrite (rdot_veq _ _ _ _ (veq_refl d) (mv_scale w g (gram n A))), rdot_qscale_r, IH.
    rewrite (gram_form n A d g HA Hd Hg). reflexivity.
Qed.
Lemma watb_form n sys d : Forall (wfs n) sys -> length d = n ->
  rdot d (watb n sys) == wsumF (fun A b => rdot (mv A d) b) sys.
Proof.
  intros Hwf Hd. induction Hwf as [|[w [A b]] sys [HA _] _ IH]; cbn [watb wsumF].
  - apply rdot_vzero_r.
  - cbn [fst snd] in HA.
    rewrite rdot_vadd_r by (rewrite length_qscale, length_atb, length_watb; reflexivity).
    rewrite rdot_qscale_r, IH, (atb_form n A b d HA Hd). reflexivity.
Qed.

(* ======================================================================================== *)
(* ---- the model's determinant (fuel, zero-skipping, reduced fractions) is the cofactor determinant ---- *)
Lemma nth_nil0 k : nth k (@nil Q) 0 = 0.
Proof. destruct k; reflexivity. Qed.
Lemma nth_remove_nth (l : vec) : forall j k, nth k (remove_nth j l) 0 = nth (skip j k) l 0.
Proof.
  induction l as [|x l IH]; intros j k.
  - assert (E : remove_nth j (@nil Q) = []) by (destruct j; reflexivity). rewrite E, !nth_nil0. reflexivity.
  - destruct j as [|j]; cbn [remove_nth].
    + rewrite skip_ge by lia. reflexivity.
    + destruct k as [|k].
      * rewrite skip_lt by lia. reflexivity.
      * cbn [nth]. rewrite IH. destruct (le_lt_dec j k) as [H|H].
        -- rewrite (skip_ge j k H), (skip_ge (S j) (S k)) by lia. reflexivity.
        -- rewrite (skip_lt j k H), (skip_lt (S j) (S k)) by lia. reflexivity.
Qed.
Lemma length_remove_nth {A} (l : list A) : forall j, (j < length l)%nat -> length (remove_nth j l) = pred (length l).
Proof.
  induction l as [|x l IH]; intros j H; cbn in H; [lia|]. destruct j as [|j]; cbn [remove_nth length pred]; [reflexivity|].
  rewrite IH by lia. destruct l; cbn in *; lia.
Qed.

Definition go_ (D : mat -> Q) (M' : mat) :=
  fix go (j : nat) (sgn : Q) (row : vec) {struct row} : Q :=
    match row with
    | [] => 0
    | x :: row' =>
        if Qeqb x 0 then go (S j) (- sgn) row'
        else radd (sgn * x * D (map (remove_nth j) M')) (go (S j) (- sgn) row')
    end.
Lemma det_S f r M' : det (S f) (r :: M') = go_ (det f) M' 0%nat 1 r.
Proof. reflexivity. Qed.
Lemma go_sum D M' : forall row j s,
  go_ D M' j s row == bsum (length row) (fun k => s * sgn k * nth k row 0 * D (map (remove_nth (j + k)) M')).
Proof.
  induction row as [|x row IH]; intros j s; [reflexivity|].
  change (go_ D M' j s (x :: row))
    with (if Qeqb x 0 then go_ D M' (S j) (- s) row
          else radd (s * x * D (map (remove_nth j) M')) (go_ D M' (S j) (- s) row)).
  cbn [length]. rewrite bsum_shift. cbn [nth sgn]. rewrite Nat.add_0_r.
  assert (E : bsum (length row) (fun k => s * sgn (S k) * nth (S k) (x :: row) 0 * D (map (remove_nth (j + S k)) M'))
           == go_ D M' (S j) (- s) row).
  { rewrite IH. apply bsum_ext. intros k Hk. rewrite Nat.add_succ_r. cbn [nth sgn plus]. ring. }
  rewrite E. destruct (Qeqb x 0) eqn:Ex.
  - apply Qeqb_eq in Ex. rewrite Ex. ring.
  - rewrite radd_correct. ring.
Qed.

Lemma nth_map_remove k (M' : mat) a : nth a (map (remove_nth k) M') [] = remove_nth k (nth a M' []).
Proof. pose proof (map_nth (remove_nth k) M' [] a) as H. replace (remove_nth k (@nil Q)) with (@nil Q) in H by (destruct k; reflexivity). exact H. Qed.

Lemma det_fdet n : forall M, length M = n -> wfm n M -> det n M == fdet n (fn M).
Proof.
  induction n as [|f IH]; intros M HL HW; [destruct M; reflexivity|].
  destruct M as [|r M']; [discriminate|]. rewrite det_S, go_sum.
  inversion HW as [|? ? Hr HW']; subst. rewrite Hr, fdet_S. apply bsum_ext. intros k Hk. cbn [plus].
  rewrite IH.
  - rewrite (fdet_ext f (fn (map (remove_nth k) M')) (minor k (fn (r :: M')))).
    + change (fn (r :: M') O k) with (nth k r 0). ring.
    + intros a b Ha Hb. unfold fn, minor. rewrite nth_map_remove, nth_remove_nth. reflexivity.
  - rewrite map_length. cbn in HL. lia.
  - apply Forall_forall. intros row Hrow. apply in_map_iff in Hrow as [row' [<- Hrow']].
    unfold wfm in HW'. rewrite Forall_forall in HW'. rewrite length_remove_nth; rewrite (HW' _ Hrow'); [reflexivity | exact Hk].
Qed.

(* ---- replace_col ---- *)
Lemma nth_replace_nth (row : vec) : forall j x k, (j < length row)%nat ->
  nth k (replace_nth j x row) 0 = if (k =? j)%nat then x else nth k row 0.
Proof.
  induction row as [|y row IH]; intros j x k H; cbn in H; [lia|].
  destruct j as [|j]; cbn [replace_nth]; destruct k as [|k]; cbn [nth Nat.eqb]; try reflexivity.
  apply IH. lia.
Qed.
Lemma length_replace_nth {A} (row : list A) : forall j x, length (replace_nth j x row) = length row.
Proof. induction row as [|y row IH]; intros [|j] x; cbn [replace_nth length]; try reflexivity. rewrite IH. reflexivity. Qed.
Lemma shape_replace_col n j : forall m M r, length M = m -> length r = m -> wfm n M ->
  length (replace_col j r M) = m /\ wfm n (replace_col j r M).
Proof.
  induction m as [|m IH]; intros [|row M] [|x r] HM Hr HW; cbn in HM, Hr; try discriminate; cbn [replace_col].
  - split; [reflexivity | constructor].
  - inversion HW as [|? ? Hrow HW']; subst.
    destruct (IH M r ltac:(congruence) ltac:(congruence) HW') as [H1 H2].
    split; [cbn; congruence|]. constructor; [rewrite length_replace_nth; reflexivity | exact H2].
Qed.
Lemma nth_replace_col j : forall M r i, (i < length M)%nat -> (i < length r)%nat ->
  nth i (replace_col j r M) [] = replace_nth j (nth i r 0) (nth i M []).
Proof.
  induction M as [|row M IH]; intros [|x r] i HM Hr; cbn in HM, Hr; try lia.
  destruct i as [|i]; cbn [replace_col nth]; [reflexivity|]. apply IH; lia.
Qed.
Lemma fn_replace_col n j r M : length M = n -> length r = n -> wfm n M -> (j < n)%nat ->
  meq n (fn (replace_col j r M)) (repl j (fv r) (fn M)).
Proof.
  intros HM Hr HW Hj i k Hi Hk. unfold fn, repl, fv.
  rewrite nth_replace_col by lia. rewrite nth_replace_nth by (rewrite (wfm_nth n M i HW) by lia; exact Hj).
  reflexivity.
Qed.

(* ---- Cramer's rule on the model's lists ---- *)
Definition numerators (n : nat) (G : mat) (rv : vec) : vec := map (fun j => det n (replace_col j rv G)) (seq 0 n).

Lemma cramer_lists n G rv : length G = n -> wfm n G -> length rv = n ->
  vz (vsub (mv G (numerators n G rv)) (qscale (det n G) rv)).
Proof.
  intros HG HW Hr. apply vz_of_nth. intros i Hi.
  rewrite length_vsub in Hi by (rewrite length_mv, length_qscale; congruence). rewrite length_mv in Hi.
  rewrite nth_vsub by (rewrite length_mv, length_qscale; congruence).
  change (nth i (mv G (numerators n G rv)) 0) with (fv (mv G (numerators n G rv)) i).
  rewrite (row_bsum n G _ i HW Hi).
  unfold qscale. rewrite (nth_map_lt (fun x => det n G * x) rv i 0 0) by lia.
  rewrite (bsum_ext n _ (fun j => fn G i j * fdet n (repl j (fv rv) (fn G)))).
  2:{ intros j Hj. unfold numerators, fv at 1. rewrite nth_map_seq by exact Hj.
      destruct (shape_replace_col n j n G rv HG Hr HW) as [H1 H2].
      rewrite (det_fdet n _ H1 H2). rewrite (fdet_ext n _ _ (fn_replace_col n j rv G HG Hr HW Hj)). reflexivity. }
  rewrite (cramer n (fn G) (fv rv) i) by lia. rewrite (det_fdet n G HG HW). unfold fv. ring.
Qed.

(* ---- the weighted Gram matrix is definite under joint rank ---- *)
Lemma wgram_definite n sys : Forall (wfs n) sys -> (forall s, In s sys -> 0 <= fst s) -> joint_rank n sys ->
  definite n (fn (wgram n sys)).
Proof.
  intros Hwf Hpos Hrank x Hq.
  set (xv := map x (seq 0 n)).
  assert (Hxv : length xv = n) by (unfold xv; rewrite map_length, seq_length; reflexivity).
  assert (Hfx : forall i, (i < n)%nat -> fv xv i = x i) by (intros i Hi; unfold fv, xv; apply nth_map_seq, Hi).
  destruct (shape_wgram n sys) as [HL HW].
  assert (E : rdot xv (mv (wgram n sys) xv) == qf n (fn (wgram n sys)) x).
  { rewrite (rdot_bsum_n n) by exact Hxv. unfold qf. apply bsum_ext. intros i Hi.
    rewrite (row_bsum n _ _ i HW) by lia. rewrite (Hfx i Hi). apply Qmult_comp; [reflexivity|].
    unfold mvf. apply bsum_ext. intros k Hk. rewrite (Hfx k Hk). reflexivity. }
  rewrite Hq, (wgram_form n sys xv xv Hwf Hxv Hxv) in E.
  assert (Hz : vz xv).
  { apply Hrank; [exact Hxv|]. intros s Hs Hw.
    pose proof (wsumF_zero_terms (fun A _ => rdot (mv A xv) (mv A xv)) sys
                  (fun s Hs => conj (Hpos s Hs) (rdot_self_nonneg _)) E s Hs) as Ht.
    cbn beta in Ht. apply rdot_self_zero.
    apply Qmult_integral in Ht as [Ht|Ht]; [lra | exact Ht]. }
  intros i Hi. rewrite <- (Hfx i Hi). apply vz_nth, Hz.
Qed.

(* ---- the proposal passes the acceptance test ---- *)
Lemma wgram_scale_rhs n D sys : wgram n (scale_rhs D sys) = wgram n sys.
Proof. unfold scale_rhs. induction sys as [|[w [A b]] sys IH]; [reflexivity|]. cbn [map wgram fst snd]. rewrite IH. reflexivity. Qed.
Lemma scale_rhs_wfs_back n D sys : Forall (wfs n) sys -> Forall (wfs n) (scale_rhs D sys).
Proof.
  induction 1 as [|[w [A b]] sys [H1 H2] _ IH]; cbn [scale_rhs map]; constructor; [|exact IH].
  cbn [fst snd] in *. split; cbn [fst snd]; [exact H1 | rewrite length_qscale; exact H2].
Qed.
Lemma wf_system_complete n s : wfs n s -> wf_system n s = true.
Proof.
  destruct s as [w [A b]]. intros [H1 H2]. cbn [fst snd] in *. unfold wf_system. apply andb_true_intro. split.
  - apply forallb_forall. intros r Hr. apply Nat.eqb_eq. unfold wfm in H1. rewrite Forall_forall in H1. apply H1, Hr.
  - apply Nat.eqb_eq, H2.
Qed.
Lemma test_scaled n D sys d N : Forall (wfs n) sys ->
  wsumF (fun A b => rdot (mv A d) (vsub (mv A N) b)) (scale_rhs D sys)
  == wsumF (fun A _ => rdot (mv A d) (mv A N)) sys - D * wsumF (fun A b => rdot (mv A d) b) sys.
Proof.
  induction 1 as [|[w [A b]] sys [H1 H2] _ IH]; cbn [scale_rhs map wsumF fst snd]; [ring|].
  cbn [fst snd] in *. cbn [scale_rhs] in IH. rewrite IH.
  rewrite rdot_vsub_r by (rewrite length_mv, length_qscale; congruence). rewrite rdot_qscale_r. ring.
Qed.

Lemma proposal_residual n sys : Forall (wfs n) sys ->
  let G := wgram n sys in let rv := watb n sys in
  vz (wresidual n (scale_rhs (det n G) sys) (numerators n G rv)).
Proof.
  intros Hwf G rv. set (D := det n G). set (N := numerators n G rv).
  destruct (shape_wgram n sys) as [HL HW]. fold G in HL, HW.
  pose proof (length_watb n sys) as Hrv. fold rv in Hrv.
  assert (HN : length N = n) by (unfold N, numerators; rewrite map_length, seq_length; reflexivity).
  pose proof (scale_rhs_wfs_back n D sys Hwf) as Hwf'.
  set (R := wresidual n (scale_rhs D sys) N).
  assert (HR : length R = n) by (apply length_wresidual, Hwf').
  apply rdot_self_zero.
  pose proof (wresidual_test n _ N R Hwf') as Ht. fold R in Ht. rewrite Ht, (test_scaled n D sys R N Hwf).
  rewrite <- (wgram_form n sys R N Hwf HR HN), <- (watb_form n sys R Hwf HR).
  fold G rv. rewrite <- rdot_qscale_r, <- rdot_vsub_r by (rewrite length_mv, length_qscale; congruence).
  apply rdot_vz_r. exact (cramer_lists n G rv HL HW Hrv).
Qed.

Theorem wlstsq_complete n sys :
  Forall (wfs n) sys -> (forall s, In s sys -> 0 <= fst s) -> joint_rank n sys ->
  exists g, wlstsq n sys = Some g.
Proof.
  intros Hwf Hpos Hrank. unfold wlstsq, propose.
  set (G := wgram n sys). set (rv := watb n sys).
  fold (numerators n G rv).
  destruct (shape_wgram n sys) as [HL HW]. fold G in HL, HW.
  assert (HD : ~ det n G == 0).
  { rewrite (det_fdet n G HL HW). apply definite_det, wgram_definite; assumption. }
  assert (Hacc : accept_hom n sys (numerators n G rv) (det n G) = true).
  { unfold accept_hom. apply andb_true_intro. split.
    - apply negb_true_iff, Qeqb_neq, HD.
    - unfold accept. apply andb_true_intro. split; [apply andb_true_intro; split|].
      + apply Nat.eqb_eq. unfold numerators. rewrite map_length, seq_length. reflexivity.
      + apply forallb_forall. intros s Hs. apply wf_system_complete.
        pose proof (scale_rhs_wfs_back n (det n G) sys Hwf) as H. rewrite Forall_forall in H. apply H, Hs.
      + apply forallb_forall. intros z Hz. apply Qeqb_eq.
        pose proof (proposal_residual n sys Hwf) as H. cbv zeta in H. fold G rv in H.
        unfold vz in H. rewrite Forall_forall in H. apply H, Hz. }
  rewrite Hacc. eexists. reflexivity.
Qed.

Theorem lstsq_complete n A b : wfm n A -> length b = length A -> full_rank n A -> exists g, lstsq n A b = Some g.
Proof.
  intros HA Hb Hrank. unfold lstsq. apply wlstsq_complete.
  - constructor; [split; assumption | constructor].
  - intros s [<-|[]]. cbn. lra.
  - intros d Hd H. apply Hrank; [exact Hd|]. apply (H (1, (A, b))); [left; reflexivity | cbn; lra].
Qed.

(* ======================================================================================== *)
(* ---- the converse: "singular" is answered only for rank-deficient data ---- *)
Lemma wsumF_zero F sys : (forall s, In s sys -> fst s * F (fst (snd s)) (snd (snd s)) == 0) -> wsumF F sys == 0.
Proof.
  induction sys as [|[w [A b]] sys IH]; intros H; cbn [wsumF]; [reflexivity|].
  rewrite IH by (intros s Hs; apply H; right; exact Hs).
  pose proof (H (w, (A, b)) (or_introl eq_refl)) as H0. cbn [fst snd] in H0. rewrite H0. ring.
Qed.

Theorem wlstsq_some_joint_rank n sys g :
  (forall s, In s sys -> 0 <= fst s) -> wlstsq n sys = Some g -> Forall (wfs n) sys /\ joint_rank n sys.
Proof.
  intros Hpos H. unfold wlstsq, propose in H.
  set (G := wgram n sys) in *. set (rv := watb n sys) in *.
  destruct (accept_hom n sys _ (det n G)) eqn:Hacc; [|discriminate]. clear H.
  unfold accept_hom in Hacc. apply andb_prop in Hacc as [HD Hacc].
  apply negb_true_iff, Qeqb_neq in HD.
  apply accept_spec in Hacc as [_ [Hwf _]]. apply scale_rhs_wfs in Hwf.
  split; [exact Hwf|]. intros d Hd Hz.
  destruct (shape_wgram n sys) as [HL HW]. fold G in HL, HW.
  set (N := numerators n G d).
  assert (HN : length N = n) by (unfold N, numerators; rewrite map_length, seq_length; reflexivity).
  pose proof (cramer_lists n G d HL HW Hd) as Hc. fold N in Hc.
  apply vsub_vz_veq in Hc; [|rewrite length_mv, length_qscale; congruence].
  assert (E : rdot d (mv G N) == det n G * rdot d d).
  { rewrite (rdot_veq _ _ _ _ (veq_refl d) Hc), rdot_qscale_r. reflexivity. }
  unfold G at 1 in E. rewrite (wgram_form n sys d N Hwf Hd HN) in E.
  rewrite wsumF_zero in E.
  - apply rdot_self_zero. symmetry in E. apply Qmult_integral in E as [E|E]; [contradiction | exact E].
  - intros s Hs. cbn beta. destruct (Qlt_le_dec 0 (fst s)) as [Hw|Hw].
    + rewrite (rdot_comm (mv (fst (snd s)) d)), (rdot_vz_r _ _ (Hz s Hs Hw)). ring.
    + pose proof (Hpos s Hs) as Hw'. assert (E0 : fst s == 0) by lra. rewrite E0. ring.
Qed.

(* ---- singular values: a positive lower Rayleigh bound is full column rank ---- *)
Theorem rayleigh_full_rank n A smin : 0 < smin ->
  (forall x, length x = n -> smin * rdot x x <= rdot (mv A x) (mv A x)) -> full_rank n A.
Proof.
  intros Hs Hr d Hd Hz. apply rdot_self_zero.
  pose proof (Hr d Hd) as H. rewrite (rdot_vz_r _ _ Hz) in H.
  pose proof (rdot_self_nonneg d) as Hn. nra.
Qed.

Lemma well_conditioned_last_pos n s2 : well_conditioned n s2 = true -> 0 < last s2 0.
Proof.
  unfold well_conditioned. intros H.
  apply andb_prop in H as [H _]. apply andb_prop in H as [H Hlast]. apply andb_prop in H as [_ Hpos].
  apply Qltb_lt in Hpos. apply Qleb_le in Hlast. unfold kappa in Hlast. lra.
Qed.

Theorem well_conditioned_full_rank n A s2 : well_conditioned n s2 = true ->
  (forall x, length x = n -> last s2 0 * rdot x x <= rdot (mv A x) (mv A x)) -> full_rank n A.
Proof. intros Hwc. apply rayleigh_full_rank, (well_conditioned_last_pos n), Hwc. Qed.

Theorem well_conditioned_lstsq n A b s2 : wfm n A -> length b = length A ->
  well_conditioned n s2 = true ->
  (forall x, length x = n -> last s2 0 * rdot x x <= rdot (mv A x) (mv A x)) ->
  keeps_all svd_tolerance s2 = true /\
  exists g, lstsq n A b = Some g /\
    (forall h, length h = n -> rss A b g <= rss A b h) /\
    (forall g', length g' = n -> (forall h, length h = n -> rss A b g' <= rss A b h) -> veq g' g) /\
    (forall a, length a = n -> veq b (mv A a) -> veq g a).
Proof.
  intros HA Hb Hwc Hr. split; [exact (proj1 (well_conditioned_keeps_all n s2 Hwc))|].
  pose proof (well_conditioned_full_rank n A s2 Hwc Hr) as Hrank.
  destruct (lstsq_complete n A b HA Hb Hrank) as [g Hg]. exists g. split; [exact Hg|]. split; [|split].
  - intros h Hh. exact (lstsq_minimal n A b g h Hg Hh).
  - intros g' Hg' Hmin. exact (lstsq_unique_minimiser n A b g g' Hrank Hg Hg' Hmin).
  - intros a Ha Hba. exact (lstsq_exact n A b a g Ha Hba Hrank Hg).
Qed.

(* ---- consequences for the gradient model: it never answers GSingular on a full-rank ensemble ---- *)
Lemma realization_gradient_total n x a c r w : length x = n -> affine_on n x a c r ->
  (~ w == 0 -> full_rank n (fst (system_of x r))) -> exists g, realization_gradient n x r w = Some g.
Proof.
  intros Hx Haff Hrank. unfold realization_gradient.
  destruct (Qeqb w 0) eqn:Ew; [eexists; reflexivity|]. apply Qeqb_neq in Ew. specialize (Hrank Ew).
  destruct (system_of x r) as [A b] eqn:E. cbn [fst] in Hrank.
  destruct (system_of_affine n x a c r A b Hx Haff E) as [HA [Hb _]].
  destruct A as [|row A]; [eexists; reflexivity|]. exact (lstsq_complete n _ b HA Hb Hrank).
Qed.
Lemma per_realization_total n x rs ws sl : length x = n -> affine_ens n x rs ws sl ->
  exists gs, estimate_per_realization n x rs ws = Some gs.
Proof.
  intros Hx H. induction H as [|r w a c rs ws sl Haff Hrank Hens IH]; [eexists; reflexivity|].
  destruct IH as [gs IH].
  destruct (realization_gradient_total n x a c r w Hx Haff Hrank) as [g Hg].
  cbn [estimate_per_realization]. rewrite Hg, IH. eexists; reflexivity.
Qed.
Theorem calc_gradient_not_singular n x rs failed w wh sl e : length x = n ->
  normalize (zero_failed failed w) = Some wh -> affine_ens n x rs wh sl ->
  calc_gradient n x rs failed w e false <> GSingular.
Proof.
  intros Hx Hn Hens. unfold calc_gradient. rewrite Hn.
  destruct (per_realization_total n x rs wh sl Hx Hens) as [gs ->].
  destruct e; [discriminate|].
  destruct (count_nonzero wh <? min_stddev_realizations)%nat; [discriminate|].
  destruct (count_pos wh <? 2)%nat; discriminate.
Qed.
Theorem mean_affine_total n x rs failed w wh sl : length x = n ->
  normalize (zero_failed failed w) = Some wh -> affine_ens n x rs wh sl ->
  exists g, calc_gradient n x rs failed w EMean false = GMean g /\ veq g (affine_mean_gradient n wh sl).
Proof.
  intros Hx Hn Hens.
  destruct (per_realization_total n x rs wh sl Hx Hens) as [gs Hgs].
  assert (E : calc_gradient n x rs failed w EMean false = GMean (wvsum n wh gs)).
  { unfold calc_gradient. rewrite Hn, Hgs. reflexivity. }
  eexists. split; [exact E|]. exact (mean_affine n x rs failed w wh sl _ Hx Hn Hens E).
Qed.

(* merged estimation: any data (affine or not), rows of the right length, non-negative weights, joint rank *)
Lemma drop_wfs n : forall D df A b, wfm n D -> drop_failed_rows D df = (A, b) -> wfm n A /\ length b = length A.
Proof.
  induction D as [|row D IH]; intros df A b HD E.
  - cbn in E. injection E as <- <-. split; [constructor | reflexivity].
  - apply Forall_cons_iff in HD as [Hrow HD']. destruct df as [|[v|] df]; cbn [drop_failed_rows] in E.
    + injection E as <- <-. split; [constructor | reflexivity].
    + destruct (drop_failed_rows D df) as [A' b'] eqn:E'. injection E as <- <-.
      destruct (IH df A' b' HD' E') as [H1 H2]. split; [constructor; assumption | cbn; congruence].
    + exact (IH df A b HD' E).
Qed.
Lemma system_of_wfs n x r w : length x = n -> Forall (fun p => length p = n) (r_X r) -> wfs n (w, system_of x r).
Proof.
  intros Hx HX. unfold wfs. cbn [fst snd]. destruct (system_of x r) as [A b] eqn:E. cbn [fst snd].
  unfold system_of in E. apply (drop_wfs n _ _ A b) in E; [exact E|].
  unfold delta_x. apply Forall_forall. intros row Hrow. apply in_map_iff in Hrow as [p [<- Hp]].
  rewrite Forall_forall in HX. rewrite length_vsub; rewrite (HX p Hp); congruence.
Qed.
Theorem merged_total n x rs ws : length x = n ->
  (forall r w, In (r, w) (combine rs ws) -> 0 <= w /\ Forall (fun p => length p = n) (r_X r)) ->
  (forall d, length d = n ->
     (forall r w, In (r, w) (combine rs ws) -> 0 < w -> vz (mv (fst (system_of x r)) d)) -> vz d) ->
  exists g, estimate_merged n x rs ws = Some g.
Proof.
  intros Hx Hall Hrank. unfold estimate_merged. apply wlstsq_complete.
  - apply Forall_forall. intros s Hs. apply in_merged_systems in Hs as [r [w [Hin [_ ->]]]].
    apply system_of_wfs; [exact Hx | exact (proj2 (Hall r w Hin))].
  - intros s Hs. apply in_merged_systems in Hs as [r [w [Hin [_ ->]]]]. exact (proj1 (Hall r w Hin)).
  - intros d Hd Hz. apply Hrank; [exact Hd|]. intros r w Hin Hpos.
    apply (Hz (w, system_of x r)); [|exact Hpos]. apply merged_systems_in; [exact Hin | lra].
Qed.
