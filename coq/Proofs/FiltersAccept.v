(* Proofs/FiltersAccept.v -- the tie-robust predicate the C05 checker evaluates on the implementation's answers
   ([window_ok], [window_may_abort] of Model/Filters.v) accepts the vector _sort_and_select builds along EVERY ranking
   np.argsort may return: the correspondence cannot raise a false alarm because of the (unspecified) order of ties. *)
From Coq Require Import String QArith Qabs Qround Qminmax Bool Arith ZArith List Lia Lqa Permutation Sorted.
From Ropt Require Import Base.Num Base.ListX Gen.Generated Model.Filters Proofs.SortX Proofs.Filters Proofs.FiltersTies.
Import ListNotations.
Local Arguments firstn : simpl never.
Local Arguments skipn : simpl never.

(* ---- counting by position -------------------------------------------------------------------------------------- *)
Lemma countb_map {A B} (f : A -> B) (P : B -> bool) l : countb P (map f l) = countb (fun x => P (f x)) l.
Proof. unfold countb. rewrite filter_map_comm, map_length. reflexivity. Qed.

Lemma countb_positions {A} (P : A -> bool) (l : list A) d :
  countb P l = countb (fun k => P (nth k l d)) (seq 0 (length l)).
Proof. rewrite (list_map_nth l d) at 1. apply countb_map. Qed.

Lemma countb_interval a b n :
  countb (fun k => Nat.leb a k && Nat.ltb k b) (seq 0 n) = (Nat.min b n - a)%nat.
Proof.
  induction n as [|n IH]; [cbn; lia|].
  rewrite seq_S, countb_app, IH. cbn [Nat.add]. unfold countb at 1. cbn [filter].
  destruct (Nat.leb_spec a n) as [Ha|Ha]; destruct (Nat.ltb_spec n b) as [Hb|Hb]; cbn [andb length]; lia.
Qed.

(* ---- where the tie group of r sits in a valid order ----------------------------------------------------------- *)
Lemma same_key_position values failed idx r k :
  valid_order values failed idx -> (k < length idx)%nat ->
  same_key values r (nth k idx 0%nat) = Nat.leb (grp_lo values failed r) k && Nat.ltb k (grp_ge values failed r).
Proof.
  intros Hv Hk. pose proof (position_bounds values failed idx k Hv Hk) as B.
  set (a := nth k idx 0%nat) in *. unfold same_key.
  destruct (Qeqb (nth a values 0%Q) (nth r values 0%Q)) eqn:E.
  - apply Qeqb_eq in E. rewrite <- (grp_lo_ext values failed r a E), <- (grp_ge_ext values failed r a E).
    symmetry. apply andb_true_iff. split; [apply Nat.leb_le | apply Nat.ltb_lt]; lia.
  - apply Qeqb_neq in E. symmetry. apply andb_false_iff.
    destruct (Q_dec (nth a values 0%Q) (nth r values 0%Q)) as [[Hlt|Hgt]|Heq]; [| |contradiction].
    + left. apply Nat.leb_gt. pose proof (grp_ge_le_lo values failed a r Hlt). lia.
    + right. apply Nat.ltb_ge. pose proof (grp_ge_le_lo values failed r a Hgt). lia.
Qed.

Lemma grp_ge_le_successes values failed r : (grp_ge values failed r <= length (successes failed))%nat.
Proof. unfold grp_ge. apply countb_le_length. Qed.

Definition in_win (first last k : nat) : bool := Nat.leb first k && Nat.leb k last.

(* the weight at the realization ranked at position k *)
Lemma select_along_position idx cfgw first last k : NoDup idx -> (forall i, In i idx -> (i < length cfgw)%nat) ->
  (k < length idx)%nat ->
  nth (nth k idx 0%nat) (select_along idx cfgw first last) 0%Q =
    if in_win first last k then nth (nth k idx 0%nat) cfgw 0%Q else 0%Q.
Proof.
  intros ND HR Hk. unfold in_win.
  destruct (Nat.leb_spec first k) as [H1|H1]; destruct (Nat.leb_spec k last) as [H2|H2]; cbn [andb].
  - apply select_along_in; [exact ND | exact HR|].
    apply (window_In first last idx 0%nat). exists k. repeat split; lia.
  - apply select_along_out. intro Hin. apply (window_In first last idx 0%nat) in Hin as [j [Hj [Hl E]]].
    apply (NoDup_nth idx 0%nat) in E; [lia | exact ND | exact Hl | exact Hk].
  - apply select_along_out. intro Hin. apply (window_In first last idx 0%nat) in Hin as [j [Hj [Hl E]]].
    apply (NoDup_nth idx 0%nat) in E; [lia | exact ND | exact Hl | exact Hk].
  - apply select_along_out. intro Hin. apply (window_In first last idx 0%nat) in Hin as [j [Hj [Hl E]]].
    apply (NoDup_nth idx 0%nat) in E; [lia | exact ND | exact Hl | exact Hk].
Qed.

(* a count over the successes of a property of the tie group of r = the count over the positions of the group *)
Lemma group_count values failed idx r (P : nat -> bool) :
  valid_order values failed idx ->
  countb (fun s => same_key values r s && P s) (successes failed) =
  countb (fun k => Nat.leb (grp_lo values failed r) k && Nat.ltb k (grp_ge values failed r) && P (nth k idx 0%nat))
         (seq 0 (length idx)).
Proof.
  intros Hv. rewrite <- (countb_perm _ _ _ (proj1 Hv)). rewrite (countb_positions _ idx 0%nat).
  apply countb_ext. intros k Hk. apply in_seq in Hk.
  rewrite (same_key_position values failed idx r k Hv) by lia. reflexivity.
Qed.

Lemma quota_count values failed idx r first last :
  valid_order values failed idx ->
  grp_quota values failed first last r =
  countb (fun k => Nat.leb (grp_lo values failed r) k && Nat.ltb k (grp_ge values failed r) && in_win first last k)
         (seq 0 (length idx)).
Proof.
  intros Hv. unfold grp_quota, overlap.
  set (lo := grp_lo values failed r). set (ge := grp_ge values failed r).
  assert (Hge : (ge <= length idx)%nat).
  { rewrite (valid_order_length _ _ _ Hv). apply grp_ge_le_successes. }
  rewrite (countb_ext _ (fun k => Nat.leb (Nat.max lo first) k && Nat.ltb k (Nat.min ge (last + 1)))).
  - rewrite countb_interval. lia.
  - intros k _. unfold in_win.
    destruct (Nat.leb_spec lo k); destruct (Nat.ltb_spec k ge); destruct (Nat.leb_spec first k);
      destruct (Nat.leb_spec k last); destruct (Nat.leb_spec (Nat.max lo first) k);
      destruct (Nat.ltb_spec k (Nat.min ge (last + 1))); cbn [andb]; try reflexivity; lia.
Qed.

(* ---- acceptance ------------------------------------------------------------------------------------------------ *)
Theorem window_ok_complete values cfgw failed idx first last :
  valid_order values failed idx -> length cfgw = length failed ->
  window_ok values cfgw failed first last (select_along idx cfgw first last) = true.
Proof.
  intros Hv HC. pose proof (valid_order_NoDup _ _ _ Hv) as ND.
  assert (HR : forall i, In i idx -> (i < length cfgw)%nat).
  { intros i Hi. apply (valid_order_In _ _ _ i Hv) in Hi. lia. }
  destruct (select_along_tie_robust values cfgw failed idx first last Hv HC) as [_ HT].
  set (w := select_along idx cfgw first last) in *.
  unfold window_ok. apply andb_true_iff. split.
  { apply Nat.eqb_eq. unfold w, select_along. rewrite assign_length. unfold zeros. rewrite repeat_length. exact HC. }
  apply forallb_forall. intros r Hr. apply in_seq in Hr.
  destruct (HT r) as [T1 [_ [_ T4]]].
  destruct (nth r failed true) eqn:Hf.
  - apply Qeqb_eq. rewrite T1; [reflexivity|]. unfold succeeded. rewrite Hf. reflexivity.
  - apply andb_true_iff. split.
    + apply orb_true_iff. destruct T4 as [E|E]; [left | right]; apply Qeqb_eq; rewrite E; reflexivity.
    + (* the quota of the tie group of r, counted by position *)
      rewrite (quota_count values failed idx r first last Hv).
      rewrite (group_count values failed idx r (fun s => negb (Qeqb (nth s w 0%Q) 0%Q)) Hv).
      rewrite (group_count values failed idx r (fun s => Qeqb (nth s cfgw 0%Q) 0%Q) Hv).
      apply andb_true_iff. split; apply Nat.leb_le.
      * apply countb_mono. intros k Hk H. apply in_seq in Hk.
        apply andb_true_iff in H as [Hg Hw]. rewrite Hg. cbn [andb].
        unfold w in Hw. rewrite select_along_position in Hw by (try assumption; lia).
        destruct (in_win first last k); [reflexivity|]. cbn in Hw. discriminate.
      * apply countb_union. intros k Hk H. apply in_seq in Hk.
        apply andb_true_iff in H as [Hg Hin]. rewrite Hg. cbn [andb].
        unfold w. rewrite select_along_position by (try assumption; lia). rewrite Hin.
        destruct (Qeqb (nth (nth k idx 0%nat) cfgw 0%Q) 0%Q); [right | left]; reflexivity.
Qed.

(* if the ranking selects no positive weight (the implementation aborts with TOO_FEW_REALIZATIONS) the abort is accepted *)
Theorem window_may_abort_complete values cfgw failed idx first last :
  valid_order values failed idx -> length cfgw = length failed ->
  any_positive (select_along idx cfgw first last) = false ->
  window_may_abort values cfgw failed first last = true.
Proof.
  intros Hv HC Hnone. pose proof (valid_order_NoDup _ _ _ Hv) as ND.
  assert (HR : forall i, In i idx -> (i < length cfgw)%nat).
  { intros i Hi. apply (valid_order_In _ _ _ i Hv) in Hi. lia. }
  assert (Hle : forall x, (nth x (select_along idx cfgw first last) 0 <= 0)%Q).
  { intros x. destruct (Qlt_le_dec 0 (nth x (select_along idx cfgw first last) 0%Q)) as [Hpos|H]; [|exact H].
    assert (Hex : any_positive (select_along idx cfgw first last) = true) by (apply any_positive_spec; exists x; exact Hpos).
    congruence. }
  unfold window_may_abort. apply forallb_forall. intros r _. apply Nat.leb_le.
  rewrite (quota_count values failed idx r first last Hv).
  rewrite (group_count values failed idx r (fun s => Qleb (nth s cfgw 0%Q) 0%Q) Hv).
  apply countb_mono. intros k Hk H. apply in_seq in Hk.
  apply andb_true_iff in H as [Hg Hin]. rewrite Hg. cbn [andb].
  specialize (Hle (nth k idx 0%nat)). rewrite select_along_position in Hle by (try assumption; lia).
  rewrite Hin in Hle. apply Qleb_le. exact Hle.
Qed.

(* in particular the model's own answer is accepted (no hypothesis on ties) *)
Corollary window_ok_model values cfgw failed first last :
  length failed = length values -> length cfgw = length failed ->
  window_ok values cfgw failed first last (sort_and_select values cfgw failed first last) = true.
Proof.
  intros HL HC. rewrite sort_and_select_along. apply window_ok_complete; [apply ranked_valid_order; exact HL | exact HC].
Qed.

(* ---- soundness on every tie group that is not cut by a window edge ----------------------------------------------- *)
Lemma countb_zero_none {A} (P : A -> bool) l : countb P l = 0%nat -> forall x, In x l -> P x = false.
Proof.
  unfold countb. induction l as [|y t IH]; intros H x Hx; [contradiction|]. cbn [filter] in H.
  destruct (P y) eqn:Py; [cbn in H; lia|]. destruct Hx as [<-|Hx]; [exact Py | apply IH; assumption].
Qed.

Lemma countb_pos {A} (P : A -> bool) l x : In x l -> P x = true -> (1 <= countb P l)%nat.
Proof.
  unfold countb. induction l as [|y t IH]; intros Hx Px; [contradiction|]. cbn [filter].
  destruct Hx as [->|Hx]; [rewrite Px; cbn; lia|]. destruct (P y); cbn; [|apply IH; assumption].
  pose proof (IH Hx Px). lia.
Qed.

(* three pairwise disjoint sub-properties of G *)
Lemma countb_disjoint3 {A} (G P Q R : A -> bool) l :
  (forall x, In x l -> (P x = true -> G x = true /\ Q x = false /\ R x = false) /\
                       (Q x = true -> G x = true /\ R x = false) /\ (R x = true -> G x = true)) ->
  (countb P l + countb Q l + countb R l <= countb G l)%nat.
Proof.
  unfold countb. induction l as [|y t IH]; intros H; [cbn; lia|].
  assert (IH' := IH (fun x Hx => H x (or_intror Hx))). destruct (H y (or_introl eq_refl)) as [HP [HQ HR]].
  cbn [filter]. destruct (P y) eqn:Py.
  - destruct (HP eq_refl) as [-> [-> ->]]. cbn [length]. lia.
  - destruct (Q y) eqn:Qy.
    + destruct (HQ eq_refl) as [-> ->]. cbn [length]. lia.
    + destruct (R y) eqn:Ry; [rewrite (HR eq_refl); cbn [length]; lia|]. destruct (G y); cbn [length]; lia.
Qed.

Lemma group_size values failed r :
  countb (same_key values r) (successes failed) = (grp_ge values failed r - grp_lo values failed r)%nat.
Proof.
  unfold grp_ge, grp_lo, same_key. generalize (successes failed) as l.
  induction l as [|s t IH]; [reflexivity|].
  assert (Hm : (countb (fun s0 => Qltb (nth s0 values 0%Q) (nth r values 0%Q)) t <=
                countb (fun s0 => Qleb (nth s0 values 0%Q) (nth r values 0%Q)) t)%nat).
  { apply countb_mono. intros x _ Hx. apply Qltb_lt in Hx. apply Qleb_le. lra. }
  unfold countb in *. cbn [filter].
  destruct (Q_dec (nth s values 0%Q) (nth r values 0%Q)) as [[Hlt|Hgt]|Heq].
  - assert (E1 : Qeqb (nth s values 0%Q) (nth r values 0%Q) = false) by (apply Qeqb_neq; lra).
    assert (E2 : Qleb (nth s values 0%Q) (nth r values 0%Q) = true) by (apply Qleb_le; lra).
    assert (E3 : Qltb (nth s values 0%Q) (nth r values 0%Q) = true) by (apply Qltb_lt; lra).
    rewrite E1, E2, E3. cbn [length]. lia.
  - assert (E1 : Qeqb (nth s values 0%Q) (nth r values 0%Q) = false) by (apply Qeqb_neq; lra).
    assert (E2 : Qleb (nth s values 0%Q) (nth r values 0%Q) = false) by (apply Qleb_nle; lra).
    assert (E3 : Qltb (nth s values 0%Q) (nth r values 0%Q) = false) by (apply Qltb_nlt; lra).
    rewrite E1, E2, E3. exact IH.
  - assert (E1 : Qeqb (nth s values 0%Q) (nth r values 0%Q) = true) by (apply Qeqb_eq; exact Heq).
    assert (E2 : Qleb (nth s values 0%Q) (nth r values 0%Q) = true) by (apply Qleb_le; lra).
    assert (E3 : Qltb (nth s values 0%Q) (nth r values 0%Q) = false) by (apply Qltb_nlt; lra).
    rewrite E1, E2, E3. cbn [length]. lia.
Qed.

(* what acceptance implies, whatever the tie order: failed realizations carry 0; a successful realization whose whole
   tie group lies inside the rank window carries its configured weight; one whose tie group lies outside carries 0.
   With pairwise distinct values every realization is in one of the two cases: the accepted vector is the model's. *)
Theorem window_ok_sound values cfgw failed first last w :
  window_ok values cfgw failed first last w = true ->
  length w = length failed /\
  forall r, (r < length failed)%nat ->
    (succeeded failed r = false -> (nth r w 0 == 0)%Q) /\
    (succeeded failed r = true -> ((nth r w 0 == nth r cfgw 0)%Q \/ (nth r w 0 == 0)%Q)) /\
    (succeeded failed r = true -> (first <= grp_lo values failed r)%nat -> (grp_ge values failed r <= last + 1)%nat ->
       (nth r w 0 == nth r cfgw 0)%Q) /\
    (succeeded failed r = true -> (grp_ge values failed r <= first)%nat \/ (last < grp_lo values failed r)%nat ->
       (nth r w 0 == 0)%Q).
Proof.
  unfold window_ok. intros H. apply andb_true_iff in H as [HL H]. apply Nat.eqb_eq in HL. split; [exact HL|].
  assert (Hall : forall r, (r < length failed)%nat ->
            (if nth r failed true then Qeqb (nth r w 0%Q) 0%Q = true
             else (Qeqb (nth r w 0%Q) (nth r cfgw 0%Q) || Qeqb (nth r w 0%Q) 0%Q) = true /\
                  (countb (fun s => same_key values r s && negb (Qeqb (nth s w 0%Q) 0%Q)) (successes failed)
                     <= grp_quota values failed first last r)%nat /\
                  (grp_quota values failed first last r <=
                     countb (fun s => same_key values r s && negb (Qeqb (nth s w 0%Q) 0%Q)) (successes failed) +
                     countb (fun s => same_key values r s && Qeqb (nth s cfgw 0%Q) 0%Q) (successes failed))%nat)).
  { intros r Hr. assert (Hin : In r (seq 0 (length failed))) by (apply in_seq; lia).
    pose proof (proj1 (forallb_forall _ _) H r Hin) as Hr'. cbv beta in Hr'.
    destruct (nth r failed true); [exact Hr'|].
    apply andb_true_iff in Hr' as [H1 H2]. apply andb_true_iff in H2 as [H2 H3].
    apply Nat.leb_le in H2. apply Nat.leb_le in H3. repeat split; assumption. }
  (* every successful member of the ensemble is judged by the clause of ITS OWN tie group *)
  assert (Hown : forall s, In s (successes failed) ->
            (Qeqb (nth s w 0%Q) (nth s cfgw 0%Q) || Qeqb (nth s w 0%Q) 0%Q) = true).
  { intros s Hs. apply successes_In in Hs as [Hs Hf]. specialize (Hall s Hs). rewrite Hf in Hall. apply Hall. }
  intros r Hr. specialize (Hall r Hr). repeat split.
  - intros Hs. unfold succeeded in Hs. apply negb_false_iff in Hs. rewrite Hs in Hall. apply Qeqb_eq. exact Hall.
  - intros Hs. apply succeeded_lt in Hs as [_ Hf]. rewrite Hf in Hall. destruct Hall as [H1 _].
    apply orb_true_iff in H1 as [E|E]; [left | right]; apply Qeqb_eq; exact E.
  - intros Hs Hlo Hge. apply succeeded_lt in Hs as [_ Hf]. rewrite Hf in Hall. destruct Hall as [H1 [_ H3]].
    apply orb_true_iff in H1 as [E|E]; [apply Qeqb_eq; exact E|].
    (* w r == 0: then cfgw r must be 0 too, otherwise r is a third kind of member of its group *)
    destruct (Qeqb (nth r cfgw 0%Q) 0%Q) eqn:Ec.
    { apply Qeqb_eq in E. apply Qeqb_eq in Ec. rewrite E, Ec. reflexivity. }
    exfalso.
    assert (Hq : grp_quota values failed first last r = (grp_ge values failed r - grp_lo values failed r)%nat)
      by (unfold grp_quota, overlap; lia).
    assert (Hrin : In r (successes failed)) by (apply successes_In; split; assumption).
    pose proof (countb_disjoint3 (same_key values r)
                  (fun s => same_key values r s && negb (Qeqb (nth s w 0%Q) 0%Q))
                  (fun s => same_key values r s && Qeqb (nth s cfgw 0%Q) 0%Q)
                  (fun s => same_key values r s && (Qeqb (nth s w 0%Q) 0%Q && negb (Qeqb (nth s cfgw 0%Q) 0%Q)))
                  (successes failed)) as D.
    assert (D' : (countb (fun s => same_key values r s && negb (Qeqb (nth s w 0%Q) 0%Q)) (successes failed) +
                  countb (fun s => same_key values r s && Qeqb (nth s cfgw 0%Q) 0%Q) (successes failed) +
                  countb (fun s => same_key values r s && (Qeqb (nth s w 0%Q) 0%Q && negb (Qeqb (nth s cfgw 0%Q) 0%Q))) (successes failed)
                  <= countb (same_key values r) (successes failed))%nat).
    { apply D. intros s Hs. pose proof (Hown s Hs) as Ho.
      destruct (same_key values r s); cbn [andb]; [|repeat split; intros; discriminate].
      destruct (Qeqb (nth s w 0%Q) 0%Q) eqn:Ew; destruct (Qeqb (nth s cfgw 0%Q) 0%Q) eqn:Es; cbn [negb andb];
        repeat split; intros; try reflexivity; try discriminate.
      (* w s != 0 and cfgw s == 0: impossible, w s is cfgw s or 0 *)
      exfalso. rewrite orb_false_r in Ho. apply Qeqb_eq in Ho. apply Qeqb_eq in Es. apply Qeqb_neq in Ew. lra. }
    assert (H1 : (1 <= countb (fun s => same_key values r s && (Qeqb (nth s w 0%Q) 0%Q && negb (Qeqb (nth s cfgw 0%Q) 0%Q))) (successes failed))%nat).
    { apply (countb_pos _ _ r Hrin). unfold same_key. rewrite E, Ec.
      assert (Er : Qeqb (nth r values 0%Q) (nth r values 0%Q) = true) by (apply Qeqb_eq; reflexivity).
      rewrite Er. reflexivity. }
    rewrite group_size in D'. lia.
  - intros Hs Hout. apply succeeded_lt in Hs as [Hlt Hf]. rewrite Hf in Hall. destruct Hall as [_ [H2 _]].
    assert (Hq : grp_quota values failed first last r = 0%nat) by (unfold grp_quota, overlap; lia).
    rewrite Hq in H2. assert (H0 : countb (fun s => same_key values r s && negb (Qeqb (nth s w 0%Q) 0%Q)) (successes failed) = 0%nat) by lia.
    assert (Hrin : In r (successes failed)) by (apply successes_In; split; assumption).
    pose proof (countb_zero_none _ _ H0 r Hrin) as Hz. cbv beta in Hz.
    assert (Er : same_key values r r = true) by (unfold same_key; apply Qeqb_eq; reflexivity).
    rewrite Er in Hz. cbn [andb] in Hz. apply negb_false_iff in Hz. apply Qeqb_eq. exact Hz.
Qed.

(* ---- C04: what acceptance by [stair_ok] implies for every entry (exact clauses) ----------------------------------- *)
Theorem stair_ok_sound_basic p values failed w :
  stair_ok p values failed w = true ->
  length w = length failed /\
  forall r, (r < length failed)%nat ->
    (nth r failed true = true -> (nth r w 0 == 0)%Q) /\ (nth r failed true = false -> (0 <= nth r w 0)%Q).
Proof.
  unfold stair_ok. intros H. apply andb_true_iff in H as [H _]. apply andb_true_iff in H as [HL H].
  apply Nat.eqb_eq in HL. split; [exact HL|]. intros r Hr.
  assert (Hin : In r (seq 0 (length failed))) by (apply in_seq; lia).
  pose proof (proj1 (forallb_forall _ _) H r Hin) as Hr'. cbv beta in Hr'.
  split; intros Hf; rewrite Hf in Hr'; [apply Qeqb_eq | apply Qleb_le]; exact Hr'.
Qed.
