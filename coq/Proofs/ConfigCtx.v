(* Proofs/ConfigCtx.v -- C18: acceptance and conversion WITH a validation context.

   Proofs/ConfigThm.v proves [consistent_accepted] and [validate_perturbations] only for `validate E None None`.
   Here: the validation context holds a variable scaler (positive scales, arbitrary offsets, either may be absent)
   and/or a non-linear-constraint scaler (positive scales).
     * key lemma: a positive affine map neither creates nor removes a crossing of bounds ([ele_affine],
       [crossed_to_opt_e], [crossed_nl_e]);
     * [consistent_accepted_ctx]: every dictionary that is consistent IN USER UNITS is accepted under every supported
       context (the only extra demand: with a variable scaler no linear-constraint row may vanish -- the code then
       divides by a zero equation scale; the model reports Unsupported);
     * [validate_perturbations_ctx]: the stored magnitude of entry i is (upper - lower) * m / s_i for RELATIVE and
       m / s_i for ABSOLUTE (bounds upper, lower in user units, s_i the scale of variable i, 1 without scales), the
       stored type is ABSOLUTE: the user-unit magnitude divided by the scale. *)
From Coq Require Import String.
From Coq Require Import QArith Qabs Qminmax ZArith List Bool Arith Lia Lqa.
From Ropt Require Import Base.Num Base.ListX Model.Config Proofs.Config Proofs.ConfigThm.
Import ListNotations.
Open Scope Q_scope.

(* ---------------------------------------------------------------------------------------------
   the scale and offset of variable i (neutral when the scaler has none)
   --------------------------------------------------------------------------------------------- *)
Definition scale_at (sc : scaler) (i : nat) : Q := match s_scales sc with None => 1 | Some s => nth i s 1 end.
Definition offset_at (sc : scaler) (i : nat) : Q := match s_offsets sc with None => 0 | Some o => nth i o 0 end.

(* e' is the image of the bound e under x |-> (x - o) / s *)
Definition eaffine (s o : Q) (e e' : ereal) : Prop :=
  match e, e' with
  | Fin a, Fin a' => a' == (a - o) / s
  | NInf, NInf | PInf, PInf => True
  | _, _ => False
  end.

(* ---------------------------------------------------------------------------------------------
   KEY LEMMA: consistency of bounds is preserved (and reflected) by a positive affine map
   --------------------------------------------------------------------------------------------- *)
Lemma ele_affine a b o s : 0 < s -> ele (ediv (esub_r a o) s) (ediv (esub_r b o) s) = ele a b.
Proof. intros Hs. rewrite (ele_scale _ _ s Hs). apply ele_shift. Qed.

Lemma crossed_to_opt_e n sc lo up : scaler_ok n sc = true -> length lo = n -> length up = n ->
  (crossed (to_opt_e sc lo) (to_opt_e sc up) <-> crossed lo up).
Proof. intros Hsc Hl Hu. rewrite <- !any_gt_spec, (any_gt_to_opt_e n sc lo up Hsc Hl Hu). reflexivity. Qed.

Lemma crossed_nl_e k nls lo up : nl_ok k nls = true -> length lo = k -> length up = k ->
  (crossed (nl_e nls lo) (nl_e nls up) <-> crossed lo up).
Proof.
  intros Hok Hl Hu. destruct (any_gt_nl_e k nls lo up Hok Hl Hu) as [He _]. rewrite <- !any_gt_spec, He. reflexivity.
Qed.

(* ---------------------------------------------------------------------------------------------
   entries of the transformed arrays
   --------------------------------------------------------------------------------------------- *)
Lemma map2_nth {A B C} (f : A -> B -> C) a b i x y :
  nth_error a i = Some x -> nth_error b i = Some y -> nth_error (map2 f a b) i = Some (f x y).
Proof.
  revert b i. induction a as [|x0 a IH]; intros b i Ha Hb; [destruct i; discriminate|].
  destruct b as [|y0 b]; [destruct i; discriminate|]. destruct i as [|i].
  - cbn in *. injection Ha as ->. injection Hb as ->. reflexivity.
  - unfold map2. cbn [combine map nth_error]. apply IH; assumption.
Qed.

Lemma nth_error_lt {A} (l : list A) i : (i < length l)%nat -> exists x, nth_error l i = Some x.
Proof. intros H. destruct (nth_error l i) as [x|] eqn:E; [exists x; reflexivity | apply nth_error_None in E; lia]. Qed.

(* scale of variable i: positive; present in the scale vector when there is one *)
Lemma scale_at_spec n sc i : scaler_ok n sc = true -> (i < n)%nat ->
  0 < scale_at sc i /\ forall s, s_scales sc = Some s -> nth_error s i = Some (scale_at sc i).
Proof.
  intros Hsc Hi. apply scaler_ok_spec in Hsc as [Hs _]. unfold scale_at. destruct (s_scales sc) as [s|].
  - destruct (Hs s eq_refl) as [Hl Hp]. destruct (nth_error_lt s i) as [si Hsi]; [lia|].
    rewrite (nth_error_nth s i 1 Hsi). split; [|intros s' H'; injection H' as <-; exact Hsi].
    rewrite Forall_forall in Hp. apply Hp. eapply nth_error_In; exact Hsi.
  - split; [lra | discriminate].
Qed.
Lemma offset_at_spec n sc i : scaler_ok n sc = true -> (i < n)%nat ->
  forall o, s_offsets sc = Some o -> nth_error o i = Some (offset_at sc i).
Proof.
  intros Hsc Hi o Ho. apply scaler_ok_spec in Hsc as [_ Hol]. unfold offset_at. rewrite Ho.
  destruct (nth_error_lt o i) as [oi Hoi]; [rewrite (Hol o Ho); exact Hi|]. rewrite (nth_error_nth o i 0 Hoi). exact Hoi.
Qed.

(* a bound under the scaler: entry i is the image under x |-> (x - o_i) / s_i; infinite bounds stay *)
Lemma to_opt_e_nth n sc lo i e : scaler_ok n sc = true -> length lo = n -> nth_error lo i = Some e ->
  exists e', nth_error (to_opt_e sc lo) i = Some e' /\ eaffine (scale_at sc i) (offset_at sc i) e e'.
Proof.
  intros Hsc Hl He.
  assert (Hi : (i < n)%nat) by (rewrite <- Hl; apply nth_error_Some; congruence).
  destruct (scale_at_spec n sc i Hsc Hi) as [Hpos Hsn]. pose proof (offset_at_spec n sc i Hsc Hi) as Hon.
  unfold to_opt_e. destruct (s_offsets sc) as [o|] eqn:Eo; destruct (s_scales sc) as [s|] eqn:Es.
  - exists (ediv (esub_r e (offset_at sc i)) (scale_at sc i)). split.
    + apply map2_nth; [apply map2_nth; [exact He | apply Hon; reflexivity] | apply Hsn; reflexivity].
    + destruct e; cbn; try exact I. reflexivity.
  - exists (esub_r e (offset_at sc i)). split; [apply map2_nth; [exact He | apply Hon; reflexivity]|].
    unfold scale_at. rewrite Es. destruct e; cbn; try exact I. field.
  - exists (ediv e (scale_at sc i)). split; [apply map2_nth; [exact He | apply Hsn; reflexivity]|].
    unfold offset_at. rewrite Eo. destruct e; cbn; try exact I. field. lra.
  - exists e. split; [exact He|]. unfold scale_at, offset_at. rewrite Eo, Es. destruct e; cbn; try exact I. field.
Qed.

Lemma mags_to_opt_nth n sc m i x : scaler_ok n sc = true -> length m = n -> nth_error m i = Some x ->
  exists q, nth_error (mags_to_opt sc m) i = Some q /\ q == x / scale_at sc i.
Proof.
  intros Hsc Hl Hx.
  assert (Hi : (i < n)%nat) by (rewrite <- Hl; apply nth_error_Some; congruence).
  destruct (scale_at_spec n sc i Hsc Hi) as [Hpos Hsn].
  unfold mags_to_opt. destruct (s_scales sc) as [s|] eqn:Es.
  - exists (x / scale_at sc i). split; [apply map2_nth; [exact Hx | apply Hsn; reflexivity] | reflexivity].
  - exists x. split; [exact Hx|]. unfold scale_at. rewrite Es. field.
Qed.

Lemma select_abs_nth abs ty tr m i t a b :
  nth_error ty i = Some t -> nth_error tr i = Some a -> nth_error m i = Some b ->
  nth_error (select_abs abs ty tr m) i = Some (if Z.eqb t abs then a else b).
Proof.
  unfold select_abs. revert tr m i. induction ty as [|t0 ty IH]; intros tr m i Ht Ha Hb; [destruct i; discriminate|].
  destruct tr as [|a0 tr]; [destruct i; discriminate|]. destruct m as [|b0 m]; [destruct i; discriminate|].
  destruct i as [|i]; cbn in *.
  - injection Ht as ->. injection Ha as ->. injection Hb as ->. reflexivity.
  - apply IH; assumption.
Qed.

(* =============================================================================================
   conversion of the perturbation magnitudes under a variable scaler
   ============================================================================================= *)
(* entry i of the stored magnitudes and types.  lo / up: the user's bounds as broadcast; x: the user's magnitude *)
Lemma validate_perturbations_ctx E sc nls raw c lo up mags ty i t x :
  let V := length (v_initial (c_vars raw)) in
  enums_wf E -> validate E (Some sc) nls raw = Ok c ->
  broadcast1 V (v_lower (c_vars raw)) = Ok lo -> broadcast1 V (v_upper (c_vars raw)) = Ok up ->
  bcast_to V (g_mags (c_grad raw)) = Ok mags -> bcast_to V (g_ptypes (c_grad raw)) = Ok ty ->
  nth_error ty i = Some t -> nth_error mags i = Some x ->
  0 < scale_at sc i /\
  exists q, nth_error (g_mags (c_grad c)) i = Some q /\
    if Z.eqb t (pt_rel E)
    then exists a b, nth_error lo i = Some (Fin a) /\ nth_error up i = Some (Fin b) /\
                     q == (b - a) * x / scale_at sc i /\ nth_error (g_ptypes (c_grad c)) i = Some (pt_abs E)
    else if Z.eqb t (pt_abs E)
    then q == x / scale_at sc i /\ nth_error (g_ptypes (c_grad c)) i = Some (pt_abs E)
    else q = x /\ nth_error (g_ptypes (c_grad c)) i = Some t.
Proof.
  intros V Hwf H Hlo Hup Hm Ht Hti Hxi. apply validate_unfold in H.
  destruct H as (vars & ow & lin1 & nl & rw & g1 & lin & g & Hv & _ & _ & _ & _ & Hg1 & _ & Hg & ->).
  cbn [c_vars c_grad].
  pose proof (validate_variables_wf _ _ _ _ Hv) as [[Hi _ _ _ _ _] _]. fold V in Hi.
  apply validate_variables_unfold in Hv. cbn zeta in Hv. fold V in Hv.
  destruct Hv as (lo0 & up0 & tyv & mk & Hlo0 & Hup0 & Hctx & _ & _ & _ & Hvars).
  rewrite Hlo in Hlo0. injection Hlo0 as <-. rewrite Hup in Hup0. injection Hup0 as <-. cbn [ctx_ok] in Hctx.
  apply validate_gradient_fields_ok in Hg1 as (_ & _ & _ & _ & ->).
  apply fix_perturbations_unfold in Hg. cbn zeta in Hg. rewrite Hi in Hg. cbn [g_mags g_ptypes g_btypes g_P g_pmin] in Hg.
  destruct Hg as (mags0 & bt & ty0 & mags' & Hm0 & _ & Ht0 & Hr & ->). cbn [g_mags g_ptypes].
  rewrite Hm in Hm0. injection Hm0 as <-. rewrite Ht in Ht0. injection Ht0 as <-.
  pose proof (bcast_to_ok _ _ _ Hm) as [Hml _].
  assert (HiV : (i < V)%nat) by (rewrite <- Hml; apply nth_error_Some; congruence).
  destruct (scale_at_spec V sc i Hctx HiV) as [Hpos _]. split; [exact Hpos|].
  pose proof (relative_scale_ok _ _ _ _ _ _ Hr) as (Hrl & _ & _ & _).
  pose proof (relative_scale_entry _ _ _ _ _ _ _ _ _ Hr Hti Hxi) as He.
  assert (Hty : nth_error (map (fun t0 => if Z.eqb t0 (pt_rel E) then pt_abs E else t0) ty) i =
                Some (if Z.eqb t (pt_rel E) then pt_abs E else t)).
  { rewrite nth_error_map, Hti. reflexivity. }
  pose proof (broadcast1_ok _ _ _ Hlo) as [Hll _]. pose proof (broadcast1_ok _ _ _ Hup) as [Hul _].
  destruct (Z.eqb t (pt_rel E)) eqn:Erel.
  - (* RELATIVE: the stored value is the fraction of the TRANSFORMED range, kept by select_abs *)
    destruct He as (a' & b' & Ha' & Hb' & Hri). subst vars. cbn [v_lower v_upper] in Ha', Hb'.
    destruct (nth_error_lt lo i) as [el Hel]; [lia|]. destruct (nth_error_lt up i) as [eu Heu]; [lia|].
    destruct (to_opt_e_nth V sc lo i el Hctx Hll Hel) as (el' & Hel' & Hal).
    destruct (to_opt_e_nth V sc up i eu Hctx Hul Heu) as (eu' & Heu' & Hau).
    rewrite Ha' in Hel'. injection Hel' as <-. rewrite Hb' in Heu'. injection Heu' as <-.
    destruct el as [|a|]; cbn in Hal; try contradiction. destruct eu as [|b|]; cbn in Hau; try contradiction.
    destruct (mags_to_opt_nth V sc mags' i _ Hctx (eq_trans Hrl Hml) Hri) as (qt & Hqt & _).
    exists ((b' - a') * x). split.
    + rewrite (select_abs_nth _ _ _ _ _ _ _ _ Hti Hqt Hri).
      apply Z.eqb_eq in Erel. subst t.
      destruct (Z.eqb (pt_rel E) (pt_abs E)) eqn:Eq; [|reflexivity].
      apply Z.eqb_eq in Eq. destruct Hwf as [_ Hne]. congruence.
    + exists a, b. split; [exact Hel|]. split; [exact Heu|]. split; [|exact Hty].
      rewrite Hal, Hau. field. lra.
  - destruct (mags_to_opt_nth V sc mags' i x Hctx (eq_trans Hrl Hml) He) as (qt & Hqt & Hq).
    destruct (Z.eqb t (pt_abs E)) eqn:Eabs.
    + (* ABSOLUTE: the transformed magnitude m / s *)
      exists qt. split; [rewrite (select_abs_nth _ _ _ _ _ _ _ _ Hti Hqt He), Eabs; reflexivity|].
      apply Z.eqb_eq in Eabs. subst t. split; [exact Hq | exact Hty].
    + exists x. split; [rewrite (select_abs_nth _ _ _ _ _ _ _ _ Hti Hqt He), Eabs; reflexivity|]. split; [reflexivity | exact Hty].
Qed.

(* =============================================================================================
   completeness with a context: a dictionary consistent in user units is accepted
   ============================================================================================= *)
(* the number of non-linear constraints after np.broadcast_arrays(lower, upper) *)
Definition nl_count (nl : nonlinear) : nat := length (expand (length (n_upper nl)) (n_lower nl)).
Definition nonzero_row (r : list Q) : Prop := exists a, In a r /\ ~ a == 0.

(* what the context must satisfy for the dictionary: the scaler has one positive scale / one offset per variable,
   the non-linear scaler one positive scale per constraint, and -- only when a variable scaler is present -- no
   linear-constraint row is identically zero (its equation scale would be 0) *)
Record ctx_supported (raw : config) (ctx : option scaler) (nls : option (list Q)) : Prop := {
  cx_scaler : ctx_ok (nvars raw) ctx;
  cx_nl : match c_nonlin raw with None => True | Some nl => nl_ok (nl_count nl) nls = true end;
  cx_rows : match ctx, c_lin raw with Some _, Some l => Forall nonzero_row (l_coeffs l) | _, _ => True end
}.

Lemma row_scale_nonneg r : 0 <= row_scale r.
Proof. unfold row_scale. induction r as [|a r IH]; cbn; [lra | apply Q.max_le_iff; right; exact IH]. Qed.
Lemma row_scale_pos r : nonzero_row r -> 0 < row_scale r.
Proof.
  intros (a & Hin & Hne). unfold row_scale. induction r as [|a0 r IH]; [contradiction|]. cbn [map fold_right].
  destruct Hin as [->|Hin].
  - apply Q.max_lt_iff. left. pose proof (Qabs_nonneg a) as H0.
    destruct (Qeq_dec (Qabs a) 0) as [E|E]; [|lra].
    exfalso. apply Hne. revert E. apply (Qabs_case a (fun y => y == 0 -> a == 0)); intros; lra.
  - apply Q.max_lt_iff. right. apply IH, Hin.
Qed.
Lemma nonzero_row_scaled r s : nonzero_row r -> length s = length r -> Forall (fun x => 0 < x) s ->
  nonzero_row (map2 Qmult r s).
Proof.
  intros (a & Hin & Hne). revert s. induction r as [|a0 r IH]; intros s Hl Hs; [contradiction|].
  destruct s as [|x s]; [discriminate|]. inversion Hs as [|? ? Hx Hs']; subst.
  unfold map2. cbn [combine map fst snd]. destruct Hin as [->|Hin].
  - exists (a * x). split; [left; reflexivity|]. intros H0. apply Hne.
    assert (Hxi : ~ x == 0) by lra. apply (Qmult_integral_l x); [exact Hxi|]. rewrite Qmult_comm. exact H0.
  - destruct (IH Hin s) as (b & Hb & Hbn); [cbn in Hl; lia | exact Hs'|]. exists b. split; [right; exact Hb | exact Hbn].
Qed.

Lemma lin_to_opt_total n sc l : scaler_ok n sc = true -> Forall (fun r => length r = n) (l_coeffs l) ->
  Forall nonzero_row (l_coeffs l) -> exists l', lin_to_opt sc l = Ok l'.
Proof.
  intros Hsc Hrows Hnz. apply scaler_ok_spec in Hsc as [Hs _]. unfold lin_to_opt. cbn zeta.
  set (A := match s_scales sc with None => l_coeffs l | Some s => map (fun row => map2 Qmult row s) (l_coeffs l) end).
  assert (HA : Forall nonzero_row A).
  { unfold A. destruct (s_scales sc) as [s|]; [|exact Hnz]. destruct (Hs s eq_refl) as [Hsl Hsp].
    apply Forall_forall. intros r Hr. apply in_map_iff in Hr as (r0 & <- & Hin).
    rewrite Forall_forall in Hrows, Hnz. apply nonzero_row_scaled; [apply Hnz, Hin | rewrite (Hrows r0 Hin); exact Hsl | exact Hsp]. }
  assert (Hes : forallb (fun e => Qltb 0 e) (map row_scale A) = true).
  { apply forallb_forall. intros e He. apply in_map_iff in He as (r & <- & Hin). apply Qltb_lt, row_scale_pos.
    rewrite Forall_forall in HA. apply HA, Hin. }
  rewrite Hes. cbn [supported bind]. eexists; reflexivity.
Qed.

Lemma bresult1_nth_finite_ctx n ctx lo i a : ctx_ok n ctx -> length lo = n -> nth_error lo i = Some (Fin a) ->
  exists a', nth_error (ctx_e ctx lo) i = Some (Fin a').
Proof.
  intros Hctx Hl Ha. destruct ctx as [sc|]; [|exists a; exact Ha]. cbn [ctx_e ctx_ok] in *.
  destruct (to_opt_e_nth n sc lo i (Fin a) Hctx Hl Ha) as (e' & He' & Haf).
  destruct e' as [|a'|]; cbn in Haf; try contradiction. exists a'. exact He'.
Qed.

Lemma consistent_accepted_ctx E raw ctx nls : consistent E raw -> ctx_supported raw ctx nls ->
  exists c, validate E ctx nls raw = Ok c.
Proof.
  intros [Hlo Hup Hord Hty Hmk Hobj Hreal HP Hpm [Hpte Hptl] [Hbte Hbtl] Hmg Hrel Hlin Hnl] [Hcx Hcn Hcr].
  unfold nvars in *. set (V := length (v_initial (c_vars raw))) in *.
  pose proof (bresult1_length _ _ Hlo) as Hlol. pose proof (bresult1_length _ _ Hup) as Hupl.
  (* variables: the transformed bounds are not crossed because the user's are not *)
  assert (Hgt : any_gt (ctx_e ctx (bresult1 V (v_lower (c_vars raw)))) (ctx_e ctx (bresult1 V (v_upper (c_vars raw)))) = false).
  { destruct ctx as [sc|]; cbn [ctx_e]; [rewrite (any_gt_to_opt_e V sc _ _ Hcx Hlol Hupl)|]; apply not_crossed_any_gt, Hord. }
  assert (Hv : exists ty mk, validate_variables E ctx (c_vars raw) =
            Ok {| v_initial := ctx_q ctx (v_initial (c_vars raw)); v_lower := ctx_e ctx (bresult1 V (v_lower (c_vars raw)));
                  v_upper := ctx_e ctx (bresult1 V (v_upper (c_vars raw))); v_types := ty; v_mask := mk |}).
  { unfold validate_variables. cbn zeta. fold V. rewrite (broadcast1_total _ _ Hlo). cbn [bind].
    rewrite (broadcast1_total _ _ Hup). cbn [bind].
    assert (Hsup : match ctx with None => Ok tt | Some sc => supported (scaler_ok V sc) end = Ok tt).
    { destruct ctx as [sc|]; [cbn [ctx_ok] in Hcx; rewrite Hcx|]; reflexivity. }
    rewrite Hsup. cbn [bind]. fold (ctx_e ctx (bresult1 V (v_lower (c_vars raw)))) (ctx_e ctx (bresult1 V (v_upper (c_vars raw)))).
    fold (ctx_q ctx (v_initial (c_vars raw))). rewrite Hgt. cbn [negb guard bind].
    destruct (v_types (c_vars raw)) as [t|]; cbn [omap bind].
    - destruct Hty as [Hte Htl]. rewrite Hte. cbn [guard bind]. rewrite (broadcast1_total _ _ Htl). cbn [bind].
      destruct (v_mask (c_vars raw)) as [m|]; cbn [omap bind]; [rewrite (broadcast1_total _ _ Hmk); cbn [bind]|]; eexists; eexists; reflexivity.
    - destruct (v_mask (c_vars raw)) as [m|]; cbn [omap bind]; [rewrite (broadcast1_total _ _ Hmk); cbn [bind]|]; eexists; eexists; reflexivity. }
  destruct Hv as (ty & mk & Hv).
  assert (HiV : length (ctx_q ctx (v_initial (c_vars raw))) = V).
  { destruct ctx as [sc|]; [apply to_opt_q_length; [exact Hcx | reflexivity] | reflexivity]. }
  (* weights *)
  assert (How : exists ow, normalize (c_obj_w raw) = Ok ow).
  { unfold normalize. cbn zeta. destruct (Qltb (qsum (c_obj_w raw)) float_eps) eqn:Eq; [apply Qltb_lt in Eq; lra | eexists; reflexivity]. }
  assert (Hrw : exists rw, normalize (c_real_w raw) = Ok rw).
  { unfold normalize. cbn zeta. destruct (Qltb (qsum (c_real_w raw)) float_eps) eqn:Eq; [apply Qltb_lt in Eq; lra | eexists; reflexivity]. }
  destruct How as [ow How]. destruct Hrw as [rw Hrw].
  (* linear: the field validators see user units; the transformation needs non-vanishing rows *)
  assert (Hl : exists lin1 lin, omap validate_linear_fields (c_lin raw) = Ok lin1 /\
                 forall vars, length (v_initial vars) = V -> omap (apply_transformation ctx vars) lin1 = Ok lin).
  { destruct (c_lin raw) as [l|]; [|exists None, None; split; [reflexivity | intros; reflexivity]].
    destruct Hlin as (Hrows & Hll & Hlu & Hlo'). cbn [omap]. unfold validate_linear_fields. cbn zeta.
    fold (rectangular (l_coeffs l)). rewrite (rectangular_of_rows V _ Hrows). cbn [guard bind].
    rewrite (broadcast1_total _ _ Hll). cbn [bind]. rewrite (broadcast1_total _ _ Hlu). cbn [bind].
    rewrite (not_crossed_any_gt _ _ Hlo'). cbn [negb guard bind].
    set (l1 := {| l_coeffs := l_coeffs l; l_lower := bresult1 (length (l_coeffs l)) (l_lower l);
                  l_upper := bresult1 (length (l_coeffs l)) (l_upper l) |}).
    assert (Hg : forallb (fun r => Nat.eqb (length r) V) (l_coeffs l) = true).
    { apply forallb_forall. intros r Hr. rewrite Forall_forall in Hrows. apply Nat.eqb_eq. apply Hrows; exact Hr. }
    destruct ctx as [sc|].
    - destruct (lin_to_opt_total V sc l1 Hcx Hrows Hcr) as [l' Hl'].
      exists (Some l1), (Some l'). split; [reflexivity|]. intros vars Hn. cbn [omap]. unfold apply_transformation. cbn zeta.
      rewrite Hn. cbn [l1 l_coeffs]. rewrite Hg. cbn [guard bind]. fold l1. rewrite Hl'. reflexivity.
    - exists (Some l1), (Some l1). split; [reflexivity|]. intros vars Hn. cbn [omap]. unfold apply_transformation. cbn zeta.
      rewrite Hn. cbn [l1 l_coeffs]. rewrite Hg. reflexivity. }
  destruct Hl as (lin1 & lin & Hl1 & Hl2).
  (* non-linear: dividing both bounds by a positive scale does not cross them *)
  assert (Hn : exists nl, omap (validate_nonlinear nls) (c_nonlin raw) = Ok nl).
  { destruct (c_nonlin raw) as [nl|]; [|exists None; reflexivity]. destruct Hnl as [Hlen Hx]. cbn [omap].
    unfold validate_nonlinear. rewrite (bcast_pair_total _ _ Hlen). cbn [bind fst snd]. unfold nl_count in Hcn. rewrite Hcn.
    cbn [supported bind].
    pose proof (bcast_pair_ok _ _ _ _ (bcast_pair_total _ _ Hlen)) as [Hpl _].
    fold (nl_e nls (expand (length (n_upper nl)) (n_lower nl))) (nl_e nls (expand (length (n_lower nl)) (n_upper nl))).
    destruct (any_gt_nl_e _ nls _ _ Hcn eq_refl (eq_sym Hpl)) as [He _]. rewrite He, (not_crossed_any_gt _ _ Hx).
    cbn [negb guard bind]. eexists; reflexivity. }
  destruct Hn as [nl Hn].
  (* gradient *)
  assert (Hg1 : validate_gradient_fields E (c_grad raw) =
                Ok {| g_P := g_P (c_grad raw); g_pmin := clamp_min (g_pmin (c_grad raw)) (g_P (c_grad raw));
                      g_mags := g_mags (c_grad raw); g_ptypes := g_ptypes (c_grad raw); g_btypes := g_btypes (c_grad raw) |}).
  { unfold validate_gradient_fields. apply Nat.ltb_lt in HP. rewrite HP. cbn [guard bind].
    destruct (g_pmin (c_grad raw)) as [[|k]|]; [contradiction | |]; cbn [guard bind]; rewrite Hpte, Hbte; reflexivity. }
  set (vars := {| v_initial := ctx_q ctx (v_initial (c_vars raw)); v_lower := ctx_e ctx (bresult1 V (v_lower (c_vars raw)));
                  v_upper := ctx_e ctx (bresult1 V (v_upper (c_vars raw))); v_types := ty; v_mask := mk |}) in *.
  assert (Hg2 : exists g, fix_perturbations E ctx vars
                  {| g_P := g_P (c_grad raw); g_pmin := clamp_min (g_pmin (c_grad raw)) (g_P (c_grad raw));
                     g_mags := g_mags (c_grad raw); g_ptypes := g_ptypes (c_grad raw); g_btypes := g_btypes (c_grad raw) |} = Ok g).
  { unfold fix_perturbations. cbn zeta. cbn [vars v_initial v_lower v_upper g_mags g_ptypes g_btypes g_P g_pmin]. rewrite HiV.
    rewrite (bcast_to_total _ _ Hmg). cbn [bind]. rewrite (bcast_to_total _ _ Hbtl). cbn [bind].
    rewrite (bcast_to_total _ _ Hptl). cbn [bind].
    pose proof (bcast_to_ok _ _ _ (bcast_to_total _ _ Hmg)) as [Hml _].
    pose proof (bcast_to_ok _ _ _ (bcast_to_total _ _ Hptl)) as [Htl _].
    assert (Hcl : forall x, length x = V -> length (ctx_e ctx x) = V).
    { intros x Hx. destruct ctx as [sc|]; [apply to_opt_e_length; assumption | exact Hx]. }
    destruct (relative_scale_total (pt_rel E) (expand V (g_ptypes (c_grad raw))) (ctx_e ctx (bresult1 V (v_lower (c_vars raw))))
                (ctx_e ctx (bresult1 V (v_upper (c_vars raw)))) (expand V (g_mags (c_grad raw)))) as [r Hr];
      [lia | rewrite (Hcl _ Hlol); lia | rewrite (Hcl _ Hupl); lia | |].
    { intros i Hi. destruct (Hrel i Hi) as (a & b & Ha & Hb).
      destruct (bresult1_nth_finite_ctx V ctx _ i a Hcx Hlol Ha) as [a' Ha'].
      destruct (bresult1_nth_finite_ctx V ctx _ i b Hcx Hupl Hb) as [b' Hb']. exists a', b'. auto. }
    rewrite Hr. cbn [bind]. eexists; reflexivity. }
  destruct Hg2 as [g Hg2].
  eexists. eapply validate_fold; try eassumption. apply Hl2. exact HiV.
Qed.

(* the theorem of Proofs/ConfigThm.v is the instance without a context *)
Lemma ctx_supported_none raw : ctx_supported raw None None.
Proof. constructor; cbn; [exact I | destruct (c_nonlin raw); reflexivity | exact I]. Qed.
